#!/usr/bin/env python3
"""Shared driver of every check.

  ./check Cxx [--tier quick|thorough] [--replay FILE]

Steps (DESIGN.md section 2.4):
  1 translators (if the property has any)          -> coq/**/*Gen.v regenerated from /repo
  2 make Props/Cxx.vo Cxx/Run.vo                   -> proof obligations; Print Assumptions re-read
  3 cargo build of the harness against /repo's working tree
  4 harness run: implementation + property oracle on generated cases -> shards + report.json
  5 coqc on every shard (vm_compute of the model on the same cases) -> disagreements
  6 verdict, replay files, evidence/Cxx.json
"""
import concurrent.futures as cf
import fcntl
import json
import os
import re
import subprocess
import sys
import time

VERIF = os.path.dirname(os.path.dirname(os.path.abspath(__file__)))
COQ = os.path.join(VERIF, "coq")
HARNESS = os.path.join(VERIF, "harness")
WORK = os.path.join(VERIF, "work")
# The repository under test.  Registered checks always use /repo; VERIF_REPO=<scratch worktree> is a
# development aid (seeded-bug experiments in parallel): the harness is then built against that tree
# through cargo's `paths` override into a separate target directory, and work/evidence/replays go
# to work-<tag>/ so that nothing of the real run is overwritten.
REPO = os.path.abspath(os.environ.get("VERIF_REPO", "/repo"))
ALT = REPO != "/repo"
ALT_TAG = re.sub(r"[^A-Za-z0-9]+", "_", REPO).strip("_") if ALT else ""
if ALT:
    WORK = os.path.join(VERIF, "work-" + ALT_TAG)
if ALT:
    # private copy of the Coq project (translators regenerate files in it from the scratch tree)
    COQ = os.path.join(WORK, "coq")
REPO_CRATES = ["duke", "duke-macros", "dukebox", "dukenest", "quill", "raw_class_file", "maven_dependency_resolver"]

FORBIDDEN = re.compile(r"\b(Admitted|admit|Axiom|Axioms|Parameter|Parameters|Conjecture|Hypothesis|Variable|Variables|Hypotheses)\b|Unset\s+Guard|bypass_check|type-in-type|impredicative-set|Admit Obligations|Unset\s+Positivity|Unset\s+Universe")
# axioms of Coq's standard library that a theorem may depend on (each is named in the evidence)
ALLOWED_AXIOMS = {
    "functional_extensionality_dep", "FunctionalExtensionality.functional_extensionality_dep",
    "Classical_Prop.classic", "classic", "proof_irrelevance", "ProofIrrelevance.proof_irrelevance",
    "Eqdep.Eq_rect_eq.eq_rect_eq", "JMeq.JMeq_eq", "JMeq_eq",
}

GLOBAL_TRUSTED = [
    "Coq 8.16.1 kernel (coqc), vm_compute for finite checks and for evaluating the model on correspondence cases; no native_compute",
    "no axioms declared by the development; Print Assumptions output of every property theorem is re-read on every run",
    "hand-written Gallina model of the anchored Rust code, tied to /repo by the correspondence run (same inputs through the real crates and through the model, results compared inside Coq) and, where stated, by translators regenerating tables from source",
    "the Rust harness /verif/harness (generators, canonicalisation, Gallina printers, property oracles), rustc/cargo, third-party crates used by the repository",
    "not modelled: error messages, MUTF-8/UTF-8 byte encodings, the zip container, the file system, hash-map iteration internals",
]


def log(*a):
    print(*a, flush=True)


class Lock:
    def __init__(self, name):
        os.makedirs(WORK, exist_ok=True)
        self.path = os.path.join(WORK, name + ".lock")

    def __enter__(self):
        self.f = open(self.path, "w")
        fcntl.flock(self.f, fcntl.LOCK_EX)
        return self

    def __exit__(self, *a):
        fcntl.flock(self.f, fcntl.LOCK_UN)
        self.f.close()


def run(cmd, cwd=None, timeout=3600, env=None):
    e = dict(os.environ)
    e.update({"CARGO_NET_OFFLINE": "true", "RUST_BACKTRACE": "0", "RUST_LIB_BACKTRACE": "0"})
    if env:
        e.update(env)
    try:
        p = subprocess.run(cmd, cwd=cwd, stdout=subprocess.PIPE, stderr=subprocess.STDOUT, timeout=timeout, env=e, text=True, errors="replace")
        return p.returncode, p.stdout
    except subprocess.TimeoutExpired as ex:
        out = ex.stdout or ""
        if isinstance(out, bytes):
            out = out.decode(errors="replace")
        return 124, out + "\n[timeout after %ss]" % timeout


def coq_makefile():
    run(["sh", os.path.join(COQ, "mkproject.sh")], cwd=COQ)
    mk = os.path.join(COQ, "Makefile")
    cp = os.path.join(COQ, "_CoqProject")
    if not os.path.exists(mk) or os.path.getmtime(mk) < os.path.getmtime(cp):
        rc, out = run(["coq_makefile", "-f", "_CoqProject", "-o", "Makefile"], cwd=COQ)
        if rc != 0:
            raise RuntimeError("coq_makefile failed:\n" + out)


def coq_build(targets, timeout=3000):
    """Full .vo build of the given targets (never -vos). Returns (ok, log)."""
    # serialised: concurrent regeneration of Makefile/.Makefile.d or concurrent compilation of a shared
    # file would corrupt the build; after setup this is a no-op unless a translator changed a file
    with Lock("coq"):
        coq_makefile()
        rc, out = run(["make", "-j8"] + targets, cwd=COQ, timeout=timeout)
    return rc == 0, out


def forbidden_scan():
    """No Admitted/admit/Axiom/... anywhere in the development (comments are stripped first)."""
    hits = []
    for root, _, files in os.walk(COQ):
        for fn in files:
            if not fn.endswith(".v"):
                continue
            path = os.path.join(root, fn)
            src = open(path, encoding="utf-8", errors="replace").read()
            src = strip_comments(src)
            for i, line in enumerate(src.split("\n"), 1):
                m = FORBIDDEN.search(line)
                if m:
                    # Variable/Hypothesis are fine inside a Section; we simply do not use them at all
                    hits.append("%s:%d: %s" % (os.path.relpath(path, VERIF), i, line.strip()[:120]))
    return hits


def strip_comments(src):
    out = []
    depth = 0
    i = 0
    n = len(src)
    while i < n:
        if src.startswith("(*", i):
            depth += 1
            i += 2
        elif src.startswith("*)", i) and depth > 0:
            depth -= 1
            i += 2
        else:
            if depth == 0:
                out.append(src[i])
            elif src[i] == "\n":
                out.append("\n")
            i += 1
    return "".join(out)


def theorems_of(prop):
    path = os.path.join(COQ, "Props", prop + ".v")
    src = strip_comments(open(path).read())
    return re.findall(r"^\s*(?:Theorem|Lemma)\s+([A-Za-z0-9_']+)", src, re.M)


def print_assumptions(prop, names, workdir):
    """Fresh coqc runs that re-read the compiled property file and print the assumptions of every theorem
    (the theorems are split over a few coqc processes: Print Assumptions walks the whole dependency closure)."""
    import concurrent.futures as _cf
    chunks = [names[i::4] for i in range(4) if names[i::4]] or [[]]

    def one(k_chunk):
        k, chunk = k_chunk
        path = os.path.join(workdir, "assumptions%d.v" % k)
        with open(path, "w") as f:
            f.write("From FB Require Import Props.%s.\n" % prop)
            for n in chunk:
                f.write('Goal True. idtac "@@BEGIN %s". Abort.\nPrint Assumptions %s.\nGoal True. idtac "@@END". Abort.\n' % (n, n))
        return run(["coqc", "-Q", COQ, "FB", path], cwd=workdir, timeout=600)

    with _cf.ThreadPoolExecutor(max_workers=4) as ex:
        outs = list(ex.map(one, enumerate(chunks)))
    res = {}
    allout = "\n".join(o for _, o in outs)
    if any(rc != 0 for rc, _ in outs):
        return res, allout
    for m in re.finditer(r"@@BEGIN (\S+)\n(.*?)@@END", allout, re.S):
        res[m.group(1)] = m.group(2).strip()
    return res, allout


def axioms_in(text):
    if "Closed under the global context" in text:
        return []
    ax = []
    for line in text.split("\n"):
        m = re.match(r"^([A-Za-z0-9_.']+)\s*:", line)
        if m:
            ax.append(m.group(1))
    return ax or ["<unparsed: %s>" % text[:80]]


def harness_target_dir():
    return os.path.join("/tmp", "verif-target-" + ALT_TAG) if ALT else os.path.join(HARNESS, "target")


def harness_build(prop):
    cmd = ["cargo", "build", "--offline", "--bin", prop.lower()]
    env = {}
    if ALT:
        paths = ",".join('"%s"' % os.path.join(REPO, c) for c in REPO_CRATES if os.path.isdir(os.path.join(REPO, c)))
        cmd += ["--config", "paths=[%s]" % paths, "--config", 'env.FBH_REPO="%s"' % REPO]
        env["CARGO_TARGET_DIR"] = harness_target_dir()
    rc, out = run(cmd, cwd=HARNESS, timeout=3000, env=env)  # cargo serialises builds itself
    return rc == 0, out


SLOT_DIR = "/tmp/verif-coqc-slots"
N_SLOTS = int(os.environ.get("VERIF_COQC_SLOTS", "20"))


class Slot:
    """Machine-wide cap on concurrently running shard evaluations (several checks may run at once;
    each coqc needs up to ~1 GB)."""

    def __enter__(self):
        os.makedirs(SLOT_DIR, exist_ok=True)
        import random
        while True:
            order = list(range(N_SLOTS))
            random.shuffle(order)
            for k in order:
                f = open(os.path.join(SLOT_DIR, "slot%d" % k), "w")
                try:
                    fcntl.flock(f, fcntl.LOCK_EX | fcntl.LOCK_NB)
                    self.f = f
                    return self
                except OSError:
                    f.close()
            time.sleep(0.5)

    def __exit__(self, *a):
        fcntl.flock(self.f, fcntl.LOCK_UN)
        self.f.close()


def run_shard(path):
    with Slot():
        return run_shard_inner(path)


def run_shard_inner(path):
    t0 = time.time()
    # large literal lists need a deep stack in coqc's parser
    rc, out = run(["sh", "-c", 'ulimit -s unlimited 2>/dev/null; exec coqc -noglob -Q "$0" FB "$1"', COQ, path], cwd=os.path.dirname(path), timeout=3000)
    for ext in (".vo", ".vok", ".vos", ".glob"):
        try:
            os.remove(path[:-2] + ext)
        except OSError:
            pass
    if rc != 0:
        return path, None, out, time.time() - t0
    m = re.search(r"=\s*(\[.*?\])\s*:\s*list N", out, re.S)
    if not m:
        return path, None, out, time.time() - t0
    body = m.group(1).strip()[1:-1].strip()
    idx = [int(x.replace("%N", "").strip()) for x in body.split(";")] if body else []
    return path, idx, out, time.time() - t0


def shard_cases(path):
    lines = open(path).read().split("\n")
    start = next(i for i, l in enumerate(lines) if l.startswith("Definition cases"))
    cases = []
    for l in lines[start + 1:]:
        if l.startswith("]."):
            break
        cases.append(l[:-1] if l.endswith(";") else l)
    return cases


def load_known():
    path = os.path.join(VERIF, "known_findings.json")
    if not os.path.exists(path):
        return []
    return json.load(open(path)).get("findings", [])


def main(prop, spec):
    """spec: dict with optional keys
         translators: list of callables() -> list of error strings (fail closed)
         coq_targets: extra make targets
         assumptions / level_note / trusted: strings for the evidence
         stated_not_proved: list
    """
    t0 = time.time()
    import argparse
    ap = argparse.ArgumentParser()
    ap.add_argument("--tier", default=os.environ.get("VERIF_TIER", "quick"))
    ap.add_argument("--replay", default=None)
    args = ap.parse_args(sys.argv[2:])
    tier = "thorough" if args.tier == "thorough" else "quick"
    seed = int(os.environ.get("VERIF_SEED", "1"))
    if args.replay:
        # a replay file ends with the line `reproduce: VERIF_SEED=<n> ./check Cxx --tier <t>`; every
        # random choice derives from the seed, so re-running with it revisits the recorded input
        try:
            m = re.search(r"reproduce: VERIF_SEED=(\d+) \./check \S+ --tier (\w+)", open(args.replay).read())
            if m:
                seed, tier = int(m.group(1)), m.group(2)
                log("replaying %s with seed=%d tier=%s" % (args.replay, seed, tier))
        except OSError as ex:
            log("cannot read replay file: %s" % ex)
    workdir = os.path.join(WORK, prop)
    os.makedirs(workdir, exist_ok=True)
    if ALT:
        with Lock("coqsync"):
            run(["rsync", "-a", "--delete", os.path.join(VERIF, "coq") + "/", COQ + "/"])
    os.makedirs(os.path.join(VERIF, "evidence"), exist_ok=True)
    os.makedirs(os.path.join(VERIF, "replays"), exist_ok=True)

    broken = []       # proof obligations / ties that no longer check: (name, detail)
    violations = []   # concrete failing inputs: (what, replay text)

    # 1 translators
    tr_notes = []
    for tr in spec.get("translators", []):
        try:
            errs = tr()
        except Exception as ex:  # fail closed
            errs = ["translator %s raised %r" % (getattr(tr, "__name__", "?"), ex)]
        for e in errs:
            broken.append(("translator", e))
        tr_notes.append(getattr(tr, "__name__", "translator"))

    # 2 proofs
    hits = forbidden_scan()
    for h in hits:
        broken.append(("forbidden-construct", h))
    targets = ["Props/%s.vo" % prop, "%s/Run.vo" % prop] + spec.get("coq_targets", [])
    ok, out = coq_build(targets)
    names = theorems_of(prop)
    discharged = 0
    assumptions_seen = {}
    run_ok = ok
    if not ok:
        tail = "\n".join(out.strip().split("\n")[-25:])
        broken.append(("coq-build", "make %s failed:\n%s" % (" ".join(targets), tail)))
        # a broken proof obligation must not hide the correspondence: the model itself (Cxx/Run.vo and what it
        # needs) usually still builds (make of that target alone), and then the shards are evaluated
        with Lock("coq"):
            rc_run, _ = run(["make", "-j8", "%s/Run.vo" % prop], cwd=COQ, timeout=3000)
        run_ok = rc_run == 0
    if ok:
        res, aout = print_assumptions(prop, names, workdir)
        for n in names:
            if n not in res:
                broken.append(("theorem:" + n, "Print Assumptions produced no output\n" + aout[-500:]))
                continue
            ax = axioms_in(res[n])
            assumptions_seen[n] = ax
            bad = [a for a in ax if a not in ALLOWED_AXIOMS]
            if bad:
                broken.append(("theorem:" + n, "depends on axioms outside the allow-list: %s" % bad))
            else:
                discharged += 1

    coqchk_note = "not run (thorough tier only)"
    if ok and tier == "thorough":
        rc, cout = run(["coqchk", "-silent", "-o", "-Q", COQ, "FB", "FB.Props.%s" % prop], cwd=COQ, timeout=1800)
        tail = cout.strip().split("\n")[-12:]
        coqchk_note = "exit %d: %s" % (rc, " | ".join(l.strip() for l in tail if l.strip()))
        if rc != 0:
            broken.append(("coqchk", "coqchk rejected Props/%s.vo:\n%s" % (prop, cout[-1500:])))
        elif "Axioms: <none>" not in cout and re.search(r"Axioms:\s*\S", cout):
            m2 = re.search(r"Axioms:(.*?)(?:\n\s*\n|\Z)", cout, re.S)
            axl = [a.strip() for a in (m2.group(1) if m2 else "").split("\n") if a.strip() and a.strip() != "<none>"]
            bad = [a for a in axl if a.split()[0].split(".")[-1] not in {x.split(".")[-1] for x in ALLOWED_AXIOMS}]
            if bad:
                broken.append(("coqchk", "coqchk reports axioms outside the allow-list: %s" % bad))

    # 3/4 harness
    report = None
    okb, bout = harness_build(prop)
    if not okb:
        tail = "\n".join([l for l in bout.split("\n") if l.startswith("error") or "-->" in l][:30])
        broken.append(("harness-build", "cargo build of the harness against /repo failed (the code no longer offers what the tie needs):\n" + tail))
    else:
        cmd = [os.path.join(harness_target_dir(), "debug", prop.lower()), str(seed), tier, workdir]
        if args.replay:
            cmd.append(args.replay)
        rc, hout = run(cmd, cwd=VERIF, timeout=spec.get("harness_timeout", 3000), env={"VERIF_REPO": REPO})
        if rc != 0:
            broken.append(("harness-run", "harness exited with %s:\n%s" % (rc, hout[-2000:])))
            # a death `guarded` cannot catch (stack overflow, abort, kill on timeout): the harness leaves the
            # input it was about to hand to the implementation in current_input.txt (report::crumb)
            try:
                crumb = open(os.path.join(workdir, "current_input.txt"), errors="replace").read()
            except OSError:
                crumb = ""
            if crumb.strip():
                how = "was killed after the time limit" if rc == 124 else ("died with signal %d" % -rc if rc < 0 else "exited with status %d" % rc)
                violations.append(("the harness process %s while the implementation was working on this input (no value, no error: crash, stack overflow, abort or endless loop)" % how, crumb))
        else:
            report = json.load(open(os.path.join(workdir, "report.json")))

    # 5 model on the same cases
    disagreements = []
    shard_times = []
    if report is not None and run_ok:
        paths = [os.path.join(workdir, s["name"] + ".v") for s in report["shards"]]
        with cf.ThreadPoolExecutor(max_workers=int(os.environ.get("VERIF_JOBS", "16"))) as ex:
            results = list(ex.map(run_shard, paths))
        # a coqc killed for lack of memory on a busy machine prints nothing: retry those one at a time
        for k, (path, idx, sout, dt) in enumerate(results):
            if idx is None and "Error" not in sout:
                for _ in range(2):
                    results[k] = run_shard(path)
                    if results[k][1] is not None:
                        break
        if True:
            for path, idx, sout, dt in results:
                shard_times.append(dt)
                if idx is None:
                    broken.append(("correspondence", "coqc failed on %s:\n%s" % (os.path.basename(path), sout[-1500:])))
                elif idx:
                    cases = shard_cases(path)
                    for i in idx[:20]:
                        disagreements.append((os.path.basename(path), i, cases[i] if i < len(cases) else "?"))

    # 6 verdict
    known = {k["id"]: k for k in load_known() if k.get("property") == prop and k.get("status", "open") == "open"}
    known_lines = []
    if report is not None:
        for v in report["violations"]:
            violations.append((v["what"], v["replay"]))
        for kid in report["known_findings"]:
            kid0 = kid.split(" ", 1)[0]
            if kid0 in known:
                known_lines.append("KNOWN-FINDING: property=%s %s: %s" % (prop, kid0, known[kid0]["what"]))
            else:
                violations.append(("harness classified a failure as known finding %r, which known_findings.json does not list" % kid, kid))

    exit_code = 0
    nrep = 0

    def write_replay(text):
        nonlocal nrep
        path = os.path.join(WORK if ALT else os.path.join(VERIF, "replays"), "%s-%d-%d.txt" % (prop, seed, nrep))
        nrep += 1
        with open(path, "w") as f:
            f.write(text if text.endswith("\n") else text + "\n")
            f.write("reproduce: VERIF_SEED=%d ./check %s --tier %s\n" % (seed, prop, tier))
        return path

    for line in known_lines:
        log(line)
    if violations:
        exit_code = 1
        for what, replay in violations[:10]:
            path = write_replay(replay)
            log("VIOLATION property=%s replay=%s" % (prop, path))
            log("  " + what[:300])
    if (broken or disagreements) and not violations:
        # the property is no longer shown to hold, but the oracle found no failing input
        exit_code = 1
        text = "property %s\nno failing input was found on the implementation by the property oracle;\nwhat no longer checks:\n" % prop
        for name, detail in broken:
            text += "- %s: %s\n" % (name, detail)
        for sh, i, c in disagreements:
            text += "- correspondence: model and implementation disagree on case %d of %s:\n    %s\n" % (i, sh, c[:2000])
        path = write_replay(text)
        log("VIOLATION property=%s replay=%s no-failing-input-found" % (prop, path))
        for name, detail in broken[:5]:
            log("  broken: %s: %s" % (name, detail.split("\n")[0][:200]))
        for sh, i, c in disagreements[:5]:
            log("  disagreement: %s case %d: %s" % (sh, i, c[:200]))
    elif (broken or disagreements) and violations:
        for name, detail in broken[:5]:
            log("  also broken: %s: %s" % (name, detail.split("\n")[0][:200]))
        for sh, i, c in disagreements[:5]:
            log("  also disagreement: %s case %d: %s" % (sh, i, c[:200]))

    ev = {
        "property_id": prop,
        "tier": tier,
        "seed": seed,
        "level": "proof",
        "coverage": {
            "obligations": len(names),
            "discharged": discharged,
            "checker_cmd": "make -C /verif/coq -j16 %s && coqc -Q /verif/coq FB work/%s/assumptions{0..3}.v  (Coq 8.16.1, full .vo build)" % (" ".join(targets), prop),
            "trusted_base": GLOBAL_TRUSTED + spec.get("trusted", []),
            "theorems": names,
            "assumptions_printed": assumptions_seen,
            "stated_not_proved": spec.get("stated_not_proved", []),
            "translators_run": tr_notes,
            "forbidden_construct_hits": hits,
            "evaluations": (report or {}).get("evaluations", 0),
            "distinct_nontrivial": (report or {}).get("distinct_nontrivial", 0),
            "rule": (report or {}).get("rule", ""),
            "samples": (report or {}).get("samples", [])[:12] or ["<none: harness did not run>"],
            "correspondence_cases": (report or {}).get("correspondence_cases", 0),
            "correspondence_shards": len((report or {}).get("shards", [])),
            "correspondence_disagreements": len(disagreements),
            "generator_distribution": (report or {}).get("distribution", {}),
            "exhaustive": bool((report or {}).get("exhaustive", False)),
            "known_findings_reproduced": known_lines,
            "broken_obligations": [b[0] for b in broken],
            "harness_notes": (report or {}).get("notes", []),
            "coqchk": coqchk_note,
            "shard_seconds_max": round(max(shard_times), 2) if shard_times else 0,
        },
        "assumptions": spec.get("assumptions", []),
        "wall_s": round(time.time() - t0, 2),
        "violations": len(violations) + (1 if (broken or disagreements) and not violations else 0),
    }
    with open(os.path.join(WORK if ALT else os.path.join(VERIF, "evidence"), prop + ".json"), "w") as f:
        json.dump(ev, f, indent=1)
    log("%s %s seed=%d: obligations %d/%d, correspondence %d cases (%d disagreements), oracle evaluations %d, violations %d, %.1fs" % (
        prop, tier, seed, discharged, len(names), ev["coverage"]["correspondence_cases"], len(disagreements), ev["coverage"]["evaluations"], ev["violations"], ev["wall_s"]))
    sys.exit(exit_code)
