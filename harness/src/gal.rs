//! Printing values as Gallina terms (strings are `list N` of code points).
use java_string::{JavaStr, JavaString, JavaCodePoint};

pub fn cps(s: &JavaStr) -> Vec<u32> { s.chars().map(|c| c.as_u32()).collect() }
pub fn cps_str(s: &str) -> Vec<u32> { s.chars().map(|c| c as u32).collect() }
pub fn jstring(cps: &[u32]) -> JavaString {
	let mut s = JavaString::new();
	for &c in cps { s.push_java(JavaCodePoint::from_u32(c).expect("code point")); }
	s
}
pub fn show(cps: &[u32]) -> String {
	// for human readers of replay files
	cps.iter().map(|&c| match char::from_u32(c) { Some(ch) if !ch.is_control() => ch.to_string(), _ => format!("\\u{{{c:x}}}") }).collect()
}

pub fn gnums<I: IntoIterator<Item = u64>>(xs: I) -> String {
	let v: Vec<String> = xs.into_iter().map(|x| x.to_string()).collect();
	format!("[{}]", v.join(";"))
}
pub fn gstr(cps: &[u32]) -> String { gnums(cps.iter().map(|&c| c as u64)) }
pub fn gjstr(s: &JavaStr) -> String { gstr(&cps(s)) }
pub fn glist<I: IntoIterator<Item = String>>(xs: I) -> String {
	let v: Vec<String> = xs.into_iter().collect();
	format!("[{}]", v.join("; "))
}
pub fn gopt(x: Option<String>) -> String { match x { Some(s) => format!("(Some {s})"), None => "None".into() } }
pub fn gres(x: Option<String>) -> String { match x { Some(s) => format!("(Ok {s})"), None => "Err".into() } }
pub fn gbool(b: bool) -> String { if b { "true".into() } else { "false".into() } }
pub fn gpair(a: String, b: String) -> String { format!("({a}, {b})") }
