//! One deterministic PRNG (splitmix64 seeding a xoshiro256**) drives every random choice.
#[derive(Clone)]
pub struct Rng { s: [u64; 4] }

fn splitmix(x: &mut u64) -> u64 {
	*x = x.wrapping_add(0x9E3779B97F4A7C15);
	let mut z = *x;
	z = (z ^ (z >> 30)).wrapping_mul(0xBF58476D1CE4E5B9);
	z = (z ^ (z >> 27)).wrapping_mul(0x94D049BB133111EB);
	z ^ (z >> 31)
}

impl Rng {
	pub fn new(seed: u64) -> Rng {
		let mut x = seed ^ 0x5EED_FEA7_4E12_0001;
		Rng { s: [splitmix(&mut x), splitmix(&mut x), splitmix(&mut x), splitmix(&mut x)] }
	}
	/// a derived, independent stream
	pub fn fork(&mut self, tag: u64) -> Rng { Rng::new(self.next() ^ tag.wrapping_mul(0xA24BAED4963EE407)) }
	pub fn next(&mut self) -> u64 {
		let r = self.s[1].wrapping_mul(5).rotate_left(7).wrapping_mul(9);
		let t = self.s[1] << 17;
		self.s[2] ^= self.s[0]; self.s[3] ^= self.s[1]; self.s[1] ^= self.s[2]; self.s[0] ^= self.s[3];
		self.s[2] ^= t; self.s[3] = self.s[3].rotate_left(45);
		r
	}
	/// uniform in 0..n (n > 0)
	pub fn below(&mut self, n: usize) -> usize { (self.next() % (n as u64)) as usize }
	/// uniform in lo..=hi
	pub fn range(&mut self, lo: usize, hi: usize) -> usize { lo + self.below(hi - lo + 1) }
	/// true with probability num/den
	pub fn chance(&mut self, num: usize, den: usize) -> bool { self.below(den) < num }
	pub fn pick<'a, T>(&mut self, xs: &'a [T]) -> &'a T { &xs[self.below(xs.len())] }
	pub fn shuffle<T>(&mut self, xs: &mut [T]) {
		for i in (1..xs.len()).rev() { let j = self.below(i + 1); xs.swap(i, j); }
	}
}
