//! What a harness run hands back to `check`: Coq shards with the cases (input + the
//! implementation's answer), and report.json with counts, distribution, samples, the
//! violations the property oracle found on the implementation alone, and known findings seen.
use std::collections::{BTreeMap, HashSet};
use std::hash::{Hash, Hasher};
use std::io::Write;
use std::path::Path;

pub struct Violation { pub what: String, pub replay: String }

pub struct Report {
	pub prop: &'static str,
	pub run_module: &'static str,
	pub case_type: &'static str,
	pub check_fn: &'static str,
	pub cases: Vec<String>,
	/// cases that get a shard of their own (large sweeps evaluated in parallel)
	pub big_cases: Vec<String>,
	pub evaluations: u64,
	distinct: HashSet<u64>,
	pub nontrivial: u64,
	pub samples: Vec<String>,
	pub dist: BTreeMap<String, u64>,
	pub violations: Vec<Violation>,
	pub known: Vec<String>,
	pub rule: String,
	pub notes: Vec<String>,
	pub shard_size: usize,
	pub exhaustive: bool,
	pub enumerated: u64,
}

impl Report {
	pub fn new(prop: &'static str, run_module: &'static str) -> Report {
		Report { prop, run_module, case_type: "case", check_fn: "check", cases: vec![], big_cases: vec![], evaluations: 0, distinct: HashSet::new(),
			nontrivial: 0, samples: vec![], dist: BTreeMap::new(), violations: vec![], known: vec![],
			rule: String::new(), notes: vec![], shard_size: 1000, exhaustive: false, enumerated: 0 }
	}
	pub fn count(&mut self, key: &str) { *self.dist.entry(key.to_owned()).or_insert(0) += 1; }
	pub fn count_n(&mut self, key: &str, n: u64) { *self.dist.entry(key.to_owned()).or_insert(0) += n; }
	/// one evaluated input; `canon` identifies it for the distinct count; returns true if new
	pub fn eval(&mut self, canon: &str, nontrivial: bool) -> bool {
		self.evaluations += 1;
		let mut h = std::collections::hash_map::DefaultHasher::new();
		canon.hash(&mut h);
		let new = self.distinct.insert(h.finish());
		if new && nontrivial { self.nontrivial += 1; }
		new
	}
	/// an evaluated input that is distinct by construction (exhaustive enumerations)
	pub fn eval_distinct(&mut self, nontrivial: bool) {
		self.evaluations += 1; self.enumerated += 1;
		if nontrivial { self.nontrivial += 1; }
	}
	/// a correspondence case (one line of Gallina)
	pub fn case(&mut self, stream: &str, term: String) {
		debug_assert!(!term.contains('\n'));
		let key = format!("stream:{stream}");
		if self.dist.get(&key).copied().unwrap_or(0) < 3 && self.samples.len() < 40 {
			let mut t = term.clone();
			if t.len() > 600 { t.truncate(600); t.push_str(" …"); }
			self.samples.push(format!("{stream}: {t}"));
		}
		self.count(&key);
		self.cases.push(term);
	}
	/// a large case evaluated in a shard of its own
	pub fn big_case(&mut self, stream: &str, term: String) {
		self.count(&format!("stream:{stream}"));
		self.big_cases.push(term);
	}
	pub fn violation(&mut self, what: String, replay: String) {
		if self.violations.len() < 50 { self.violations.push(Violation { what, replay }); }
	}
	pub fn known(&mut self, line: String) { if !self.known.contains(&line) { self.known.push(line); } }

	pub fn write(&self, out: &Path) -> anyhow::Result<()> {
		std::fs::create_dir_all(out)?;
		for e in std::fs::read_dir(out)? { let p = e?.path(); if p.is_file() { std::fs::remove_file(p)?; } }
		let mut shards = vec![];
		let singles: Vec<&[String]> = self.big_cases.iter().map(std::slice::from_ref).collect();
		let chunks: Vec<&[String]> = self.cases.chunks(self.shard_size.max(1)).chain(singles.into_iter()).collect();
		for (k, chunk) in chunks.into_iter().enumerate() {
			let name = format!("shard_{k:04}");
			let mut f = std::io::BufWriter::new(std::fs::File::create(out.join(format!("{name}.v")))?);
			writeln!(f, "From FB Require Import {}.", self.run_module)?;
			writeln!(f, "Open Scope N_scope.")?;
			writeln!(f, "Definition cases : list {} := [", self.case_type)?;
			for (i, c) in chunk.iter().enumerate() {
				writeln!(f, "{}{}", c, if i + 1 < chunk.len() { ";" } else { "" })?;
			}
			writeln!(f, "].")?;
			writeln!(f, "Eval vm_compute in (disagreements {} cases).", self.check_fn)?;
			shards.push(serde_json::json!({"name": name, "cases": chunk.len()}));
		}
		let j = serde_json::json!({
			"property_id": self.prop,
			"evaluations": self.evaluations,
			"distinct_nontrivial": self.nontrivial,
			"distinct": self.distinct.len() as u64 + self.enumerated,
			"correspondence_cases": self.cases.len() + self.big_cases.len(),
			"rule": self.rule,
			"samples": self.samples,
			"distribution": self.dist,
			"violations": self.violations.iter().map(|v| serde_json::json!({"what": v.what, "replay": v.replay})).collect::<Vec<_>>(),
			"known_findings": self.known,
			"notes": self.notes,
			"shards": shards,
			"exhaustive": self.exhaustive,
		});
		std::fs::write(out.join("report.json"), serde_json::to_string_pretty(&j)?)?;
		Ok(())
	}
}

/// Breadcrumb for failures `guarded` cannot catch (stack overflow, abort, kill on timeout): a harness
/// calls `crumb(replay_text)` BEFORE handing an input to the implementation; the text is kept in
/// `<outdir>/current_input.txt` and removed by `Report::write`.  When the harness process dies, `check`
/// reports the violation with that text as the failing input.
pub fn crumb(replay: &str) {
	use std::sync::{Mutex, OnceLock};
	static F: OnceLock<Mutex<Option<std::fs::File>>> = OnceLock::new();
	let m = F.get_or_init(|| Mutex::new(std::env::var_os("FBH_CRUMB").and_then(|p| std::fs::File::create(p).ok())));
	if let Ok(mut g) = m.lock() {
		if let Some(f) = g.as_mut() {
			use std::io::{Seek, SeekFrom};
			let _ = f.set_len(0);
			let _ = f.seek(SeekFrom::Start(0));
			let _ = f.write_all(replay.as_bytes());
		}
	}
}

/// run a closure, turning a panic into Err(message)
pub fn guarded<T>(f: impl FnOnce() -> T + std::panic::UnwindSafe) -> Result<T, String> {
	std::panic::catch_unwind(f).map_err(|e| {
		if let Some(s) = e.downcast_ref::<&str>() { s.to_string() }
		else if let Some(s) = e.downcast_ref::<String>() { s.clone() }
		else { "panic".to_string() }
	})
}
