//! Mirror of quill's mapping tree with plain vectors of code points: the common currency
//! between generators, the implementation (conversion from/to `quill::tree::mappings::Mappings<N, _>`)
//! and the Coq model (Gallina printer for FB.Quill.Mappings).
use crate::gal::*;
use crate::prng::Rng;
use anyhow::{anyhow, Result};
use duke::tree::class::ObjClassName;
use duke::tree::field::{FieldDescriptor, FieldName, FieldNameAndDesc};
use duke::tree::method::{MethodDescriptor, MethodName, MethodNameAndDesc, ParameterName};
use quill::tree::mappings::*;
use quill::tree::names::Names;

pub type S = Vec<u32>;
pub type NamesRow = Vec<Option<S>>;

#[derive(Clone, Debug, PartialEq, Eq, Hash, PartialOrd, Ord)]
pub struct MParam { pub index: u64, pub names: NamesRow, pub doc: Option<S> }
#[derive(Clone, Debug, PartialEq, Eq, Hash, PartialOrd, Ord)]
pub struct MField { pub desc: S, pub names: NamesRow, pub doc: Option<S> }
#[derive(Clone, Debug, PartialEq, Eq, Hash, PartialOrd, Ord)]
pub struct MMeth { pub desc: S, pub names: NamesRow, pub doc: Option<S>, pub params: Vec<MParam> }
#[derive(Clone, Debug, PartialEq, Eq, Hash, PartialOrd, Ord)]
pub struct MClass { pub names: NamesRow, pub doc: Option<S>, pub fields: Vec<MField>, pub methods: Vec<MMeth> }
#[derive(Clone, Debug, PartialEq, Eq, Hash, PartialOrd, Ord)]
pub struct MMappings { pub ns: Vec<S>, pub doc: Option<S>, pub classes: Vec<MClass> }

/// marker type for the namespace parameter of Mappings
pub struct NsAny;

// ---------- Gallina ----------
pub fn g_names(n: &NamesRow) -> String { glist(n.iter().map(|o| gopt(o.as_ref().map(|s| gstr(s))))) }
pub fn g_doc(d: &Option<S>) -> String { gopt(d.as_ref().map(|s| gstr(s))) }
pub fn g_param(p: &MParam) -> String { format!("(mkParam {} {} {})", p.index, g_names(&p.names), g_doc(&p.doc)) }
pub fn g_field(f: &MField) -> String { format!("(mkField {} {} {})", gstr(&f.desc), g_names(&f.names), g_doc(&f.doc)) }
pub fn g_meth(m: &MMeth) -> String { format!("(mkMeth {} {} {} {})", gstr(&m.desc), g_names(&m.names), g_doc(&m.doc), glist(m.params.iter().map(g_param))) }
pub fn g_class(c: &MClass) -> String { format!("(mkClass {} {} {} {})", g_names(&c.names), g_doc(&c.doc), glist(c.fields.iter().map(g_field)), glist(c.methods.iter().map(g_meth))) }
pub fn g_mappings(m: &MMappings) -> String { format!("(mkMappings {} {} {})", glist(m.ns.iter().map(|s| gstr(s))), g_doc(&m.doc), glist(m.classes.iter().map(g_class))) }

// ---------- canonical form (sorted at every level), for order-insensitive comparison ----------
impl MMappings {
	pub fn canon(&self) -> MMappings {
		let mut m = self.clone();
		for c in &mut m.classes {
			for me in &mut c.methods { me.params.sort(); }
			c.fields.sort(); c.methods.sort();
		}
		m.classes.sort();
		m
	}
	pub fn equiv(&self, other: &MMappings) -> bool { self.canon() == other.canon() }
	pub fn size(&self) -> usize {
		self.classes.iter().map(|c| 1 + c.fields.len() + c.methods.iter().map(|m| 1 + m.params.len()).sum::<usize>()).sum()
	}
}

// ---------- conversion to / from quill ----------
fn s_to_string(s: &S) -> Result<String> {
	s.iter().map(|&c| char::from_u32(c).ok_or_else(|| anyhow!("not a scalar value: {c:#x}"))).collect()
}
fn row<const N: usize, T: AsRef<java_string::JavaStr> + std::fmt::Debug>(r: &NamesRow, f: impl Fn(&S) -> T) -> Result<Names<N, T>> {
	if r.len() != N { return Err(anyhow!("names row of length {} for {N} namespaces", r.len())); }
	let v: Vec<Option<T>> = r.iter().map(|o| o.as_ref().map(&f)).collect();
	let arr: [Option<T>; N] = v.try_into().map_err(|_| anyhow!("length"))?;
	Names::try_from(arr)
}
fn doc_to(d: &Option<S>) -> Result<Option<JavadocMapping>> { d.as_ref().map(|s| s_to_string(s).map(JavadocMapping)).transpose() }
fn first(r: &NamesRow) -> Result<&S> { r.first().and_then(|o| o.as_ref()).ok_or_else(|| anyhow!("no first name")) }

// SAFETY (all below): the harness deliberately builds name types from arbitrary generated
// strings; the mapping tree never relies on their validity for memory safety.
pub fn class_name(s: &S) -> ObjClassName { unsafe { ObjClassName::from_inner_unchecked(jstring(s)) } }
pub fn field_name(s: &S) -> FieldName { unsafe { FieldName::from_inner_unchecked(jstring(s)) } }
pub fn method_name(s: &S) -> MethodName { unsafe { MethodName::from_inner_unchecked(jstring(s)) } }
pub fn param_name(s: &S) -> ParameterName { unsafe { ParameterName::from_inner_unchecked(jstring(s)) } }
pub fn field_desc(s: &S) -> FieldDescriptor { unsafe { FieldDescriptor::from_inner_unchecked(jstring(s)) } }
pub fn method_desc(s: &S) -> MethodDescriptor { unsafe { MethodDescriptor::from_inner_unchecked(jstring(s)) } }

/// Builds the quill tree by direct insertion into the public IndexMaps, in list order.
/// Fails (Err) when a key would be duplicated or a first name is missing — i.e. when the
/// model value is not well-formed.
pub fn to_quill<const N: usize, Ns>(m: &MMappings) -> Result<Mappings<N, Ns>> {
	if m.ns.len() != N { return Err(anyhow!("{} namespaces for N={N}", m.ns.len())); }
	let ns: Vec<String> = m.ns.iter().map(s_to_string).collect::<Result<_>>()?;
	let nsr: Vec<&str> = ns.iter().map(|s| s.as_str()).collect();
	let arr: [&str; N] = nsr.try_into().map_err(|_| anyhow!("length"))?;
	let mut out: Mappings<N, Ns> = Mappings::from_namespaces(arr)?;
	out.javadoc = doc_to(&m.doc)?;
	for c in &m.classes {
		let mut cn = ClassNowodeMapping { info: ClassMapping { names: row(&c.names, class_name)? }, fields: Default::default(), methods: Default::default(), javadoc: doc_to(&c.doc)? };
		for f in &c.fields {
			let key = FieldNameAndDesc { name: field_name(first(&f.names)?), desc: field_desc(&f.desc) };
			let node = FieldNowodeMapping { info: FieldMapping { desc: field_desc(&f.desc), names: row(&f.names, field_name)? }, javadoc: doc_to(&f.doc)? };
			if cn.fields.insert(key, node).is_some() { return Err(anyhow!("duplicate field key")); }
		}
		for me in &c.methods {
			let key = MethodNameAndDesc { name: method_name(first(&me.names)?), desc: method_desc(&me.desc) };
			let mut node = MethodNowodeMapping { info: MethodMapping { desc: method_desc(&me.desc), names: row(&me.names, method_name)? }, parameters: Default::default(), javadoc: doc_to(&me.doc)? };
			for p in &me.params {
				let pn = ParameterNowodeMapping { info: ParameterMapping { index: p.index as usize, names: row(&p.names, param_name)? }, javadoc: doc_to(&p.doc)? };
				if node.parameters.insert(ParameterKey { index: p.index as usize }, pn).is_some() { return Err(anyhow!("duplicate parameter key")); }
			}
			if cn.methods.insert(key, node).is_some() { return Err(anyhow!("duplicate method key")); }
		}
		if out.classes.insert(class_name(first(&c.names)?), cn).is_some() { return Err(anyhow!("duplicate class key")); }
	}
	Ok(out)
}

fn row_from<const N: usize, T: AsRef<java_string::JavaStr>>(n: &Names<N, T>) -> NamesRow {
	let arr: &[Option<T>; N] = n.into();
	arr.iter().map(|o| o.as_ref().map(|t| cps(t.as_ref()))).collect()
}
fn doc_from(d: &Option<JavadocMapping>) -> Option<S> { d.as_ref().map(|j| cps_str(&j.0)) }

/// Reads a quill tree back into the mirror, in IndexMap iteration order.  `desync` collects
/// every node whose IndexMap key differs from the key derived from its info.
pub fn from_quill<const N: usize, Ns>(m: &Mappings<N, Ns>, desync: &mut Vec<String>) -> MMappings {
	let nsarr: &[String; N] = (&m.info.namespaces).into();
	let mut out = MMappings { ns: nsarr.iter().map(|s| cps_str(s)).collect(), doc: doc_from(&m.javadoc), classes: vec![] };
	for (ck, c) in &m.classes {
		let names = row_from(&c.info.names);
		if names.first().cloned().flatten() != Some(cps(ck.as_inner())) { desync.push(format!("class key {:?} vs info {:?}", ck, c.info)); }
		let mut mc = MClass { names, doc: doc_from(&c.javadoc), fields: vec![], methods: vec![] };
		for (fk, f) in &c.fields {
			let names = row_from(&f.info.names);
			if names.first().cloned().flatten() != Some(cps(fk.name.as_inner())) || fk.desc != f.info.desc { desync.push(format!("field key {:?} vs info {:?}", fk, f.info)); }
			mc.fields.push(MField { desc: cps(f.info.desc.as_inner()), names, doc: doc_from(&f.javadoc) });
		}
		for (mk, me) in &c.methods {
			let names = row_from(&me.info.names);
			if names.first().cloned().flatten() != Some(cps(mk.name.as_inner())) || mk.desc != me.info.desc { desync.push(format!("method key {:?} vs info {:?}", mk, me.info)); }
			let mut mm = MMeth { desc: cps(me.info.desc.as_inner()), names, doc: doc_from(&me.javadoc), params: vec![] };
			for (pk, p) in &me.parameters {
				if pk.index != p.info.index { desync.push(format!("parameter key {:?} vs info {:?}", pk, p.info)); }
				mm.params.push(MParam { index: p.info.index as u64, names: row_from(&p.info.names), doc: doc_from(&p.javadoc) });
			}
			mc.methods.push(mm);
		}
		out.classes.push(mc);
	}
	out
}

// ---------- generator ----------
#[derive(Clone)]
pub struct GenCfg {
	pub n: usize,
	pub max_classes: usize,
	pub max_members: usize,
	pub max_params: usize,
	/// probability (in 1/12) that a non-first cell is absent
	pub absent_12: usize,
	/// allow absent names in the first column of parameters only (always legal) — classes/fields/methods always have one
	pub docs: bool,
	pub unicode: bool,
	pub nested: bool,
}
impl GenCfg {
	pub fn new(n: usize) -> GenCfg { GenCfg { n, max_classes: 6, max_members: 4, max_params: 3, absent_12: 4, docs: true, unicode: true, nested: true } }
}

const SIMPLE: [&str; 14] = ["A", "B", "Foo", "Bar", "a", "b", "C_1", "C_22", "x", "Ab", "L", "I", "Baz", "Q"];
const UNI: [&str; 4] = ["Ü", "π", "\u{10400}", "名"];
const PKGS: [&str; 5] = ["", "", "net/minecraft/", "a/b/", "net/minecraft/unmapped/"];
const MEMBER: [&str; 14] = ["a", "b", "f_1", "m_2", "foo", "bar", "get", "x", "<init>", "value", "L", "aa", "m_10", "f_7"];
const PRIMS: &str = "BCDFIJSZ";

pub fn pick_simple(rng: &mut Rng, cfg: &GenCfg) -> S {
	if cfg.unicode && rng.chance(1, 8) { cps_str(*rng.pick(&UNI[..])) } else { cps_str(*rng.pick(&SIMPLE[..])) }
}
/// distinct source class names, with `$` nesting under earlier ones
pub fn gen_class_names(rng: &mut Rng, cfg: &GenCfg, count: usize) -> Vec<S> {
	let mut v: Vec<S> = vec![];
	let mut tries = 0;
	while v.len() < count && tries < 200 {
		tries += 1;
		let name = if cfg.nested && !v.is_empty() && rng.chance(2, 5) {
			let mut p = rng.pick(&v[..]).clone(); p.push('$' as u32);
			if rng.chance(1, 4) { p.extend(cps_str(&rng.range(1, 3).to_string())); } else { p.extend(pick_simple(rng, cfg)); }
			p
		} else {
			let mut p = cps_str(*rng.pick(&PKGS[..])); p.extend(pick_simple(rng, cfg)); p
		};
		if !v.contains(&name) { v.push(name); }
	}
	v
}
pub fn gen_field_desc(rng: &mut Rng, classes: &[S]) -> S {
	let mut d = vec![];
	for _ in 0..(if rng.chance(1, 4) { rng.range(1, 2) } else { 0 }) { d.push('[' as u32); }
	if rng.chance(1, 2) || classes.is_empty() { d.push(*rng.pick(&cps_str(PRIMS)[..])); }
	else {
		d.push('L' as u32);
		if rng.chance(1, 5) { d.extend(cps_str("java/lang/Object")); } else { d.extend(rng.pick(classes).clone()); }
		d.push(';' as u32);
	}
	d
}
pub fn gen_method_desc(rng: &mut Rng, classes: &[S]) -> S {
	let mut d = vec!['(' as u32];
	for _ in 0..rng.below(3) { d.extend(gen_field_desc(rng, classes)); }
	d.push(')' as u32);
	if rng.chance(1, 3) { d.push('V' as u32); } else { d.extend(gen_field_desc(rng, classes)); }
	d
}
pub fn gen_doc(rng: &mut Rng, cfg: &GenCfg) -> Option<S> {
	if !cfg.docs || !rng.chance(1, 4) { return None; }
	const DOCS: [&str; 8] = ["a comment", "two\nlines", "  leading spaces", "# hash", "blank\n\nline", "trailing ", "ünï\u{1F600}", "x"];
	Some(cps_str(*rng.pick(&DOCS[..])))
}
fn gen_row(rng: &mut Rng, cfg: &GenCfg, first: Option<S>, mut mk: impl FnMut(&mut Rng) -> S) -> NamesRow {
	let mut r = vec![first];
	for _ in 1..cfg.n { r.push(if rng.below(12) < cfg.absent_12 { None } else { Some(mk(rng)) }); }
	r
}
pub fn gen_mappings(rng: &mut Rng, cfg: &GenCfg) -> MMappings {
	const NS: [&str; 4] = ["official", "intermediary", "named", "extra"];
	let ncls = rng.below(cfg.max_classes + 1);
	let srcs = gen_class_names(rng, cfg, ncls);
	let mut classes = vec![];
	for src in &srcs {
		let cfg2 = cfg.clone();
		let names = gen_row(rng, cfg, Some(src.clone()), |r| { let mut p = cps_str(*r.pick(&PKGS[..])); p.extend(pick_simple(r, &cfg2)); p });
		let mut c = MClass { names, doc: gen_doc(rng, cfg), fields: vec![], methods: vec![] };
		for _ in 0..rng.below(cfg.max_members + 1) {
			let name = cps_str(*rng.pick(&MEMBER[..6]));
			let desc = gen_field_desc(rng, &srcs);
			if c.fields.iter().any(|f: &MField| f.names[0].as_ref() == Some(&name) && f.desc == desc) { continue; }
			let names = gen_row(rng, cfg, Some(name), |r| cps_str(*r.pick(&MEMBER[..])));
			c.fields.push(MField { desc, names, doc: gen_doc(rng, cfg) });
		}
		for _ in 0..rng.below(cfg.max_members + 1) {
			let name = cps_str(*rng.pick(&MEMBER[..]));
			let desc = gen_method_desc(rng, &srcs);
			if c.methods.iter().any(|f: &MMeth| f.names[0].as_ref() == Some(&name) && f.desc == desc) { continue; }
			let names = gen_row(rng, cfg, Some(name), |r| cps_str(*r.pick(&MEMBER[..])));
			let mut m = MMeth { desc, names, doc: gen_doc(rng, cfg), params: vec![] };
			for _ in 0..rng.below(cfg.max_params + 1) {
				let index = rng.below(6) as u64;
				if m.params.iter().any(|p| p.index == index) { continue; }
				// parameters usually have no source name
				let firstn = if rng.chance(1, 5) { Some(cps_str("p")) } else { None };
				let names = gen_row(rng, cfg, firstn, |r| cps_str(*r.pick(&["p_1", "arg", "value", "x", "p_12"][..])));
				m.params.push(MParam { index, names, doc: gen_doc(rng, cfg) });
			}
			c.methods.push(m);
		}
		classes.push(c);
	}
	MMappings { ns: NS[..cfg.n].iter().map(|s| cps_str(s)).collect(), doc: None, classes }
}
/// the same content in another insertion order (every level shuffled)
pub fn shuffled(rng: &mut Rng, m: &MMappings) -> MMappings {
	let mut m = m.clone();
	for c in &mut m.classes {
		for me in &mut c.methods { rng.shuffle(&mut me.params); }
		rng.shuffle(&mut c.fields); rng.shuffle(&mut c.methods);
	}
	rng.shuffle(&mut m.classes);
	m
}
