//! C12 — Enigma files and directories round-trip the mappings they can express.
//! Implementation under test: quill::enigma_file::{write_all, write_one, read_into},
//! quill::enigma_dir::{write, read} (scratch directory below the system temp dir, removed at exit).
use fbh::gal::*;
use fbh::mapmodel::*;
use fbh::prng::Rng;
use fbh::report::{crumb, guarded, Report};
use fbh::Ctx;
use quill::tree::mappings::Mappings;
use quill::tree::names::Namespaces;
use std::collections::{BTreeMap, BTreeSet};
use std::path::{Path, PathBuf};

type Q = Mappings<2, NsAny>;

fn s(x: &str) -> S { cps_str(x) }
fn g_classes(cs: &[MClass]) -> String { glist(cs.iter().map(g_class)) }
fn g_files(fs: &[(S, S)]) -> String { glist(fs.iter().map(|(p, c)| gpair(gstr(p), gstr(c)))) }
fn mm(classes: Vec<MClass>) -> MMappings { MMappings { ns: vec![s("first"), s("second")], doc: None, classes } }

// ---------- implementation entry points ----------
fn empty_q() -> Q { Mappings::from_namespaces(["first", "second"]).expect("namespaces") }

/// write_all on the classes; Ok(None) = the writer returned an error; Err = panic / mapping set not buildable
fn impl_write_all(m: &MMappings) -> Result<Option<S>, String> {
	let q: Q = to_quill(m).map_err(|e| format!("not buildable: {e}"))?;
	guarded(move || {
		let mut v = Vec::new();
		match quill::enigma_file::write_all(&q, &mut v) { Ok(()) => Some(cps_str(&String::from_utf8(v).expect("writer produced invalid UTF-8"))), Err(_) => None }
	})
}
fn impl_write_one(m: &MMappings, name: &str) -> Result<Option<S>, String> {
	let q: Q = to_quill(m).map_err(|e| format!("not buildable: {e}"))?;
	let name = name.to_owned();
	guarded(move || {
		let mut v = Vec::new();
		match quill::enigma_file::write_one(&q, &name, &mut v) { Ok(()) => Some(cps_str(&String::from_utf8(v).expect("writer produced invalid UTF-8"))), Err(_) => None }
	})
}
fn text_of(t: &S) -> String { t.iter().map(|&c| char::from_u32(c).expect("scalar")).collect() }
/// read_into on fresh mappings; the classes in IndexMap order
fn impl_read(text: &S) -> Result<Option<Vec<MClass>>, String> {
	let bytes = text_of(text).into_bytes();
	guarded(move || {
		let mut q = empty_q();
		match quill::enigma_file::read_into(&bytes[..], &mut q) {
			Ok(()) => { let mut d = vec![]; let m = from_quill(&q, &mut d); assert!(d.is_empty(), "key/info desync after read: {d:?}"); Some(m.classes) }
			Err(_) => None,
		}
	})
}

/// read_into on raw bytes (possibly not UTF-8), fresh mappings
fn impl_read_bytes(bytes: &[u8]) -> Result<Option<Vec<MClass>>, String> {
	let bytes = bytes.to_vec();
	guarded(move || {
		let mut q = empty_q();
		match quill::enigma_file::read_into(&bytes[..], &mut q) {
			Ok(()) => { let mut d = vec![]; let m = from_quill(&q, &mut d); assert!(d.is_empty(), "key/info desync after read: {d:?}"); Some(m.classes) }
			Err(_) => None,
		}
	})
}
/// read_into on mappings that already hold `acc`; the classes afterwards, in IndexMap order
fn impl_read_into(acc: &MMappings, text: &S) -> Result<Option<Vec<MClass>>, String> {
	let mut q: Q = to_quill(acc).map_err(|e| format!("not buildable: {e}"))?;
	let bytes = text_of(text).into_bytes();
	guarded(move || {
		match quill::enigma_file::read_into(&bytes[..], &mut q) {
			Ok(()) => { let mut d = vec![]; let m = from_quill(&q, &mut d); assert!(d.is_empty(), "key/info desync after read: {d:?}"); Some(m.classes) }
			Err(_) => None,
		}
	})
}

// ---------- scratch directory ----------
struct Scratch { root: PathBuf, n: u64 }
impl Scratch {
	fn new(seed: u64) -> anyhow::Result<Scratch> {
		// mkdtemp semantics: a name nobody else has; create_dir fails when it exists
		let base = std::env::temp_dir();
		for k in 0..1000u32 {
			let p = base.join(format!("fbh-c12-{}-{}-{}", std::process::id(), seed, k));
			match std::fs::create_dir(&p) { Ok(()) => return Ok(Scratch { root: p, n: 0 }), Err(e) if e.kind() == std::io::ErrorKind::AlreadyExists => continue, Err(e) => return Err(e.into()) }
		}
		anyhow::bail!("no scratch directory")
	}
	/// a fresh, empty target directory.  Its own name rotates through shapes a directory walk might treat specially
	/// (hidden, blank inside, non-ASCII, looking like a mapping file, below a hidden ancestor); the holder `d<N>` keeps
	/// the scratch root tidy for `strays`.
	fn fresh(&mut self) -> PathBuf {
		self.n += 1;
		const SHAPES: [&str; 8] = ["t", ".t", "t dir", ".git", "ünï", "t.mapping", ".hidden/t", "..t"];
		let p = self.root.join(format!("d{}", self.n)).join(SHAPES[(self.n % SHAPES.len() as u64) as usize]);
		std::fs::create_dir_all(&p).expect("scratch sub-directory");
		p
	}
}
impl Drop for Scratch { fn drop(&mut self) { let _ = std::fs::remove_dir_all(&self.root); } }

fn list_files(root: &Path) -> Vec<(S, S)> {
	fn walk(dir: &Path, rel: &str, out: &mut Vec<(S, S)>) {
		let mut es: Vec<_> = std::fs::read_dir(dir).expect("read_dir").map(|e| e.expect("entry")).collect();
		es.sort_by_key(|e| e.file_name());
		for e in es {
			let name = e.file_name().into_string().expect("utf-8 file name");
			let r = if rel.is_empty() { name.clone() } else { format!("{rel}/{name}") };
			if e.file_type().expect("type").is_dir() { walk(&e.path(), &r, out); }
			else { out.push((cps_str(&r), cps_str(&String::from_utf8(std::fs::read(e.path()).expect("read")).expect("utf-8 content")))); }
		}
	}
	let mut out = vec![]; walk(root, "", &mut out); out.sort(); out
}
fn impl_write_dir(m: &MMappings, sc: &mut Scratch) -> Result<Option<Vec<(S, S)>>, String> {
	let q: Q = to_quill(m).map_err(|e| format!("not buildable: {e}"))?;
	let d = sc.fresh();
	let d2 = d.clone();
	let r = guarded(move || quill::enigma_dir::write(&q, &d2).is_ok());
	let out = r.map(|ok| if ok { Some(list_files(&d)) } else { None });
	let _ = std::fs::remove_dir_all(&d);
	out
}
fn put_files(d: &Path, files: &[(S, S)]) {
	for (p, c) in files {
		let t = d.join(text_of(p));
		if let Some(par) = t.parent() { std::fs::create_dir_all(par).expect("mkdir"); }
		std::fs::write(&t, text_of(c)).expect("write file");
	}
}
fn impl_read_dir(files: &[(S, S)], sc: &mut Scratch) -> Result<Option<Vec<MClass>>, String> {
	let d = sc.fresh();
	put_files(&d, files);
	let d2 = d.clone();
	let r = guarded(move || {
		let ns: Namespaces<2, NsAny> = Namespaces::try_from(["first".to_owned(), "second".to_owned()]).expect("namespaces");
		match quill::enigma_dir::read(&d2, ns) {
			Ok(q) => { let mut de = vec![]; let m = from_quill(&q, &mut de); assert!(de.is_empty(), "key/info desync after read: {de:?}"); Some(m.classes) }
			Err(_) => None,
		}
	});
	let _ = std::fs::remove_dir_all(&d);
	r
}

/// enigma_dir::read of a path that does not exist (None) or of a single plain file (Some((name, content)))
fn impl_read_path(file: Option<(&S, &S)>, sc: &mut Scratch) -> Result<Option<Vec<MClass>>, String> {
	let d = sc.fresh();
	let target = match file {
		None => d.join("no-such-entry"),
		Some((name, content)) => { let t = d.join(text_of(name)); std::fs::write(&t, text_of(content)).expect("write file"); t }
	};
	let r = guarded(move || {
		let ns: Namespaces<2, NsAny> = Namespaces::try_from(["first".to_owned(), "second".to_owned()]).expect("namespaces");
		match quill::enigma_dir::read(&target, ns) {
			Ok(q) => { let mut de = vec![]; let m = from_quill(&q, &mut de); assert!(de.is_empty(), "key/info desync after read: {de:?}"); Some(m.classes) }
			Err(_) => None,
		}
	});
	let _ = std::fs::remove_dir_all(&d);
	r
}
/// everything directly inside the scratch root that is not one of the `d<N>` target directories: must stay empty
fn strays(sc: &Scratch) -> Vec<String> {
	let mut out = vec![];
	if let Ok(rd) = std::fs::read_dir(&sc.root) { for e in rd.flatten() { let n = e.file_name().to_string_lossy().into_owned(); if !(n.starts_with('d') && n[1..].chars().all(|c| c.is_ascii_digit())) { out.push(n); } } }
	out
}

// ---------- independent reference reader: the structural decoding of the text ----------
struct RNode { first: S, fields: Vec<S>, kids: Vec<usize> }
fn ref_tokenise(text: &S) -> Vec<(usize, S, Vec<S>)> {
	// BufRead::lines: LF ends a line, a CR directly before it goes too, no final empty line
	let mut lines: Vec<S> = vec![];
	let mut cur: S = vec![];
	for &c in text { if c == 10 { if cur.last() == Some(&13) { cur.pop(); } lines.push(std::mem::take(&mut cur)); } else { cur.push(c); } }
	if !cur.is_empty() { lines.push(cur); }
	let comment = s("COMMENT");
	let mut out = vec![];
	for l in lines {
		let ind = l.iter().take_while(|&&c| c == 9).count();
		let mut rest: &[u32] = &l[ind..];
		let is_comment = rest.starts_with(&comment);
		if !is_comment {
			let cut = rest.iter().position(|&c| c == '#' as u32).unwrap_or(rest.len());
			let (mut a, mut b) = (0, cut);
			while a < b && uni_ws(rest[a]) { a += 1; }
			while b > a && uni_ws(rest[b - 1]) { b -= 1; }
			rest = &rest[a..b];
		}
		if rest.is_empty() { continue; }
		// a COMMENT line: the tag, then everything after the first separator as it is; any other line: its fields
		let mut toks: Vec<S> = if is_comment {
			match rest.iter().position(|&c| java_ws(c)) { Some(p) => vec![rest[..p].to_vec(), rest[p + 1..].to_vec()], None => vec![rest.to_vec()] }
		} else { rest.split(|&c| java_ws(c)).map(|t| t.to_vec()).collect() };
		let first = toks.remove(0);
		out.push((ind, first, toks));
	}
	out
}
fn rtag(n: &RNode, t: &str) -> bool { n.first == s(t) }
fn push_doc(doc: &mut Option<S>, n: &RNode) {
	let mut text: S = vec![];
	for (i, f) in n.fields.iter().enumerate() { if i > 0 { text.push(32); } text.extend_from_slice(f); }
	match doc { Some(d) => { d.push(10); d.extend(text); } None => *doc = Some(text) }
}
/// the lines below FIELD / ARG: COMMENT leaves only
fn ref_doc(nodes: &[RNode], kids: &[usize]) -> Option<Option<S>> {
	let mut doc = None;
	for &k in kids { let n = &nodes[k]; if !rtag(n, "COMMENT") || !n.kids.is_empty() { return None; } push_doc(&mut doc, n); }
	Some(doc)
}
fn ref_named(f: &[S]) -> Option<(S, Option<S>, S)> {
	match f.len() {
		2 => Some((f[0].clone(), None, f[1].clone())),
		3 => if is_mod(&f[2]) { Some((f[0].clone(), None, f[1].clone())) } else { Some((f[0].clone(), Some(f[1].clone()), f[2].clone())) },
		4 => Some((f[0].clone(), Some(f[1].clone()), f[2].clone())),
		_ => None,
	}
}
fn ref_class(nodes: &[RNode], id: usize, par: Option<(&S, &S)>, nesting: usize, out: &mut Vec<MClass>) -> Option<()> {
	let n = &nodes[id];
	if !rtag(n, "CLASS") || nesting > 64 { return None; }
	let f = &n.fields;
	let (src0, dst0) = match f.len() { 1 => (f[0].clone(), None), 2 => if is_mod(&f[1]) { (f[0].clone(), None) } else { (f[0].clone(), Some(f[1].clone())) }, 3 => (f[0].clone(), Some(f[1].clone())), _ => return None };
	let join = |p: &S, x: S| { let mut v = p.clone(); v.push(DOLLAR); v.extend(x); v };
	let (src, dst) = match par { Some((ps, pd)) => (join(ps, src0), dst0.map(|d| join(pd, d))), None => (src0, dst0) };
	if !obj_name(&src) || dst.as_ref().is_some_and(|d| !obj_name(d)) { return None; }
	let pd = dst.clone().unwrap_or_else(|| src.clone());
	let mut c = MClass { names: vec![Some(src.clone()), dst], doc: None, fields: vec![], methods: vec![] };
	for &k in &n.kids {
		let kn = &nodes[k];
		if rtag(kn, "CLASS") { ref_class(nodes, k, Some((&src, &pd)), nesting + 1, out)?; }
		else if rtag(kn, "FIELD") {
			let (a, b, d) = ref_named(&kn.fields)?;
			if !unq(&a) || b.as_ref().is_some_and(|b| !unq(b)) { return None; }
			if c.fields.iter().any(|x| x.names[0].as_ref() == Some(&a) && x.desc == d) { return None; }
			let doc = ref_doc(nodes, &kn.kids)?;
			c.fields.push(MField { desc: d, names: vec![Some(a), b], doc });
		} else if rtag(kn, "METHOD") {
			let (a, b, d) = ref_named(&kn.fields)?;
			if !meth_name(&a) || b.as_ref().is_some_and(|b| !meth_name(b)) { return None; }
			if c.methods.iter().any(|x| x.names[0].as_ref() == Some(&a) && x.desc == d) { return None; }
			let mut me = MMeth { desc: d, names: vec![Some(a), b], doc: None, params: vec![] };
			for &pk in &kn.kids {
				let pn = &nodes[pk];
				if rtag(pn, "ARG") {
					if pn.fields.len() != 2 { return None; }
					let idx: u64 = text_of(&pn.fields[0]).parse::<u64>().ok()?;
					if !unq(&pn.fields[1]) || me.params.iter().any(|x| x.index == idx) { return None; }
					let doc = ref_doc(nodes, &pn.kids)?;
					me.params.push(MParam { index: idx, names: vec![None, Some(pn.fields[1].clone())], doc });
				} else if rtag(pn, "COMMENT") { if !pn.kids.is_empty() { return None; } push_doc(&mut me.doc, pn); }
				else { return None; }
			}
			c.methods.push(me);
		} else if rtag(kn, "COMMENT") { if !kn.kids.is_empty() { return None; } push_doc(&mut c.doc, kn); }
		else { return None; }
	}
	if out.iter().any(|x| key(x) == src) { return None; }
	out.push(c);
	Some(())
}
/// what reading `text` into mappings holding `acc` must give: the lines grouped by indentation (a line belongs to the
/// nearest preceding line indented one step less), one class per CLASS line under the joined names, nested classes first
fn ref_read(text: &S, acc: &[MClass]) -> Option<Vec<MClass>> {
	let mut nodes: Vec<RNode> = vec![];
	let mut roots: Vec<usize> = vec![];
	let mut path: Vec<usize> = vec![];
	for (ind, first, fields) in ref_tokenise(text) {
		if ind > path.len() { return None; }
		path.truncate(ind);
		let id = nodes.len();
		nodes.push(RNode { first, fields, kids: vec![] });
		match path.last() { Some(&p) => nodes[p].kids.push(id), None => roots.push(id) }
		path.push(id);
	}
	let mut out: Vec<MClass> = acc.to_vec();
	for r in roots { ref_class(&nodes, r, None, 0, &mut out)?; }
	Some(out)
}
/// reader exactness on the implementation alone: read_into must give exactly the structural decoding (order included)
fn reader_oracle(r: &mut Report, acc: &[MClass], text: &S, got: &Option<Vec<MClass>>) {
	let want = ref_read(text, acc);
	if &want != got {
		let what = match (&want, got) {
			(Some(_), None) => "read_into refuses a text whose structural decoding is well-formed",
			(None, Some(_)) => "read_into accepts a text that has no well-formed structural decoding (indentation, tags, names, duplicates)",
			_ => "read_into does not return the structural decoding of the text (a class, member, comment or name differs, is lost, merged or re-parented)",
		};
		r.violation(what.to_owned(), format!("property C12\nwhat: {what}\nclasses already in the mappings (Gallina): {}\ntext (code points): {}\ntext:\n{}\nexpected (Gallina): {:?}\nread_into gave (Gallina): {:?}\n",
			g_classes(acc), gstr(text), text_of(text), want.as_ref().map(|w| g_classes(w)), got.as_ref().map(|g| g_classes(g))));
	}
}

// ---------- independent reference: what the property says ----------
const DOLLAR: u32 = '$' as u32;
const SLASH: u32 = '/' as u32;
fn split_inner(k: &[u32]) -> Option<(S, S)> {
	let pos = k.iter().rposition(|&c| c == DOLLAR)?;
	let (p, i) = (&k[..pos], &k[pos + 1..]);
	if p.is_empty() || i.is_empty() || p.last() == Some(&SLASH) || i.contains(&SLASH) { None } else { Some((p.to_vec(), i.to_vec())) }
}
fn key(c: &MClass) -> S { c.names[0].clone().unwrap_or_default() }
fn dst(c: &MClass) -> Option<S> { c.names.get(1).cloned().flatten() }
fn file_name(c: &MClass) -> S { dst(c).unwrap_or_else(|| key(c)) }
fn parent_in<'a>(m: &'a MMappings, c: &MClass) -> Option<&'a MClass> {
	let (p, _) = split_inner(&key(c))?;
	m.classes.iter().find(|x| key(x) == p)
}
/// number of ancestors reached by following parents as long as they are in the set
fn depth(m: &MMappings, c: &MClass) -> usize { match parent_in(m, c) { Some(p) => 1 + depth(m, p), None => 0 } }
fn root_of<'a>(m: &'a MMappings, c: &'a MClass) -> &'a MClass { match parent_in(m, c) { Some(p) => root_of(m, p), None => c } }

fn java_ws(c: u32) -> bool { matches!(c, 32 | 9 | 10 | 11 | 12 | 13) }
fn uni_ws(c: u32) -> bool { char::from_u32(c).is_some_and(|ch| ch.is_whitespace()) }
fn scalar(x: &[u32]) -> bool { x.iter().all(|&c| !(0xD800..=0xDFFF).contains(&c)) }
fn tok_ok(x: &[u32]) -> bool { !x.is_empty() && scalar(x) && x.iter().all(|&c| !java_ws(c) && c != '#' as u32) && !uni_ws(*x.last().unwrap()) }
fn is_mod(x: &[u32]) -> bool { x.starts_with(&s("ACC:")) }
fn unq(x: &[u32]) -> bool { !x.is_empty() && x.iter().all(|&c| !matches!(char::from_u32(c), Some('.' | ';' | '[' | '/'))) }
fn obj_name(x: &[u32]) -> bool { x.first() != Some(&('[' as u32)) && x.split(|&c| c == SLASH).all(unq) }
fn meth_name(x: &[u32]) -> bool { x == s("<init>") || x == s("<clinit>") || (unq(x) && !x.contains(&('<' as u32)) && !x.contains(&('>' as u32))) }
/// a comment the format can store: none of its lines (LF separates them) ends with CR
fn doc_ok(d: &Option<S>) -> bool { d.as_ref().map_or(true, |d| d.split(|&c| c == 10).all(|l| l.last() != Some(&13))) }
/// all comments of a set
fn all_docs(m: &MMappings) -> Vec<&Option<S>> {
	let mut v = vec![];
	for c in &m.classes { v.push(&c.doc); for f in &c.fields { v.push(&f.doc); } for me in &c.methods { v.push(&me.doc); for p in &me.params { v.push(&p.doc); } } }
	v
}
fn mdst(me: &MMeth) -> Option<S> { me.names.get(1).cloned().flatten().filter(|d| *d != s("<init>")) }

/// the hypotheses of the round-trip theorem (coq/C12: enigma_ok), written independently; returns the first reason it fails
fn enigma_ok(m: &MMappings) -> Result<(), &'static str> {
	let mut keys = BTreeSet::new();
	let mut fnames = BTreeSet::new();
	for c in &m.classes {
		if c.names.len() != 2 || c.names[0].is_none() { return Err("names row"); }
		if !keys.insert(key(c)) { return Err("duplicate class key"); }
		if !obj_name(&key(c)) || !tok_ok(&key(c)) { return Err("class source name"); }
		if let Some(d) = dst(c) { if !obj_name(&d) || !tok_ok(&d) { return Err("class target name"); } }
		if !doc_ok(&c.doc) { return Err("comment with a line ending in CR"); }
		if depth(m, c) > 64 { return Err("nested deeper than the reader's limit of 64"); }
		match parent_in(m, c) {
			Some(p) => {
				if let Some(d) = dst(c) {
					match split_inner(&d) { Some((q, i)) if q == file_name(p) => { if is_mod(&i) { return Err("ACC: target"); } } _ => return Err("nested target does not follow the nesting") }
				}
			}
			None => {
				if let Some(d) = dst(c) { if is_mod(&d) { return Err("ACC: target"); } }
				if !fnames.insert(file_name(c)) { return Err("duplicate file name"); }
			}
		}
		let mut fk = BTreeSet::new();
		for f in &c.fields {
			if f.names.len() != 2 { return Err("names row"); }
			let Some(n) = &f.names[0] else { return Err("names row") };
			if !fk.insert((n.clone(), f.desc.clone())) { return Err("duplicate field key"); }
			if !unq(n) || !tok_ok(n) || !tok_ok(&f.desc) { return Err("field token"); }
			if let Some(d) = &f.names[1] { if !unq(d) || !tok_ok(d) { return Err("field token"); } if is_mod(&f.desc) { return Err("ACC: descriptor"); } }
			if !doc_ok(&f.doc) { return Err("comment with a line ending in CR"); }
		}
		let mut mk = BTreeSet::new();
		for me in &c.methods {
			if me.names.len() != 2 { return Err("names row"); }
			let Some(n) = &me.names[0] else { return Err("names row") };
			if !mk.insert((n.clone(), me.desc.clone())) { return Err("duplicate method key"); }
			if !meth_name(n) || !tok_ok(n) || !tok_ok(&me.desc) { return Err("method token"); }
			if let Some(d) = &me.names[1] { if !meth_name(d) || !tok_ok(d) { return Err("method token"); } }
			if mdst(me).is_some() && is_mod(&me.desc) { return Err("ACC: descriptor"); }
			if !doc_ok(&me.doc) { return Err("comment with a line ending in CR"); }
			let mut pk = BTreeSet::new();
			for p in &me.params {
				if p.names.len() != 2 { return Err("names row"); }
				if !pk.insert(p.index) { return Err("duplicate parameter"); }
					if p.names[0].is_some() { return Err("parameter with a first-namespace name"); }
				match &p.names[1] { Some(d) if unq(d) && tok_ok(d) => {}, Some(_) => return Err("parameter token"), None => return Err("parameter without target") }
				if !doc_ok(&p.doc) { return Err("comment with a line ending in CR"); }
			}
		}
	}
	Ok(())
}
/// what a round trip may change — only this: a method target `<init>` is not written (constructors are unnamed).
/// `<clinit>` targets, targets equal to the source name, parameters, comments: everything else must come back.
fn norm(m: &MMappings) -> MMappings {
	let mut m = m.clone();
	for c in &mut m.classes { for me in &mut c.methods {
		if me.names[1] == Some(s("<init>")) { me.names[1] = None; }
	} }
	m
}
/// the loss the hypothesis "parameters have no first-namespace name" keeps out of the theorem
fn drop_param_src(m: &MMappings) -> MMappings {
	let mut m = m.clone();
	for c in &mut m.classes { for me in &mut c.methods { for p in &mut me.params { p.names[0] = None; } } }
	m
}

/// Independent reference writer: what the format prescribes for a mapping set inside the hypotheses — files in ascending order of
/// their names; per class its CLASS line (full names at indentation 0, the part after the last `$` below a parent), its comment,
/// its fields ascending by (names row, descriptor), its methods likewise (a target `<init>` not written), per method its comment and
/// its parameters ascending by (index, names row) with their comments, then the classes nested in it ascending by source name.
/// The `#` header lines of write_all are not part of it.
fn ref_write(m: &MMappings) -> S {
	fn doc_lines(out: &mut S, ind: usize, d: &Option<S>) {
		if let Some(d) = d { for l in d.split(|&c| c == 10) { out.extend(std::iter::repeat(9).take(ind)); out.extend(s("COMMENT ")); out.extend_from_slice(l); out.push(10); } }
	}
	fn class(out: &mut S, m: &MMappings, c: &MClass, ind: usize) {
		let short = |x: S| if ind > 0 { split_inner(&x).map(|p| p.1).unwrap_or(x) } else { x };
		out.extend(std::iter::repeat(9).take(ind)); out.extend(s("CLASS ")); out.extend(short(key(c)));
		if let Some(d) = dst(c) { out.push(32); out.extend(short(d)); }
		out.push(10);
		doc_lines(out, ind + 1, &c.doc);
		let mut fs: Vec<&MField> = c.fields.iter().collect();
		fs.sort_by(|a, b| a.names.cmp(&b.names).then_with(|| a.desc.cmp(&b.desc)));
		for f in fs {
			out.extend(std::iter::repeat(9).take(ind + 1)); out.extend(s("FIELD ")); out.extend(f.names[0].clone().unwrap_or_default());
			if let Some(d) = &f.names[1] { out.push(32); out.extend(d.clone()); }
			out.push(32); out.extend(f.desc.clone()); out.push(10);
			doc_lines(out, ind + 2, &f.doc);
		}
		let mut ms: Vec<&MMeth> = c.methods.iter().collect();
		ms.sort_by(|a, b| a.names.cmp(&b.names).then_with(|| a.desc.cmp(&b.desc)));
		for me in ms {
			out.extend(std::iter::repeat(9).take(ind + 1)); out.extend(s("METHOD ")); out.extend(me.names[0].clone().unwrap_or_default());
			if let Some(d) = mdst(me) { out.push(32); out.extend(d); }
			out.push(32); out.extend(me.desc.clone()); out.push(10);
			doc_lines(out, ind + 2, &me.doc);
			let mut ps: Vec<&MParam> = me.params.iter().collect();
			ps.sort_by(|a, b| a.index.cmp(&b.index).then_with(|| a.names.cmp(&b.names)));
			for p in ps {
				out.extend(std::iter::repeat(9).take(ind + 2)); out.extend(s(&format!("ARG {} ", p.index))); out.extend(p.names[1].clone().unwrap_or_default()); out.push(10);
				doc_lines(out, ind + 3, &p.doc);
			}
		}
		let mut kids: Vec<&MClass> = m.classes.iter().filter(|x| parent_in(m, x).map(key) == Some(key(c))).collect();
		kids.sort_by_key(|x| key(x));
		for k in kids { class(out, m, k, ind + 1); }
	}
	let mut roots: Vec<&MClass> = m.classes.iter().filter(|c| parent_in(m, c).is_none()).collect();
	roots.sort_by_key(|c| file_name(c));
	let mut out = vec![];
	for r in roots { class(&mut out, m, r, 0); }
	out
}

/// Independent reference for enigma_dir::read, on the implementation's own read_into: the files whose name has the extension
/// `mapping`, in ascending order of their paths compared component by component, read one after the other into the same mappings
fn ref_read_dir(files: &[(S, S)]) -> Option<Vec<MClass>> {
	let mut fs: Vec<(Vec<String>, &S)> = files.iter().filter(|(p, _)| std::path::Path::new(&text_of(p)).extension().is_some_and(|e| e == "mapping"))
		.map(|(p, c)| (text_of(p).split('/').map(|x| x.to_owned()).collect(), c)).collect();
	fs.sort_by(|a, b| a.0.cmp(&b.0));
	let mut acc = mm(vec![]);
	for (_, content) in fs { acc = mm(impl_read_into(&acc, content).ok()??); }
	Some(acc.classes)
}
fn dir_read_oracle(r: &mut Report, files: &[(S, S)], got: &Option<Vec<MClass>>) {
	let want = ref_read_dir(files);
	if &want != got {
		let what = match (&want, got) {
			(Some(_), None) => "enigma_dir::read fails on a directory whose mapping files, read one by one in sorted order, are accepted",
			(None, Some(_)) => "enigma_dir::read accepts a directory whose mapping files, read one by one in sorted order, are refused",
			_ => "enigma_dir::read does not give what reading the directory's *.mapping files one by one in sorted path order gives (a file skipped, a non-mapping file read, another order)",
		};
		r.violation(what.to_owned(), format!("property C12\nwhat: {what}\nfiles below the directory (path, content) (Gallina): {}\n{}\nexpected (Gallina): {:?}\nenigma_dir::read gave (Gallina): {:?}\n",
			g_files(files), files.iter().map(|(p, c)| format!("--- {}\n{}", text_of(p), text_of(c))).collect::<Vec<_>>().join("\n"), want.as_ref().map(|w| g_classes(w)), got.as_ref().map(|g| g_classes(g))));
	}
}

// special-looking method names: every source kind with every target kind
const SPECIAL_SRC: [&str; 4] = ["<init>", "<clinit>", "run", "COMMENT"];
/// `=` stands for "the source name itself" (identity mapping)
/// round 7: near-keyword targets too (`ACC:` inside / at the end of a name, lower case) — only a name that STARTS with `ACC:` is a modifier
const SPECIAL_DST: [Option<&str>; 9] = [None, Some("<init>"), Some("<clinit>"), Some("="), Some("other"), Some("ACC:t"), Some("xACC:t"), Some("tACC:"), Some("acc:t")];
const SPECIAL_DESC: [&str; 9] = ["()V", "(I)V", "(J)V", "()I", "(Z)V", "(B)V", "(LxACC:y;)V", "(S)LtACC:;", "(C)V"];
fn special_meth(si: usize, di: usize) -> MMeth {
	let src = SPECIAL_SRC[si];
	let dst = SPECIAL_DST[di].map(|d| s(if d == "=" { src } else { d }));
	MMeth { desc: s(SPECIAL_DESC[di]), names: vec![Some(s(src)), dst], doc: None, params: vec![] }
}
fn add_meth_if_new(c: &mut MClass, me: MMeth) {
	if !c.methods.iter().any(|x| x.names[0] == me.names[0] && x.desc == me.desc) { c.methods.push(me); }
}
/// the whole table in one class (plus identity-mapped field and class, keyword-like names)
fn special_set(k: usize) -> MMappings {
	let mut c = MClass { names: vec![Some(s("p/Special")), Some(s(if k % 2 == 0 { "q/Special" } else { "p/Special" }))], doc: None, fields: vec![], methods: vec![] };
	for si in 0..SPECIAL_SRC.len() { for di in 0..SPECIAL_DST.len() { c.methods.push(special_meth(si, di)); } }
	c.fields.push(MField { desc: s("I"), names: vec![Some(s("same")), Some(s("same"))], doc: None });
	c.fields.push(MField { desc: s("J"), names: vec![Some(s("COMMENT")), Some(s("CLASS"))], doc: None });
	c.fields.push(MField { desc: s("Z"), names: vec![Some(s("acc")), Some(s("ACC:f"))], doc: None });
	if k >= 2 { for me in &mut c.methods { if me.desc == s("(I)V") { me.params.push(MParam { index: 1, names: vec![None, Some(s("init"))], doc: Some(s("on a special method")) }); } } }
	let inner = MClass { names: vec![Some(s("p/Special$In")), Some({ let mut d = file_name(&c); d.extend(s("$In")); d })], doc: None, fields: vec![], methods: vec![special_meth(1, 2), special_meth(0, 1), special_meth(1, 0)] };
	// `ACC:` inside names and descriptors (not at the start): class targets, member targets and descriptors keep it (round 7)
	let near = MClass { names: vec![Some(s("p/NearAcc")), Some(s("q/xACC:y"))], doc: None,
		fields: vec![MField { desc: s("LxACC:y;"), names: vec![Some(s("f")), Some(s("g"))], doc: None }, MField { desc: s("[LtACC:;"), names: vec![Some(s("h")), None], doc: None }],
		methods: vec![MMeth { desc: s("()LtACC:;"), names: vec![Some(s("m")), Some(s("n"))], doc: None, params: vec![] }] };
	let near2 = MClass { names: vec![Some(s("p/NearAcc2")), Some(s("tACC:"))], doc: None, fields: vec![], methods: vec![] };
	let mut v = vec![c, inner, near, near2];
	if k % 2 == 1 { v.reverse(); }
	mm(v)
}

// ---------- generators ----------
const DOCS: [&str; 28] = ["a comment", "two\nlines", "  leading spaces", "# hash", "blank\n\nline", "trailing ", "ünï\u{1F600}", "x",
	"", "\n", "a\n", " ", "x # y  z", "COMMENT", "\n\n#\n ", "\u{a0}nbsp\u{3000}",
	// white space of every kind inside a line (round 5): runs of spaces, TAB, VT, FF, a CR that does not end a line
	"Holds the value.  Never null.", "Layout:\n  x: the first\n\ty: the second", "tab\there", "\t", " \t ", "trail\t", "vt\u{b}x\u{c}ff", "cr\rmid", "\rstart", "   ", "a \n b", "x\t\ty  z \t"];
fn my_doc(rng: &mut Rng) -> Option<S> { if rng.chance(1, 3) { Some(s(*rng.pick(&DOCS[..]))) } else { None } }

/// two-namespace mapping set inside the hypotheses: nested targets follow the nesting, parameters have targets
fn gen_valid(rng: &mut Rng) -> MMappings {
	let mut cfg = GenCfg::new(2);
	cfg.max_classes = 7;
	let mut m = gen_mappings(rng, &cfg);
	// more comment shapes than the shared generator has
	for c in &mut m.classes {
		if rng.chance(1, 3) { c.doc = my_doc(rng); }
		for f in &mut c.fields { if rng.chance(1, 4) { f.doc = my_doc(rng); } }
		for me in &mut c.methods {
			if rng.chance(1, 4) { me.doc = my_doc(rng); }
			for p in &mut me.params {
				p.names[0] = None; // hypothesis: parameters have no first-namespace name
				if p.names[1].is_none() { p.names[1] = Some(s(*rng.pick(&["p_1", "arg", "value", "x"][..]))); }
				if rng.chance(1, 3) { p.doc = my_doc(rng); }
				if rng.chance(1, 10) { p.index = *rng.pick(&[255u64, 65535, 4294967296, u64::MAX][..]); }
			}
			let mut seen = BTreeSet::new();
			me.params.retain(|p| seen.insert(p.index));
			// identity-mapped methods
			if rng.chance(1, 8) { me.names[1] = me.names[0].clone(); }
		}
		for f in &mut c.fields { if rng.chance(1, 8) { f.names[1] = f.names[0].clone(); } }
		// special-looking methods: <init> / <clinit> / ordinary / keyword-like source with absent, <init>, <clinit>, identical, other, ACC:-like target
		if rng.chance(1, 2) { for _ in 0..rng.range(1, 4) { let me = special_meth(rng.below(SPECIAL_SRC.len()), rng.below(SPECIAL_DST.len())); add_meth_if_new(c, me); } }
	}
	// identity-mapped classes (nested ones are re-targeted by follow_nesting)
	for c in &mut m.classes { if rng.chance(1, 10) { c.names[1] = c.names[0].clone(); } }
	// root targets: sometimes with `$`
	for c in &mut m.classes { if rng.chance(1, 8) { if let Some(d) = &mut c.names[1] { d.extend(s("$X")); } } }
	// root targets and descriptors with a keyword-like part that is not at the start (round 7)
	for c in &mut m.classes { if rng.chance(1, 12) { if let Some(d) = &mut c.names[1] { d.extend(s(*rng.pick(&["ACC:", "xACC:y", "_COMMENT", "CLASS"][..]))); } } }
	for c in &mut m.classes {
		for i in 0..c.fields.len() {
			if rng.chance(1, 12) {
				let d = s(*rng.pick(&["LxACC:y;", "[LACC;", "Lp/tACC:;"][..]));
				let name = c.fields[i].names[0].clone();
				if !c.fields.iter().any(|x| x.names[0] == name && x.desc == d) { c.fields[i].desc = d; }
			}
		}
	}
	follow_nesting(rng, &mut m);
	// orphans: drop some classes that have children (their children become parent-free inner classes)
	if rng.chance(1, 3) {
		let parents: Vec<S> = m.classes.iter().filter(|c| m.classes.iter().any(|x| split_inner(&key(x)).is_some_and(|(p, _)| p == key(c)))).map(key).collect();
		if !parents.is_empty() { let k = rng.pick(&parents[..]).clone(); m.classes.retain(|c| key(c) != k); }
	}
	dedup_files(&mut m);
	m
}
/// nested classes' targets := target-or-source of the parent + `$` + a simple name (or absent)
fn follow_nesting(rng: &mut Rng, m: &mut MMappings) {
	// parents before children: process by key length
	let mut order: Vec<usize> = (0..m.classes.len()).collect();
	order.sort_by_key(|&i| key(&m.classes[i]).len());
	for i in order {
		let c = m.classes[i].clone();
		if let Some(p) = parent_in(m, &c) {
			let pf = file_name(p);
			let cfg = GenCfg::new(2);
			m.classes[i].names[1] = if rng.chance(1, 4) { None } else { let mut d = pf; d.push(DOLLAR); d.extend(pick_simple(rng, &cfg)); Some(d) };
		}
	}
}
fn dedup_files(m: &mut MMappings) {
	let mut seen = BTreeSet::new();
	let m0 = m.clone();
	m.classes.retain(|c| parent_in(&m0, c).is_some() || seen.insert(file_name(c)));
	// removing a root may orphan its children under a name that collides again: repeat until stable
	if m.classes.len() != m0.classes.len() { dedup_files(m); }
}

const VIOLATIONS: [&str; 13] = ["space-in-token", "hash-in-token", "acc-target", "acc-desc", "dup-file", "nesting-not-followed",
	"param-no-target", "param-src-name", "comment-ctl", "invalid-name", "empty-desc", "surrogate", "trailing-nbsp"];
/// a mapping set that breaks exactly the named hypothesis (when it has a place to break it)
fn gen_violating(rng: &mut Rng, kind: &str) -> MMappings {
	let mut m = gen_valid(rng);
	for _ in 0..20 { if !m.classes.is_empty() { break; } m = gen_valid(rng); }
	if m.classes.is_empty() { return m; }
	let n = m.classes.len();
	let ci = rng.below(n);
	match kind {
		"space-in-token" => match rng.below(3) {
			0 => { m.classes[ci].names[1] = Some(s("a b")); }
			1 => { if let Some(f) = m.classes[ci].fields.first_mut() { f.desc = s("L a;"); } else { m.classes[ci].names[1] = Some(s("a\tb")); } }
			_ => { if let Some(me) = m.classes[ci].methods.first_mut() { me.names[1] = Some(s("x\u{b}y")); } else { m.classes[ci].names[1] = Some(s("a\u{c}b")); } }
		},
		"hash-in-token" => { if rng.chance(1, 2) { m.classes[ci].names[1] = Some(s("pkg/A#B")); } else if let Some(f) = m.classes[ci].fields.first_mut() { f.names[1] = Some(s("#f")); } else { m.classes[ci].names[1] = Some(s("#")); } }
		"acc-target" => { m.classes[ci].names[1] = Some(s("ACC:Foo")); }
		"acc-desc" => { m.classes[ci].fields.push(MField { desc: s("ACC:I"), names: vec![Some(s("accf")), Some(s("t"))], doc: None }); }
		"dup-file" => { let t = file_name(&m.classes[ci]); m.classes.push(MClass { names: vec![Some(s("zz/Other")), Some(t)], doc: None, fields: vec![], methods: vec![] }); }
		"nesting-not-followed" => {
			let k = key(&m.classes[ci]);
			let mut ik = k.clone(); ik.extend(s("$Inner"));
			if !m.classes.iter().any(|c| key(c) == ik) { m.classes.push(MClass { names: vec![Some(ik), Some(s("elsewhere/Inner"))], doc: None, fields: vec![], methods: vec![] }); }
		}
		"param-no-target" => { m.classes[ci].methods.push(MMeth { desc: s("(I)V"), names: vec![Some(s("noTarget")), None], doc: None, params: vec![MParam { index: 0, names: vec![Some(s("p")), None], doc: None }] }); }
		"param-src-name" => { m.classes[ci].methods.push(MMeth { desc: s("(IJ)V"), names: vec![Some(s("withSrc")), Some(s("t"))], doc: None, params: vec![MParam { index: 1, names: vec![Some(s("srcName")), Some(s("x"))], doc: None }] }); }
		"comment-ctl" => {
			// the one comment shape the format cannot store: a line ending in CR — at every place a comment can stand
			let d = Some(s(*rng.pick(&["end\r", "a\r\nb", "\r", "a\n\r", "\r\n", "x\r\n\ny", "tab\t\r", " \r"][..])));
			let c = &mut m.classes[ci];
			match rng.below(4) {
				1 if !c.fields.is_empty() => { let k = rng.below(c.fields.len()); c.fields[k].doc = d; }
				2 if !c.methods.is_empty() => { let k = rng.below(c.methods.len()); c.methods[k].doc = d; }
				3 if c.methods.iter().any(|me| !me.params.is_empty()) => { let me = c.methods.iter_mut().find(|me| !me.params.is_empty()).unwrap(); me.params[0].doc = d; }
				_ => c.doc = d,
			}
		}
		"invalid-name" => match rng.below(3) {
			0 => { m.classes[ci].fields.push(MField { desc: s("I"), names: vec![Some(s("a/b")), None], doc: None }); }
			1 => { m.classes[ci].methods.push(MMeth { desc: s("()V"), names: vec![Some(s("<x>")), None], doc: None, params: vec![] }); }
			_ => { m.classes[ci].names[1] = Some(s("a//b")); }
		},
		"empty-desc" => { m.classes[ci].fields.push(MField { desc: vec![], names: vec![Some(s("nodesc")), Some(s("t"))], doc: None }); }
		"surrogate" => {
			// only where the code handles it (file names); below that level the writer panics, see `surrogate_members`
			let roots: Vec<usize> = (0..n).filter(|&i| parent_in(&m, &m.classes[i]).is_none()).collect();
			let i = *rng.pick(&roots[..]);
			let kids: Vec<S> = m.classes.iter().filter(|c| parent_in(&m, c).map(key) == Some(key(&m.classes[i]))).map(key).collect();
			m.classes[i].names[1] = Some(vec![0x41, 0xD800]);
			// children of that class would have to follow the nesting with a surrogate target: drop them
			m.classes.retain(|c| !kids.iter().any(|k| key(c).starts_with(k)));
		}
		_ => { m.classes[ci].fields.push(MField { desc: s("I\u{a0}"), names: vec![Some(s("nb")), None], doc: None }); }
	}
	m
}

fn mutate_text(rng: &mut Rng, t: &mut S) {
	const INS: [&str; 14] = ["\t", " ", "\n", "#", "CLASS X Y\n", "\tFIELD q I\n", "\t\tARG +1 z\n", "\tCOMMENT c\n", "\t\tCOMMENT c\n", " ACC:pub", "\r", "\tMETHOD m ()V\n", "\t\t\tCOMMENT deep\n", "ARG 0 a\n"];
	match rng.below(5) {
		0 if !t.is_empty() => { let i = rng.below(t.len()); t.remove(i); }
		1 if !t.is_empty() => { // delete a whole line
			let starts: Vec<usize> = std::iter::once(0).chain(t.iter().enumerate().filter(|(_, &c)| c == 10).map(|(i, _)| i + 1)).filter(|&i| i < t.len()).collect();
			let a = *rng.pick(&starts[..]); let b = t[a..].iter().position(|&c| c == 10).map_or(t.len(), |p| a + p + 1);
			t.drain(a..b);
		}
		2 if !t.is_empty() => { // duplicate a line
			let starts: Vec<usize> = std::iter::once(0).chain(t.iter().enumerate().filter(|(_, &c)| c == 10).map(|(i, _)| i + 1)).filter(|&i| i < t.len()).collect();
			let a = *rng.pick(&starts[..]); let b = t[a..].iter().position(|&c| c == 10).map_or(t.len(), |p| a + p + 1);
			let l: S = t[a..b].to_vec(); let at = *rng.pick(&starts[..]);
			for (k, c) in l.into_iter().enumerate() { t.insert(at + k, c); }
		}
		_ => { // insert at a line start or anywhere
			let ins = s(*rng.pick(&INS[..]));
			let at = if rng.chance(1, 2) || t.is_empty() { rng.below(t.len() + 1) } else {
				let starts: Vec<usize> = std::iter::once(0).chain(t.iter().enumerate().filter(|(_, &c)| c == 10).map(|(i, _)| i + 1)).collect();
				*rng.pick(&starts[..])
			};
			for (k, c) in ins.into_iter().enumerate() { t.insert(at + k, c); }
		}
	}
}

/// hand-written reader inputs: every handler × every shape the tokeniser and the patterns distinguish
const HAND: [&str; 44] = [
	"", "\n", "#\n", "   \n\t\n", "CLASS A\n", "CLASS A B\n", "CLASS A B ACC:x\n", "CLASS A ACC:x\n", "CLASS A ACC:x B\n", "CLASS A B C D\n", "CLASS\n",
	"CLASS A B # c\n", "CLASS A#B\n", "  CLASS A B  \n", "CLASS  A\n", "CLASS A\r\n\tFIELD a I\r\n", "CLASS A\n\tFIELD a I\n\tFIELD a b I\n",
	"CLASS A\n\tFIELD a I\n\tFIELD a J\n", "CLASS A\n\tFIELD a b I ACC:p\n\tFIELD c I ACC:q\n\tFIELD d ACC:r I\n", "CLASS A\n\tFIELD a\n", "CLASS A\n\tFIELD a b c d e\n",
	"CLASS A\n\tMETHOD <init> ()V\n\t\tARG 1 x\n\t\t\tCOMMENT a\n\t\t\tCOMMENT  b\n\t\tCOMMENT m\n\t\tARG 2 y\n\t\tCOMMENT n\n", "CLASS A\n\tMETHOD m ()V\n\t\tARG 1 x\n\t\tARG 1 y\n",
	"CLASS A\n\tMETHOD m ()V\n\t\tARG -1 x\n", "CLASS A\n\tMETHOD m ()V\n\t\tARG +1 x\n", "CLASS A\n\tMETHOD m ()V\n\t\tARG 18446744073709551615 x\n", "CLASS A\n\tMETHOD m ()V\n\t\tARG 18446744073709551616 x\n",
	"CLASS A\n\tMETHOD m ()V\n\t\tARG 1\n", "CLASS A\n\tMETHOD m ()V\n\t\tARG + x\n", "CLASS A\n\tMETHOD m ()V\n\t\tFIELD a I\n", "CLASS A\n\tMETHOD <x> ()V\n", "CLASS A\n\tMETHOD m <clinit> ()V\n",
	"CLASS A\n\tCOMMENT a\n\t\tCOMMENT deeper\n", "CLASS A\n\t\tFIELD a I\n", "\tCLASS A\n", "FIELD a I\n", "CLASS A\nCLASS A\n", "CLASS A B\n\tCLASS C D\n\t\tCLASS E\n\tCLASS F\nCLASS A$C\n",
	"CLASS A B\n\tCLASS C D\n\t\tCLASS E F\n\t\t\tFIELD x y I\n\t\t\t\tCOMMENT deep # not a comment\n\tCOMMENT after\n", "CLASS a/b/C\n\tCLASS 1\n\tCLASS 2 3\n", "CLASS A\n\tCOMMENT\n\tCOMMENT \n\tCOMMENTARY x y\n",
	"CLASS A\n\tFIELD a I\n\t\tCOMMENT f\n\t\tARG 1 x\n", "CLASS a//b\n", "CLASS A [I\n",
];

/// round 4: reader exactness — nesting, prefix re-attachment, duplicates spelled in different ways, members between nested classes,
/// comments interleaved with parameters, tags in the wrong place, lines below leaves, empty / spaced comments, `#` handling
const HAND2: [&str; 45] = [
	// a line that has a blank before `COMMENT` is no COMMENT line for the tokeniser: trimmed, cut at `#`, split at every separator
	"CLASS A\n\t COMMENT a  b # c\n", "CLASS A\n\tCOMMENT# x\ty\n\tCOMMENTS a\tb\n", "CLASS A\n\tFIELD a I\n\t\tCOMMENT\u{a0}nbsp is no separator\n",
	// round 5: the text of a COMMENT line is everything after the first separator, whatever the separator and the text are
	"CLASS A\n\tCOMMENT\ta\tb\n", "CLASS A\n\tCOMMENT a\tb  c \n\tCOMMENT \t\n", "CLASS A\n\tCOMMENT\u{b}x\u{c}y\n", "CLASS A\n\tCOMMENT a\r\n\tCOMMENT b\r\r\n", "CLASS A\n\tCOMMENT a\rb\n",
	"CLASS A\n\tFIELD a I\n\t\tCOMMENT  two  spaces\t#\tkept \n", "CLASS A\n\tMETHOD m ()V\n\t\tARG 0 p\n\t\t\tCOMMENT\t\n\t\t\tCOMMENT \n\t\t\tCOMMENT\n", "CLASS A\n\tCOMMENT\r\n\tCOMMENT \r\n",
	"CLASS A\n\tCLASS B\nCLASS A$B\n", "CLASS A$B\nCLASS A\n\tCLASS B\n", "CLASS A\n\tCLASS B\n\tCLASS B\n", "CLASS A X\n\tCLASS B Y\n\t\tCLASS C\n\t\t\tCLASS D Z\n",
	"CLASS A\n\tFIELD a I\n\tCLASS B\n\tFIELD b I\n\tMETHOD m ()V\n\tCLASS C\n\t\tMETHOD n ()V\n\tCOMMENT x\n\tFIELD c I\n",
	"CLASS A\n\tMETHOD m ()V\n\t\tCOMMENT a\n\t\tARG 0 p\n\t\t\tCOMMENT b\n\t\tCOMMENT c\n\t\tARG 1 q\n\t\t\tCOMMENT d\n\t\t\tCOMMENT e\n",
	"CLASS A\n\tMETHOD m ()V\n\tMETHOD m ()V\n", "CLASS A\n\tMETHOD m ()V\n\tMETHOD m x ()V\n", "CLASS A\n\tMETHOD m ()V\n\tMETHOD m ()I\n", "CLASS A\n\tMETHOD m ()V\n\t\tARG 1 a\n\t\tARG 01 b\n",
	"CLASS A\n\tMETHOD m ()V\n\t\tARG 1 a\n\t\tARG +1 b\n", "CLASS A\n\tFOO x\n", "CLASS A\n\tMETHOD m ()V\n\t\tARG 1 a\n\t\t\tFIELD x I\n", "CLASS A\n\tFIELD a I\n\t\t\tCOMMENT deep\n",
	"CLASS A\n\tCOMMENT\n", "CLASS A\n\tCOMMENT\n\tCOMMENT\n", "CLASS A\n\tCOMMENT  two  spaces \n", "CLASS A\n\tCOMMENT# x\n", "CLASS A\n\tCOMMENT #\n\tCOMMENT a#b # c\n", "CLASS A # trailing\n\tFIELD a I # c\n\t# whole line\n\tFIELD b J\n",
	"\u{feff}CLASS A\n", "CLASS A\n \tFIELD a I\n", "CLASS A\n\t FIELD a I\n", "CLASS A B\n\tCLASS ACC:x\n", "CLASS A B\n\tCLASS C ACC:pub\n\t\tCLASS D E\n", "CLASS A B\n\tCLASS C D ACC:pub\n\t\tCLASS E F G\n",
	"CLASS A\n\tCLASS B\n\t\tFIELD x I\n\tFIELD x I\nCLASS C\n\tFIELD x I\n", "CLASS A\n\n\n\tFIELD a I\n\n", "CLASS A\n\tFIELD a I\nFIELD b I\n", "CLASS A\n\tMETHOD m ()V\n\t\tCLASS B\n",
	"CLASS A\n\tCLASS B\n\t\tCLASS C\n\tCLASS B$C\n", "CLASS p/A q/B\n\tCLASS 1 2\n\t\tCLASS 1 2\n", "CLASS A\n\tFIELD a I\n\t\tCOMMENT x\n\t\t\tCOMMENT y\n", "CLASS A\n\tCOMMENT x\n\tCLASS B\n\tCOMMENT y\n",
];

/// comment shapes for the deterministic comment stream (every shape at every place a comment can stand)
const DOCS2: [&str; 44] = ["", "\n", "\n\n", "a\n", "a\n\n", "\na", "a\n\nb\n", " ", "  ", " \n ", "trailing ", " leading", "#", "# x\n# y", "a # b", "COMMENT x", "COMMENT", "CLASS A B",
	"x\u{85}y", "\u{85}", "x\u{2028}y", "\u{a0}", "\u{3000}end\u{3000}", "many   spaces   inside", "\u{1F600}\n\u{1F600}", "ACC:x",
	// round 5: two spaces, leading / trailing / only spaces next to line breaks, TAB / VT / FF / inner CR at the start, inside, at the
	// end of a line and alone, pairs that differ only in the kind of white space
	"a  b", "a b", "a\tb", "a\t\tb", "\ta", "a\t", "\t", "\t\n\t", "  \n  \n", "a \nb", "a\n b", "a\u{b}b", "a\u{c}", "\u{c}\u{b}", "a\rb", "\ra", "\r \n x", " \t\u{b}\u{c}\r "];
fn doc_set(doc: &str, place: usize) -> MMappings {
	let other = Some(s("other"));
	let d = Some(s(doc));
	let pick = |k: usize| if k == place { d.clone() } else if (k + place) % 2 == 0 { other.clone() } else { None };
	mm(vec![MClass { names: vec![Some(s("p/Doc")), Some(s("q/Doc"))], doc: pick(0),
		fields: vec![MField { desc: s("I"), names: vec![Some(s("f")), Some(s("g"))], doc: pick(1) }, MField { desc: s("J"), names: vec![Some(s("f")), None], doc: pick(4) }],
		methods: vec![MMeth { desc: s("(II)V"), names: vec![Some(s("m")), Some(s("n"))], doc: pick(2), params: vec![MParam { index: 0, names: vec![None, Some(s("a"))], doc: pick(3) }, MParam { index: 1, names: vec![None, Some(s("b"))], doc: pick(5) }] }] },
		MClass { names: vec![Some(s("p/Doc$In")), Some(s("q/Doc$In"))], doc: pick(6), fields: vec![], methods: vec![] }])
}

/// chains with a missing link: the direct outer class of some class is absent while a further-out class is present
fn orphan_chain_sets() -> Vec<MMappings> {
	let c = |src: &str, dst: Option<&str>, doc: Option<&str>, members: bool| MClass { names: vec![Some(s(src)), dst.map(s)], doc: doc.map(s),
		fields: if members { vec![MField { desc: s("I"), names: vec![Some(s("f")), Some(s("g"))], doc: Some(s("fd\n")) }] } else { vec![] },
		methods: if members { vec![MMeth { desc: s("(I)V"), names: vec![Some(s("<init>")), Some(s("<init>"))], doc: None, params: vec![MParam { index: 1, names: vec![None, Some(s("p"))], doc: Some(s("")) }] }] } else { vec![] } };
	vec![
		mm(vec![c("A", Some("X"), None, false), c("A$B$C", Some("far/Away"), Some("orphan below a present class"), true)]),
		mm(vec![c("A$B$C", Some("far/Away"), None, true), c("A", Some("X"), None, true)]),
		mm(vec![c("A$B$C", None, None, false)]),
		mm(vec![c("A", None, None, false), c("A$B$C", None, Some(""), false), c("A$B$C$D", None, None, true)]),
		mm(vec![c("A", Some("X"), None, false), c("A$B$C", Some("Y$Z"), None, false), c("A$B$C$D", Some("Y$Z$W"), None, true), c("A$B$C$D$E", None, Some("e\n"), false)]),
		mm(vec![c("A", Some("X"), None, false), c("A$B", Some("X$B"), None, false), c("A$B$C$D", Some("Q"), None, true), c("A$B$C$D$E$F", Some("R$S"), None, false), c("A$B$C$D$E$F$G", Some("R$S$T"), None, false)]),
		mm(vec![c("p/q/A", Some("r/A"), None, true), c("p/q/A$1$2", None, None, true), c("p/q/A$1$2$3", None, None, false), c("p/q/A$9", Some("r/A$9"), None, false)]),
		mm(vec![c("A$B$C", Some("K"), None, false), c("A$B$D", Some("L"), None, false), c("A", Some("M"), None, false), c("A$E", None, None, false)]),
		// the same file name would be used twice: refused (not silently dropped)
		mm(vec![c("A", Some("X"), None, false), c("A$B$C", Some("X"), None, false)]),
	]
}

/// file names that are special to the file system or to Path: `.`/`..`/absolute (must be refused), NUL and over-long components
/// (the file system refuses them), multi-byte names around the 255-byte limit, deep directories
fn special_dir_names(escape: &str) -> Vec<S> {
	let rep = |c: char, n: usize| -> String { std::iter::repeat(c).take(n).collect() };
	let mut v: Vec<String> = vec!["a.b".into(), "..".into(), ".".into(), "../x".into(), "x/../../y".into(), "x/./y".into(), ".hidden".into(), "trailing.".into(), "/abs/X".into(), format!("{escape}/X"), "/".into(),
		"a\0b".into(), "d/\0".into(), "\0".into(),
		rep('x', 246), rep('x', 247), rep('x', 248), rep('x', 255), rep('x', 300),
		format!("{}/x", rep('d', 255)), format!("{}/x", rep('d', 256)), format!("{}/{}", rep('d', 255), rep('f', 247)), format!("{}/{}", rep('d', 255), rep('f', 248)),
		format!("{}x", rep('\u{e9}', 123)), rep('\u{e9}', 124), format!("{}xyz", rep('\u{1F600}', 61)), rep('\u{1F600}', 62), format!("{}x", rep('\u{20AC}', 82)), format!("{}xx", rep('\u{20AC}', 82)),
		(0..12).map(|i| format!("dir{i}")).collect::<Vec<_>>().join("/"), "back\\slash".into(), "sp ace".into(), "COM1".into(), "a:b".into(), "star*".into(), "q?".into(), "UPPER".into(), "upper".into()];
	v.push(format!("{}/{}/{}", rep('a', 255), rep('b', 255), rep('c', 247)));
	v.into_iter().map(|x| cps_str(&x)).collect()
}

fn gen_dir_files(rng: &mut Rng) -> Vec<(S, S)> {
	// directory names never contain '.', file names always do: no file/directory clash
	const DIRS: [&str; 5] = ["a", "b", "a-b", "net", "A"];
	const FILES: [&str; 9] = ["A.mapping", "a.mapping", "B.mapping", "b.txt", "C.mapping.bak", ".mapping", "x.y.mapping", "a-.mapping", "A$B.mapping"];
	let mut out: BTreeMap<S, S> = BTreeMap::new();
	let mut counter = 0;
	for _ in 0..rng.range(0, 6) {
		let mut p = String::new();
		for _ in 0..rng.below(3) { p.push_str(*rng.pick(&DIRS[..])); p.push('/'); }
		p.push_str(*rng.pick(&FILES[..]));
		counter += 1;
		let content = match rng.below(6) {
			0 => String::new(),
			1 => "garbage\n".to_owned(),
			2 => "CLASS Same X\n".to_owned(), // collides when chosen twice
			_ => format!("CLASS p/K{counter} q/L{counter}\n\tFIELD a b I\n\tCLASS In{counter}\n"),
		};
		out.insert(cps_str(&p), cps_str(&content));
	}
	out.into_iter().collect()
}

/// every numeral of a case term is an N: those below 128 are printed as the constants c0..c127 of C12/Run.v
fn compact(term: &str) -> String {
	let b = term.as_bytes();
	let mut out = String::with_capacity(term.len() + term.len() / 3);
	let mut i = 0;
	while i < b.len() {
		if b[i].is_ascii_digit() && (i == 0 || !(b[i - 1].is_ascii_alphanumeric() || b[i - 1] == b'_')) {
			let mut j = i; while j < b.len() && b[j].is_ascii_digit() { j += 1; }
			let lit = &term[i..j];
			if lit.len() <= 3 && lit.parse::<u32>().map_or(false, |v| v < 128) && !(lit.len() > 1 && lit.starts_with('0')) { out.push('c'); }
			out.push_str(lit); i = j;
		} else { out.push(b[i] as char); i += 1; }
	}
	out
}
/// reorder the cases so that the shards (fixed number of cases each) get about the same number of bytes
fn balance(r: &mut Report, shards: usize) {
	let mut cs = std::mem::take(&mut r.cases);
	cs.sort_by_key(|c| std::cmp::Reverse(c.len()));
	let k = shards.max(1);
	let mut buckets: Vec<Vec<String>> = vec![vec![]; k];
	for (i, c) in cs.into_iter().enumerate() { let round = i / k; let pos = if round % 2 == 0 { i % k } else { k - 1 - i % k }; buckets[pos].push(c); }
	let per = buckets.iter().map(|b| b.len()).max().unwrap_or(1).max(1);
	r.shard_size = per;
	let mut flat = vec![];
	// chunks() cuts by count: buckets with `per` cases first, those that are one short last
	buckets.sort_by_key(|b| std::cmp::Reverse(b.len()));
	for b in buckets { flat.extend(b); }
	r.cases = flat;
}

// ---------- oracle ----------
fn replay(what: &str, m: &MMappings, extra: &str) -> String {
	let mut t = format!("property C12\nwhat: {what}\nmapping set (two namespaces; classes in insertion order):\n");
	for c in &m.classes {
		t += &format!("  class {:?} -> {:?} doc {:?}\n", show(&key(c)), dst(c).map(|d| show(&d)), c.doc.as_ref().map(|d| show(d)));
		for f in &c.fields { t += &format!("    field {:?} {:?} -> {:?} doc {:?}\n", show(f.names[0].as_deref().unwrap_or(&[])), show(&f.desc), f.names[1].as_ref().map(|d| show(d)), f.doc.as_ref().map(|d| show(d))); }
		for me in &c.methods {
			t += &format!("    method {:?} {:?} -> {:?} doc {:?}\n", show(me.names[0].as_deref().unwrap_or(&[])), show(&me.desc), me.names[1].as_ref().map(|d| show(d)), me.doc.as_ref().map(|d| show(d)));
			for p in &me.params { t += &format!("      param {} {:?} -> {:?} doc {:?}\n", p.index, p.names[0].as_ref().map(|d| show(d)), p.names[1].as_ref().map(|d| show(d)), p.doc.as_ref().map(|d| show(d))); }
		}
	}
	t += &format!("as Gallina: {}\n{extra}", g_classes(&m.classes));
	t
}

/// CLASS lines of a written text: (indentation, first token after CLASS)
fn class_lines(text: &S) -> Vec<(usize, S)> {
	let mut out = vec![];
	for l in text.split(|&c| c == 10) {
		let ind = l.iter().take_while(|&&c| c == 9).count();
		let rest = &l[ind..];
		if rest.starts_with(&s("CLASS ")) { out.push((ind, rest[6..].split(|&c| c == 32).next().unwrap_or(&[]).to_vec())); }
	}
	out
}

/// the text without the lines that start with `#` (comment lines; a COMMENT line starts with a tab)
fn strip_hash_lines(t: &S) -> S {
	let mut out = vec![];
	for l in t.split_inclusive(|&c| c == 10) { if l.first() != Some(&('#' as u32)) { out.extend_from_slice(l); } }
	out
}

/// Everything the property states, on the implementation alone, for a mapping set inside the hypotheses.
fn oracle(r: &mut Report, rng: &mut Rng, m: &MMappings, sc: &mut Scratch, with_dir: bool) {
	crumb(&replay("the harness process died (stack overflow, abort or timeout) while this mapping set was written / read back", m, ""));
	let want = mm(norm(m).classes);
	// round trip through one stream
	let text = match impl_write_all(m) {
		Ok(Some(t)) => t,
		Ok(None) => { r.violation("write_all fails on a mapping set the format can express".into(), replay("write_all returned an error", m, "")); return; }
		Err(p) => { r.violation(format!("write_all panicked: {p}"), replay("write_all panicked", m, &p)); return; }
	};
	match impl_read(&text) {
		Ok(Some(back)) => {
			if !mm(back.clone()).equiv(&want) {
				let lost: Vec<String> = want.classes.iter().filter(|c| !back.iter().any(|b| key(b) == key(c))).map(|c| show(&key(c))).collect();
				let what = if !lost.is_empty() { format!("round trip write_all -> read_into loses the classes with source keys {lost:?} ({} written, {} read back)", want.classes.len(), back.len()) }
					else { "round trip write_all -> read_into changes the mappings".to_owned() };
				r.violation(what.clone(), replay(&what, m, &format!("written text:\n{}\nread back (Gallina): {}\n", text_of(&text), g_classes(&back))));
			}
		}
		Ok(None) => r.violation("read_into rejects what write_all wrote".into(), replay("read_into returned an error on the text written by write_all", m, &format!("written text:\n{}\n", text_of(&text)))),
		Err(p) => r.violation(format!("read_into panicked: {p}"), replay("read_into panicked", m, &p)),
	}
	// sorted output, line by line: the written text (its `#` header lines aside) is what the independent reference writer gives
	let want_text = ref_write(m);
	if strip_hash_lines(&text) != want_text {
		let (a, b) = (text_of(&strip_hash_lines(&text)), text_of(&want_text));
		let first = a.lines().zip(b.lines()).position(|(x, y)| x != y).unwrap_or(a.lines().count().min(b.lines().count()));
		r.violation("write_all does not write what the format prescribes: classes, fields, methods, parameters in sorted order, one line each, comments below them".into(),
			replay("written text differs from the independent reference writer", m, &format!("first differing line: {}\nwritten text:\n{}\nexpected (without the `#` lines):\n{}\n", first + 1, text_of(&text), b)));
	}
	// nesting in the text mirrors nesting of the source names; every class is there exactly once
	let cl = class_lines(&text);
	if cl.len() != m.classes.len() {
		r.violation(format!("{} classes in the set, {} CLASS lines written", m.classes.len(), cl.len()), replay("number of CLASS lines differs from the number of classes", m, &format!("written text:\n{}\n", text_of(&text))));
	} else {
		// (indentation, first token) of every CLASS line: depth of the chain of present ancestors, and the full source
		// name at depth 0 / the part after the last `$` below a parent
		let mut want_lines: Vec<(usize, S)> = m.classes.iter().map(|c| { let d = depth(m, c); (d, if d == 0 { key(c) } else { split_inner(&key(c)).map(|x| x.1).unwrap_or_else(|| key(c)) }) }).collect();
		want_lines.sort();
		let mut got = cl.clone(); got.sort();
		if want_lines != got { r.violation("indentation depths / names of the CLASS lines differ from the nesting of the source names".into(), replay("nesting not mirrored", m, &format!("written text:\n{}\n", text_of(&text)))); }
	}
	// exactly one file: write_one per file name; every class must be read back from exactly one of them
	let mut per_file: BTreeMap<S, usize> = BTreeMap::new();
	let roots: Vec<&MClass> = m.classes.iter().filter(|c| parent_in(m, c).is_none()).collect();
	let mut concat: S = vec![];
	let mut names: Vec<S> = roots.iter().map(|c| file_name(c)).collect(); names.sort();
	for fname in &names {
		match impl_write_one(m, &text_of(fname)) {
			Ok(Some(t)) => {
				if let Ok(Some(cs)) = impl_read(&t) { for c in cs { *per_file.entry(key(&c)).or_insert(0) += 1; } }
				let expect: BTreeSet<S> = m.classes.iter().filter(|c| file_name(root_of(m, c)) == *fname).map(key).collect();
				let got: BTreeSet<S> = impl_read(&t).ok().flatten().unwrap_or_default().iter().map(key).collect();
				if expect != got { r.violation(format!("file {:?} holds the classes {:?}, expected {:?}", show(fname), got.iter().map(|k| show(k)).collect::<Vec<_>>(), expect.iter().map(|k| show(k)).collect::<Vec<_>>()), replay("wrong classes in a file", m, &format!("file text:\n{}\n", text_of(&t)))); }
				concat.extend(t);
			}
			other => r.violation(format!("write_one fails for file name {:?}: {:?}", show(fname), other.err()), replay("write_one failed for a parent-free class", m, "")),
		}
	}
	for c in &m.classes {
		let n = per_file.get(&key(c)).copied().unwrap_or(0);
		if n != 1 { r.violation(format!("class {:?} is in {n} files, expected exactly one", show(&key(c))), replay("a class is not in exactly one file", m, "")); }
	}
	// the `#` lines write_all puts in front of every file's part are comments, no part of the property: compared without them
	if strip_hash_lines(&concat) != strip_hash_lines(&text) { r.violation("write_all is not the concatenation of the files in sorted order (comment lines aside)".into(), replay("write_all differs from the sorted write_one outputs", m, &format!("write_all:\n{}\nconcatenation:\n{}\n", text_of(&text), text_of(&concat)))); }
	// determinism: another insertion order writes the same bytes
	for _ in 0..2 {
		let m2 = shuffled(rng, m);
		match impl_write_all(&m2) {
			Ok(Some(t2)) if t2 == text => {}
			other => r.violation("write_all depends on the insertion order".into(), replay("output differs for another insertion order of the same mappings", m, &format!("first order:\n{}\nsecond order: {}\n{:?}\n", text_of(&text), g_classes(&m2.classes), other.map(|o| o.map(|t| text_of(&t)))))),
		}
	}
	// directory variant
	if with_dir && names.iter().all(|n| !n.contains(&('.' as u32)) && n.first() != Some(&SLASH)) {
		match impl_write_dir(m, sc) {
			Ok(Some(files)) => {
				let expect: Vec<S> = { let mut v: Vec<S> = names.iter().map(|n| { let mut p = n.clone(); p.extend(s(".mapping")); p }).collect(); v.sort(); v };
				let gotn: Vec<S> = files.iter().map(|f| f.0.clone()).collect();
				if expect != gotn { r.violation("enigma_dir::write creates other files than one per parent-free class".into(), replay("wrong set of files", m, &format!("files: {:?}\n", gotn.iter().map(|p| show(p)).collect::<Vec<_>>()))); }
				if let Ok(got) = impl_read_dir(&files, sc) { dir_read_oracle(r, &files, &got); }
				match impl_read_dir(&files, sc) {
					Ok(Some(back)) if mm(back.clone()).equiv(&want) => {}
					other => r.violation("round trip enigma_dir::write -> enigma_dir::read changes the mappings".into(), replay("directory round trip", m, &format!("files: {}\nread back: {:?}\n", g_files(&files), other.map(|o| o.map(|b| g_classes(&b)))))),
				}
				let m2 = shuffled(rng, m);
				match impl_write_dir(&m2, sc) { Ok(Some(f2)) if f2 == files => {}, _ => r.violation("enigma_dir::write depends on the insertion order".into(), replay("directory output differs for another insertion order", m, "")) }
			}
			other => r.violation(format!("enigma_dir::write fails: {:?}", other.err()), replay("enigma_dir::write failed on a mapping set the format can express", m, "")),
		}
	}
}

/// the correspondence case of one mapping set (any stream): the whole public API on it
fn cases(r: &mut Report, rng: &mut Rng, stream: &str, m: &MMappings, sc: &mut Scratch, with_dir: bool) { cases_x(r, rng, stream, m, sc, with_dir, false) }
/// `any_name`: also hand names to enigma_dir::write that are special to the file system (the model describes NUL and over-long components)
fn cases_x(r: &mut Report, rng: &mut Rng, stream: &str, m: &MMappings, sc: &mut Scratch, with_dir: bool, any_name: bool) {
	crumb(&replay("the harness process died (stack overflow, abort or timeout) while this mapping set was written / read back", m, ""));
	let gm = g_classes(&m.classes);
	let wall = match impl_write_all(m) {
		Err(p) if p.starts_with("not buildable") => { r.count("not_buildable"); return; }
		Err(p) => { r.violation(format!("write_all panicked: {p}"), replay("write_all panicked", m, &p)); return; }
		Ok(t) => t,
	};
	r.count(if wall.is_some() { "write_all_ok" } else { "write_all_err" });
	let mut back = None;
	if let Some(t) = &wall {
		match impl_read(t) {
			Ok(b) => { r.count(if b.is_some() { "read_written_ok" } else { "read_written_err" }); back = Some(b); }
			Err(p) => r.violation(format!("read_into panicked: {p}"), replay("read_into panicked", m, &p)),
		}
	}
	// write_one: an existing file name, the file name a nested class would have, and a name that is not a file
	let roots: Vec<S> = m.classes.iter().filter(|c| parent_in(m, c).is_none()).map(file_name).filter(|n| scalar(n)).collect();
	let mut names: Vec<S> = vec![];
	if !roots.is_empty() { names.push(rng.pick(&roots[..]).clone()); }
	if rng.chance(1, 3) { if let Some(c) = m.classes.iter().find(|c| parent_in(m, c).is_some() && scalar(&file_name(c))) { names.push(file_name(c)); } }
	if rng.chance(1, 3) { names.push(s("no/such/File")); }
	let mut ones = vec![];
	for n in names {
		match impl_write_one(m, &text_of(&n)) {
			Ok(t) => ones.push(gpair(gstr(&n), gres(t.map(|t| gstr(&t))))),
			Err(p) => r.violation(format!("write_one panicked: {p}"), replay("write_one panicked", m, &p)),
		}
	}
	let (mut dirw, mut dirback) = (None, None);
	let mut dirw_raw: Option<bool> = None; // Some(true): enigma_dir::write succeeded
	if with_dir {
		// keep the file system out of what the model does not describe: plain path characters only
		let plain = m.classes.iter().filter(|c| parent_in(m, c).is_none()).map(file_name).all(|n| scalar(&n) && obj_name(&n) && n.iter().all(|&c| c > 32 && c != 127 && c != '\\' as u32));
		if plain || any_name {
			match impl_write_dir(m, sc) {
				Ok(fs) => {
					r.count(if fs.is_some() { "write_dir_ok" } else { "write_dir_err" });
					dirw_raw = Some(fs.is_some());
					if let Some(fs) = &fs { match impl_read_dir(fs, sc) { Ok(b) => dirback = Some(gres(b.map(|b| g_classes(&b)))), Err(p) => r.violation(format!("enigma_dir::read panicked: {p}"), replay("enigma_dir::read panicked", m, &p)) } }
					dirw = Some(gres(fs.as_ref().map(|f| g_files(f))));
				}
				Err(p) => r.violation(format!("enigma_dir::write panicked: {p}"), replay("enigma_dir::write panicked", m, &p)),
			}
		}
	}
	// on the implementation alone: a comment the format cannot store (a line ending in CR) must make both writers fail —
	// writing it would lose the CR silently
	if all_docs(m).iter().any(|d| !doc_ok(d)) {
		r.count("unstorable_comment_sets");
		if let Some(t) = &wall {
			let back = impl_read(t).ok().flatten();
			r.violation("write_all writes a comment that cannot be read back (a comment line ending in CR), instead of failing".into(),
				replay("a comment line ending in a carriage return was written; reading takes the CR for a part of the line break", m, &format!("written text (code points): {}\nread back (Gallina): {:?}\n", gstr(t), back.map(|b| g_classes(&b)))));
		}
		if dirw_raw == Some(true) {
			r.violation("enigma_dir::write writes a comment that cannot be read back (a comment line ending in CR), instead of failing".into(), replay("a comment line ending in a carriage return was written into the directory", m, ""));
		}
	}
	r.case(stream, compact(&format!("CSet {gm} {} {} {} {} {} {}", gbool(enigma_ok(m).is_ok()), gres(wall.as_ref().map(|t| gstr(t))), gopt(back.map(|b| gres(b.map(|b| g_classes(&b))))), glist(ones), gopt(dirw), gopt(dirback))));
}

pub fn run(ctx: &Ctx) -> anyhow::Result<Report> {
	let mut r = Report::new("C12", "C12.Run");
	r.shard_size = if ctx.thorough { 300 } else { 60 };
	let mut rng = Rng::new(ctx.seed);
	let mut sc = Scratch::new(ctx.seed)?;
	let n_valid = if ctx.thorough { 3000 } else { 320 };
	let n_viol = if ctx.thorough { 120 } else { 16 };
	let n_mut = if ctx.thorough { 2500 } else { 300 };
	r.rule = format!("valid stream: {n_valid} two-namespace mapping sets from mapmodel::gen_mappings (0..7 classes, `$`-nested source names, packages, unicode, absent targets, <init> members) plus, in half of the classes, 1-3 methods from the table (<init>, <clinit>, run, COMMENT) x target (absent, <init>, <clinit>, identical to the source, other, ACC:t, and since round 7 the near-keyword names xACC:t, tACC:, acc:t with descriptors that contain `ACC:` inside), identity-mapped methods, fields (1/8) and classes (1/10) \
post-processed so that they satisfy enigma_ok (nested targets = target-or-source of the parent + `$` + simple name or absent, parameters get targets and lose their first-namespace name, duplicate file names removed), with orphan inner classes \
(a parent dropped in 1/3 of the sets), root targets containing `$`, comments from 28 shapes (blank lines, leading/trailing/only spaces, runs of spaces, TAB / VT / FF / a CR inside a line, `#`, empty, NBSP); every set goes through the full oracle on the implementation \
(stream and directory round trip against an independent normaliser, one CLASS line per class with depth = source nesting depth, every class in exactly one write_one file, write_all = concatenation of the sorted files apart from `#` lines, 2+1 shuffled insertion orders; the normaliser drops nothing but an `<init>` target) \
and yields one CSet case (write_all, read_into of the written text, write_one for 1-3 names, every 4th set enigma_dir::write and ::read); the complete special-method table as 4 fixed sets (stream `special`, full oracle); {n_viol} sets for each of {} hypothesis-violating kinds (correspondence only; for `param-src-name` the documented loss is observed and counted); \
a table-driven reader stream `unicode-ws`: every code point char::is_whitespace accepts (asked for all 0x110000) and 26 that it does not, at the start, end and inside of CLASS/FIELD/ARG/COMMENT lines (14 shapes each); {} hand-written reader inputs and {n_mut} mutations of written texts (malformed stream); \
directory reads of generated file trees (non-mapping files, nested directories, colliding classes), each judged on the implementation alone against reading the *.mapping files one by one with read_into in sorted path order (round 5); the text write_all writes is compared, `#` lines aside, with an independent reference writer (sorted files / fields / methods / parameters / nested classes; round 5). \
Round 4: read results are compared in exact IndexMap order; an independent reference reader written in the harness (tokenise, group lines by indentation, decode: one class per CLASS line under the joined names, nested first) is the oracle for every reader input \
(hand, {} more hand-written texts on nesting / duplicates spelled differently / tags in wrong places / comment and `#` shapes, unicode-ws, mutated, read-into) — a difference is reported with the text; streams `hand-struct` / `mutated-struct` compare with the structural decoder read_struct; \
`orphan-chain`: 9 sets where the direct outer class is absent and a further-out one present (full oracle + the file of such a class starts with its CLASS line carrying the full names); `comments`: {} comment shapes (empty, line breaks only, trailing line break, NEL / LINE SEPARATOR / NBSP, `#`, keyword-like; round 5: two spaces, leading / trailing / only spaces around line breaks, TAB / VT / FF / inner CR at the start, inside, at the end of a line and alone, pairs differing only in the kind of white space) at 7 places; stream viol-comment-ctl: a comment line ending in CR at every place a comment can stand — both writers must fail (oracle on the implementation alone: `writes a comment that cannot be read back`); \
`read-into`: read_into on mappings already holding 1-3 classes (same classes again, hand texts, fresh classes, mutated texts; existing classes must stay a prefix); `bytes`: 12 ill-formed and 8 well-formed multi-byte UTF-8 sequences inserted into 4 texts (ill-formed => Err, never Ok / panic); \
`path`: enigma_dir::read of a missing path and of single plain files; `dir-special`: enigma_dir::write with file names `.`, `..`, `../x`, `x/../../y`, absolute, NUL, components of 246..300 bytes (1-, 2-, 3-, 4-byte characters), deep directories — nothing may appear outside the target directory; `dir-case`: names differing only in case.", VIOLATIONS.len(), HAND.len(), HAND2.len(), DOCS2.len());

	// 1. inside the hypotheses
	let mut texts: Vec<S> = vec![];
	for i in 0..n_valid {
		let m = gen_valid(&mut rng);
		if let Err(why) = enigma_ok(&m) { r.notes.push(format!("generator produced a set outside the hypotheses ({why}); skipped")); r.count("valid_generator_rejected"); continue; }
		let with_dir = i % 4 == 0;
		r.eval(&g_classes(&m.canon().classes), !m.classes.is_empty());
		r.count(&format!("valid_classes_{}", m.classes.len().min(6)));
		let nested = m.classes.iter().filter(|c| parent_in(&m, c).is_some()).count();
		let orphans = m.classes.iter().filter(|c| parent_in(&m, c).is_none() && split_inner(&key(c)).is_some()).count();
		if nested > 0 { r.count("valid_with_nested"); }
		if orphans > 0 { r.count("valid_with_orphan_inner"); }
		if m.classes.iter().any(|c| dst(c).is_none()) { r.count("valid_with_class_without_target"); }
		if m.classes.iter().any(|c| c.methods.iter().any(|me| me.params.iter().any(|p| p.doc.is_some()))) { r.count("valid_with_param_comment"); }
		if m.classes.iter().any(|c| c.methods.iter().any(|me| me.names[1] == Some(s("<init>")))) { r.count("valid_with_ctor_target"); }
		if m.classes.iter().any(|c| depth(&m, c) >= 2) { r.count("valid_depth_ge_2"); }
		oracle(&mut r, &mut rng, &m, &mut sc, with_dir);
		cases(&mut r, &mut rng, "valid", &m, &mut sc, with_dir);
		if i % 2 == 0 { if let Ok(Some(t)) = impl_write_all(&m) { texts.push(t); } }
	}
	// 1a. the table of special-looking method names, complete, in every run (two insertion orders, with and without parameters)
	for k in 0..4 {
		let m = special_set(k);
		r.eval(&g_classes(&m.canon().classes), true);
		match enigma_ok(&m) { Ok(()) => { r.count("special_inside_hypotheses"); oracle(&mut r, &mut rng, &m, &mut sc, true); } Err(why) => { r.notes.push(format!("special-method table is outside the hypotheses ({why})")); r.count("special_outside"); } }
		cases(&mut r, &mut rng, "special", &m, &mut sc, true);
	}
	// 2. one stream per violated hypothesis
	for kind in VIOLATIONS {
		for i in 0..n_viol {
			let m = gen_violating(&mut rng, kind);
			let st = format!("viol-{kind}");
			match enigma_ok(&m) { Ok(()) => r.count(&format!("{st}:still_inside_hypotheses")), Err(_) => r.count(&format!("{st}:outside")) }
			r.eval(&g_classes(&m.canon().classes), !m.classes.is_empty());
			if enigma_ok(&m).is_ok() { oracle(&mut r, &mut rng, &m, &mut sc, false); }
			if kind == "param-src-name" {
				// the loss this hypothesis keeps out of the theorem, observed: the source name does not come back, everything else does
				let want = mm(norm(&drop_param_src(&m)).classes);
				match impl_write_all(&m).ok().flatten().and_then(|t| impl_read(&t).ok().flatten()) {
					Some(back) if mm(back.clone()).equiv(&want) && !mm(back.clone()).equiv(&mm(norm(&m).classes)) => r.count("viol-param-src-name:source_name_lost_nothing_else"),
					Some(_) => r.count("viol-param-src-name:other_outcome"),
					None => r.count("viol-param-src-name:not_written_or_not_read"),
				}
			}
			cases(&mut r, &mut rng, &st, &m, &mut sc, i % 3 == 0);
		}
	}
	// 2a. nesting depth around the reader's limit (MAX_CLASS_NESTING = 64)
	for k in [2usize, 63, 64, 65, 66] {
		let mut classes = vec![];
		let mut name = s("p/Deep");
		for d in 0..=k {
			if d > 0 { name.push(DOLLAR); name.extend(s(&format!("{}", d % 7))); }
			classes.push(MClass { names: vec![Some(name.clone()), None], doc: if d == k { Some(s("deepest")) } else { None }, fields: vec![], methods: vec![] });
		}
		let m = mm(classes);
		r.eval(&g_classes(&m.classes), true);
		r.count(if enigma_ok(&m).is_ok() { "deep_inside_hypotheses" } else { "deep_outside" });
		if enigma_ok(&m).is_ok() { oracle(&mut r, &mut rng, &m, &mut sc, true); }
		cases(&mut r, &mut rng, "deep", &m, &mut sc, true);
	}
	// 2b. surrogates below file-name level: the Display impl fails and `write!` panics; recorded, outside the model
	for k in 0..4 {
		let mut m = mm(vec![MClass { names: vec![Some(s("A")), Some(s("B"))], doc: None, fields: vec![], methods: vec![] }]);
		match k {
			0 => m.classes[0].fields.push(MField { desc: s("I"), names: vec![Some(vec![0xDC00, 0x61]), None], doc: None }),
			1 => m.classes[0].fields.push(MField { desc: vec![0xD800], names: vec![Some(s("f")), None], doc: None }),
			2 => m.classes[0].methods.push(MMeth { desc: s("()V"), names: vec![Some(s("m")), Some(vec![0xDBFF])], doc: None, params: vec![] }),
			_ => m.classes.push(MClass { names: vec![Some(vec![0x41, 0x24, 0xD800]), None], doc: None, fields: vec![], methods: vec![] }),
		}
		r.eval(&g_classes(&m.classes), true);
		match impl_write_all(&m) {
			Err(p) => { r.count("surrogate_member_write_panics"); if k == 0 { r.notes.push(format!("a name with an unpaired surrogate below file-name level makes write_all panic ({p}); outside the modelled domain, recorded only")); } }
			Ok(Some(_)) => r.count("surrogate_member_write_ok"),
			Ok(None) => r.count("surrogate_member_write_err"),
		}
	}
	// 3. reader on hand-written and mutated texts
	for h in HAND.iter().chain(HAND2.iter()) {
		let t = s(h);
		r.eval(&gstr(&t), !t.is_empty());
		crumb(&format!("property C12\nthe harness process died while read_into was reading this text:\n{h}\n"));
		match impl_read(&t) {
			Ok(b) => { r.count(if b.is_some() { "hand_ok" } else { "hand_err" }); reader_oracle(&mut r, &[], &t, &b);
				r.case("hand", compact(&format!("CRead {} {}", gstr(&t), gres(b.as_ref().map(|b| g_classes(b))))));
				r.case("hand-struct", compact(&format!("CReadS {} {}", gstr(&t), gres(b.map(|b| g_classes(&b)))))); }
			Err(p) => r.violation(format!("read_into panicked: {p}"), format!("property C12\nread_into panicked: {p}\ntext:\n{h}\n")),
		}
	}
	// 3a. Unicode white space at the start / end / inside of lines: the reader uses str::trim (all of White_Space) on
	// non-COMMENT lines but splits at the six Java white-space characters only.  The characters come from the real
	// char::is_whitespace (every code point is asked), so the model's hand-written table is compared with it entry by entry;
	// plus neighbours and look-alikes that are NOT white space.
	let real_ws: Vec<u32> = (0..=0x10FFFFu32).filter(|&c| char::from_u32(c).is_some_and(|ch| ch.is_whitespace())).collect();
	r.notes.push(format!("char::is_whitespace holds for {} code points: {}", real_ws.len(), real_ws.iter().map(|c| format!("U+{c:04X}")).collect::<Vec<_>>().join(" ")));
	const NOT_WS: [u32; 20] = [0x1C, 0x1D, 0x1E, 0x1F, 0x7F, 0x84, 0x86, 0x9F, 0xA1, 0xAD, 0x167F, 0x1681, 0x180E, 0x1FFF, 0x200B, 0x200C, 0x2027, 0x202A, 0x2060, 0xFEFF];
	let extra: [u32; 6] = [0x202E, 0x205E, 0x2060, 0x2FFF, 0x3001, 0x10FFFF];
	for &w in real_ws.iter().chain(NOT_WS.iter()).chain(extra.iter()) {
		if w == 10 { continue; } // LF ends the line
		let shapes: [(&str, &str); 14] = [
			("CLASS A B", "\n"), ("", "CLASS A B\n"), ("CLASS A B\n\tFIELD a b I", "\n"), ("CLASS A B\n\t", "FIELD a b I\n"), ("CLASS A", "B\n"), ("CLASS A B ", "\n"),
			("CLASS A B", "#x\n"), ("CLASS A\n\tCOMMENT x", "\n"), ("CLASS A\n\tMETHOD m ()V\n\t\tARG 1 p", "\n\t\t\tCOMMENT c\n"), ("CLASS A\n", "\n\tFIELD a I\n"), ("CLASS A\n\t", "\n"),
			("CLASS A B", "{w}\n"), ("", "{w}CLASS A B\n"), ("CLASS A\n\tCOMMENT", "x\n"),
		];
		for (a, b) in shapes {
			let mut t = s(a); t.push(w);
			for part in b.split("{w}").enumerate() { if part.0 > 0 { t.push(w); } t.extend(s(part.1)); }
			r.eval(&gstr(&t), true);
			match impl_read(&t) {
				Ok(b) => { r.count(if b.is_some() { "ws_ok" } else { "ws_err" }); reader_oracle(&mut r, &[], &t, &b); r.case("unicode-ws", compact(&format!("CRead {} {}", gstr(&t), gres(b.map(|b| g_classes(&b)))))); }
				Err(p) => r.violation(format!("read_into panicked: {p}"), format!("property C12\nread_into panicked: {p}\ntext (code points): {}\n", gstr(&t))),
			}
		}
	}
	for i in 0..n_mut {
		if texts.is_empty() { break; }
		let mut t = rng.pick(&texts[..]).clone();
		for _ in 0..rng.range(1, 3) { mutate_text(&mut rng, &mut t); }
		if i % 7 == 0 { // CRLF line ends
			let mut u = vec![]; for &c in &t { if c == 10 { u.push(13); } u.push(c); } t = u;
		}
		if t.len() > 4000 { continue; }
		r.eval(&gstr(&t), true);
		crumb(&format!("property C12\nthe harness process died while read_into was reading this text (code points): {}\n", gstr(&t)));
		match impl_read(&t) {
			Ok(b) => { r.count(if b.is_some() { "mutated_ok" } else { "mutated_err" }); reader_oracle(&mut r, &[], &t, &b);
				let kind = if i % 2 == 0 { "CRead" } else { "CReadS" };
				r.case(if i % 2 == 0 { "mutated" } else { "mutated-struct" }, compact(&format!("{kind} {} {}", gstr(&t), gres(b.map(|b| g_classes(&b)))))); }
			Err(p) => r.violation(format!("read_into panicked: {p}"), format!("property C12\nread_into panicked: {p}\ntext (code points): {}\n", gstr(&t))),
		}
	}
	// 3b. orphan chains: the direct outer class is absent, a further-out one is present (full oracle, stream and directory)
	for m in orphan_chain_sets() {
		r.eval(&g_classes(&m.canon().classes), true);
		match enigma_ok(&m) { Ok(()) => { r.count("orphan_chain_inside_hypotheses"); oracle(&mut r, &mut rng, &m, &mut sc, true); } Err(_) => r.count("orphan_chain_outside") }
		// what the placement theorems say, on the implementation: a class whose direct outer class is absent heads its own file with its full names
		if enigma_ok(&m).is_ok() {
			for c in m.classes.iter().filter(|c| parent_in(&m, c).is_none()) {
				match impl_write_one(&m, &text_of(&file_name(c))) {
					Ok(Some(t)) => {
						let mut head = s("CLASS "); head.extend(key(c)); if let Some(d) = dst(c) { head.push(32); head.extend(d); } head.push(10);
						if !t.starts_with(&head) { r.violation(format!("the file of the parent-free class {:?} does not start with its CLASS line carrying its full names", show(&key(c))), replay("orphan inner class not written at the start of its own file with its full names", &m, &format!("file text:\n{}\n", text_of(&t)))); }
					}
					other => r.violation(format!("write_one fails for the parent-free class {:?}: {:?}", show(&key(c)), other.err()), replay("write_one failed for a parent-free class", &m, "")),
				}
			}
		}
		cases(&mut r, &mut rng, "orphan-chain", &m, &mut sc, true);
	}
	// 3c. every comment shape at every place a comment can stand (class, field, method, parameter, nested class)
	for (di, d) in DOCS2.iter().enumerate() {
		for place in 0..7 {
			if !ctx.thorough && (di + place) % 2 == 1 { continue; }
			let m = doc_set(d, place);
			r.eval(&g_classes(&m.canon().classes), true);
			match enigma_ok(&m) { Ok(()) => { r.count("comments_inside_hypotheses"); oracle(&mut r, &mut rng, &m, &mut sc, place == 0); } Err(_) => r.count("comments_outside") }
			cases(&mut r, &mut rng, "comments", &m, &mut sc, false);
		}
	}
	// 3d. read_into on mappings that already hold classes: kept as they are, new ones appended, a key that is already there refused
	for i in 0..(if ctx.thorough { 300 } else { 40 }) {
		let mut acc = gen_valid(&mut rng);
		for _ in 0..10 { if !acc.classes.is_empty() { break; } acc = gen_valid(&mut rng); }
		acc.classes.truncate(3);
		if to_quill::<2, NsAny>(&acc).is_err() { continue; }
		let t: S = match i % 4 {
			0 => match impl_write_all(&acc) { Ok(Some(t)) => t, _ => continue },            // the same classes again: duplicates
			1 => s(HAND2[i / 4 % HAND2.len()]),
			2 => s("CLASS zz/New zz/Neu\n\tFIELD a b I\n\tCLASS In\n"),
			_ => { if texts.is_empty() { continue; } let mut t = rng.pick(&texts[..]).clone(); mutate_text(&mut rng, &mut t); if t.len() > 2500 { continue; } t }
		};
		r.eval(&format!("{} {}", g_classes(&acc.classes), gstr(&t)), true);
		crumb(&format!("property C12\nthe harness process died while read_into was reading this text into non-empty mappings (code points): {}\n", gstr(&t)));
		match impl_read_into(&acc, &t) {
			Ok(b) => { r.count(if b.is_some() { "read_into_ok" } else { "read_into_err" }); reader_oracle(&mut r, &acc.classes, &t, &b);
				if let Some(b) = &b { if !b.starts_with(&acc.classes) { r.violation("read_into changed or reordered classes that were already in the mappings".into(), format!("property C12\nbefore (Gallina): {}\ntext (code points): {}\nafter (Gallina): {}\n", g_classes(&acc.classes), gstr(&t), g_classes(b))); } }
				r.case("read-into", compact(&format!("CReadInto {} {} {}", g_classes(&acc.classes), gstr(&t), gres(b.map(|b| g_classes(&b)))))); }
			Err(p) => r.violation(format!("read_into panicked: {p}"), format!("property C12\nread_into panicked: {p}\ntext (code points): {}\n", gstr(&t))),
		}
	}
	// 3d'. (round 7) the byte level of the writers: the model's utf8_encode against the bytes of Rust strings (stream `utf8`:
	// every boundary of the 1-/2-/3-/4-byte forms and random scalar values) and against the RAW bytes enigma_file::write_one
	// hands to its writer (stream `write-one-bytes`; the other streams compare the text decoded by String::from_utf8)
	{
		const EDGE: [u32; 16] = [0, 0x41, 0x7F, 0x80, 0xE9, 0x7FF, 0x800, 0x20AC, 0xD7FF, 0xE000, 0xFFFD, 0xFFFF, 0x10000, 0x1F600, 0x10FFFE, 0x10FFFF];
		let n_str = if ctx.thorough { 200 } else { 40 };
		for i in 0..n_str {
			let len = if i == 0 { 0 } else { 1 + rng.below(12) as usize };
			let t: S = if i == 1 { EDGE.to_vec() } else { (0..len).map(|_| if rng.chance(1, 2) { *rng.pick(&EDGE[..]) } else { loop { let c = rng.below(0x110000) as u32; if char::from_u32(c).is_some() { break c; } } }).collect() };
			let bytes = text_of(&t).into_bytes();
			r.eval(&gstr(&t), !t.is_empty());
			for &c in &t { r.count(match c { 0..=0x7F => "utf8_1byte", 0x80..=0x7FF => "utf8_2byte", 0x800..=0xFFFF => "utf8_3byte", _ => "utf8_4byte" }); }
			r.case("utf8", compact(&format!("CBytes {} {}", gstr(&t), glist(bytes.iter().map(|b| b.to_string())))));
		}
		let n_sets = if ctx.thorough { 120 } else { 30 };
		for _ in 0..n_sets {
			let m = gen_valid(&mut rng);
			let roots: Vec<S> = m.classes.iter().filter(|c| parent_in(&m, c).is_none()).map(file_name).filter(|n| scalar(n)).collect();
			if roots.is_empty() { continue; }
			let name = rng.pick(&roots[..]).clone();
			let Ok(q) = to_quill(&m) else { r.count("not_buildable"); continue; };
			let q: Q = q;
			let name_s = text_of(&name);
			crumb(&replay("the harness process died while write_one wrote this set", &m, ""));
			match guarded(move || { let mut v = Vec::new(); match quill::enigma_file::write_one(&q, &name_s, &mut v) { Ok(()) => Some(v), Err(_) => None } }) {
				Ok(b) => {
					r.eval(&format!("write_one bytes {}", gstr(&name)), b.is_some());
					r.count(if b.is_some() { "write_one_bytes_ok" } else { "write_one_bytes_err" });
					if let Some(v) = &b {
						if v.iter().any(|&x| x >= 0x80) { r.count("write_one_bytes_non_ascii"); }
						// on the implementation alone: the bytes are UTF-8 and read_into on them gives what read_into gives on the decoded text
						match std::str::from_utf8(v) {
							Err(_) => r.violation("write_one wrote bytes that are not UTF-8".into(), replay("write_one wrote bytes that are not UTF-8", &m, &format!("file {}\nbytes: {:?}\n", gstr(&name), v))),
							Ok(t) => { let a = impl_read_bytes(v); let b2 = impl_read(&cps_str(t)); if a != b2 { r.violation("read_into differs between the written bytes and their text".into(), replay("read_into differs between the bytes write_one wrote and the decoded text", &m, &format!("file {}\n", gstr(&name)))); } }
						}
					}
					r.case("write-one-bytes", compact(&format!("CWriteOneBytes {} {} {}", g_classes(&m.classes), gstr(&name), gres(b.map(|v| glist(v.iter().map(|x| x.to_string())))))));
				}
				Err(p) => r.violation(format!("write_one panicked: {p}"), replay("write_one panicked", &m, &p)),
			}
		}
	}
	// 3e. bytes that are not UTF-8 (BufRead::lines yields an error for that line): an error of the read, never a panic
	{
		const BAD: [&[u8]; 12] = [&[0xFF], &[0xC0, 0x80], &[0xC1, 0xBF], &[0xED, 0xA0, 0x80], &[0xED, 0xBF, 0xBF], &[0xF4, 0x90, 0x80, 0x80], &[0xF5, 0x80, 0x80, 0x80], &[0xE2, 0x82], &[0x80], &[0xF0, 0x9F, 0x98], &[0xE0, 0x9F, 0xBF], &[0xF0, 0x8F, 0xBF, 0xBF]];
		const GOOD: [&[u8]; 8] = [&[0xC3, 0xA9], &[0xE2, 0x82, 0xAC], &[0xF0, 0x9F, 0x98, 0x80], &[0xC2, 0x80], &[0xDF, 0xBF], &[0xE0, 0xA0, 0x80], &[0xEF, 0xBF, 0xBF], &[0xF4, 0x8F, 0xBF, 0xBF]];
		let bases: [&str; 4] = ["CLASS A B\n\tFIELD a b I\n\t\tCOMMENT c\n", "CLASS A\n", "CLASS A B\n\tMETHOD m n ()V\n\t\tARG 1 p\n\t\t\tCOMMENT x y\n\tCOMMENT z\n", ""];
		for (bi, base) in bases.iter().enumerate() {
			for (k, ins) in BAD.iter().map(|b| (false, *b)).chain(GOOD.iter().map(|g| (true, *g))).enumerate() {
				let b0 = base.as_bytes();
				let positions: Vec<usize> = if ctx.thorough { (0..=b0.len()).collect() } else { vec![0, b0.len() / 3, (b0.len() * 2) / 3 + (k + bi) % 3, b0.len()] };
				for at in positions {
					let at = at.min(b0.len());
					let mut bytes = b0[..at].to_vec(); bytes.extend_from_slice(ins.1); bytes.extend_from_slice(&b0[at..]);
					let g = glist(bytes.iter().map(|b| b.to_string()));
					r.eval(&g, true);
					crumb(&format!("property C12\nthe harness process died while read_into was reading these bytes: {g}\n"));
					match impl_read_bytes(&bytes) {
						Ok(b) => {
							r.count(if b.is_some() { "bytes_ok" } else { "bytes_err" });
							if std::str::from_utf8(&bytes).is_err() { r.count("bytes_not_utf8"); if b.is_some() { r.violation("read_into accepts input that is not UTF-8".into(), format!("property C12\nread_into returned Ok on bytes that are not UTF-8: {g}\n")); } }
							r.case("bytes", compact(&format!("CReadBytes {g} {}", gres(b.map(|b| g_classes(&b))))));
						}
						Err(p) => r.violation(format!("read_into panicked: {p}"), format!("property C12\nread_into panicked: {p}\nbytes: {g}\n")),
					}
				}
			}
		}
	}
	// 3f. enigma_dir::read of a path that does not exist, and of a single plain file
	{
		match impl_read_path(None, &mut sc) {
			Ok(b) => { r.count(if b.is_some() { "path_missing_ok" } else { "path_missing_err" }); r.eval("NoSuchPath", true); r.case("path", format!("CReadPath NoSuchPath {}", gres(b.map(|b| g_classes(&b))))); }
			Err(p) => r.violation(format!("enigma_dir::read panicked: {p}"), format!("property C12\nenigma_dir::read panicked on a missing path: {p}\n")),
		}
		for (name, content) in [("one.mapping", "CLASS A B\n\tFIELD a b I\n"), ("one.txt", "CLASS A B\n"), ("one.mapping", "garbage\n"), ("mapping", "CLASS A\n"), ("x.y.mapping", "CLASS A\n\tCLASS B\n"), ("one.MAPPING", "CLASS A\n"), ("one.mapping", "")] {
			let (n, c) = (s(name), s(content));
			r.eval(&format!("PlainFile {} {}", gstr(&n), gstr(&c)), true);
			match impl_read_path(Some((&n, &c)), &mut sc) {
				Ok(b) => { r.count(if b.is_some() { "path_file_ok" } else { "path_file_err" }); r.case("path", compact(&format!("CReadPath (PlainFile {} {}) {}", gstr(&n), gstr(&c), gres(b.map(|b| g_classes(&b)))))); }
				Err(p) => r.violation(format!("enigma_dir::read panicked: {p}"), format!("property C12\nenigma_dir::read panicked on the plain file {name:?}: {p}\n")),
			}
		}
	}
	// 3g. file names that are special to the file system / to Path (built with the unchecked constructors where the name
	// types would refuse them): `.`, `..`, absolute must be refused and NOTHING may appear outside the target directory;
	// NUL and components over 255 bytes are refused by the file system (an error, no silent loss)
	{
		let escape = std::env::temp_dir().join(format!("fbh-c12-escape-{}-{}", std::process::id(), ctx.seed));
		let escape_s = escape.to_string_lossy().into_owned();
		for (i, name) in special_dir_names(&escape_s).into_iter().enumerate() {
			let mut classes = vec![MClass { names: vec![Some(s(&format!("src/S{i}"))), Some(name.clone())], doc: None, fields: vec![MField { desc: s("I"), names: vec![Some(s("f")), None], doc: None }], methods: vec![] }];
			if i % 2 == 0 { classes.push(MClass { names: vec![Some(s("ok/Other")), Some(s("ok/Target"))], doc: None, fields: vec![], methods: vec![] }); }
			let m = mm(classes);
			r.eval(&g_classes(&m.classes), true);
			crumb(&replay("the harness process died while enigma_dir::write was writing this mapping set", &m, ""));
			match impl_write_dir(&m, &mut sc) {
				Ok(fs) => {
					r.count(if fs.is_some() { "dir_special_ok" } else { "dir_special_err" });
					let st = strays(&sc);
					if !st.is_empty() || escape.exists() {
						r.violation("enigma_dir::write created something outside the target directory".into(), replay("a file or directory appeared outside the directory enigma_dir::write was given", &m, &format!("strays next to the target directory: {st:?}; {escape_s} exists: {}\n", escape.exists())));
						for x in &st { let p = sc.root.join(x); let _ = std::fs::remove_file(&p); let _ = std::fs::remove_dir_all(&p); }
						let _ = std::fs::remove_dir_all(&escape);
					}
					if let Some(fs) = &fs { if fs.iter().any(|(p, _)| { let p = text_of(p); p.starts_with('/') || p.split('/').any(|c| c == ".." || c == ".") }) { r.violation("enigma_dir::write created a path with a `.`/`..` component".into(), replay("path with dot components", &m, &format!("files: {}\n", g_files(fs)))); } }
					// names whose path form differs from the name (empty components) are not in this list, so the files found are comparable
					r.case("dir-special", compact(&format!("CWriteDir {} {}", g_classes(&m.classes), gres(fs.as_ref().map(|f| g_files(f))))));
					// inside the hypotheses (NUL-free, short enough) the whole API as usual
					if enigma_ok(&m).is_ok() && fs.is_some() { oracle(&mut r, &mut rng, &m, &mut sc, true); }
				}
				Err(p) => r.violation(format!("enigma_dir::write panicked: {p}"), replay("enigma_dir::write panicked", &m, &p)),
			}
		}
	}
	// 3h. file names that differ only in case: three different files on a case-sensitive file system (the only kind modelled)
	{
		let m = mm(["Coll/Name", "coll/name", "COLL/NAME", "Coll/name"].iter().enumerate().map(|(i, t)| MClass { names: vec![Some(s(&format!("k/C{i}"))), Some(s(t))], doc: Some(s(t)), fields: vec![], methods: vec![] }).collect());
		r.eval(&g_classes(&m.classes), true);
		if enigma_ok(&m).is_ok() { r.count("case_collision_inside_hypotheses"); oracle(&mut r, &mut rng, &m, &mut sc, true); }
		cases(&mut r, &mut rng, "dir-case", &m, &mut sc, true);
	}
	// 4. directory reads of arbitrary trees
	for _ in 0..(if ctx.thorough { 400 } else { 60 }) {
		let fs = gen_dir_files(&mut rng);
		r.eval(&g_files(&fs), !fs.is_empty());
		match impl_read_dir(&fs, &mut sc) {
			Ok(b) => { r.count(if b.is_some() { "dir_read_ok" } else { "dir_read_err" }); dir_read_oracle(&mut r, &fs, &b); r.case("dir-read", compact(&format!("CReadDir {} {}", g_files(&fs), gres(b.map(|b| g_classes(&b)))))); }
			Err(p) => r.violation(format!("enigma_dir::read panicked: {p}"), format!("property C12\nenigma_dir::read panicked: {p}\nfiles: {}\n", g_files(&fs))),
		}
	}
	drop(sc);
	balance(&mut r, if ctx.thorough { 48 } else { 16 });
	Ok(r)
}

fn main() -> anyhow::Result<()> { fbh::main_with(run) }
