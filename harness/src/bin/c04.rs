//! C04 — applying a mapping diff is exact; diff and apply are inverse; the same through .tinydiff.
//!
//! Implementation entry points: quill::tree::mappings_diff::MappingsDiff::{diff, apply_to},
//! quill::tiny_v2_diff::read_file, quill::apply_diff_option.
use fbh::gal::*;
use fbh::mapmodel::*;
use fbh::prng::Rng;
use fbh::report::{crumb, guarded, Report};
use fbh::Ctx;
use quill::tree::mappings::{JavadocMapping, Mappings, ParameterKey};
use quill::tree::mappings_diff::{Action, ClassNowodeDiff, FieldNowodeDiff, MappingsDiff, MethodNowodeDiff, ParameterNowodeDiff};
use quill::tree::{NodeInfo, NodeJavadocInfo};
use duke::tree::field::FieldNameAndDesc;
use duke::tree::method::MethodNameAndDesc;
use std::collections::{BTreeMap, BTreeSet};
use std::path::PathBuf;

// ---------- mirror of the diff tree ----------
#[derive(Clone, Debug, PartialEq, Eq, Hash, PartialOrd, Ord)]
pub enum Act { None, Add(S), Rem(S), Edit(S, S) }
#[derive(Clone, Debug, PartialEq, Eq, Hash, PartialOrd, Ord)]
pub struct DParam { pub index: u64, pub info: Act, pub doc: Act }
#[derive(Clone, Debug, PartialEq, Eq, Hash, PartialOrd, Ord)]
pub struct DField { pub name: S, pub desc: S, pub info: Act, pub doc: Act }
#[derive(Clone, Debug, PartialEq, Eq, Hash, PartialOrd, Ord)]
pub struct DMeth { pub name: S, pub desc: S, pub info: Act, pub doc: Act, pub params: Vec<DParam> }
#[derive(Clone, Debug, PartialEq, Eq, Hash, PartialOrd, Ord)]
pub struct DClass { pub name: S, pub info: Act, pub doc: Act, pub fields: Vec<DField>, pub methods: Vec<DMeth> }
#[derive(Clone, Debug, PartialEq, Eq, Hash, PartialOrd, Ord)]
pub struct DDiff { pub info: Act, pub doc: Act, pub classes: Vec<DClass> }

impl DDiff {
	fn canon(&self) -> DDiff {
		let mut d = self.clone();
		for c in &mut d.classes { for m in &mut c.methods { m.params.sort(); } c.fields.sort(); c.methods.sort(); }
		d.classes.sort();
		d
	}
	fn size(&self) -> usize { self.classes.iter().map(|c| 1 + c.fields.len() + c.methods.iter().map(|m| 1 + m.params.len()).sum::<usize>()).sum() }
}

fn s_string(s: &S) -> Option<String> { s.iter().map(|&c| char::from_u32(c)).collect() }
fn act_map<T>(a: &Act, f: impl Fn(&S) -> T) -> Action<T> {
	match a { Act::None => Action::None, Act::Add(b) => Action::Add(f(b)), Act::Rem(x) => Action::Remove(f(x)), Act::Edit(x, y) => Action::Edit(f(x), f(y)) }
}
fn act_doc(a: &Act) -> Option<Action<JavadocMapping>> {
	Some(match a {
		Act::None => Action::None, Act::Add(b) => Action::Add(JavadocMapping(s_string(b)?)), Act::Rem(x) => Action::Remove(JavadocMapping(s_string(x)?)),
		Act::Edit(x, y) => Action::Edit(JavadocMapping(s_string(x)?), JavadocMapping(s_string(y)?)),
	})
}
fn act_str(a: &Act) -> Option<Action<String>> {
	Some(match a {
		Act::None => Action::None, Act::Add(b) => Action::Add(s_string(b)?), Act::Rem(x) => Action::Remove(s_string(x)?),
		Act::Edit(x, y) => Action::Edit(s_string(x)?, s_string(y)?),
	})
}
fn act_from<T>(a: &Action<T>, f: impl Fn(&T) -> S) -> Act {
	match a { Action::None => Act::None, Action::Add(b) => Act::Add(f(b)), Action::Remove(x) => Act::Rem(f(x)), Action::Edit(x, y) => Act::Edit(f(x), f(y)) }
}

/// Builds the quill diff through the public node API (NodeInfo::new / get_node_info(_mut) / NodeJavadocInfo::
/// get_node_javadoc_info_mut) and insertion into the public IndexMaps, in list order.
/// None when a key is duplicated or a comment / namespace string is not scalar-only.
pub fn to_quill_diff(d: &DDiff) -> Option<MappingsDiff> {
	let mut out = MappingsDiff::new(Action::None);
	*out.get_node_info_mut() = act_str(&d.info)?;
	*out.get_node_javadoc_info_mut() = act_doc(&d.doc)?;
	for c in &d.classes {
		let mut cn = ClassNowodeDiff::new(Action::None);
		*cn.get_node_info_mut() = act_map(&c.info, class_name);
		*cn.get_node_javadoc_info_mut() = act_doc(&c.doc)?;
		for f in &c.fields {
			let key = FieldNameAndDesc { name: field_name(&f.name), desc: field_desc(&f.desc) };
			let mut fnode = FieldNowodeDiff::new(Action::None);
			*fnode.get_node_info_mut() = act_map(&f.info, field_name);
			*fnode.get_node_javadoc_info_mut() = act_doc(&f.doc)?;
			if cn.fields.insert(key, fnode).is_some() { return None; }
		}
		for m in &c.methods {
			let key = MethodNameAndDesc { name: method_name(&m.name), desc: method_desc(&m.desc) };
			let mut mn = MethodNowodeDiff::new(Action::None);
			*mn.get_node_info_mut() = act_map(&m.info, method_name);
			*mn.get_node_javadoc_info_mut() = act_doc(&m.doc)?;
			for p in &m.params {
				let mut pn = ParameterNowodeDiff::new(Action::None);
				*pn.get_node_info_mut() = act_map(&p.info, param_name);
				*pn.get_node_javadoc_info_mut() = act_doc(&p.doc)?;
				if mn.parameters.insert(ParameterKey { index: p.index as usize }, pn).is_some() { return None; }
			}
			if cn.methods.insert(key, mn).is_some() { return None; }
		}
		if out.classes.insert(class_name(&c.name), cn).is_some() { return None; }
	}
	Some(out)
}
/// reads the diff back through the getters of the node API
pub fn from_quill_diff(d: &MappingsDiff) -> DDiff {
	let jd = |a: &Action<JavadocMapping>| act_from(a, |j| cps_str(&j.0));
	DDiff {
		info: act_from(d.get_node_info(), |s| cps_str(s)), doc: jd(d.get_node_javadoc_info()),
		classes: d.classes.iter().map(|(ck, c)| DClass {
			name: cps(ck.as_inner()), info: act_from(c.get_node_info(), |n| cps(n.as_inner())), doc: jd(c.get_node_javadoc_info()),
			fields: c.fields.iter().map(|(fk, f)| DField { name: cps(fk.name.as_inner()), desc: cps(fk.desc.as_inner()), info: act_from(f.get_node_info(), |n| cps(n.as_inner())), doc: jd(f.get_node_javadoc_info()) }).collect(),
			methods: c.methods.iter().map(|(mk, m)| DMeth {
				name: cps(mk.name.as_inner()), desc: cps(mk.desc.as_inner()), info: act_from(m.get_node_info(), |n| cps(n.as_inner())), doc: jd(m.get_node_javadoc_info()),
				params: m.parameters.iter().map(|(pk, p)| DParam { index: pk.index as u64, info: act_from(p.get_node_info(), |n| cps(n.as_inner())), doc: jd(p.get_node_javadoc_info()) }).collect(),
			}).collect(),
		}).collect(),
	}
}

// ---------- Gallina ----------
fn g_act(a: &Act) -> String {
	match a { Act::None => "ANone".into(), Act::Add(b) => format!("(AAdd {})", gstr(b)), Act::Rem(x) => format!("(ARem {})", gstr(x)), Act::Edit(x, y) => format!("(AEdit {} {})", gstr(x), gstr(y)) }
}
fn g_dparam(p: &DParam) -> String { format!("(mkPD {} {} {})", p.index, g_act(&p.info), g_act(&p.doc)) }
fn g_dfield(f: &DField) -> String { format!("(mkFD {} {} {} {})", gstr(&f.name), gstr(&f.desc), g_act(&f.info), g_act(&f.doc)) }
fn g_dmeth(m: &DMeth) -> String { format!("(mkMD {} {} {} {} {})", gstr(&m.name), gstr(&m.desc), g_act(&m.info), g_act(&m.doc), glist(m.params.iter().map(g_dparam))) }
fn g_dclass(c: &DClass) -> String { format!("(mkCD {} {} {} {} {})", gstr(&c.name), g_act(&c.info), g_act(&c.doc), glist(c.fields.iter().map(g_dfield)), glist(c.methods.iter().map(g_dmeth))) }
fn g_diff(d: &DDiff) -> String { format!("(mkDiff {} {} {})", g_act(&d.info), g_act(&d.doc), glist(d.classes.iter().map(g_dclass))) }

// ---------- human-readable replay text ----------
fn sh_opt(o: &Option<S>) -> String { match o { Some(s) => format!("{:?}", show(s)), None => "-".into() } }
fn sh_row(r: &NamesRow) -> String { r.iter().map(sh_opt).collect::<Vec<_>>().join(" ") }
fn sh_act(a: &Act) -> String {
	match a { Act::None => "None".into(), Act::Add(b) => format!("Add({:?})", show(b)), Act::Rem(x) => format!("Remove({:?})", show(x)), Act::Edit(x, y) => format!("Edit({:?},{:?})", show(x), show(y)) }
}
pub fn show_mappings(m: &MMappings) -> String {
	let mut o = format!("namespaces [{}] javadoc {}\n", m.ns.iter().map(|s| show(s)).collect::<Vec<_>>().join(", "), sh_opt(&m.doc));
	for c in &m.classes {
		o += &format!("  class names [{}] javadoc {}\n", sh_row(&c.names), sh_opt(&c.doc));
		for f in &c.fields { o += &format!("    field desc {:?} names [{}] javadoc {}\n", show(&f.desc), sh_row(&f.names), sh_opt(&f.doc)); }
		for me in &c.methods {
			o += &format!("    method desc {:?} names [{}] javadoc {}\n", show(&me.desc), sh_row(&me.names), sh_opt(&me.doc));
			for p in &me.params { o += &format!("      parameter {} names [{}] javadoc {}\n", p.index, sh_row(&p.names), sh_opt(&p.doc)); }
		}
	}
	o
}
pub fn show_diff(d: &DDiff) -> String {
	let mut o = format!("diff info {} javadoc {}\n", sh_act(&d.info), sh_act(&d.doc));
	for c in &d.classes {
		o += &format!("  class {:?}: {} javadoc {}\n", show(&c.name), sh_act(&c.info), sh_act(&c.doc));
		for f in &c.fields { o += &format!("    field {:?} {:?}: {} javadoc {}\n", show(&f.name), show(&f.desc), sh_act(&f.info), sh_act(&f.doc)); }
		for me in &c.methods {
			o += &format!("    method {:?} {:?}: {} javadoc {}\n", show(&me.name), show(&me.desc), sh_act(&me.info), sh_act(&me.doc));
			for p in &me.params { o += &format!("      parameter {}: {} javadoc {}\n", p.index, sh_act(&p.info), sh_act(&p.doc)); }
		}
	}
	o
}
fn sh_res(r: &Option<MMappings>) -> String { match r { Some(m) => show_mappings(m), None => "Err\n".into() } }

// ---------- implementation calls ----------
/// MappingsDiff::apply_to; outer Err = panic, None = Err(_), Some = Ok
fn impl_apply_n<const N: usize>(d: &DDiff, t: &MMappings, ns: &S, desync: &mut Vec<String>) -> Result<Option<MMappings>, String> {
	let qd = to_quill_diff(d).ok_or("diff not representable")?;
	let qt: Mappings<N, NsAny> = to_quill(t).map_err(|e| format!("target not representable: {e}"))?;
	let nsname = s_string(ns).ok_or("namespace not scalar")?;
	crumb(&format!("MappingsDiff::apply_to, target namespace {:?}\n{}target:\n{}", show(ns), show_diff(d), show_mappings(t)));
	let r = guarded(move || qd.apply_to::<N, NsAny, NsAny>(qt, &nsname).ok())?;
	Ok(r.map(|m| from_quill(&m, desync)))
}
fn impl_apply(d: &DDiff, t: &MMappings, ns: &S, desync: &mut Vec<String>) -> Result<Option<MMappings>, String> {
	match t.ns.len() { 1 => impl_apply_n::<1>(d, t, ns, desync), 2 => impl_apply_n::<2>(d, t, ns, desync), 3 => impl_apply_n::<3>(d, t, ns, desync), 4 => impl_apply_n::<4>(d, t, ns, desync), n => Err(format!("unsupported namespace count {n}")) }
}
fn impl_diff(a: &MMappings, b: &MMappings) -> Result<Option<DDiff>, String> {
	let qa: Mappings<2, NsAny> = to_quill(a).map_err(|e| format!("a not representable: {e}"))?;
	let qb: Mappings<2, NsAny> = to_quill(b).map_err(|e| format!("b not representable: {e}"))?;
	crumb(&format!("MappingsDiff::diff\nA:\n{}B:\n{}", show_mappings(a), show_mappings(b)));
	let r = guarded(move || MappingsDiff::diff(&qa, &qb).ok())?;
	Ok(r.map(|d| from_quill_diff(&d)))
}
struct Tmp { path: PathBuf }
impl Tmp {
	fn new() -> Tmp { Tmp { path: std::env::temp_dir().join(format!("fbh-c04-{}.tinydiff", std::process::id())) } }
	/// tiny_v2_diff::read_file on the given bytes
	fn read(&self, bytes: &[u8]) -> Result<Option<DDiff>, String> {
		std::fs::write(&self.path, bytes).map_err(|e| e.to_string())?;
		crumb(&format!("tiny_v2_diff::read_file on the {} bytes\n{}", bytes.len(), String::from_utf8_lossy(bytes).escape_debug()));
		let p = self.path.clone();
		let r = guarded(move || quill::tiny_v2_diff::read_file(&p).ok())?;
		Ok(r.map(|d| from_quill_diff(&d)))
	}
}
impl Drop for Tmp { fn drop(&mut self) { let _ = std::fs::remove_file(&self.path); } }

// ---------- our printer of the .tinydiff text form (= Gallina `print`) ----------
fn escape(s: &S) -> S {
	let mut o = vec![];
	for &c in s {
		match c { 92 => o.extend([92, 92]), 10 => o.extend([92, 110]), 13 => o.extend([92, 114]), 9 => o.extend([92, 116]), _ => o.push(c) }
	}
	o
}
fn act_cells(a: &Act) -> Vec<S> {
	match a { Act::None => vec![], Act::Add(b) => vec![vec![], b.clone()], Act::Rem(x) => vec![x.clone()], Act::Edit(x, y) => vec![x.clone(), y.clone()] }
}
fn pline(out: &mut S, indent: usize, cells: Vec<S>) {
	for _ in 0..indent { out.push(9); }
	for (i, c) in cells.iter().enumerate() { if i > 0 { out.push(9); } out.extend(c); }
	out.push(10);
}
fn doc_lines(out: &mut S, indent: usize, a: &Act) {
	if *a == Act::None { return; }
	let mut cells = vec![cps_str("c")];
	cells.extend(act_cells(a).iter().map(escape));
	pline(out, indent, cells);
}
pub fn print_tinydiff(d: &DDiff) -> S {
	let mut out = vec![];
	pline(&mut out, 0, vec![cps_str("tiny"), cps_str("2"), cps_str("0")]);
	for c in &d.classes {
		let mut cells = vec![cps_str("c"), c.name.clone()]; cells.extend(act_cells(&c.info));
		pline(&mut out, 0, cells);
		doc_lines(&mut out, 1, &c.doc);
		for f in &c.fields {
			let mut cells = vec![cps_str("f"), f.desc.clone(), f.name.clone()]; cells.extend(act_cells(&f.info));
			pline(&mut out, 1, cells);
			doc_lines(&mut out, 2, &f.doc);
		}
		for m in &c.methods {
			let mut cells = vec![cps_str("m"), m.desc.clone(), m.name.clone()]; cells.extend(act_cells(&m.info));
			pline(&mut out, 1, cells);
			doc_lines(&mut out, 2, &m.doc);
			for p in &m.params {
				let mut cells = vec![cps_str("p"), cps_str(&p.index.to_string()), vec![]]; cells.extend(act_cells(&p.info));
				pline(&mut out, 2, cells);
				doc_lines(&mut out, 3, &p.doc);
			}
		}
	}
	out
}
fn utf8(s: &S) -> Option<Vec<u8>> { s_string(s).map(|x| x.into_bytes()) }

/// what the text form can carry of a diff (= Gallina `norm`): Edit(a,a) is no action, an empty string is an absent cell
/// `empty_absent` = false: only the Edit(a,a) = None rule (what F4 is NOT about)
fn norm_act_with(a: &Act, empty_absent: bool) -> Act {
	let ne = |s: &S| if empty_absent && s.is_empty() { None } else { Some(s.clone()) };
	let ft = |a: Option<S>, b: Option<S>| match (a, b) { (None, None) => Act::None, (None, Some(b)) => Act::Add(b), (Some(a), None) => Act::Rem(a), (Some(a), Some(b)) => Act::Edit(a, b) };
	match a {
		Act::None => Act::None, Act::Add(b) => ft(None, ne(b)), Act::Rem(x) => ft(ne(x), None),
		Act::Edit(x, y) => if x == y { Act::None } else { ft(ne(x), ne(y)) },
	}
}
fn norm(d: &DDiff) -> DDiff { norm_with(d, true) }
fn norm_with(d: &DDiff, ea: bool) -> DDiff {
	let na = |a: &Act| norm_act_with(a, ea);
	DDiff { info: d.info.clone(), doc: na(&d.doc), classes: d.classes.iter().map(|c| DClass {
		name: c.name.clone(), info: na(&c.info), doc: na(&c.doc),
		fields: c.fields.iter().map(|f| DField { name: f.name.clone(), desc: f.desc.clone(), info: na(&f.info), doc: na(&f.doc) }).collect(),
		methods: c.methods.iter().map(|m| DMeth { name: m.name.clone(), desc: m.desc.clone(), info: na(&m.info), doc: na(&m.doc),
			params: m.params.iter().map(|p| DParam { index: p.index, info: na(&p.info), doc: na(&p.doc) }).collect() }).collect(),
	}).collect() }
}
/// Action::is_diff of every action is false (= Gallina `noop_diff`)
fn is_noop(d: &DDiff) -> bool {
	let n = |a: &Act| match a { Act::None => true, Act::Edit(x, y) => x == y, _ => false };
	n(&d.info) && n(&d.doc) && d.classes.iter().all(|c| n(&c.info) && n(&c.doc) && c.fields.iter().all(|f| n(&f.info) && n(&f.doc))
		&& c.methods.iter().all(|m| n(&m.info) && n(&m.doc) && m.params.iter().all(|p| n(&p.info) && n(&p.doc))))
}
/// order-free equality of two results (Ok up to the order of every map, or both Err)
fn same_res(x: &Option<MMappings>, y: &Option<MMappings>) -> bool { match (x, y) { (Some(x), Some(y)) => x.equiv(y), (None, None) => true, _ => false } }

// ---------- the reference: "what the diff says", written directly over sorted maps ----------
fn ref_option(d: &Act, t: &Option<S>) -> Option<Option<S>> {
	match (d, t) {
		(Act::None, _) => Some(t.clone()),
		(Act::Add(b), None) => Some(Some(b.clone())),
		(Act::Rem(a), Some(x)) if x == a => Some(None),
		(Act::Edit(a, b), Some(x)) if x == a => Some(Some(b.clone())),
		_ => None,
	}
}
/// outcome for one key: Err(()) = refused; Ok(None) = entry absent afterwards
fn ref_entry<D, T: Clone>(tns: usize, d: Option<&D>, t: Option<&T>, info: &dyn Fn(&D) -> &Act, names: &dyn Fn(&mut T) -> &mut NamesRow,
	fresh: &dyn Fn(&S) -> T, child: &dyn Fn(&D, T) -> Result<T, ()>) -> Result<Option<T>, ()> {
	if tns == 0 { if let Some(d) = d { if *info(d) != Act::None { return Err(()); } } } // the first namespace holds the keys
	match (d, t) {
		(None, t) => Ok(t.cloned()),
		(Some(d), None) => match info(d) { Act::Add(b) => Ok(Some(child(d, fresh(b))?)), _ => Err(()) },
		(Some(d), Some(t)) => {
			let mut t = t.clone();
			let cell = &mut names(&mut t)[tns];
			match info(d) {
				Act::None => {}
				Act::Add(b) => { if cell.is_some() { return Err(()); } *cell = Some(b.clone()); }
				Act::Rem(a) => { return if cell.as_ref() == Some(a) { Ok(None) } else { Err(()) }; }
				Act::Edit(a, b) => { if cell.as_ref() != Some(a) { return Err(()); } *cell = Some(b.clone()); }
			}
			Ok(Some(child(d, t)?))
		}
	}
}
fn ref_map<K: Ord + Clone, D, T: Clone>(tns: usize, ds: &[D], ts: &[T], dkey: &dyn Fn(&D) -> K, tkey: &dyn Fn(&T) -> K, info: &dyn Fn(&D) -> &Act,
	names: &dyn Fn(&mut T) -> &mut NamesRow, fresh: &dyn Fn(&K, &S) -> T, child: &dyn Fn(&D, T) -> Result<T, ()>) -> Result<Vec<T>, ()> {
	let dm: BTreeMap<K, &D> = ds.iter().map(|d| (dkey(d), d)).collect();
	let tm: BTreeMap<K, &T> = ts.iter().map(|t| (tkey(t), t)).collect();
	let keys: BTreeSet<K> = dm.keys().chain(tm.keys()).cloned().collect();
	let mut out = vec![];
	for k in keys {
		if let Some(t) = ref_entry(tns, dm.get(&k).copied(), tm.get(&k).copied(), info, names, &|b| fresh(&k, b), child)? { out.push(t); }
	}
	Ok(out)
}
fn fresh_row(n: usize, tns: usize, first: Option<S>, b: &S) -> NamesRow { let mut r = vec![None; n]; r[0] = first; r[tns] = Some(b.clone()); r }
/// reference apply; None = the diff is inconsistent with the target
pub fn ref_apply(d: &DDiff, t: &MMappings, tns: usize) -> Option<MMappings> {
	let n = t.ns.len();
	let mut ns = t.ns.clone();
	match &d.info { Act::None => {}, Act::Edit(a, b) if ns[tns] == *a => { ns[tns] = b.clone(); }, _ => return None }
	let doc = ref_option(&d.doc, &t.doc)?;
	let classes = ref_map(tns, &d.classes, &t.classes, &|d: &DClass| d.name.clone(), &|c: &MClass| c.names[0].clone().unwrap(), &|d| &d.info, &|c| &mut c.names,
		&|k, b| MClass { names: fresh_row(n, tns, Some(k.clone()), b), doc: None, fields: vec![], methods: vec![] },
		&|d, mut c| {
			c.doc = ref_option(&d.doc, &c.doc).ok_or(())?;
			c.fields = ref_map(tns, &d.fields, &c.fields, &|d: &DField| (d.name.clone(), d.desc.clone()), &|f: &MField| (f.names[0].clone().unwrap(), f.desc.clone()), &|d| &d.info, &|f| &mut f.names,
				&|k, b| MField { desc: k.1.clone(), names: fresh_row(n, tns, Some(k.0.clone()), b), doc: None },
				&|d, mut f| { f.doc = ref_option(&d.doc, &f.doc).ok_or(())?; Ok(f) })?;
			c.methods = ref_map(tns, &d.methods, &c.methods, &|d: &DMeth| (d.name.clone(), d.desc.clone()), &|m: &MMeth| (m.names[0].clone().unwrap(), m.desc.clone()), &|d| &d.info, &|m| &mut m.names,
				&|k, b| MMeth { desc: k.1.clone(), names: fresh_row(n, tns, Some(k.0.clone()), b), doc: None, params: vec![] },
				&|d, mut m| {
					m.doc = ref_option(&d.doc, &m.doc).ok_or(())?;
					m.params = ref_map(tns, &d.params, &m.params, &|d: &DParam| d.index, &|p: &MParam| p.index, &|d| &d.info, &|p| &mut p.names,
						&|k, b| MParam { index: *k, names: fresh_row(n, tns, None, b), doc: None },
						&|d, mut p| { p.doc = ref_option(&d.doc, &p.doc).ok_or(())?; Ok(p) })?;
					Ok(m)
				})?;
			Ok(c)
		}).ok()?;
	Some(MMappings { ns, doc, classes })
}

/// reference diff: "the difference of A and B", written directly (= the declarative diff_spec of coq/C04/Spec.v).
/// Only called when every entry has a second-namespace name.
fn ft(a: Option<S>, b: Option<S>) -> Act { match (a, b) { (None, None) => Act::None, (None, Some(b)) => Act::Add(b), (Some(a), None) => Act::Rem(a), (Some(a), Some(b)) => Act::Edit(a, b) } }
fn ref_level<K: Ord + Clone, T, D>(a: &[T], b: &[T], key: &dyn Fn(&T) -> K, mk: &dyn Fn(&K, Option<&T>, Option<&T>) -> D) -> Vec<D> {
	let am: BTreeMap<K, &T> = a.iter().map(|x| (key(x), x)).collect();
	let bm: BTreeMap<K, &T> = b.iter().map(|x| (key(x), x)).collect();
	let keys: BTreeSet<K> = am.keys().chain(bm.keys()).cloned().collect();
	keys.iter().map(|k| mk(k, am.get(k).copied(), bm.get(k).copied())).collect()
}
pub fn ref_diff(a: &MMappings, b: &MMappings) -> DDiff {
	fn nm<T>(o: Option<&T>, f: impl Fn(&T) -> &NamesRow) -> Option<S> { o.and_then(|x| f(x)[1].clone()) }
	fn dc<T>(o: Option<&T>, f: impl Fn(&T) -> &Option<S>) -> Option<S> { o.and_then(|x| f(x).clone()) }
	let none_p: Vec<MParam> = vec![]; let none_f: Vec<MField> = vec![]; let none_m: Vec<MMeth> = vec![];
	DDiff { info: Act::None, doc: ft(a.doc.clone(), b.doc.clone()),
		classes: ref_level(&a.classes, &b.classes, &|c: &MClass| c.names[0].clone().unwrap(), &|k, ca, cb| DClass {
			name: k.clone(), info: ft(nm(ca, |c| &c.names), nm(cb, |c| &c.names)), doc: ft(dc(ca, |c| &c.doc), dc(cb, |c| &c.doc)),
			fields: ref_level(ca.map_or(&none_f, |c| &c.fields), cb.map_or(&none_f, |c| &c.fields), &|f: &MField| (f.names[0].clone().unwrap(), f.desc.clone()), &|k, fa, fb| DField {
				name: k.0.clone(), desc: k.1.clone(), info: ft(nm(fa, |f| &f.names), nm(fb, |f| &f.names)), doc: ft(dc(fa, |f| &f.doc), dc(fb, |f| &f.doc)) }),
			methods: ref_level(ca.map_or(&none_m, |c| &c.methods), cb.map_or(&none_m, |c| &c.methods), &|m: &MMeth| (m.names[0].clone().unwrap(), m.desc.clone()), &|k, ma, mb| DMeth {
				name: k.0.clone(), desc: k.1.clone(), info: ft(nm(ma, |m| &m.names), nm(mb, |m| &m.names)), doc: ft(dc(ma, |m| &m.doc), dc(mb, |m| &m.doc)),
				params: ref_level(ma.map_or(&none_p, |m| &m.params), mb.map_or(&none_p, |m| &m.params), &|p: &MParam| p.index, &|k, pa, pb| DParam {
					index: *k, info: ft(nm(pa, |p| &p.names), nm(pb, |p| &p.names)), doc: ft(dc(pa, |p| &p.doc), dc(pb, |p| &p.doc)) }) }) }) }
}

// ---------- predicates of the theorems' hypotheses ----------
fn named(m: &MMappings) -> bool {
	m.classes.iter().all(|c| c.names[1].is_some() && c.fields.iter().all(|f| f.names[1].is_some())
		&& c.methods.iter().all(|me| me.names[1].is_some() && me.params.iter().all(|p| p.names[1].is_some())))
}
fn has_empty_comment(m: &MMappings) -> bool {
	let e = |d: &Option<S>| d.as_ref().is_some_and(|s| s.is_empty());
	e(&m.doc) || m.classes.iter().any(|c| e(&c.doc) || c.fields.iter().any(|f| e(&f.doc)) || c.methods.iter().any(|me| e(&me.doc) || me.params.iter().any(|p| e(&p.doc))))
}
/// B as a diff can describe it relative to A: a parameter's first-namespace name is not part of a
/// diff (ParameterKey is the index alone), so it is A's at the same path, or absent
fn f3_expected(a: &MMappings, b: &MMappings) -> MMappings {
	let mut e = b.clone();
	for c in &mut e.classes {
		let ca = a.classes.iter().find(|x| x.names[0] == c.names[0]);
		for me in &mut c.methods {
			let ma = ca.and_then(|ca| ca.methods.iter().find(|x| x.names[0] == me.names[0] && x.desc == me.desc));
			for p in &mut me.params {
				let pa = ma.and_then(|ma| ma.params.iter().find(|x| x.index == p.index));
				p.names[0] = pa.and_then(|pa| pa.names[0].clone());
			}
		}
	}
	e
}

// ---------- generators ----------
/// comments: escapes, and (second and third row) comments that are blank — white space only, of every kind
/// `str::trim` removes that a .tinydiff cell can carry (no TAB / LF / CR) — or have leading / trailing / inner blanks
const DOCS2: [&str; 28] = ["changed", "tab\there", "back\\slash", "back\\n", "cr\rmid", "trailing cr\r", "new\nline", "\\", "ü\u{1F600}", "x y",
	" ", "  ", "\u{a0}", "\u{2003}", "\u{3000}", " \u{a0} ", "\u{c}", "\u{85}", "\u{2028}",
	" lead", "trail ", " both ", "in  ner", "\u{a0}nb", "nb\u{a0}", " \\", "\\ ", "\n "];
/// only the blank ones and their neighbours (exhaustive streams)
const BLANKS: [&str; 7] = ["", " ", "  ", "\u{a0}", "\u{3000}\u{2003}", " x", "x "];
/// second-namespace names: valid per duke (an unqualified name may be blank or contain blanks), the first three also as class names
const TNAMES: [&str; 16] = ["Renamed", "net/minecraft/Renamed", "r", "m_99", "f_99", "p_99", "Zed", "other", " ", "  ", "in ner", "trail ", " lead", "\u{a0}", "x\u{3000}", "\u{2003}y"];
const CNAMES: [&str; 8] = ["Renamed", "net/minecraft/Renamed", "r", " ", "pkg /In ner", "trail ", " /\u{a0}", "net/ lead"];

fn unsrc_params(m: &mut MMappings) { for c in &mut m.classes { for me in &mut c.methods { for p in &mut me.params { p.names[0] = None; } } } }

struct EditCfg { drop: usize, rename: usize, doc: usize, add: usize, unname: usize, empty_doc: usize, param_src: usize }
fn edit_doc(rng: &mut Rng, d: &mut Option<S>, cfg: &EditCfg) {
	if rng.below(100) < cfg.doc {
		*d = match rng.below(3) { 0 => None, _ => Some(cps_str(*rng.pick(&DOCS2[..]))) };
	}
	if rng.below(1000) < cfg.empty_doc { *d = Some(vec![]); }
}
fn edit_name(rng: &mut Rng, row: &mut NamesRow, cfg: &EditCfg, pool: &[&str]) {
	if rng.below(100) < cfg.rename { row[1] = Some(cps_str(*rng.pick(pool))); }
	if rng.below(1000) < cfg.unname { row[1] = None; }
}
/// a random descendant of `m`: entries dropped, renamed in the second namespace, comments changed, entries added
fn edit(rng: &mut Rng, m: &MMappings, cfg: &EditCfg, tag: &str) -> MMappings {
	let mut out = m.clone();
	// the comment of the mapping set itself: absent / one fixed value / anything from the pool, independently on both sides
	if rng.below(100) < cfg.doc / 2 { out.doc = match rng.below(4) { 0 => None, 1 => Some(cps_str("top comment")), _ => Some(cps_str(*rng.pick(&DOCS2[..]))) }; }
	// A and B add entries independently: under their own key (tag) or under a key the other side may add as well (`s`),
	// then with another name / comment (an entry present on both sides and in neither's ancestor)
	let mut r3 = rng.fork(13);
	let mut key_tag = move || if r3.chance(2, 5) { "s" } else { tag };
	let sfx = |rng: &mut Rng, base: &str| cps_str(&format!("{base}{}", if rng.chance(1, 2) { tag } else { "" }));
	out.classes.retain(|_| rng.below(100) >= cfg.drop);
	for c in &mut out.classes {
		edit_name(rng, &mut c.names, cfg, &CNAMES[..]);
		edit_doc(rng, &mut c.doc, cfg);
		c.fields.retain(|_| rng.below(100) >= cfg.drop);
		c.methods.retain(|_| rng.below(100) >= cfg.drop);
		for f in &mut c.fields { edit_name(rng, &mut f.names, cfg, &TNAMES[2..]); edit_doc(rng, &mut f.doc, cfg); }
		for me in &mut c.methods {
			edit_name(rng, &mut me.names, cfg, &TNAMES[2..]); edit_doc(rng, &mut me.doc, cfg);
			me.params.retain(|_| rng.below(100) >= cfg.drop);
			for p in &mut me.params { edit_name(rng, &mut p.names, cfg, &TNAMES[2..]); edit_doc(rng, &mut p.doc, cfg); }
			if rng.below(100) < cfg.add {
				let index = rng.below(8) as u64;
				if !me.params.iter().any(|p| p.index == index) {
					let src = if rng.below(100) < cfg.param_src { Some(cps_str("q")) } else { None };
					let mut p = MParam { index, names: vec![src, Some(sfx(rng, "added_p"))], doc: None };
					edit_doc(rng, &mut p.doc, cfg);
					me.params.push(p);
				}
			}
		}
		if rng.below(100) < cfg.add {
			let kt = key_tag();
			let name = cps_str(&format!("f_{kt}{}", if kt == "s" { 0 } else { rng.below(3) }));
			let desc = cps_str(if kt == "s" { "I" } else { *rng.pick(&["I", "J", "La;"][..]) });
			if !c.fields.iter().any(|f| f.names[0].as_ref() == Some(&name) && f.desc == desc) {
				let mut f = MField { desc, names: vec![Some(name), Some(sfx(rng, "addedField"))], doc: None };
				edit_doc(rng, &mut f.doc, cfg);
				c.fields.push(f);
			}
		}
		if rng.below(100) < cfg.add {
			let kt = key_tag();
			let name = cps_str(&format!("m_{kt}{}", if kt == "s" { 0 } else { rng.below(3) }));
			let desc = cps_str(if kt == "s" { "(I)V" } else { *rng.pick(&["()V", "(I)V", "(La;I)La;"][..]) });
			if !c.methods.iter().any(|f| f.names[0].as_ref() == Some(&name) && f.desc == desc) {
				let mut me = MMeth { desc, names: vec![Some(name), Some(sfx(rng, "addedMethod"))], doc: None, params: vec![] };
				edit_doc(rng, &mut me.doc, cfg);
				if rng.chance(1, 2) {
					let src = if rng.below(100) < cfg.param_src { Some(cps_str("q")) } else { None };
					me.params.push(MParam { index: rng.below(3) as u64, names: vec![src, Some(sfx(rng, "ap"))], doc: None });
				}
				c.methods.push(me);
			}
		}
	}
	for i in 0..2 {
		if rng.below(100) < cfg.add {
			let name = cps_str(&format!("added/{}{i}", key_tag()));
			if !out.classes.iter().any(|c| c.names[0].as_ref() == Some(&name)) {
				let mut c = MClass { names: vec![Some(name), Some(cps_str(&format!("named/Added{tag}{i}")))], doc: None, fields: vec![], methods: vec![] };
				edit_doc(rng, &mut c.doc, cfg);
				if rng.chance(1, 2) { c.fields.push(MField { desc: cps_str("I"), names: vec![Some(cps_str("x")), Some(sfx(rng, "ex"))], doc: if rng.chance(1, 2) { Some(cps_str("doc of x")) } else { Some(cps_str(tag)) } }); }
				if rng.chance(1, 2) {
					let src = if rng.below(100) < cfg.param_src { Some(cps_str("q")) } else { None };
					c.methods.push(MMeth { desc: cps_str("(I)V"), names: vec![Some(cps_str("y")), Some(cps_str("why"))], doc: None,
						params: vec![MParam { index: 1, names: vec![src, Some(sfx(rng, "arg"))], doc: if rng.chance(1, 2) { Some(cps_str("doc of arg")) } else { None } }] });
				}
				out.classes.push(c);
			}
		}
	}
	let mut r2 = rng.fork(7);
	shuffled(&mut r2, &out)
}

/// a diff aimed at `t` (target namespace index tns): mostly what is consistent with the target,
/// with probability `fault`/1000 per entry something inconsistent
fn gen_act_for(rng: &mut Rng, cur: &Option<S>, fault: usize, pool: &[&str], none_w: usize) -> Act {
	let fresh = cps_str(*rng.pick(pool));
	let wrong = cps_str("WRONG");
	if rng.below(1000) < fault {
		return match (rng.below(5), cur) {
			(4, _) => Act::Edit(wrong.clone(), wrong),
			(0, Some(_)) => Act::Add(fresh),
			(0, None) => Act::Rem(fresh),
			(1, _) => Act::Rem(wrong),
			(2, _) => Act::Edit(wrong, fresh),
			(_, None) => Act::Edit(fresh.clone(), fresh),
			(_, Some(_)) => Act::Add(wrong),
		};
	}
	if rng.below(100) < none_w { return Act::None; }
	match cur {
		None => Act::Add(fresh),
		Some(x) => match rng.below(3) { 0 => Act::Rem(x.clone()), 1 => Act::Edit(x.clone(), x.clone()), _ => Act::Edit(x.clone(), fresh) },
	}
}
fn gen_doc_act(rng: &mut Rng, cur: &Option<S>, fault: usize) -> Act { gen_act_for(rng, cur, fault, &DOCS2[..], 60) }
fn gen_diff_for(rng: &mut Rng, t: &MMappings, tns: usize, fault: usize) -> DDiff {
	let mut d = DDiff { info: Act::None, doc: gen_doc_act(rng, &t.doc, fault), classes: vec![] };
	if rng.chance(1, 12) { d.info = if rng.below(1000) < fault * 5 { Act::Edit(cps_str("nope"), cps_str("x")) } else { Act::Edit(t.ns[tns].clone(), cps_str("renamedNs")) }; }
	let incl = 70;
	for c in &t.classes {
		if rng.below(100) >= incl { continue; }
		let mut dc = DClass { name: c.names[0].clone().unwrap(), info: gen_act_for(rng, &c.names[tns], fault, &CNAMES[..], 40), doc: gen_doc_act(rng, &c.doc, fault), fields: vec![], methods: vec![] };
		for f in &c.fields {
			if rng.below(100) >= incl { continue; }
			dc.fields.push(DField { name: f.names[0].clone().unwrap(), desc: f.desc.clone(), info: gen_act_for(rng, &f.names[tns], fault, &TNAMES[2..], 30), doc: gen_doc_act(rng, &f.doc, fault) });
		}
		if rng.chance(1, 3) { dc.fields.push(DField { name: cps_str("newF"), desc: cps_str("I"), info: if rng.below(1000) < fault * 3 { Act::None } else { Act::Add(cps_str("newFieldName")) }, doc: if rng.chance(1, 2) { Act::Add(cps_str("fresh doc")) } else { Act::None } }); }
		for me in &c.methods {
			if rng.below(100) >= incl { continue; }
			let mut dm = DMeth { name: me.names[0].clone().unwrap(), desc: me.desc.clone(), info: gen_act_for(rng, &me.names[tns], fault, &TNAMES[2..], 30), doc: gen_doc_act(rng, &me.doc, fault), params: vec![] };
			for p in &me.params {
				if rng.below(100) >= incl { continue; }
				dm.params.push(DParam { index: p.index, info: gen_act_for(rng, &p.names[tns], fault, &TNAMES[2..], 30), doc: gen_doc_act(rng, &p.doc, fault) });
			}
			if rng.chance(1, 3) {
				let index = 6 + rng.below(3) as u64;
				dm.params.push(DParam { index, info: if rng.below(1000) < fault * 3 { Act::Rem(cps_str("gone")) } else { Act::Add(cps_str("np")) }, doc: if rng.chance(1, 3) { Act::Add(cps_str("pdoc")) } else { Act::None } });
			}
			dc.methods.push(dm);
		}
		if rng.chance(1, 4) {
			dc.methods.push(DMeth { name: cps_str("newM"), desc: cps_str("(J)V"), info: if rng.below(1000) < fault * 3 { Act::Edit(cps_str("a"), cps_str("b")) } else { Act::Add(cps_str("newMethodName")) }, doc: Act::None,
				params: if rng.chance(1, 2) { vec![DParam { index: 0, info: Act::Add(cps_str("p0")), doc: Act::None }] } else { vec![] } });
		}
		d.classes.push(dc);
	}
	if rng.chance(1, 2) {
		d.classes.push(DClass { name: cps_str("brand/New"), info: if rng.below(1000) < fault * 3 { Act::None } else { Act::Add(cps_str("named/BrandNew")) }, doc: if rng.chance(1, 2) { Act::Add(cps_str("class doc")) } else { Act::None },
			fields: vec![DField { name: cps_str("nf"), desc: cps_str("Z"), info: Act::Add(cps_str("flag")), doc: Act::None }],
			methods: vec![DMeth { name: cps_str("nm"), desc: cps_str("()V"), info: Act::Add(cps_str("run")), doc: Act::Add(cps_str("mdoc")), params: vec![DParam { index: 0, info: Act::Add(cps_str("p")), doc: Act::None }] }] });
	}
	// the order of the diff's entries is independent of the target's
	let mut r2 = rng.fork(11);
	for c in &mut d.classes { for m in &mut c.methods { r2.shuffle(&mut m.params); } r2.shuffle(&mut c.fields); r2.shuffle(&mut c.methods); }
	r2.shuffle(&mut d.classes);
	d
}

// ---------- running one input through implementation, oracle and correspondence ----------
struct Run<'a> { r: &'a mut Report, tmp: Tmp }

impl<'a> Run<'a> {
	/// arbitrary diff against arbitrary target
	fn apply_case(&mut self, stream: &str, d: &DDiff, t: &MMappings, nsname: &S, emit: bool) -> Option<MMappings> {
		let mut desync = vec![];
		let got = match impl_apply(d, t, nsname, &mut desync) {
			Ok(g) => g,
			Err(p) => { self.r.violation(format!("apply_to panicked or input not representable: {p}"), format!("stream {stream}\ntarget namespace {:?}\n{}{}", show(nsname), show_diff(d), show_mappings(t))); return None; }
		};
		let tns = t.ns.iter().position(|x| x == nsname);
		self.r.eval(&format!("A{}|{}|{}", g_diff(d), g_mappings(t), gstr(nsname)), got.is_some() && d.size() > 0);
		self.r.count(if got.is_some() { "apply_ok" } else { "apply_err" });
		match tns {
			Some(tns) => {
				if tns == 0 { self.r.count("apply_first_namespace"); }
				if !desync.is_empty() { self.r.violation(format!("apply_to produced a tree whose map keys differ from its entries: {}", desync[0]), format!("stream {stream}\n{}{}", show_diff(d), show_mappings(t))); }
				let want = ref_apply(d, t, tns);
				if !same_res(&got, &want) {
					let what = match (&got, &want) {
						(Some(_), None) => "apply_to returned a result although the diff is inconsistent with the target (a stated old value does not match, or an addition collides)",
						(None, Some(_)) => "apply_to refused a diff that is consistent with the target",
						_ => "apply_to returned a result that differs from what the diff says",
					};
					self.r.violation(what.to_string(), format!("stream {stream}\ntarget namespace {:?} (index {tns})\n{}target:\n{}apply_to returned:\n{}the diff says:\n{}", show(nsname), show_diff(d), show_mappings(t), sh_res(&got), sh_res(&want)));
				}
			}
			None => { self.r.count("apply_unknown_namespace"); if got.is_some() { self.r.violation("apply_to succeeded for a namespace the target does not have".into(), format!("{}{}", show_diff(d), show_mappings(t))); } }
		}
		// C04_noop_identity: a diff whose every action is None or Edit(x,x) returns the target itself, entry for entry, same order
		if is_noop(d) {
			self.r.count("apply_noop_diff");
			if let Some(g) = &got { if g != t { self.r.violation("a diff without any effective action (every action None or Edit(x,x)) changed the target or its order".into(), format!("stream {stream}\n{}target:\n{}apply_to returned:\n{}", show_diff(d), show_mappings(t), show_mappings(g))); } }
		}
		if emit { self.r.case(stream, format!("CApply {} {} {} {}", g_diff(d), g_mappings(t), gstr(nsname), gres(got.as_ref().map(g_mappings)))); }
		got
	}

	/// pair (A,B): diff, apply, and the same through the text form
	fn pair_case(&mut self, stream: &str, a: &MMappings, b: &MMappings, emit: bool) -> Option<MMappings> {
		let replay = |extra: &str| format!("stream {stream}\nA:\n{}B:\n{}{extra}", show_mappings(a), show_mappings(b));
		let d = match impl_diff(a, b) {
			Ok(d) => d,
			Err(p) => { self.r.violation(format!("diff panicked or input not representable: {p}"), replay("")); return None; }
		};
		self.r.eval(&format!("P{}|{}", g_mappings(a), g_mappings(b)), d.is_some() && a.size() + b.size() > 0);
		let gd = gres(d.as_ref().map(g_diff));
		// the hypotheses of the theorems, evaluated here and (as Gallina booleans) inside Coq
		let wf2 = |m: &MMappings| m.ns.len() == 2 && to_quill::<2, NsAny>(m).is_ok();
		let h_inv = wf2(a) && wf2(b) && a.ns[0] != a.ns[1] && a.ns == b.ns && named(a) && named(b);
		let h_f3 = f3_expected(a, b) != *b;
		let h_txt = h_inv && textual_m(a) && textual_m(b) && a.doc == b.doc;
		let h_f4 = has_empty_comment(a) || has_empty_comment(b);
		let h_txt_top = h_inv && textual_m(a) && textual_m(b);
		let ghy = glist([h_inv, h_f3, h_txt, h_f4, h_txt_top].into_iter().map(gbool));
		if h_txt_top && !h_txt && !h_f3 && !h_f4 { self.r.count("pair_in_hypotheses_of_text_theorem_modulo_top_comment"); }
		if h_inv && !h_f3 { self.r.count("pair_in_hypotheses_of_inverse_theorem"); }
		if h_txt && !h_f3 && !h_f4 { self.r.count("pair_in_hypotheses_of_text_theorem"); }
		let emit_pair = |r: &mut Report, rm: Option<&Option<MMappings>>, rr: Option<&Option<MMappings>>| {
			let gr = |x: Option<&Option<MMappings>>| gopt(x.map(|x| gres(x.as_ref().map(g_mappings))));
			if emit { r.case(stream, format!("CPair {} {} {} {} {} {} {}", g_mappings(a), g_mappings(b), gd, gstr(&a.ns[1]), gr(rm), gr(rr), ghy)); }
		};
		// diff fails exactly when the namespaces differ or a second-namespace name is missing
		let should = a.ns == b.ns && named(a) && named(b);
		// (round 5) The property asks for a diff of ANY two sets over the same namespaces; the code refuses the pairs with an
		// entry that lacks its second-namespace name (stated narrowing, C04_diff_ok_iff).  A refusal INSIDE that domain is a
		// violation.  A diff that is returned OUTSIDE it is not by itself one (a more general diff would be an improvement): it is
		// judged like every other diff, by the inverse law below - what comes out of apply(diff(A,B),A) must be B.
		if d.is_none() && should {
			self.r.violation("diff refused two mapping sets over the same namespaces in which every entry has a second-namespace name".into(), replay(""));
		}
		if d.is_some() && !should { self.r.count("diff_ok_outside_the_modelled_domain(judged_by_the_inverse_law)"); }
		let Some(d) = d else { self.r.count("diff_err"); emit_pair(self.r, None, None); return None; };
		self.r.count("diff_ok");
		// C04_diff_exact says what the model's diff contains (the union of the keys at every level, Edit on both sides, Remove / Add
		// on one). The property itself does not prescribe the content of a diff - only that applying it to A gives B - so a
		// different but equally effective diff is NOT a violation: the comparison with the independent reference is counted
		// (and any difference shows up as a model / implementation disagreement in CPair), the inverse law below is the judge.
		if should { self.r.count(if ref_diff(a, b).canon() == d.canon() { "diff_equals_reference_difference" } else { "diff_differs_from_reference_difference" }); }
		let nsname = a.ns[1].clone();
		if a.ns[0] == a.ns[1] { self.r.count("pair_duplicate_namespace_names"); emit_pair(self.r, None, None); return None; }
		let mut desync = vec![];
		let got = match impl_apply(&d, a, &nsname, &mut desync) { Ok(g) => g, Err(p) => { self.r.violation(format!("apply_to panicked: {p}"), replay(&show_diff(&d))); emit_pair(self.r, None, None); return None; } };
		let ok = got.as_ref().is_some_and(|g| g.equiv(b));
		if ok { self.r.count("inverse_ok"); } else {
			let f3 = h_f3 && got.as_ref().is_some_and(|g| g.equiv(&f3_expected(a, b)));
			if f3 { self.r.count("inverse_known_F3"); self.r.known("F3 a parameter's first-namespace name is not carried by a diff".into()); }
			else { self.r.violation("apply(diff(A,B),A) is not B".into(), replay(&format!("diff(A,B):\n{}apply(diff(A,B),A):\n{}", show_diff(&d), sh_res(&got)))); }
		}
		// through the text form.  The .tinydiff format has no line for the comment of the mapping set itself
		// (tiny_v2_diff::read never sets MappingsDiff::javadoc; C04_read_no_top), so that one action cannot travel:
		// everything else must arrive, and the top-level comment stays A's (C04_text_inverse_modulo_top; stated
		// in props/c04.py).  With equal top-level comments this is the literal law.
		let top_changes = match &d.doc { Act::None => false, Act::Edit(x, y) => x != y, _ => true };
		if top_changes { self.r.count("pair_top_comment_differs_text_carries_the_rest"); }
		let txt = print_tinydiff(&d);
		let Some(bytes) = utf8(&txt) else { emit_pair(self.r, Some(&got), None); return None; };
		let d2 = match self.tmp.read(&bytes) { Ok(x) => x, Err(p) => { self.r.violation(format!("tiny_v2_diff::read_file panicked: {p}"), replay(&format!("text:\n{}", show(&txt)))); emit_pair(self.r, Some(&got), None); return None; } };
		let mut nd = norm(&d); nd.doc = Act::None;
		// the property is about the content of the diff, not the order of its entries: compared order-free
		// (the exact order is compared in the correspondence, CRead / CPair)
		if d2.as_ref().map(|x| x.canon()) != Some(nd.canon()) {
			self.r.violation("reading the printed diff does not give back the diff (up to Edit(a,a) = None, empty = absent)".into(), replay(&format!("diff:\n{}text:\n{}\nread back:\n{}", show_diff(&d), show(&txt), d2.as_ref().map(show_diff).unwrap_or("Err\n".into()))));
			emit_pair(self.r, Some(&got), None);
			return got;
		}
		let d2 = d2.unwrap();
		let mut desync = vec![];
		let got2 = match impl_apply(&d2, a, &nsname, &mut desync) { Ok(g) => g, Err(p) => { self.r.violation(format!("apply_to panicked: {p}"), replay(&show_diff(&d2))); emit_pair(self.r, Some(&got), None); return None; } };
		let want2 = got.clone().map(|mut g| { if top_changes { g.doc = a.doc.clone(); } g });
		if same_res(&want2, &got2) { self.r.count(if top_changes { "text_inverse_ok_except_top_comment" } else { "text_inverse_ok" }); } else {
			// F4, as narrow as the defect: (i) A or B has an empty comment (f4_class), (ii) the empty = absent rule of the
			// text form changed a comment action of this diff (Edit(a,a) = None alone is NOT F4), (iii) what came out is
			// exactly what the diff that was read back says (reference apply), with nothing else different
			let no_top = |mut x: DDiff| { x.doc = Act::None; x };
			let f4_touched = no_top(norm_with(&d, true)) != no_top(norm_with(&d, false));
			let f4 = h_f4 && f4_touched && same_res(&got2, &ref_apply(&d2, a, 1));
			if f4 { self.r.count("text_inverse_known_F4"); self.r.known("F4 an empty comment is an absent cell in the .tinydiff text form".into()); }
			else {
				self.r.violation("applying the diff read back from its text form differs from applying the diff itself".into(), replay(&format!("diff:\n{}text:\n{}\ndirect{}:\n{}through text:\n{}", show_diff(&d), show(&txt), if top_changes { " (the top-level comment cannot travel: expected A's)" } else { "" }, sh_res(&want2), sh_res(&got2))));
			}
		}
		emit_pair(self.r, Some(&got), Some(&got2));
		got
	}

	/// text -> read_file
	fn read_case(&mut self, stream: &str, txt: &S, nontrivial: bool) -> Option<DDiff> {
		let bytes = utf8(txt)?;
		let got = match self.tmp.read(&bytes) { Ok(g) => g, Err(p) => { self.r.violation(format!("tiny_v2_diff::read_file panicked: {p}"), format!("text:\n{}", show(txt))); return None; } };
		self.r.eval(&format!("R{}", gstr(txt)), nontrivial && got.is_some());
		self.r.count(if got.is_some() { "read_ok" } else { "read_err" });
		self.r.case(stream, format!("CRead {} {}", gstr(txt), gres(got.as_ref().map(g_diff))));
		// C04_read_image on the implementation alone: valid keys, no action above the classes, only name actions a line can express
		if let Some(d) = &got { if !read_image_ok(d) {
			self.r.violation("read_file returned a diff with an invalid key or a name action no line can express (empty value, Edit(x,x), invalid name, action on the mapping set itself)".into(), format!("text:\n{}\nread_file gave:\n{}", show(txt), show_diff(d)));
		} }
		got
	}
	/// diff -> print -> read_file == norm
	fn print_case(&mut self, stream: &str, d: &DDiff) {
		let txt = print_tinydiff(d);
		self.r.case(stream, format!("CPrint {} {}", g_diff(d), gstr(&txt)));
		let got = self.read_case(stream, &txt, d.size() > 0);
		let mut nd = norm(d); nd.info = Act::None; nd.doc = Act::None;
		if textual(d) && got.as_ref().map(|x| x.canon()) != Some(nd.canon()) {
			self.r.violation("reading the printed diff does not give back the diff (up to Edit(a,a) = None, empty = absent)".into(), format!("diff:\n{}text:\n{}\nread back:\n{}", show_diff(d), show(&txt), got.as_ref().map(show_diff).unwrap_or("Err\n".into())));
		}
	}
}

// names a .tinydiff can carry: valid per duke's checks, no TAB / LF / CR
fn clean(s: &S) -> bool { !s.iter().any(|&c| c == 9 || c == 10 || c == 13) }
fn unq(s: &S) -> bool { !s.is_empty() && clean(s) && !s.iter().any(|&c| c == '.' as u32 || c == ';' as u32 || c == '[' as u32 || c == '/' as u32) }
fn mname(s: &S) -> bool { *s == cps_str("<init>") || *s == cps_str("<clinit>") || (unq(s) && !s.iter().any(|&c| c == '<' as u32 || c == '>' as u32)) }
fn cname(s: &S) -> bool { clean(s) && s.first() != Some(&('[' as u32)) && s.split(|&c| c == '/' as u32).all(|p| unq(&p.to_vec())) }
fn act_all(a: &Act, f: &dyn Fn(&S) -> bool) -> bool { match a { Act::None => true, Act::Add(b) => f(b), Act::Rem(x) => f(x), Act::Edit(x, y) => f(x) && f(y) } }
fn keys_distinct<K: Ord>(it: impl Iterator<Item = K>) -> bool { let v: Vec<K> = it.collect(); let n = v.len(); v.into_iter().collect::<BTreeSet<K>>().len() == n }
// ---------- independent reading of an action line (TinyLine::action / action_string; = Gallina `decode_spec`) ----------
fn unescape_ref(s: &S) -> S {
	let mut out = vec![]; let mut i = 0;
	while i < s.len() {
		if s[i] == '\\' as u32 && i + 1 < s.len() {
			let m = match char::from_u32(s[i + 1]) { Some('\\') => Some('\\'), Some('n') => Some('\n'), Some('r') => Some('\r'), Some('t') => Some('\t'), _ => None };
			if let Some(m) = m { out.push(m as u32); i += 2; continue; }
		}
		out.push(s[i]); i += 1;
	}
	out
}
fn line_col(cells: &[S], i: usize) -> Option<S> { cells.get(i).filter(|c| !c.is_empty()).cloned() }
/// more than two cells: refused; a non-empty cell the checked constructor refuses: refused; empty = absent; equal = none;
/// valid = None: a comment line (no check, values unescaped afterwards)
fn ref_line(cells: &[S], valid: Option<&dyn Fn(&S) -> bool>) -> Option<Act> {
	if cells.len() > 2 { return None; }
	if let Some(v) = valid { if cells.iter().any(|c| !c.is_empty() && !v(c)) { return None; } }
	let a = match (line_col(cells, 0), line_col(cells, 1)) {
		(None, None) => Act::None, (None, Some(b)) => Act::Add(b), (Some(a), None) => Act::Rem(a),
		(Some(a), Some(b)) => if a == b { Act::None } else { Act::Edit(a, b) },
	};
	Some(if valid.is_none() { match a { Act::None => Act::None, Act::Add(b) => Act::Add(unescape_ref(&b)), Act::Rem(x) => Act::Rem(unescape_ref(&x)), Act::Edit(x, y) => Act::Edit(unescape_ref(&x), unescape_ref(&y)) } } else { a })
}
fn info_ok(a: &Act, f: &dyn Fn(&S) -> bool) -> bool {
	act_all(a, f) && match a { Act::Edit(x, y) => x != y, _ => true }
}
/// = Gallina `read_image_b` (the keys of a DDiff come out of IndexMaps; distinctness is checked all the same).
/// Validity as duke's checked constructors see it (a CR inside a name is fine there), not the narrower `textual` one.
fn read_image_ok(d: &DDiff) -> bool {
	fn unq0(s: &S) -> bool { !s.is_empty() && !s.iter().any(|&c| c == '.' as u32 || c == ';' as u32 || c == '[' as u32 || c == '/' as u32) }
	fn mname0(s: &S) -> bool { *s == cps_str("<init>") || *s == cps_str("<clinit>") || (unq0(s) && !s.iter().any(|&c| c == '<' as u32 || c == '>' as u32)) }
	fn cname0(s: &S) -> bool { s.first() != Some(&('[' as u32)) && s.split(|&c| c == '/' as u32).all(|p| unq0(&p.to_vec())) }
	d.info == Act::None && d.doc == Act::None && keys_distinct(d.classes.iter().map(|c| c.name.clone()))
	&& d.classes.iter().all(|c| cname0(&c.name) && info_ok(&c.info, &cname0)
		&& keys_distinct(c.fields.iter().map(|f| (f.name.clone(), f.desc.clone()))) && keys_distinct(c.methods.iter().map(|m| (m.name.clone(), m.desc.clone())))
		&& c.fields.iter().all(|f| unq0(&f.name) && info_ok(&f.info, &unq0))
		&& c.methods.iter().all(|m| mname0(&m.name) && info_ok(&m.info, &mname0) && keys_distinct(m.params.iter().map(|p| p.index))
			&& m.params.iter().all(|p| info_ok(&p.info, &unq0))))
}
fn textual_m(m: &MMappings) -> bool {
	let n1 = |r: &NamesRow, f: &dyn Fn(&S) -> bool| r[1].as_ref().map_or(true, f);
	m.classes.iter().all(|c| cname(c.names[0].as_ref().unwrap()) && n1(&c.names, &cname)
		&& c.fields.iter().all(|f| clean(&f.desc) && unq(f.names[0].as_ref().unwrap()) && n1(&f.names, &unq))
		&& c.methods.iter().all(|me| clean(&me.desc) && mname(me.names[0].as_ref().unwrap()) && n1(&me.names, &mname) && me.params.iter().all(|p| n1(&p.names, &unq))))
}
fn textual(d: &DDiff) -> bool {
	keys_distinct(d.classes.iter().map(|c| &c.name)) && d.classes.iter().all(|c| cname(&c.name) && act_all(&c.info, &cname)
		&& keys_distinct(c.fields.iter().map(|f| (&f.name, &f.desc))) && keys_distinct(c.methods.iter().map(|m| (&m.name, &m.desc)))
		&& c.fields.iter().all(|f| unq(&f.name) && clean(&f.desc) && act_all(&f.info, &unq))
		&& c.methods.iter().all(|m| mname(&m.name) && clean(&m.desc) && act_all(&m.info, &mname) && keys_distinct(m.params.iter().map(|p| p.index)) && m.params.iter().all(|p| act_all(&p.info, &unq))))
}

fn mutate_text(rng: &mut Rng, t: &mut S) {
	let lines: Vec<usize> = std::iter::once(0).chain(t.iter().enumerate().filter(|(_, &c)| c == 10).map(|(i, _)| i + 1)).filter(|&i| i < t.len()).collect();
	let at = if lines.is_empty() { 0 } else { *rng.pick(&lines) };
	match rng.below(12) {
		0 => { t.insert(at, 9); }                                   // deeper by one
		1 => { if t.get(at) == Some(&9) { t.remove(at); } }          // shallower by one
		2 => { let ins = cps_str("\tc\tsecond comment\n"); t.splice(at..at, ins); }
		3 => { let ins = cps_str("x\tunknown\ttag\n"); t.splice(at..at, ins); }
		4 => { let ins = cps_str("\t\tq\tdeep unknown\n"); t.splice(at..at, ins); }
		5 => { let ins = cps_str("\n"); t.splice(at..at, ins); }     // empty line
		6 => { if !t.is_empty() { let i = rng.below(t.len()); if t[i] == 9 { t[i] = 32; } } }
		7 => { if !t.is_empty() { let i = rng.below(t.len()); t.insert(i, 9); } }   // extra cell somewhere
		8 => { if let Some(i) = t.iter().position(|&c| c == 10) { t.insert(i, 13); } } // CRLF on the header
		9 => { if t.last() == Some(&10) { t.pop(); if rng.chance(1, 2) { t.push(13); } } }
		10 => { if lines.len() > 1 { let a = lines[rng.below(lines.len())]; let e = t[a..].iter().position(|&c| c == 10).map(|i| a + i + 1).unwrap_or(t.len()); let l: S = t[a..e].to_vec(); t.splice(at..at, l); } } // duplicate a line
		_ => { if !t.is_empty() { let i = rng.below(t.len()); t[i] = *rng.pick(&cps_str("\t\n\\c/;[+0 ")); } }
	}
}

// ---------- the exhaustive single-entry table ----------
fn one_entry_target(cls: Option<Option<&str>>, fld: Option<Option<&str>>, mth: Option<Option<&str>>, par: Option<Option<&str>>, docs: [Option<&str>; 5]) -> MMappings {
	let o = |x: Option<&str>| x.map(cps_str);
	let mut m = MMappings { ns: vec![cps_str("official"), cps_str("named")], doc: o(docs[0]), classes: vec![] };
	if let Some(cn) = cls {
		let mut c = MClass { names: vec![Some(cps_str("C")), o(cn)], doc: o(docs[1]), fields: vec![], methods: vec![] };
		if let Some(fnm) = fld { c.fields.push(MField { desc: cps_str("I"), names: vec![Some(cps_str("f")), o(fnm)], doc: o(docs[2]) }); }
		if let Some(mn) = mth {
			let mut me = MMeth { desc: cps_str("(I)V"), names: vec![Some(cps_str("m")), o(mn)], doc: o(docs[3]), params: vec![] };
			if let Some(pn) = par { me.params.push(MParam { index: 0, names: vec![None, o(pn)], doc: o(docs[4]) }); }
			c.methods.push(me);
		}
		m.classes.push(c);
	}
	m
}
fn one_entry_diff(acts: [Option<Act>; 4], docs: [Act; 5]) -> DDiff {
	let mut d = DDiff { info: Act::None, doc: docs[0].clone(), classes: vec![] };
	if let Some(ca) = &acts[0] {
		let mut c = DClass { name: cps_str("C"), info: ca.clone(), doc: docs[1].clone(), fields: vec![], methods: vec![] };
		if let Some(fa) = &acts[1] { c.fields.push(DField { name: cps_str("f"), desc: cps_str("I"), info: fa.clone(), doc: docs[2].clone() }); }
		if let Some(ma) = &acts[2] {
			let mut m = DMeth { name: cps_str("m"), desc: cps_str("(I)V"), info: ma.clone(), doc: docs[3].clone(), params: vec![] };
			if let Some(pa) = &acts[3] { m.params.push(DParam { index: 0, info: pa.clone(), doc: docs[4].clone() }); }
			c.methods.push(m);
		}
		d.classes.push(c);
	}
	d
}

pub fn run(ctx: &Ctx) -> anyhow::Result<Report> {
	let mut r = Report::new("C04", "C04.Run");
	r.shard_size = 200;
	let mut rng = Rng::new(ctx.seed);
	r.rule = "table: every combination of the 4 actions x target entry {absent, present without name, present with the stated old name, present with another name} at class/field/method/parameter level and the 4 actions x comment {absent, stated old value, other value} at mappings/class/field/method/parameter level on a single-entry tree, each also below an added and below a removed parent; pairs: (A,B) derived from a generated two-namespace ancestor by independent random edits (drop, rename, comment change incl. the comment of the mapping set itself, add at every level - also the same new key on both sides with different names/comments) so that only-A / only-B / both-equal / both-different entries occur at every level; pair-chain: for a third of them the way back diff(R,A) from the tree R = apply(diff(A,B),A) as apply_to returned it (its own entry order); comments and second-namespace names are drawn from pools that contain white-space-only values (space, two spaces, NBSP, EM SPACE, IDEOGRAPHIC SPACE, FF, NEL, LINE SEPARATOR) and values with leading / trailing / inner blanks; pair-blank: single-entry pairs with absent / empty / blank / blank-edged comment (five levels) or name (four levels) on either side, text-blank: single-entry diffs with such old / new values in every comment and name action through print / read_file; with separate streams violating each hypothesis (absent second-namespace names, first-namespace parameter names, empty comments, differing namespaces); arbitrary: random diffs aimed at a generated target (1, 2, 3 and 4 namespaces, every target namespace incl. the first and an unknown one), consistent or with injected faults; text: printed diffs, the repository's four .tinydiff fixtures, and mutations of both; holder: exhaustively on the single-path tree (class C / field f / method m / parameter 0) every class entry {None, Edit(x,x); thorough: Edit, Remove, Add} x class {absent, present} x field entry {none, Add, None} x method entry {none, Add, None, Edit(x,x)} x parameter entry {none, Add, None} x class comment {None, Add} x every combination of the targets below an existing class {field, method, parameter present / absent}; action: the helpers of Action (is_diff, as_ref, to_tuple, from_tuple, flip) on None / Add / Remove / Edit over empty, blank, equal and different values, with flip undoing apply_diff_option on every target it applies to; sizes: a class with 300 fields and a method with 300 parameters against diffs touching every second entry in shuffled order, names and comments longer than 32 KiB through diff / apply / print / read_file, parameter indices 255 / 256 / 65535 / 65536 / 2^32 / usize::MAX; not-utf8: files with an invalid byte sequence on the header line or on a line at every depth (read_file must answer Err, never panic). line-action: TinyLine::action / action_string through read_file on one-entry files - every list of 0, 1 and 2 cells over a pool (empty, valid, valid for one line kind only, blank, non-BMP, backslash sequences) and random lists of 3 or 4 cells after the key of a class / field / method / parameter line and on a comment line; judged by an independent two-column reading (more than two cells or an invalid non-empty cell: refused; empty = absent; equal = none; comments unescaped after the comparison) and by apply_diff_option of the decoded action on absent / old column / new column / another value (C04_line_action_spec, C04_line_action_apply). pair-path: exhaustively on the single-path tree, per level what differs between A and B (class same / renamed / comment changed / only in A / only in B; field, method, parameter additionally absent on both sides) in every combination - in particular unchanged holders above changed, added or removed children. Oracle on the implementation: (counted, not judged: diff(A,B) equals the independently computed difference - union of keys at every level, Edit on both sides, Remove / Add on one side, comment old -> new; = C04_diff_exact); apply(diff(A,B),A) equivalent to B, also through print/read_file; result of apply_to equals an independent map-based reference and Err exactly when the reference finds an inconsistency; a diff whose every action is None or Edit(x,x) returns the target itself, same order (C04_noop_identity); diff is Err exactly when a needed name is absent; read_file(print(d)) = norm(d). Every oracle comparison is up to the order of every map (results and diffs are canonicalised); the exact IndexMap order is compared only in the correspondence (CApply / CPair / CRead), where the model follows the code's swap_remove. A pair whose top-level comments differ also goes through the text form: everything but that comment must arrive (the format has no line for it). Non-trivial: the call returned Ok on a non-empty tree; distinct by the full input. For every pair the harness also evaluates the theorems' hypotheses (inverse_hyps_b, f3_class, text_hyps_b, f4_class, text_hyps_top_b) and Coq evaluates the Gallina booleans on the same pair (part of CPair); for a pair inside the hypotheses of the inverse theorems Coq also judges what the implementation answered - apply(diff(A,B),A) and the same through the text - with Quill.Mappings.equivb (result_is: well-formed and equal to B up to the order of every map; C04_result_is / C04_equivb_iff_mequiv); inside the hypotheses a failing oracle is always a violation, the known-finding classifiers apply only when f3_class / f4_class is true.".into();
	r.notes.push("F3 classifier: apply(diff(A,B),A) equals B with every parameter's first-namespace name replaced by A's at the same path (or absent), and B is not of that form; F4 classifier: A or B has an empty comment, the diff read back equals norm(diff), the empty = absent rule (not merely Edit(a,a) = None) changed a comment action of this diff below the top level, and the through-text result is exactly the reference application of the diff that was read back; anything else on that stream is a violation".into());
	r.notes.push("the comment of the mapping set itself has no line in the .tinydiff format (tiny_v2_diff::read returns javadoc = None always: C04_read_no_top): pairs with different top-level comments are covered in memory (inverse law, incl. seed class 'diff drops the top-level comment action') and, through the text, up to that comment (C04_text_inverse_modulo_top; necessity of equal top-level comments: C04_text_inverse_needs_same_top)".into());
	{
	let mut run = Run { r: &mut r, tmp: Tmp::new() };
	let named_ns = cps_str("named");

	// 0. apply_diff_option: the full 4 x 3 table
	for d in [Act::None, Act::Add(cps_str("b")), Act::Rem(cps_str("a")), Act::Edit(cps_str("a"), cps_str("b")), Act::Edit(cps_str("a"), cps_str("a")), Act::Add(vec![]),
		Act::Add(cps_str(" ")), Act::Rem(cps_str(" ")), Act::Edit(cps_str(" "), cps_str("b")), Act::Edit(cps_str("a"), cps_str(" ")), Act::Rem(vec![]), Act::Edit(vec![], cps_str(" "))] {
		for t in [None, Some(cps_str("a")), Some(cps_str("x")), Some(vec![]), Some(cps_str(" ")), Some(cps_str("b"))] {
			let qd = act_str(&d).unwrap(); let qt = t.as_ref().map(|s| s_string(s).unwrap());
			let got = guarded(move || quill::apply_diff_option(&qd, qt).ok());
			match got {
				Err(p) => run.r.violation(format!("apply_diff_option panicked: {p}"), format!("{} on {}", sh_act(&d), sh_opt(&t))),
				Ok(g) => {
					let g = g.map(|o| o.map(|s| cps_str(&s)));
					if g != ref_option(&d, &t) { run.r.violation("apply_diff_option differs from the action table".into(), format!("{} on {}", sh_act(&d), sh_opt(&t))); }
					run.r.eval_distinct(g.is_some());
					run.r.case("option", format!("COpt {} {} {}", g_act(&d), gopt(t.as_ref().map(|s| gstr(s))), gres(g.map(|o| gopt(o.map(|s| gstr(&s)))))));
				}
			}
		}
	}

	// 1. the table on single-entry trees
	// Edit(a,a) is what diff() emits for every entry kept on both sides: its old-value check is as binding as a real edit's
	let acts = [Act::None, Act::Add(cps_str("b")), Act::Rem(cps_str("a")), Act::Edit(cps_str("a"), cps_str("b")), Act::Edit(cps_str("a"), cps_str("a"))];
	// (round 5) "b": the target already holds the NEW value of the action (an addition that collides with an equal value, an
	// edit or removal that was applied before) - as inconsistent as any other mismatch
	let states: [Option<Option<&str>>; 5] = [None, Some(None), Some(Some("a")), Some(Some("x")), Some(Some("b"))];
	let mut table = 0u64;
	for level in 0..4 {
		for act in &acts {
			for st in &states {
				// parent context: levels above are present and untouched (0), added (1: absent in target, Add in diff), removed (2)
				for ctxk in 0..3 {
					if level == 0 && ctxk > 0 { continue; }
					let mut ts: [Option<Option<&str>>; 4] = [Some(Some("pc")), Some(Some("pf")), Some(Some("pm")), Some(Some("pp"))];
					let mut ds: [Option<Act>; 4] = [Some(Act::None), None, None, None];
					// the chain down to `level`: class(0) -> method(2) -> param(3), class(0) -> field(1)
					if level >= 2 { ds[2] = Some(Act::None); }
					ts[level] = *st; ds[level] = Some(act.clone());
					if ctxk == 1 {
						// the direct parent is absent in the target and added by the diff
						let parent = if level == 3 { 2 } else { 0 };
						ts[parent] = None; ds[parent] = Some(Act::Add(cps_str("added")));
						if st.is_some() { continue; } // a child of an absent parent is absent
					}
					if ctxk == 2 {
						let parent = if level == 3 { 2 } else { 0 };
						ts[parent] = Some(Some("gone")); ds[parent] = Some(Act::Rem(cps_str("gone")));
					}
					let t = one_entry_target(ts[0], ts[1], ts[2], ts[3], [None; 5]);
					let d = one_entry_diff(ds, [Act::None, Act::None, Act::None, Act::None, Act::None]);
					let got = run.apply_case("table", &d, &t, &named_ns, true);
					// two-step sequence: the same diff once more, on what the first application returned
					if let Some(r1) = got { run.apply_case("table-twice", &d, &r1, &named_ns, true); table += 1; }
					table += 1;
				}
			}
		}
	}
	let dacts = [Act::None, Act::Add(cps_str("b")), Act::Rem(cps_str("a")), Act::Edit(cps_str("a"), cps_str("b")), Act::Edit(cps_str("a"), cps_str("a")),
		Act::Add(cps_str(" ")), Act::Rem(cps_str(" ")), Act::Edit(cps_str(" "), cps_str("b")), Act::Edit(cps_str("a"), cps_str(" ")), Act::Edit(cps_str(" "), cps_str(" ")), Act::Edit(cps_str(" "), cps_str("  "))];
	for level in 0..5 {
		for act in &dacts {
			for st in [None, Some("a"), Some("x"), Some(""), Some(" "), Some("  "), Some("b")] {
				let mut tdocs = [None; 5]; tdocs[level] = st;
				let mut ddocs = [Act::None, Act::None, Act::None, Act::None, Act::None]; ddocs[level] = act.clone();
				let t = one_entry_target(Some(Some("pc")), Some(Some("pf")), Some(Some("pm")), Some(Some("pp")), tdocs);
				let d = one_entry_diff([Some(Act::None), Some(Act::None), Some(Act::None), Some(Act::None)], ddocs);
				let got = run.apply_case("table-comment", &d, &t, &named_ns, true);
				if let Some(r1) = got { run.apply_case("table-comment-twice", &d, &r1, &named_ns, true); table += 1; }
				// the same comment action through print / read_file (the mappings-level one has no text form)
				if level > 0 && st.is_none() { run.print_case("table-comment-text", &d); }
				table += 1;
			}
		}
	}
	run.r.count_n("table_cases", table);
	// namespaces: first namespace as target, unknown namespace, duplicate namespace names, rename action
	{
		let t = one_entry_target(Some(Some("pc")), Some(Some("pf")), Some(Some("pm")), Some(Some("pp")), [None; 5]);
		for nsn in ["official", "named", "nope", ""] {
			for act in &acts {
				let d = one_entry_diff([Some(act.clone()), None, None, None], [Act::None, Act::None, Act::None, Act::None, Act::None]);
				run.apply_case("namespace", &d, &t, &cps_str(nsn), true);
				let mut d2 = d.clone(); d2.classes[0].name = cps_str("D");
				run.apply_case("namespace", &d2, &t, &cps_str(nsn), true);
			}
			for info in [Act::Add(cps_str("named")), Act::Rem(cps_str("named")), Act::Edit(cps_str("named"), cps_str("renamed")), Act::Edit(cps_str("official"), cps_str("o2")), Act::Edit(cps_str("x"), cps_str("y")), Act::Edit(cps_str("named"), cps_str("official")), Act::Edit(cps_str("named"), vec![])] {
				let d = DDiff { info, doc: Act::None, classes: vec![] };
				run.apply_case("namespace", &d, &t, &cps_str(nsn), true);
			}
		}
		let mut dup = t.clone(); dup.ns = vec![cps_str("same"), cps_str("same")];
		let d = one_entry_diff([Some(Act::Edit(cps_str("pc"), cps_str("q"))), None, None, None], [Act::None, Act::None, Act::None, Act::None, Act::None]);
		run.apply_case("namespace", &d, &dup, &cps_str("same"), true);
		let mut b = dup.clone(); b.classes[0].names[1] = Some(cps_str("q"));
		run.pair_case("namespace", &dup, &b, true);
	}

	// 1a. holder nodes, exhaustively on the single-path tree (class C, field f, method m, parameter 0): a class / method /
	// field / parameter entry that carries no name change (None, or the Edit(x,x) that diff() emits) x its target {absent,
	// present} x what hangs below it {nothing, additions, further holders, comment additions} x whether those targets exist.
	// C04_absent_non_add_refused: a non-addition whose key the target lacks refuses the whole application, whatever is below.
	{
		let add = |s: &str| Act::Add(cps_str(s));
		let mut cacts = vec![Act::None, Act::Edit(cps_str("pc"), cps_str("pc"))];
		if ctx.thorough { cacts.extend([Act::Edit(cps_str("pc"), cps_str("q")), Act::Rem(cps_str("pc")), add("n")]); }
		let fopts: Vec<Option<Act>> = vec![None, Some(add("fn")), Some(Act::None)];
		let mopts: Vec<Option<Act>> = vec![None, Some(add("mn")), Some(Act::None), Some(Act::Edit(cps_str("pm"), cps_str("pm")))];
		let popts: Vec<Option<Act>> = vec![None, Some(add("pn")), Some(Act::None)];
		let mdocs: Vec<Act> = if ctx.thorough { vec![Act::None, add("method doc")] } else { vec![Act::None] };
		let mut n = 0u64;
		for cact in &cacts {
			for cpresent in [false, true] {
				for fopt in &fopts { for mopt in &mopts { for popt in &popts {
					if mopt.is_none() && popt.is_some() { continue; }
					for cdoc in [Act::None, add("class doc")] { for mdoc in &mdocs {
						if mopt.is_none() && *mdoc != Act::None { continue; }
						let d = one_entry_diff([Some(cact.clone()), fopt.clone(), mopt.clone(), popt.clone()], [Act::None, cdoc.clone(), Act::None, mdoc.clone(), Act::None]);
						// the targets below the class exist or not (only when the class itself exists)
						let below: Vec<(bool, bool, bool)> = if cpresent { vec![(false, false, false), (true, false, false), (false, true, false), (true, true, false), (false, true, true), (true, true, true)] } else { vec![(false, false, false)] };
						for (fp, mp, pp) in below {
							let st = |p: bool, nm: &'static str| if p { Some(Some(nm)) } else { None };
							let t = one_entry_target(st(cpresent, "pc"), st(fp, "pf"), st(mp, "pm"), st(pp, "pp"), [None; 5]);
							run.apply_case("holder", &d, &t, &named_ns, true);
							n += 1;
						}
					} }
				} } }
			}
		}
		run.r.count_n("holder_cases", n);
	}

	// 1a'. the Action helpers of mappings_diff/action.rs: is_diff (also through as_ref), to_tuple / from_tuple, flip.
	// Oracle on the implementation: from_tuple(to_tuple a) = a, flip(flip a) = a, flip swaps the tuple, a no-op (is_diff = false)
	// leaves every target it applies to unchanged, and flip undoes apply_diff_option (C04_apply_option_flip / _noop).
	{
		let vals: Vec<S> = ["", " ", "a", "b", "x\u{1F600}"].iter().map(|s| cps_str(s)).collect();
		let mut acts = vec![Act::None];
		for v in &vals { acts.push(Act::Add(v.clone())); acts.push(Act::Rem(v.clone())); for w in &vals { acts.push(Act::Edit(v.clone(), w.clone())); } }
		let targets: Vec<Option<S>> = std::iter::once(None).chain(vals.iter().cloned().map(Some)).collect();
		for a in &acts {
			let qa = act_str(a).unwrap();
			let qa2 = qa.clone();
			let got = guarded(move || (qa2.is_diff(), qa2.as_ref().is_diff(), qa2.clone().to_tuple(), qa2.clone().flip(), Action::from(qa2.clone().to_tuple()), qa2.clone().flip().flip(), <(Option<String>, Option<String>)>::from(qa2.clone().flip())));
			let (isd, isd_ref, tup, fl, ft_, ffl, fl_tup) = match got { Ok(x) => x, Err(p) => { run.r.violation(format!("an Action helper panicked: {p}"), sh_act(a)); continue; } };
			let back = |x: &Action<String>| act_from(x, |s| cps_str(s));
			let os = |o: &Option<String>| o.as_ref().map(|s| cps_str(s));
			if back(&ft_) != *a { run.r.violation("Action::from_tuple(to_tuple(a)) is not a".into(), sh_act(a)); }
			if back(&ffl) != *a { run.r.violation("Action::flip(flip(a)) is not a".into(), sh_act(a)); }
			if (fl_tup.0.clone(), fl_tup.1.clone()) != (tup.1.clone(), tup.0.clone()) { run.r.violation("Action::flip does not swap old and new value".into(), sh_act(a)); }
			if isd != isd_ref { run.r.violation("Action::is_diff differs between a and a.as_ref()".into(), sh_act(a)); }
			let want_isd = match a { Act::None => false, Act::Edit(x, y) => x != y, _ => true };
			if isd != want_isd { run.r.violation("Action::is_diff is not 'old and new value differ'".into(), sh_act(a)); }
			for t in &targets {
				let (q1, qt) = (qa.clone(), t.as_ref().map(|s| s_string(s).unwrap()));
				let Ok(r) = guarded(move || quill::apply_diff_option(&q1, qt).ok()) else { continue };
				let Some(r) = r else { continue };
				let rs = r.as_ref().map(|s| cps_str(s));
				if !isd && rs != *t { run.r.violation("an action that is no diff (Action::is_diff = false) changed the value it was applied to".into(), format!("{} on {}", sh_act(a), sh_opt(t))); }
				if isd && *a != ft(t.clone(), rs.clone()) { run.r.violation("an applied action is not the action between the old and the new value".into(), format!("{} on {}", sh_act(a), sh_opt(t))); }
				let q2 = fl.clone();
				let undone = guarded(move || quill::apply_diff_option(&q2, r).ok());
				if undone.as_ref().ok().and_then(|x| x.as_ref()).map(|o| o.as_ref().map(|s| cps_str(s))) != Some(t.clone()) {
					run.r.violation("applying the flipped action to the result does not give the original value back".into(), format!("{} on {}", sh_act(a), sh_opt(t)));
				}
				run.r.count("action_flip_roundtrips");
			}
			run.r.eval_distinct(true);
			run.r.case("action", format!("CAct {} {} {} ({}, {}) {} {}", g_act(a), gbool(isd), gbool(isd_ref), gopt(os(&tup.0).map(|s| gstr(&s))), gopt(os(&tup.1).map(|s| gstr(&s))), g_act(&back(&fl)), g_act(&back(&ft_))));
		}
	}

	// the witnesses of the known findings (the same values as f3_A/f3_B and f4_A/f4_B in coq/C04), every run
	{
		let ns = vec![cps_str("o"), cps_str("n")];
		let meth = |params: Vec<MParam>| MMeth { desc: cps_str("()V"), names: vec![Some(cps_str("m")), Some(cps_str("M"))], doc: None, params };
		let cls = |doc: Option<S>, methods: Vec<MMeth>| MClass { names: vec![Some(cps_str("a")), Some(cps_str("A"))], doc, fields: vec![], methods };
		let f3_a = MMappings { ns: ns.clone(), doc: None, classes: vec![cls(None, vec![meth(vec![])])] };
		let f3_b = MMappings { ns: ns.clone(), doc: None, classes: vec![cls(None, vec![meth(vec![MParam { index: 0, names: vec![Some(cps_str("p")), Some(cps_str("x"))], doc: None }])])] };
		run.pair_case("known-witness", &f3_a, &f3_b, true);
		let f4_a = MMappings { ns: ns.clone(), doc: None, classes: vec![cls(None, vec![])] };
		let f4_b = MMappings { ns: ns.clone(), doc: None, classes: vec![cls(Some(vec![]), vec![])] };
		run.pair_case("known-witness", &f4_a, &f4_b, true);
		run.pair_case("known-witness", &f4_b, &f4_a, true);
	}

	// 1b. blank values through every path.  Single-entry pairs whose comment (each of the five levels) or
	// second-namespace name (each of the four levels) is absent / empty / white space only / blank-edged on either
	// side: diff, apply, print, read_file, apply.  Single-entry diffs with such values as old / new value of a comment
	// or name action: read_file(print d) = norm d.
	{
		let full = |x: [Option<&str>; 5]| one_entry_target(Some(Some("pc")), Some(Some("pf")), Some(Some("pm")), Some(Some("pp")), x);
		let vals: Vec<Option<&str>> = std::iter::once(None).chain(BLANKS.iter().map(|s| Some(*s))).collect();
		let mut n = 0u64;
		for level in 0..5 {
			for (i, old) in vals.iter().enumerate() {
				for (j, new) in vals.iter().enumerate() {
					// quick tier: the full square for class and parameter comments, a third of it elsewhere
					if !ctx.thorough && level != 1 && level != 4 && (i + 2 * j + level) % 3 != 0 { continue; }
					let mut da = [None; 5]; da[level] = *old;
					let mut db = [None; 5]; db[level] = *new;
					run.pair_case("pair-blank", &full(da), &full(db), true);
					n += 1;
				}
			}
		}
		let nvals = [" ", "  ", "x ", " x", "\u{a0}", "x"];
		for level in 0..4 {
			for (i, old) in nvals.iter().enumerate() {
				for (j, new) in nvals.iter().enumerate() {
					if !ctx.thorough && (i + j + level) % 2 != 0 { continue; }
					let mut na = [Some(Some("pc")), Some(Some("pf")), Some(Some("pm")), Some(Some("pp"))]; na[level] = Some(Some(*old));
					let mut nb = na; nb[level] = Some(Some(*new));
					let a = one_entry_target(na[0], na[1], na[2], na[3], [None; 5]);
					let b = one_entry_target(nb[0], nb[1], nb[2], nb[3], [None; 5]);
					run.pair_case("pair-blank", &a, &b, true);
					n += 1;
				}
			}
		}
		run.r.count_n("blank_pairs", n);
		// (round 5) presence of the second-namespace NAME, exhaustively on single-path trees: at each of the four levels the
		// entry is absent / present without a name / named "x" / named "y" on side A and on side B (everything above it present
		// and named).  diff must either refuse the pair or return a diff whose application to A gives B.
		{
			let states: [Option<Option<&str>>; 4] = [None, Some(None), Some(Some("x")), Some(Some("y"))];
			let mut n = 0u64;
			for level in 0..4 {
				for sa in states { for sb in states {
					let mut na = [Some(Some("pc")), Some(Some("pf")), Some(Some("pm")), Some(Some("pp"))]; na[level] = sa;
					let mut nb = na; nb[level] = sb;
					// below an absent class / method there is nothing
					if level == 0 { if sa.is_none() { na = [None; 4]; } if sb.is_none() { nb = [None; 4]; } }
					if level == 2 { if sa.is_none() { na[3] = None; } if sb.is_none() { nb[3] = None; } }
					let a = one_entry_target(na[0], na[1], na[2], na[3], [None; 5]);
					let b = one_entry_target(nb[0], nb[1], nb[2], nb[3], [None; 5]);
					run.pair_case("pair-name-presence", &a, &b, true);
					n += 1;
				} }
			}
			run.r.count_n("name_presence_pairs", n);
		}
		let mut n = 0u64;
		let none5 = || [Act::None, Act::None, Act::None, Act::None, Act::None];
		let some4 = || [Some(Act::None), Some(Act::None), Some(Act::None), Some(Act::None)];
		let bl: Vec<S> = BLANKS.iter().map(|s| cps_str(s)).chain([cps_str("x")]).collect();
		for level in 1..5 {
			let mut acts: Vec<Act> = vec![];
			for v in &bl { acts.push(Act::Add(v.clone())); acts.push(Act::Rem(v.clone())); }
			for (i, v) in bl.iter().enumerate() { for (j, w) in bl.iter().enumerate() { if ctx.thorough || (i + j + level) % 2 == 0 || i == j { acts.push(Act::Edit(v.clone(), w.clone())); } } }
			for act in acts {
				let mut dd = none5(); dd[level] = act;
				run.print_case("text-blank", &one_entry_diff(some4(), dd));
				n += 1;
			}
		}
		let nl: Vec<S> = nvals.iter().map(|s| cps_str(s)).collect();
		for level in 0..4 {
			let mut acts: Vec<Act> = vec![];
			for v in &nl { acts.push(Act::Add(v.clone())); acts.push(Act::Rem(v.clone())); }
			for (i, v) in nl.iter().enumerate() { for (j, w) in nl.iter().enumerate() { if ctx.thorough || (i + j + level) % 2 == 0 { acts.push(Act::Edit(v.clone(), w.clone())); } } }
			for act in acts {
				let mut da = some4(); da[level] = Some(act);
				run.print_case("text-blank", &one_entry_diff(da, none5()));
				n += 1;
			}
		}
		run.r.count_n("blank_text_diffs", n);
	}

	// 1c. sizes: maps beyond 255 / 256 entries (swap_remove order on long pending lists), strings beyond 32 KiB, boundary indices
	{
		let ns = vec![cps_str("official"), cps_str("named")];
		let nfield = 300usize;
		let mut fields: Vec<MField> = (0..nfield).map(|i| MField { desc: cps_str(if i % 3 == 0 { "I" } else { "J" }), names: vec![Some(cps_str(&format!("f{i}"))), Some(cps_str(&format!("field{i}")))], doc: if i % 7 == 0 { Some(cps_str("doc")) } else { None } }).collect();
		let mut params: Vec<MParam> = (0..nfield as u64).map(|i| MParam { index: i, names: vec![None, Some(cps_str(&format!("p{i}")))], doc: None }).collect();
		let mut r2 = rng.fork(17);
		r2.shuffle(&mut fields); r2.shuffle(&mut params);
		let meth = MMeth { desc: cps_str("()V"), names: vec![Some(cps_str("m")), Some(cps_str("meth"))], doc: None, params };
		let big = MMappings { ns: ns.clone(), doc: None, classes: vec![MClass { names: vec![Some(cps_str("big/C")), Some(cps_str("named/Big"))], doc: None, fields, methods: vec![meth] }] };
		// B: every second field / parameter renamed, every fifth removed, a few added
		let mut b = big.clone();
		{
			let c = &mut b.classes[0];
			let mut i = 0; c.fields.retain(|_| { i += 1; i % 5 != 0 });
			for (i, f) in c.fields.iter_mut().enumerate() { if i % 2 == 0 { f.names[1] = Some(cps_str(&format!("renamed{i}"))); } }
			for i in 0..20 { c.fields.push(MField { desc: cps_str("Z"), names: vec![Some(cps_str(&format!("nf{i}"))), Some(cps_str(&format!("newField{i}")))], doc: None }); }
			let m = &mut c.methods[0];
			let mut i = 0; m.params.retain(|_| { i += 1; i % 5 != 0 });
			for (i, p) in m.params.iter_mut().enumerate() { if i % 2 == 1 { p.names[1] = Some(cps_str(&format!("q{i}"))); } }
			for i in [65535u64, 65536, 1 << 32, u64::MAX] /* 255 / 256 are among the 300 existing ones */ { if usize::try_from(i).is_ok() { m.params.push(MParam { index: i, names: vec![None, Some(cps_str(&format!("big{i}")))], doc: None }); } }
			r2.shuffle(&mut c.fields); r2.shuffle(&mut m.params);
		}
		run.pair_case("sizes", &big, &b, true);
		run.pair_case("sizes", &b, &big, ctx.thorough);   // quick: the way back is judged by the oracle only
		// an arbitrary diff in another order than the target, touching every second entry
		let mut d = gen_diff_for(&mut r2, &big, 1, 0);
		run.apply_case("sizes", &d, &big, &named_ns, true);
		d.classes.iter_mut().for_each(|c| c.fields.reverse());
		run.apply_case("sizes", &d, &big, &named_ns, true);
		// names and comments longer than 32 KiB / 64 KiB
		// (the correspondence carries the 2000-character variant; the long ones are judged by the oracle on the implementation alone)
		for len in [2000, 32 * 1024 + 1, 65 * 1024 + 7] {
			let long_name: S = (0..len).map(|i| 'a' as u32 + (i % 26) as u32).collect();
			let long_doc: S = (0..len).map(|i| if i % 97 == 0 { 10 } else if i % 89 == 0 { 92 } else { 0x4e00 + (i % 500) as u32 }).collect();
			let a = one_entry_target(Some(Some("pc")), Some(Some("pf")), Some(Some("pm")), Some(Some("pp")), [None; 5]);
			let mut b = a.clone();
			b.classes[0].names[1] = Some(long_name.clone());
			b.classes[0].methods[0].names[1] = Some(long_name.clone());
			b.classes[0].methods[0].params[0].doc = Some(long_doc.clone());
			b.classes[0].fields[0].doc = Some(long_doc.clone());
			run.pair_case("sizes", &a, &b, len <= 2000);
			run.pair_case("sizes", &b, &a, len <= 2000 && ctx.thorough);
			run.r.count(&format!("sizes_string_length_{len}"));
		}
		run.r.count("sizes_stream");
	}

	// 1d. pair-path: exhaustively on the single-path tree, what differs between A and B at each level - in particular a node that is
	// the same on both sides (same name, same comment) above children that changed, appeared or disappeared (C04_diff_exact: nothing
	// is pruned; C04_diff_apply_partial quantifies over all such pairs)
	{
		#[derive(Clone, Copy, PartialEq)]
		enum St { Absent, OnlyA, OnlyB, Same, Renamed, Doc }
		use St::*;
		let side = |st: St, is_b: bool, nm: &'static str, other: &'static str| -> (Option<Option<&'static str>>, Option<&'static str>) {
			let present = match st { Absent => false, OnlyA => !is_b, OnlyB => is_b, _ => true };
			if !present { return (None, None); }
			(Some(Some(if is_b && st == Renamed { other } else { nm })), if is_b && st == Doc { Some("changed") } else { None })
		};
		let below = |parent: St| -> Vec<St> { match parent { Absent => vec![Absent], OnlyA => vec![Absent, OnlyA], OnlyB => vec![Absent, OnlyB], _ => vec![Absent, OnlyA, OnlyB, Same, Renamed, Doc] } };
		let mut n = 0u64;
		for cs in [Same, Renamed, Doc, OnlyA, OnlyB] {
			for fs in below(cs) { for ms in below(cs) { for ps in below(ms) {
				let build = |is_b: bool| {
					let (c, cd) = side(cs, is_b, "pc", "qc"); let (f, fd) = side(fs, is_b, "pf", "qf");
					let (m, md) = side(ms, is_b, "pm", "qm"); let (p, pd) = side(ps, is_b, "pp", "qp");
					one_entry_target(c, f, m, p, [None, cd, fd, md, pd])
				};
				run.pair_case("pair-path", &build(false), &build(true), true);
				n += 1;
			} } }
		}
		run.r.count_n("path_pairs", n);
	}

	// 2. pairs (A,B)
	let npairs = if ctx.thorough { 3000 } else { 260 };
	let base_cfg = |mc: usize| { let mut g = GenCfg::new(2); g.max_classes = mc; g.absent_12 = 0; g };
	for i in 0..npairs {
		let kind = i % 10;
		let mut g = base_cfg(if i % 4 == 0 { 4 } else { 2 });
		let (stream, ecfg) = match kind {
			0..=5 => ("pair", EditCfg { drop: 20, rename: 30, doc: 30, add: 35, unname: 0, empty_doc: 0, param_src: 0 }),
			6 => { g.absent_12 = 2; ("pair-unnamed", EditCfg { drop: 20, rename: 30, doc: 30, add: 35, unname: 60, empty_doc: 0, param_src: 0 }) }
			7 => ("pair-param-src", EditCfg { drop: 20, rename: 30, doc: 30, add: 60, unname: 0, empty_doc: 0, param_src: 70 }),
			8 => ("pair-empty-comment", EditCfg { drop: 15, rename: 30, doc: 40, add: 35, unname: 0, empty_doc: 120, param_src: 0 }),
			_ => ("pair-small-edit", EditCfg { drop: 4, rename: 6, doc: 6, add: 8, unname: 0, empty_doc: 0, param_src: 0 }),
		};
		let mut anc = gen_mappings(&mut rng, &g);
		if kind != 7 { unsrc_params(&mut anc); }
		let a = edit(&mut rng, &anc, &ecfg, "a");
		let mut b = edit(&mut rng, &anc, &ecfg, "b");
		if i % 97 == 13 { b.ns[1] = cps_str("other"); run.r.count("pair_namespaces_differ"); }
		if i % 50 == 7 { b = a.clone(); }
		if i % 50 == 8 { b.classes.clear(); }
		run.r.count(&format!("pair_size_{}", match a.size() + b.size() { 0 => "0", 1..=10 => "1-10", 11..=40 => "11-40", _ => "41+" }));
		// level statistics: only-A / only-B / both at class level
		let ka: BTreeSet<_> = a.classes.iter().map(|c| c.names[0].clone()).collect();
		let kb: BTreeSet<_> = b.classes.iter().map(|c| c.names[0].clone()).collect();
		run.r.count_n("class_only_a", ka.difference(&kb).count() as u64);
		run.r.count_n("class_only_b", kb.difference(&ka).count() as u64);
		run.r.count_n("class_both", ka.intersection(&kb).count() as u64);
		// entries that A and B added independently under the same key (absent in the ancestor), by level
		let kanc: BTreeSet<_> = anc.classes.iter().map(|c| c.names[0].clone()).collect();
		run.r.count_n("class_added_on_both_sides", ka.intersection(&kb).filter(|k| !kanc.contains(*k)).count() as u64);
		for ca in &a.classes {
			let (Some(cb), canc) = (b.classes.iter().find(|c| c.names[0] == ca.names[0]), anc.classes.iter().find(|c| c.names[0] == ca.names[0])) else { continue };
			for fa in &ca.fields {
				let key = |f: &&MField| f.names[0] == fa.names[0] && f.desc == fa.desc;
				if let Some(fb) = cb.fields.iter().find(key) { if !canc.is_some_and(|c| c.fields.iter().any(|f| key(&f))) { run.r.count(if fb == fa { "field_added_on_both_sides_equal" } else { "field_added_on_both_sides_different" }); } }
			}
			for ma in &ca.methods {
				let key = |f: &&MMeth| f.names[0] == ma.names[0] && f.desc == ma.desc;
				if let Some(mb) = cb.methods.iter().find(key) { if !canc.is_some_and(|c| c.methods.iter().any(|f| key(&f))) { run.r.count(if mb == ma { "method_added_on_both_sides_equal" } else { "method_added_on_both_sides_different" }); } }
			}
		}
		let got = run.pair_case(stream, &a, &b, true);
		// two steps: the way back, starting from what apply_to returned (its own IndexMap order, after the swap_remove effects)
		if kind <= 5 && i % 3 == 0 { if let Some(r) = got { run.pair_case("pair-chain", &r, &a, true); } }
	}

	// 3. arbitrary diffs against arbitrary targets
	let narb = if ctx.thorough { 4000 } else { 340 };
	for i in 0..narb {
		// 2 namespaces mostly; 3, 4 and the degenerate single-namespace set (apply_to is generic in N)
		let n = if i % 20 == 9 { 4 } else if i % 20 == 15 { 1 } else if i % 5 == 4 { 3 } else { 2 };
		run.r.count(&format!("apply_target_namespaces_{n}"));
		let mut g = GenCfg::new(n); g.max_classes = if i % 4 == 0 { 4 } else { 2 }; g.absent_12 = 3;
		let t = gen_mappings(&mut rng, &g);
		let (stream, tns, fault) = match i % 8 {
			_ if n == 1 => ("arbitrary-first-namespace", 0, 0),
			0..=2 => ("arbitrary-consistent", n - 1, 0),
			3 => ("arbitrary-consistent", 1, 0),
			4 | 5 => ("arbitrary-fault", 1, 25),
			6 => ("arbitrary-fault", if n == 4 { 2 } else { n - 1 }, 120),
			_ => ("arbitrary-first-namespace", 0, 0),
		};
		let mut d = gen_diff_for(&mut rng, &t, if tns == 0 && n > 1 { 1 } else { tns }, fault);
		if tns == 0 && (i % 16 == 7 || (n == 1 && i % 40 == 15)) {
			// only comment actions and untouched names: consistent with the first namespace as target
			d.info = Act::None;
			for c in &mut d.classes { c.info = Act::None; for f in &mut c.fields { f.info = Act::None; } for m in &mut c.methods { m.info = Act::None; for p in &mut m.params { p.info = Act::None; } } }
			d.classes.retain(|c| t.classes.iter().any(|tc| tc.names[0].as_ref() == Some(&c.name)));
			for c in &mut d.classes {
				let tc = t.classes.iter().find(|tc| tc.names[0].as_ref() == Some(&c.name)).unwrap();
				c.fields.retain(|f| tc.fields.iter().any(|tf| tf.names[0].as_ref() == Some(&f.name) && tf.desc == f.desc));
				c.methods.retain(|m| tc.methods.iter().any(|tm| tm.names[0].as_ref() == Some(&m.name) && tm.desc == m.desc));
				for m in &mut c.methods {
					let tm = tc.methods.iter().find(|tm| tm.names[0].as_ref() == Some(&m.name) && tm.desc == m.desc).unwrap();
					m.params.retain(|p| tm.params.iter().any(|tp| tp.index == p.index));
				}
			}
		}
		let nsname = t.ns[tns].clone();
		let got = run.apply_case(stream, &d, &t, &nsname, true);
		// (round 5) two-step sequence: the same diff once more on what the first application returned - every addition now
		// collides with an equal value, every edit finds its new value, every removal finds nothing
		if let (Some(r1), true) = (&got, i % 3 == 0) { run.apply_case("arbitrary-twice", &d, r1, &nsname, true); }
		// untouched entries: a class the diff does not mention is identical afterwards (checked by the reference as well)
		if let Some(got) = &got {
			for c in &t.classes {
				let one = |c: &MClass| MMappings { ns: vec![], doc: None, classes: vec![c.clone()] }.canon();
				if !d.classes.iter().any(|dc| Some(&dc.name) == c.names[0].as_ref()) && !got.classes.iter().any(|g| one(g) == one(c)) {
					run.r.violation("a class the diff does not mention changed".into(), format!("{}{}{}", show_diff(&d), show_mappings(&t), show_mappings(got)));
				}
			}
		}
		// the diffs also travel through the text form
		if i % 4 == 0 { run.print_case("print", &d); }
	}

	// 4. text: fixtures, printed diffs, mutations
	let mut texts: Vec<S> = vec![];
	// the repository's own .tinydiff files (VERIF_REPO at run time); a missing / renamed fixture is a note, not a failure
	let repo = std::env::var("VERIF_REPO").unwrap_or_else(|_| "/repo".into());
	let mut nfix = 0;
	for f in ["1.2~server-0.2#1.1~server-0.1", "1.3#1.4~server-0.4", "1.3#1.2~server-0.2", "1.4~server-0.4#1.5"] {
		let path = format!("{repo}/tests/version-graph/graph/{f}.tinydiff");
		match std::fs::read_to_string(&path) {
			Ok(s) => { texts.push(cps_str(&s)); nfix += 1; run.r.count("fixture_texts"); }
			Err(e) => run.r.notes.push(format!("fixture {path} not readable ({e}): skipped")),
		}
	}
	for t in ["", "tiny\t2\t0", "tiny\t2\t0\n", "tiny\t2\t1\n", "tiny\t2\t0\t\n", "\ttiny\t2\t0\n", "tiny\t2\n", "tiny\t2\t0\r\nc\ta\tb\tc\r\n", "tiny\t2\t0\nc\n", "tiny\t2\t0\nc\t\n", "tiny\t2\t0\nc\ta\tx\tx\n", "tiny\t2\t0\nc\ta\tx\ty\tz\n",
		"tiny\t2\t0\nc\ta\n\tm\t()V\tm\n\t\tp\t+1\t\tx\n\t\tp\t01\t\tx\n", "tiny\t2\t0\nc\ta\n\tm\t()V\tm\n\t\tp\t18446744073709551615\t\tx\n\t\tp\t18446744073709551616\t\tx\n", "tiny\t2\t0\nc\ta\n\tm\t()V\tm\n\t\tp\t-1\t\tx\n",
		"tiny\t2\t0\nc\ta\n\tm\t()V\tm\n\t\tp\t1\tsrc\tx\n", "tiny\t2\t0\nc\ta\n\tm\t()V\tm\n\t\tp\t\t\tx\n", "tiny\t2\t0\nc\ta\n\tm\t()V\tm\n\t\tp\t1\n", "tiny\t2\t0\nc\ta\n\tc\n\tc\n", "tiny\t2\t0\nc\ta\n\tc\t\\\\n\\t\\r\\x\\\t\\n\n",
		"tiny\t2\t0\nc\ta\n\n\tc\tx\n", "tiny\t2\t0\nc\ta\n\t\tc\tx\n", "tiny\t2\t0\nx\n\tc\tx\n", "tiny\t2\t0\nc\t[a\n", "tiny\t2\t0\nc\ta\t[b\n", "tiny\t2\t0\nc\ta/\n", "tiny\t2\t0\nc\ta\n\tf\tI\n", "tiny\t2\t0\nc\ta\n\tf\tI\ta.b\n",
		"tiny\t2\t0\nc\ta\n\tm\t()V\t<init>\t<x>\n", "tiny\t2\t0\nc\ta\n\tm\t()V\t<init>\t\t<clinit>\n", "tiny\t2\t0\nc\ta\nc\ta\n", "tiny\t2\t0\nc\ta\n\tf\tI\tx\n\tf\tI\tx\n", "tiny\t2\t0\nc\ta\n\tf\tI\tx\n\tf\tJ\tx\n", "tiny\t2\t0\nc\ta\n\tf\t\tx\n",
		"tiny\t2\t0\nc\ta\n\tm\t()V\tm\n\t\tp\t1\t\tx\n\t\tp\t1\t\ty\n", "tiny\t2\t0\nc\ta\n\tm\t()V\tm\n\t\tp\t1\t\tx\n\t\t\tc\tdoc\n\t\t\tq\n\t\tc\tmdoc\n", " tiny\t2\t0\n", "tiny\t2\t0\n c\ta\n", "tiny\t2\t0\nc\ta\r",
		// blank cells are values, not absent cells
		"tiny\t2\t0\nc\ta\n\tc\t \n", "tiny\t2\t0\nc\ta\n\tc\t\t \n", "tiny\t2\t0\nc\ta\n\tc\t \t \n", "tiny\t2\t0\nc\ta\n\tc\t \tw\n", "tiny\t2\t0\nc\ta\n\tc\tx\t \n", "tiny\t2\t0\nc\ta\n\tc\t \t  \n",
		"tiny\t2\t0\nc\ta\n\tc\t\u{a0}\n", "tiny\t2\t0\nc\ta\n\tc\t\t\u{3000}\n", "tiny\t2\t0\nc\ta\t \n", "tiny\t2\t0\nc\ta\t\t \n", "tiny\t2\t0\nc\ta\t \t \n", "tiny\t2\t0\nc\t \n", "tiny\t2\t0\nc\ta\n\tf\tI\t \t\t  \n\t\tc\t\t \n",
		"tiny\t2\t0\nc\ta\n\tm\t()V\tm\t \n\t\tp\t0\t\t \tq\n\t\t\tc\t \t\n\t\tc\t \n", "tiny\t2\t0\nc\ta\n\tm\t()V\tm\n\t\tp\t0\t \tq\n", "tiny\t2\t0\nc\ta\n\tm\t()V\tm\n\t\tp\t 0\t\tq\n", "tiny\t2\t0 \n", "tiny\t2\t0\nc \ta\n"] {
		texts.push(cps_str(t));
	}
	for t in texts.clone() { run.read_case("text-fixed", &t, true); }
	// files that are not UTF-8: BufRead::lines yields an Err item, on the header line or (through WithMoreIdentIter::next)
	// on a later line at every depth; read_file must answer Err, never panic, never a diff
	{
		let pre: [&[u8]; 5] = [b"", b"tiny\t2\t0\n", b"tiny\t2\t0\nc\ta\n", b"tiny\t2\t0\nc\ta\n\tm\t()V\tm\n", b"tiny\t2\t0\nc\ta\n\tm\t()V\tm\n\t\tp\t0\t\tx\n"];
		let bad: [&[u8]; 6] = [b"\xff", b"\x80", b"\xc3", b"\xe2\x82", b"\xed\xa0\x80", b"\xf8\x88\x80\x80\x80"];
		let mut n = 0u64;
		for (depth, p) in pre.iter().enumerate() {
			for b in bad {
				for form in 0..4 {
					let mut bytes = p.to_vec();
					let ind = if depth == 0 { 0 } else { depth - 1 };
					match form {
						0 => { bytes.extend(std::iter::repeat(b'\t').take(ind)); bytes.extend(b); bytes.push(b'\n'); }                       // the whole line
						1 => { bytes.extend(std::iter::repeat(b'\t').take(ind)); bytes.extend(b"c\tx"); bytes.extend(b); bytes.push(b'\n'); } // inside a cell
						2 => { bytes.extend(std::iter::repeat(b'\t').take(ind + 1)); bytes.extend(b"c\t"); bytes.extend(b); }                 // a comment, no final newline
						_ => { bytes.extend(b); bytes.extend(b"\nc\tb\n"); }                                                                 // more lines follow
					}
					match run.tmp.read(&bytes) {
						Err(p) => run.r.violation(format!("tiny_v2_diff::read_file panicked on a file that is not UTF-8: {p}"), format!("bytes {:?}", bytes)),
						Ok(Some(d)) => run.r.violation("tiny_v2_diff::read_file returned a diff for a file that is not UTF-8".into(), format!("bytes {:?}\n{}", bytes, show_diff(&d))),
						Ok(None) => { run.r.count("read_not_utf8_err"); }
					}
					run.r.eval_distinct(false);
					n += 1;
				}
			}
		}
		run.r.count_n("not_utf8_files", n);
	}
	// line-action: TinyLine::action / action_string observed through read_file on one-entry files: the cells after the key
	// of a class / field / method / parameter line and the cells of a comment line; all lists of 0, 1, 2 cells over a pool
	// (empty, valid, valid for one kind only, blank, non-BMP, escape sequences) and random lists of 3 or 4 cells
	{
		let pool: Vec<S> = ["", "a", "b", "A/B", "a.b", "<init>", "<x>", " ", "[I", "a;", "\u{1F600}", "a\\nb", "\\", "\\\\", "\\x", "\\\\x", "\\n"].iter().map(|s| cps_str(s)).collect();
		let heads = ["tiny\t2\t0\nc\tK", "tiny\t2\t0\nc\tK\n\tf\tI\tk", "tiny\t2\t0\nc\tK\n\tm\t()V\tk", "tiny\t2\t0\nc\tK\n\tm\t()V\tk\n\t\tp\t0\t", "tiny\t2\t0\nc\tK\n\tc"];
		let kinds = ["class", "field", "method", "parameter", "comment"];
		for kind in 0..5usize {
			let mut lists: Vec<Vec<S>> = vec![vec![], vec![vec![]; 3], vec![vec![]; 4]];
			for x in &pool { lists.push(vec![x.clone()]); for y in &pool { lists.push(vec![x.clone(), y.clone()]); } }
			for _ in 0..(if ctx.thorough { 400 } else { 40 }) {
				let n = rng.range(3, 4);
				lists.push((0..n).map(|_| if rng.below(2) == 0 { vec![] } else { pool[rng.below(pool.len())].clone() }).collect());
			}
			for cells in lists {
				let mut txt = cps_str(heads[kind]);
				for c in &cells { txt.push(9); txt.extend(c.iter()); }
				txt.push(10);
				let replay = format!("stream line-action, {} line, cells {:?}\ntext:\n{}", kinds[kind], cells.iter().map(|c| show(c)).collect::<Vec<_>>(), show(&txt));
				let got = match run.tmp.read(&utf8(&txt).unwrap()) { Ok(g) => g, Err(p) => { run.r.violation(format!("tiny_v2_diff::read_file panicked: {p}"), replay.clone()); continue; } };
				let act: Option<Act> = match &got {
					None => None,
					Some(d) => {
						let c = d.classes.first();
						let a = match kind {
							0 => c.map(|c| c.info.clone()),
							1 => c.and_then(|c| c.fields.first()).map(|f| f.info.clone()),
							2 => c.and_then(|c| c.methods.first()).map(|m| m.info.clone()),
							3 => c.and_then(|c| c.methods.first()).and_then(|m| m.params.first()).map(|p| p.info.clone()),
							_ => c.map(|c| c.doc.clone()),
						};
						if a.is_none() { run.r.violation("read_file returned a diff without the entry of the line".into(), replay.clone()); continue; }
						a
					}
				};
				let want = match kind { 0 => ref_line(&cells, Some(&cname)), 1 | 3 => ref_line(&cells, Some(&unq)), 2 => ref_line(&cells, Some(&mname)), _ => ref_line(&cells, None) };
				run.r.eval(&format!("L{kind}{}", gstr(&txt)), act.is_some());
				run.r.count(if act.is_some() { "line_action_ok" } else { "line_action_err" });
				if act != want {
					run.r.violation("the action read from a line is not the two-column reading (more than two cells / an invalid cell: refused; empty = absent; equal = none)".into(),
						format!("{replay}\nread_file gave: {}\nthe two columns say: {}", act.as_ref().map(sh_act).unwrap_or("Err".into()), want.as_ref().map(sh_act).unwrap_or("Err".into())));
				}
				// what the decoded action does (C04_line_action_apply): equal columns - nothing checked, nothing changed;
				// otherwise the target must be the old column and becomes the new column
				if kind < 4 { if let Some(a) = &act {
					let (o, n) = (line_col(&cells, 0), line_col(&cells, 1));
					for t in [None, o.clone(), n.clone(), Some(cps_str("zz"))] {
						let qd = act_str(a).unwrap(); let qt = t.as_ref().map(|s| s_string(s).unwrap());
						match guarded(move || quill::apply_diff_option(&qd, qt).ok()) {
							Err(p) => run.r.violation(format!("apply_diff_option panicked: {p}"), replay.clone()),
							Ok(g) => {
								let g = g.map(|x| x.map(|s| cps_str(&s)));
								let want = if o == n { Some(t.clone()) } else if t == o { Some(n.clone()) } else { None };
								if g != want { run.r.violation("the action read from a line does not turn the old column into the new column".into(), format!("{replay}\ntarget {}\ngot {:?}", sh_opt(&t), g.map(|x| sh_opt(&x)))); }
							}
						}
					}
				} }
				run.r.case("line-action", format!("CLine {} {} {}", kind, glist(cells.iter().map(|c| gstr(c))), gres(act.as_ref().map(g_act))));
			}
		}
		run.r.count("line_action_stream");
	}
	let nmut = if ctx.thorough { 3000 } else { 260 };
	for i in 0..nmut {
		let mut g = GenCfg::new(2); g.max_classes = 2; g.absent_12 = 2;
		let t = gen_mappings(&mut rng, &g);
		let d = gen_diff_for(&mut rng, &t, 1, 0);
		let mut txt = if i % 4 == 0 && nfix > 0 { texts[rng.below(nfix)].clone() } else { print_tinydiff(&d) };
		for _ in 0..rng.range(1, 2) { mutate_text(&mut rng, &mut txt); }
		if utf8(&txt).is_none() { continue; }
		run.read_case("text-mutated", &txt, true);
	}
	}
	Ok(r)
}

fn main() -> anyhow::Result<()> { fbh::main_with(run) }
