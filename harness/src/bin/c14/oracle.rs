//! The property oracle of C14: an independent reference implementation of the documented
//! nesting rules (iterative, over hash indexes), used to judge the real crates' answers.
use super::nests::*;
use fbh::mapmodel::*;
use std::collections::{HashMap, HashSet};

const DOLLAR: u32 = '$' as u32;
const SLASH: u32 = '/' as u32;
const USCORE: u32 = '_' as u32;
const SEMI: u32 = ';' as u32;

pub fn index(t: &MTable) -> HashMap<&S, &MNest> { t.iter().map(|n| (&n.class, n)).collect() }

/// Enclosing$Inner, transitively through the chain of nests; None when the chain is cyclic
pub fn ref_tr(ix: &HashMap<&S, &MNest>, c: &S) -> Option<S> {
	let mut inners: Vec<&S> = vec![];
	let mut cur = c;
	let mut seen: HashSet<&S> = HashSet::new();
	while let Some(n) = ix.get(cur) {
		if !seen.insert(cur) { return None; }
		inners.push(&n.inner);
		cur = &n.encl;
	}
	let mut out = cur.clone();
	for i in inners.iter().rev() { out.push(DOLLAR); out.extend(i.iter()); }
	Some(out)
}
pub fn acyclic(t: &MTable) -> bool { let ix = index(t); t.iter().all(|n| ref_tr(&ix, &n.class).is_some()) }
/// depth of the chain starting at c (number of table entries passed)
pub fn depth(ix: &HashMap<&S, &MNest>, c: &S) -> usize {
	let mut d = 0; let mut cur = c;
	while let Some(n) = ix.get(cur) { d += 1; cur = &n.encl; if d > ix.len() { break; } }
	d
}

/// rewrite the class names between `L` and `;`; None = no `;` after an `L`, or `L;`
pub fn ref_desc(f: &dyn Fn(&S) -> S, d: &S) -> Option<S> {
	let mut out = vec![];
	let mut i = 0;
	while i < d.len() {
		if d[i] == 'L' as u32 {
			let j = (i + 1..d.len()).find(|&j| d[j] == SEMI)?;
			if j == i + 1 { return None; }
			out.push('L' as u32);
			out.extend(f(&d[i + 1..j].to_vec()));
			out.push(SEMI);
			i = j + 1;
		} else { out.push(d[i]); i += 1; }
	}
	Some(out)
}
pub fn desc_names(d: &S) -> Vec<S> {
	let v = std::cell::RefCell::new(vec![]);
	let _ = ref_desc(&|n| { v.borrow_mut().push(n.clone()); n.clone() }, d);
	v.into_inner()
}

fn simple(s: &S) -> S { match s.iter().rposition(|&c| c == SLASH) { Some(p) => s[p + 1..].to_vec(), None => s.clone() } }
fn digit(c: u32) -> bool { (48..=57).contains(&c) }

pub fn ref_inner_name(cls: &S, inner: &S, mapped: &S) -> Result<S, ()> {
	let p = inner.iter().take_while(|&&c| digit(c)).count();
	if p == inner.len() {
		let s = simple(mapped);
		if s.len() >= 2 && s[0] == 'C' as u32 && s[1] == USCORE {
			if s[2..].iter().all(|&c| digit(c)) { Ok(s[2..].to_vec()) } else { Err(()) }
		} else { Ok(inner.clone()) }
	} else if p == 0 {
		if cls.ends_with(inner) { Ok(simple(mapped)) } else { Ok(inner.clone()) }
	} else {
		if cls.ends_with(&inner[p..]) { let mut v = inner[..p].to_vec(); v.extend(simple(mapped)); Ok(v) } else { Ok(inner.clone()) }
	}
}

pub struct RefRemap<'a> { classes: HashMap<&'a S, (&'a S, &'a MClass)> }
impl<'a> RefRemap<'a> {
	/// None: building the remapper fails (a member descriptor is malformed)
	pub fn new(m: &'a MMappings) -> Option<RefRemap<'a>> {
		let mut classes = HashMap::new();
		for c in &m.classes {
			if let (Some(Some(a)), Some(Some(b))) = (c.names.first(), c.names.get(1)) { classes.insert(a, (b, c)); }
		}
		let r = RefRemap { classes };
		for c in &m.classes {
			if !matches!((c.names.first(), c.names.get(1)), (Some(Some(_)), Some(Some(_)))) { continue; }
			for f in &c.fields { if f.names[0].is_some() && f.names[1].is_some() { r.desc(&f.desc)?; } }
			for me in &c.methods { if me.names[0].is_some() && me.names[1].is_some() { r.desc(&me.desc)?; } }
		}
		Some(r)
	}
	pub fn class(&self, c: &S) -> S { self.classes.get(c).map(|(b, _)| (*b).clone()).unwrap_or_else(|| c.clone()) }
	pub fn desc(&self, d: &S) -> Option<S> { ref_desc(&|n| self.class(n), d) }
	pub fn method(&self, owner: &S, name: &S, desc: &S) -> Option<(S, S)> {
		if let Some((_, c)) = self.classes.get(owner) {
			// the last method with that source name and descriptor that has a target name
			if let Some(me) = c.methods.iter().rev().find(|me| me.names[0].as_ref() == Some(name) && me.names[1].is_some() && &me.desc == desc) {
				return Some((me.names[1].clone().unwrap(), self.desc(desc)?));
			}
		}
		Some((name.clone(), self.desc(desc)?))
	}
}

/// translate a table through mappings; `collisions` counts nests that replaced an earlier one
pub fn ref_map_nests(t: &MTable, m: &MMappings, collisions: &mut usize) -> Result<MTable, ()> {
	let r = RefRemap::new(m).ok_or(())?;
	let mut out: MTable = vec![];
	for n in t {
		let mapped = r.class(&n.class);
		let split = (0..mapped.len().saturating_sub(1)).rev().find(|&i| mapped[i] == USCORE && mapped[i + 1] == USCORE);
		let (encl, inner) = match split {
			Some(i) => {
				let (e, inn) = (mapped[..i].to_vec(), mapped[i + 2..].to_vec());
				if e.last() == Some(&SLASH) || inn.first() == Some(&SLASH) { return Err(()); }
				(e, inn)
			}
			None => (r.class(&n.encl), ref_inner_name(&n.class, &n.inner, &mapped)?),
		};
		let meth = match &n.meth { Some((a, b)) => Some(r.method(&n.encl, a, b).ok_or(())?), None => None };
		let image = MNest { kind: n.kind, class: mapped, encl, meth, inner, access: n.access };
		if let Some(p) = out.iter().position(|x| x.class == image.class) { out[p] = image; *collisions += 1; } else { out.push(image); }
	}
	Ok(out)
}

#[derive(Debug, Clone, PartialEq)]
pub enum Expect { Ok(MMappings), Err, Panic }

fn rewrite(m: &MMappings, tr: &dyn Fn(&S) -> S, dtr: &dyn Fn(&S) -> S) -> Expect {
	let mut out = MMappings { ns: m.ns.clone(), doc: m.doc.clone(), classes: vec![] };
	let mut keys: HashSet<S> = HashSet::new();
	for c in &m.classes {
		let Some(Some(src)) = c.names.first() else { return Expect::Err };
		// a class without target name keeps having none
		let dst = c.names.get(1).cloned().flatten();
		let mut nc = MClass { names: vec![Some(tr(src)), dst.as_ref().map(|d| dtr(d))], doc: c.doc.clone(), fields: vec![], methods: vec![] };
		let mut fk: HashSet<(S, S)> = HashSet::new();
		for f in &c.fields {
			let Some(d) = ref_desc(tr, &f.desc) else { return Expect::Err };
			let Some(Some(n)) = f.names.first() else { return Expect::Err };
			if !fk.insert((n.clone(), d.clone())) { return Expect::Err; }
			nc.fields.push(MField { desc: d, names: f.names.clone(), doc: f.doc.clone() });
		}
		let mut mk: HashSet<(S, S)> = HashSet::new();
		for me in &c.methods {
			let Some(d) = ref_desc(tr, &me.desc) else { return Expect::Err };
			let Some(Some(n)) = me.names.first() else { return Expect::Err };
			if !mk.insert((n.clone(), d.clone())) { return Expect::Err; }
			nc.methods.push(MMeth { desc: d, names: me.names.clone(), doc: me.doc.clone(), params: me.params.clone() });
		}
		if !keys.insert(tr(src)) { return Expect::Err; }
		out.classes.push(nc);
	}
	Expect::Ok(out)
}

/// what applying the table to the mappings should give; a cyclic table (the given one or its image
/// in the target namespace) is an error
pub fn ref_apply(m: &MMappings, t: &MTable, t_mapped: &MTable) -> Expect {
	if !acyclic(t) || !acyclic(t_mapped) { return Expect::Err; }
	let (ix, ix2) = (index(t), index(t_mapped));
	rewrite(m, &|c| ref_tr(&ix, c).expect("acyclic"), &|c| ref_tr(&ix2, c).expect("acyclic"))
}
pub fn ref_undo(m: &MMappings, t: &MTable) -> Expect {
	if !acyclic(t) { return Expect::Err; }
	let ix = index(t);
	// image -> class; the last entry of the table with that image wins
	let mut inv: HashMap<S, S> = HashMap::new();
	for n in t { inv.insert(ref_tr(&ix, &n.class).expect("acyclic"), n.class.clone()); }
	let keys: HashSet<&S> = t.iter().map(|n| &n.class).collect();
	rewrite(m, &|c| inv.get(c).cloned().unwrap_or_else(|| c.clone()),
		&|d| if keys.contains(d) { d.iter().flat_map(|&c| if c == DOLLAR { vec![USCORE, USCORE] } else { vec![c] }).collect() } else { d.clone() })
}

/// the class names a mapping set mentions in its source namespace (keys and descriptors)
pub fn source_classes(m: &MMappings) -> Vec<S> {
	let mut v = vec![];
	for c in &m.classes {
		if let Some(Some(s)) = c.names.first() { v.push(s.clone()); }
		for f in &c.fields { v.extend(desc_names(&f.desc)); }
		for me in &c.methods { v.extend(desc_names(&me.desc)); }
	}
	v
}
/// hypothesis of undo∘apply: the translation is injective on the table's classes and the classes of M
pub fn injective(m: &MMappings, t: &MTable) -> bool {
	let ix = index(t);
	let mut dom: HashSet<S> = t.iter().map(|n| n.class.clone()).collect();
	dom.extend(source_classes(m));
	let mut img: HashSet<S> = HashSet::new();
	dom.iter().all(|c| match ref_tr(&ix, c) { Some(r) => img.insert(r), None => false })
}

/// the part of a mapping set that undo∘apply must restore: source names and descriptors (with
/// everything hanging below them), i.e. all but the classes' target names
pub fn source_view(m: &MMappings) -> MMappings {
	let mut m = m.clone();
	for c in &mut m.classes { if c.names.len() > 1 { c.names[1] = None; } }
	m
}

// ---------- Nests::read ----------
fn valid_unq(s: &[u32]) -> bool { !s.is_empty() && s.iter().all(|&c| c != '.' as u32 && c != ';' as u32 && c != '[' as u32 && c != '/' as u32) }
fn valid_class(s: &[u32]) -> bool { s.first() != Some(&('[' as u32)) && s.split(|&c| c == SLASH).all(valid_unq) }
fn valid_method(s: &[u32]) -> bool {
	s == cps("<init>") || s == cps("<clinit>") || (valid_unq(s) && !s.contains(&('<' as u32)) && !s.contains(&('>' as u32)))
}
fn cps(s: &str) -> Vec<u32> { s.chars().map(|c| c as u32).collect() }
fn parse_u16(s: &[u32]) -> Option<u16> {
	let txt: String = s.iter().map(|&c| char::from_u32(c).unwrap_or('?')).collect();
	let (radix, body) = if let Some(h) = txt.strip_prefix("0x") { (16, h) } else if let Some(b) = txt.strip_prefix("0b") { (2, b) } else { (10, txt.as_str()) };
	let body = body.strip_prefix('+').unwrap_or(body);
	if body.is_empty() || body.starts_with('+') || body.starts_with('-') { return None; }
	let mut v: u32 = 0;
	for ch in body.chars() { let d = ch.to_digit(radix)?; v = v * radix + d; if v > 0xFFFF { return None; } }
	Some(v as u16)
}
pub fn ref_read(text: &S) -> Result<MTable, ()> {
	let mut out: MTable = vec![];
	if text.is_empty() { return Ok(out); }
	let mut lines: Vec<&[u32]> = text.split(|&c| c == 10).collect();
	// every segment but the last was terminated by LF (and loses a CR before it); the rest of the
	// text after the last LF is a line only if it is not empty, and keeps a trailing CR
	let unterminated = lines.pop().filter(|l| !l.is_empty());
	let mut all: Vec<&[u32]> = lines.into_iter().map(|l| if l.last() == Some(&13) { &l[..l.len() - 1] } else { l }).collect();
	if let Some(l) = unterminated { all.push(l); }
	for l in all {
		let f: Vec<&[u32]> = l.split(|&c| c == 9).collect();
		if f.len() != 6 { return Err(()); }
		if f[0].is_empty() || f[1].is_empty() || f[4].is_empty() { return Err(()); }
		if !valid_class(f[0]) || !valid_class(f[1]) || !valid_class(f[4]) { return Err(()); }
		let meth = if f[2].is_empty() || f[3].is_empty() { None } else { if !valid_method(f[2]) { return Err(()); } Some((f[2].to_vec(), f[3].to_vec())) };
		let access = parse_u16(f[5]).ok_or(())? & ACCESS_MASK;
		let kind = if f[4].iter().all(|&c| digit(c)) { ANON } else if digit(f[4][0]) { LOCAL } else { INNER };
		let n = MNest { kind, class: f[0].to_vec(), encl: f[1].to_vec(), meth, inner: f[4].to_vec(), access };
		if let Some(p) = out.iter().position(|x| x.class == n.class) { out[p] = n; } else { out.push(n); }
	}
	Ok(out)
}
