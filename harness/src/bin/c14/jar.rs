//! Jar side of C14: class files are built from small abstract specs (own constant-pool builder on
//! top of the independent writer `fbh::classfile::raw::write`), put into an in-memory jar, run
//! through dukenest::nest_jar, and every output class is parsed back with the independent strict
//! parser (`raw::parse` + `facts_from_raw`) and compared with the class the documented rules
//! predict: the input spec with every class reference renamed, plus the InnerClasses entry and
//! the EnclosingMethod attribute of its nest.
use super::nests::*;
use super::oracle::*;
use fbh::classfile::facts::{facts_from_raw, ClassFacts};
use fbh::classfile::jstr::JStr;
use fbh::classfile::raw::{self, AttrInfo, Attribute, CodeAttr, Const, InnerClass, Member, RawClass};
use fbh::gal::*;
use fbh::mapmodel::S;
use fbh::report::guarded;
use dukebox::storage::{BasicFileAttributes, ClassRepr, IsClass, JarEntryEnum, ParsedJar, ParsedJarEntry};
use std::collections::{HashMap, HashSet};
use std::panic::AssertUnwindSafe;

#[derive(Clone, Debug, PartialEq)]
pub enum JInsn { New(S), CheckCast(S), ANewArray(S), InstanceOf(S), GetStatic(S, S, S), PutStatic(S, S, S), GetField(S, S, S), PutField(S, S, S), InvokeStatic(S, S, S), InvokeVirtual(S, S, S), LdcClass(S), AConstNull, Pop, Return }
#[derive(Clone, Debug, PartialEq)]
pub struct JMethod { pub access: u16, pub name: S, pub desc: S, pub code: Option<Vec<JInsn>>, pub exceptions: Vec<S> }
pub type JInner = (S, Option<S>, Option<S>, u16);
#[derive(Clone, Debug, PartialEq)]
pub struct JSpec {
	pub major: u16, pub access: u16, pub name: S, pub super_class: Option<S>, pub interfaces: Vec<S>,
	pub fields: Vec<(u16, S, S)>, pub methods: Vec<JMethod>,
	pub inner: Option<Vec<JInner>>, pub encl: Option<(S, Option<(S, S)>)>,
}

// ---------- spec -> bytes ----------
struct Pool { entries: Vec<Option<Const>>, ix: HashMap<String, u16> }
impl Pool {
	fn new() -> Pool { Pool { entries: vec![None], ix: HashMap::new() } }
	fn add(&mut self, key: String, c: Const) -> u16 {
		if let Some(i) = self.ix.get(&key) { return *i; }
		let i = self.entries.len() as u16; self.entries.push(Some(c)); self.ix.insert(key, i); i
	}
	fn utf8(&mut self, s: &S) -> u16 { self.add(format!("u{s:?}"), Const::Utf8(JStr::from_code_points(s).to_mutf8())) }
	fn utf8s(&mut self, s: &str) -> u16 { self.utf8(&cps_str(s)) }
	fn class(&mut self, s: &S) -> u16 { let u = self.utf8(s); self.add(format!("c{u}"), Const::Class(u)) }
	fn nat(&mut self, n: &S, d: &S) -> u16 { let (a, b) = (self.utf8(n), self.utf8(d)); self.add(format!("n{a},{b}"), Const::NameAndType(a, b)) }
	fn field(&mut self, o: &S, n: &S, d: &S) -> u16 { let (a, b) = (self.class(o), self.nat(n, d)); self.add(format!("f{a},{b}"), Const::Fieldref(a, b)) }
	fn method(&mut self, o: &S, n: &S, d: &S) -> u16 { let (a, b) = (self.class(o), self.nat(n, d)); self.add(format!("m{a},{b}"), Const::Methodref(a, b)) }
}
fn attr(p: &mut Pool, name: &str, info: AttrInfo) -> Attribute { Attribute { name_index: p.utf8s(name), name: name.to_string(), info } }

pub fn build(s: &JSpec) -> Vec<u8> {
	let mut p = Pool::new();
	let this_class = p.class(&s.name);
	let super_class = s.super_class.as_ref().map(|c| p.class(c)).unwrap_or(0);
	let interfaces = s.interfaces.iter().map(|c| p.class(c)).collect();
	let fields = s.fields.iter().map(|(a, n, d)| Member { access: *a, name_index: p.utf8(n), descriptor_index: p.utf8(d), attributes: vec![] }).collect();
	let mut methods = vec![];
	for m in &s.methods {
		let mut attributes = vec![];
		if let Some(code) = &m.code {
			let mut b: Vec<u8> = vec![];
			let op2 = |b: &mut Vec<u8>, op: u8, i: u16| { b.push(op); b.extend_from_slice(&i.to_be_bytes()); };
			for i in code {
				match i {
					JInsn::New(c) => { let x = p.class(c); op2(&mut b, 0xBB, x) }
					JInsn::CheckCast(c) => { let x = p.class(c); op2(&mut b, 0xC0, x) }
					JInsn::ANewArray(c) => { let x = p.class(c); op2(&mut b, 0xBD, x) }
					JInsn::InstanceOf(c) => { let x = p.class(c); op2(&mut b, 0xC1, x) }
					JInsn::GetStatic(o, n, d) => { let x = p.field(o, n, d); op2(&mut b, 0xB2, x) }
					JInsn::PutStatic(o, n, d) => { let x = p.field(o, n, d); op2(&mut b, 0xB3, x) }
					JInsn::GetField(o, n, d) => { let x = p.field(o, n, d); op2(&mut b, 0xB4, x) }
					JInsn::PutField(o, n, d) => { let x = p.field(o, n, d); op2(&mut b, 0xB5, x) }
					JInsn::InvokeStatic(o, n, d) => { let x = p.method(o, n, d); op2(&mut b, 0xB8, x) }
					JInsn::InvokeVirtual(o, n, d) => { let x = p.method(o, n, d); op2(&mut b, 0xB6, x) }
					JInsn::LdcClass(c) => { let x = p.class(c); op2(&mut b, 0x13, x) }
					JInsn::AConstNull => b.push(0x01),
					JInsn::Pop => b.push(0x57),
					JInsn::Return => b.push(0xB1),
				}
			}
			attributes.push(attr(&mut p, "Code", AttrInfo::Code(CodeAttr { max_stack: 4, max_locals: 8, code: b, exception_table: vec![], attributes: vec![] })));
		}
		if !m.exceptions.is_empty() { let v = m.exceptions.iter().map(|c| p.class(c)).collect(); attributes.push(attr(&mut p, "Exceptions", AttrInfo::Exceptions(v))); }
		methods.push(Member { access: m.access, name_index: p.utf8(&m.name), descriptor_index: p.utf8(&m.desc), attributes });
	}
	let mut attributes = vec![];
	if let Some(v) = &s.inner {
		let e = v.iter().map(|(i, o, n, a)| InnerClass { inner_class_info_index: p.class(i), outer_class_info_index: o.as_ref().map(|c| p.class(c)).unwrap_or(0), inner_name_index: n.as_ref().map(|c| p.utf8(c)).unwrap_or(0), inner_class_access_flags: *a }).collect();
		attributes.push(attr(&mut p, "InnerClasses", AttrInfo::InnerClasses(e)));
	}
	if let Some((c, m)) = &s.encl {
		let class_index = p.class(c);
		let method_index = m.as_ref().map(|(n, d)| p.nat(n, d)).unwrap_or(0);
		attributes.push(attr(&mut p, "EnclosingMethod", AttrInfo::EnclosingMethod { class_index, method_index }));
	}
	raw::write(&RawClass { minor: 0, major: s.major, pool: p.entries, access: s.access, this_class, super_class, interfaces, fields, methods, attributes })
}
pub fn facts_of_spec(s: &JSpec) -> Result<ClassFacts, String> { facts_from_raw(&raw::parse(&build(s))?) }

// ---------- renaming a spec (the specification of "every reference rewritten") ----------
fn ren_class(f: &dyn Fn(&S) -> S, c: &S) -> S { if c.first() == Some(&('[' as u32)) { ref_desc(f, c).unwrap_or_else(|| c.clone()) } else { f(c) } }
fn ren_desc(f: &dyn Fn(&S) -> S, d: &S) -> S { ref_desc(f, d).unwrap_or_else(|| d.clone()) }
pub fn rename_spec(s: &JSpec, f: &dyn Fn(&S) -> S) -> JSpec {
	let ri = |i: &JInsn| match i {
		JInsn::New(c) => JInsn::New(ren_class(f, c)), JInsn::CheckCast(c) => JInsn::CheckCast(ren_class(f, c)), JInsn::ANewArray(c) => JInsn::ANewArray(ren_class(f, c)),
		JInsn::InstanceOf(c) => JInsn::InstanceOf(ren_class(f, c)), JInsn::LdcClass(c) => JInsn::LdcClass(ren_class(f, c)),
		JInsn::GetStatic(o, n, d) => JInsn::GetStatic(ren_class(f, o), n.clone(), ren_desc(f, d)), JInsn::PutStatic(o, n, d) => JInsn::PutStatic(ren_class(f, o), n.clone(), ren_desc(f, d)),
		JInsn::GetField(o, n, d) => JInsn::GetField(ren_class(f, o), n.clone(), ren_desc(f, d)), JInsn::PutField(o, n, d) => JInsn::PutField(ren_class(f, o), n.clone(), ren_desc(f, d)),
		JInsn::InvokeStatic(o, n, d) => JInsn::InvokeStatic(ren_class(f, o), n.clone(), ren_desc(f, d)), JInsn::InvokeVirtual(o, n, d) => JInsn::InvokeVirtual(ren_class(f, o), n.clone(), ren_desc(f, d)),
		x => x.clone(),
	};
	JSpec {
		major: s.major, access: s.access, name: f(&s.name), super_class: s.super_class.as_ref().map(|c| f(c)), interfaces: s.interfaces.iter().map(|c| f(c)).collect(),
		fields: s.fields.iter().map(|(a, n, d)| (*a, n.clone(), ren_desc(f, d))).collect(),
		methods: s.methods.iter().map(|m| JMethod { access: m.access, name: m.name.clone(), desc: ren_desc(f, &m.desc), code: m.code.as_ref().map(|c| c.iter().map(ri).collect()), exceptions: m.exceptions.iter().map(|c| f(c)).collect() }).collect(),
		inner: s.inner.as_ref().map(|v| v.iter().map(|(i, o, n, a)| (ren_class(f, i), o.as_ref().map(|c| ren_class(f, c)), n.clone(), *a)).collect()),
		encl: s.encl.as_ref().map(|(c, m)| (ren_class(f, c), m.as_ref().map(|(n, d)| (n.clone(), ren_desc(f, d))))),
	}
}

// ---------- the documented rules on the jar ----------
pub struct RefNesting { pub applied: MTable, pub created: Vec<S>, pub created_listed: bool }
fn digit(c: u32) -> bool { (48..=57).contains(&c) }
pub fn anon_ok(s: &S) -> bool {
	// a positive decimal number that fits an i32 (a leading `+` is accepted by Rust's parser)
	let d: &[u32] = if s.first() == Some(&('+' as u32)) { &s[1..] } else { &s[..] };
	if d.is_empty() || !d.iter().all(|&c| digit(c)) { return false; }
	let mut v: u64 = 0;
	for &c in d { v = v * 10 + (c - 48) as u64; if v > i32::MAX as u64 { return false; } }
	v >= 1
}
/// what the nester looks at in a jar: class names with their methods (name, descriptor)
pub type JarView = Vec<(S, Vec<(S, S)>)>;
pub fn jar_view(jar: &[JSpec]) -> JarView { jar.iter().map(|c| (c.name.clone(), c.methods.iter().map(|m| (m.name.clone(), m.desc.clone())).collect())).collect() }

/// the rule of the kind: anonymous = positive numeric inner name, inner = enclosing method absent,
/// local = enclosing method present (in the class of that name in the jar)
pub fn kind_ok(jar: &JarView, n: &MNest) -> bool {
	let has = n.meth.as_ref().map_or(false, |(a, b)| jar.iter().rev().find(|(c, _)| c == &n.encl).map_or(false, |(_, ms)| ms.iter().any(|(x, y)| x == a && y == b)));
	match n.kind { ANON => anon_ok(&n.inner), INNER => !has, _ => has }
}
/// which nests apply: the class is present (in the jar, or created earlier as a missing enclosing
/// class) and the rule of its kind holds; missing enclosing classes are created.  This is the
/// documented, table-order dependent filter (theorem C14_filter_spec).
pub fn ref_nesting(jar: &JarView, t: &MTable) -> RefNesting {
	let mut present: HashSet<S> = jar.iter().map(|c| c.0.clone()).collect();
	let (mut applied, mut created, mut created_listed) = (vec![], vec![], false);
	for n in t {
		if !present.contains(&n.class) { continue; }
		if created.contains(&n.class) { created_listed = true; }
		if !present.contains(&n.encl) { created.push(n.encl.clone()); present.insert(n.encl.clone()); }
		if kind_ok(jar, n) { applied.push(n.clone()); }
	}
	RefNesting { applied, created, created_listed }
}
/// the order-INDEPENDENT premise of the property: every listed class is in the jar and satisfies the
/// rule of its kind (theorem C14_jar_mapping_agree_any_order)
pub fn all_in_jar(jar: &JarView, t: &MTable) -> bool {
	let names: HashSet<&S> = jar.iter().map(|c| &c.0).collect();
	t.iter().all(|n| names.contains(&n.class) && kind_ok(jar, n))
}
/// the entries that would apply if a created enclosing class counted as present whatever the order
/// (least fixpoint); differs from `ref_nesting().applied` exactly in the order-dependent situations
pub fn applied_fixpoint(jar: &JarView, t: &MTable) -> Vec<S> {
	let mut present: HashSet<S> = jar.iter().map(|c| c.0.clone()).collect();
	loop {
		let before = present.len();
		for n in t { if present.contains(&n.class) { present.insert(n.encl.clone()); } }
		if present.len() == before { break; }
	}
	t.iter().filter(|n| present.contains(&n.class) && kind_ok(jar, n)).map(|n| n.class.clone()).collect()
}
pub fn strip_prefix_ref(s: &S) -> S { let k = s.iter().take_while(|&&c| digit(c)).count(); if k == s.len() { s.clone() } else { s[k..].to_vec() } }

/// the class file the rules predict for input class `s` (names through f)
pub fn expected_class(s: &JSpec, nest: Option<&MNest>, f: &dyn Fn(&S) -> S) -> JSpec {
	let mut s = s.clone();
	if let Some(n) = nest {
		if n.kind != INNER { s.encl = Some((n.encl.clone(), n.meth.clone())); }
		let e: JInner = (n.class.clone(), if n.kind == INNER { Some(n.encl.clone()) } else { None }, if n.kind == ANON { None } else { Some(strip_prefix_ref(&n.inner)) }, n.access);
		s.inner.get_or_insert_with(Vec::new).push(e);
	}
	rename_spec(&s, f)
}

// ---------- running the implementation ----------
pub enum OutEntry { Class(Vec<u8>), Other(Vec<u8>), Dir }
pub type JarAnswer = Result<Option<Vec<(String, OutEntry)>>, String>;
pub fn entry_name(c: &S) -> String { format!("{}.class", show(c)) }

pub enum InEntry { Class(Vec<u8>), Other(Vec<u8>), Dir }
/// nest_jar on an in-memory jar of raw entries
pub fn impl_nest_jar_raw(remap: bool, input: Vec<(String, InEntry)>, nests: dukenest::nest::Nests<NA>) -> JarAnswer {
	let mut entries = indexmap::IndexMap::new();
	for (name, e) in input {
		let content = match e { InEntry::Other(d) => JarEntryEnum::Other(d), InEntry::Dir => JarEntryEnum::Dir, InEntry::Class(data) => JarEntryEnum::Class(ClassRepr::Vec { data }) };
		entries.insert(name, ParsedJarEntry { attr: BasicFileAttributes::default(), content });
	}
	let src: ParsedJar<ClassRepr, Vec<u8>> = ParsedJar { entries };
	guarded(AssertUnwindSafe(move || {
		let out = dukenest::nest_jar(remap, &src, nests).ok()?;
		let mut v = vec![];
		for (name, e) in out.entries {
			v.push((name, match e.content {
				JarEntryEnum::Dir => OutEntry::Dir,
				JarEntryEnum::Other(d) => OutEntry::Other(d),
				JarEntryEnum::Class(c) => OutEntry::Class(c.write().ok()?.as_ref().to_vec()),
			}));
		}
		Some(v)
	}))
}
pub fn impl_nest_jar(remap: bool, jar: &[JSpec], extra: &[(String, Option<Vec<u8>>)], nests: dukenest::nest::Nests<NA>) -> JarAnswer {
	let mut input = vec![];
	for (name, data) in extra { input.push((name.clone(), match data { Some(d) => InEntry::Other(d.clone()), None => InEntry::Dir })); }
	for c in jar { input.push((entry_name(&c.name), InEntry::Class(build(c)))); }
	impl_nest_jar_raw(remap, input, nests)
}

// ---------- Gallina ----------
pub fn g_jar(jar: &[JSpec]) -> String {
	glist(jar.iter().map(|c| gpair(gstr(&c.name), glist(c.methods.iter().map(|m| gpair(gstr(&m.name), gstr(&m.desc)))))))
}
fn jcps(s: &JStr) -> Vec<u32> { s.code_points() }
/// (class name, appended InnerClasses entry, EnclosingMethod) of an output class; `had_inner` =
/// number of InnerClasses entries the input class had
pub fn g_out_class(f: &ClassFacts, had_inner: usize) -> String {
	let ie = f.inner_classes.as_ref().and_then(|v| if v.len() > had_inner { v.last() } else { None });
	let ie = gopt(ie.map(|e| format!("({}, {}, {}, {})", gstr(&jcps(&e.inner)), gopt(e.outer.as_ref().map(|x| gstr(&jcps(x)))), gopt(e.inner_name.as_ref().map(|x| gstr(&jcps(x)))), e.access)));
	let ee = gopt(f.enclosing_method.as_ref().map(|e| gpair(gstr(&jcps(&e.class)), gopt(e.method.as_ref().map(|(n, d)| gpair(gstr(&jcps(n)), gstr(&jcps(d))))))));
	format!("({}, {}, {})", gstr(&jcps(&f.name)), ie, ee)
}
