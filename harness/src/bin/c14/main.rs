//! C14 — nesting renames classes identically in jars and in mappings.
//!
//! Mappings side: generated (mappings, nests table) worlds through dukenest::{apply_nests_to_mappings,
//! undo_nests_to_mappings, remap_nests} and Nests::read; every answer is judged by the independent
//! reference of oracle.rs (names = Enclosing$Inner transitively, descriptors rewritten, undo∘apply
//! restores source names and descriptors, every nest has an image in the target namespace) and
//! printed as a correspondence case for the Coq model (coq/C14/Model.v).
mod jar;
mod nests;
mod oracle;
mod rich;
#[allow(dead_code)]
#[path = "../c07/spec.rs"]
mod refspec;

use fbh::gal::*;
use fbh::mapmodel::*;
use fbh::prng::Rng;
use fbh::report::{crumb, guarded, Report};
use fbh::Ctx;
use dukenest::nest::Nests;
use jar::*;
use nests::*;
use oracle::*;
use fbh::classfile::facts::facts_from_raw;
use fbh::classfile::raw;
use quill::tree::mappings::Mappings;
use std::panic::AssertUnwindSafe;

type Q = Mappings<2, (NA, NB)>;

// ---------------------------------------------------------------------------------------------
// implementation side.  Err(msg) = panic, Ok(None) = the call returned Err

type Answer<T> = Result<Option<T>, String>;

fn impl_apply(m: &MMappings, n: &Nests<NA>) -> anyhow::Result<Answer<MMappings>> {
	let q: Q = to_quill(m)?;
	let mut desync = vec![];
	let r = guarded(AssertUnwindSafe(move || dukenest::apply_nests_to_mappings(q, n).ok()));
	let r = r.map(|o| o.map(|x| from_quill(&x, &mut desync)));
	if !desync.is_empty() { anyhow::bail!("result tree has keys out of sync with its nodes: {desync:?}"); }
	Ok(r)
}
fn impl_undo(m: &MMappings, n: &Nests<NA>) -> anyhow::Result<Answer<MMappings>> {
	let q: Q = to_quill(m)?;
	let mut desync = vec![];
	let r = guarded(AssertUnwindSafe(move || dukenest::undo_nests_to_mappings(q, n).ok()));
	let r = r.map(|o| o.map(|x| from_quill(&x, &mut desync)));
	if !desync.is_empty() { anyhow::bail!("result tree has keys out of sync with its nodes: {desync:?}"); }
	Ok(r)
}
fn impl_map_nests(m: &MMappings, n: &Nests<NA>) -> anyhow::Result<Answer<MTable>> {
	let q: Q = to_quill(m)?;
	let mut desync = vec![];
	let r = guarded(AssertUnwindSafe(|| dukenest::remap_nests(n, &q).ok()));
	let r = r.map(|o| o.map(|x| from_nests(&x, &mut desync)));
	if !desync.is_empty() { anyhow::bail!("nests keys out of sync: {desync:?}"); }
	Ok(r)
}
fn read_nests(text: &S) -> Result<Option<Nests<NA>>, String> {
	let s: String = text.iter().map(|&c| char::from_u32(c).expect("scalar")).collect();
	let bytes = s.into_bytes();
	guarded(move || Nests::<NA>::read(&bytes).ok())
}
fn impl_read(text: &S) -> Answer<MTable> {
	let mut desync = vec![];
	read_nests(text).map(|o| o.map(|x| from_nests(&x, &mut desync)))
}

/// The table the implementation is given.  Worlds marked `via_text` go through the TEXT reader
/// (`Nests::read` of the table's text form) instead of being built in memory; the nest kinds the
/// reader assigns are compared with the independent ASCII-only classification (`ascii_kind`), and the
/// run continues with what the reader returned, so that a wrong kind also shows where it hurts (jar
/// and mappings disagree).
fn world_nests(r: &mut Report, w: &World, stream: &str) -> Nests<NA> {
	if !w.via_text { r.count("table_built_in_memory"); return to_nests(&w.t); }
	let text = text_of(&w.t);
	match read_nests(&text) {
		Ok(Some(n)) => {
			r.count("table_read_from_text");
			let mut desync = vec![];
			let back = from_nests(&n, &mut desync);
			if back != w.t {
				let kinds: Vec<String> = back.iter().zip(&w.t).filter(|(a, b)| a.kind != b.kind).map(|(a, b)| format!("inner name {} of class {}: reader says {}, ASCII-only classification (jar nester, NestTypeA) says {}", show(&a.inner), show(&a.class), kind_name(a.kind), kind_name(b.kind))).collect();
				let what = if kinds.is_empty() { "Nests::read of the text form of a table does not give the table back".to_string() } else { format!("Nests::read assigns a nest kind that the rest of dukenest does not: {}", kinds.join("; ")) };
				r.violation(what.clone(), format!("property C14 (stream {stream})\nwhat: {what}\ntable:\n{}read back:\n{}text: {:?}\ncode points: {}\n", show_table(&w.t), show_table(&back), show(&text), gstr(&text)));
			}
			n
		}
		other => {
			// the text form of a generated table must be readable unless the world is malformed on purpose
			if w.flavor != Flavor::Weird {
				let what = format!("Nests::read {} on the text form of a well-formed table", if other.is_err() { "panicked" } else { "returned Err" });
				r.violation(what.clone(), format!("property C14 (stream {stream})\nwhat: {what}\ntable:\n{}text: {:?}\n", show_table(&w.t), show(&text)));
			}
			r.count("table_text_not_readable(in-memory table used)");
			to_nests(&w.t)
		}
	}
}
fn kind_name(k: u8) -> &'static str { match k { ANON => "anonymous", INNER => "inner", _ => "local" } }

fn g_outcome(a: &Answer<MMappings>) -> String {
	match a { Err(_) => "OPanic".into(), Ok(None) => "OErr".into(), Ok(Some(m)) => format!("(OOk {})", g_mappings(m)) }
}
fn expect_of(a: &Answer<MMappings>) -> Expect {
	match a { Err(_) => Expect::Panic, Ok(None) => Expect::Err, Ok(Some(m)) => Expect::Ok(m.clone()) }
}

// ---------------------------------------------------------------------------------------------
// generators

const PKGS: [&str; 4] = ["", "", "a/", "net/minecraft/"];
const SIMPLE: [&str; 12] = ["A", "B", "Foo", "Bar", "Baz", "a", "b", "C_1", "C_22", "Q", "Inner", "Ü"];
const CUSTOM: [&str; 5] = ["Custom", "Xyz", "Named", "K", "B"];
const DST_SIMPLE: [&str; 12] = ["X", "Y", "Zed", "C_7", "C_45", "C_123", "M", "Mapped", "p", "π", "C_9x", "C_"];
const DST_PKGS: [&str; 4] = ["", "x/", "net/minecraft/unmapped/", "m/"];
const MEMBER: [&str; 8] = ["a", "b", "m_1", "f_2", "run", "<init>", "get", "x"];
/// enclosing methods that have no entry in any mapping set
const UNMAPPED_METHOD: [&str; 6] = ["<init>", "<clinit>", "lambda$run$0", "lambda$new$1", "access$000", "λ"];
const ACCESS: [u16; 8] = [0, 0x0001, 0x0008, 0x0019, 0x1000, 0x4010, 0x0608, 0x761F];
/// inner names made of / starting with / continuing with numeric characters that are NOT ASCII digits
/// (Arabic-Indic, fullwidth, superscript, circled, Roman numeral): `char::is_numeric` is true for them,
/// `is_ascii_digit` is not.  Every site of dukenest that interprets an inner name must agree on them.
const NUM_INNER: [&str; 12] = ["٤٢", "1٣", "٣D", "１２", "²", "1²x", "７Foo", "12３", "٣", "3①", "Ⅷ", "١Loc"];
/// Calamus-style target names C_<n> whose <n> is not made of ASCII digits
const NUM_DST: [&str; 6] = ["C_٤٢", "C_１２", "C_1²", "C_12３", "C_٣", "C_①"];

#[derive(Clone, Copy, PartialEq, Debug)]
enum Flavor { Valid, NoDst, Collide, Weird, Cyclic }

struct World { m: MMappings, t: MTable, j: Vec<JSpec>, flavor: Flavor, via_text: bool,
	/// too large for a correspondence case (the model walks association lists): judged by the oracle only
	big: bool }

/// number of nests listed BEFORE the nest of their own enclosing class (an order in which a
/// single pass over the table has not seen the enclosing class's translation yet)
fn listed_before_enclosing(t: &MTable) -> usize {
	t.iter().enumerate().filter(|(i, n)| t.iter().skip(i + 1).any(|e| e.class == n.encl)).count()
}

fn gen_world(rng: &mut Rng, flavor: Flavor, via_text: bool) -> World {
	// universe of source class names; a nest of U[i] may only be enclosed by U[j], j < i, or by an
	// outside name: acyclic by construction (the Cyclic flavour adds a back edge afterwards)
	let nu = rng.range(2, 8);
	let mut u: Vec<S> = vec![];
	let mut tries = 0;
	while u.len() < nu && tries < 100 {
		tries += 1;
		let name = if !u.is_empty() && rng.chance(1, 3) {
			let mut p = rng.pick(&u[..]).clone(); p.push('$' as u32);
			if rng.chance(1, 6) { p.extend(cps_str(*rng.pick(&NUM_INNER[..]))); }
			else if rng.chance(1, 3) { p.extend(cps_str(&rng.range(1, 12).to_string())); } else { p.extend(cps_str(*rng.pick(&SIMPLE[..]))); }
			p
		} else { let mut p = cps_str(*rng.pick(&PKGS[..])); p.extend(cps_str(*rng.pick(&SIMPLE[..]))); p };
		if !u.contains(&name) { u.push(name); }
	}
	let outside: Vec<S> = ["Outer", "x/Out", "net/minecraft/Host", "O$P"].iter().map(|s| cps_str(s)).collect();

	// mappings over most of the universe
	let in_m: Vec<bool> = u.iter().map(|_| rng.chance(4, 5)).collect();
	let mut dsts: Vec<S> = vec![];
	let mut classes = vec![];
	for (i, src) in u.iter().enumerate() {
		if !in_m[i] { continue; }
		let mut dst = cps_str(*rng.pick(&DST_PKGS[..])); dst.extend(cps_str(*rng.pick(&DST_SIMPLE[..if flavor == Flavor::Weird { 12 } else { 10 }])));
		if rng.chance(1, 8) { dst = cps_str(*rng.pick(&DST_PKGS[..])); dst.extend(cps_str(*rng.pick(&NUM_DST[..]))); }
		if rng.chance(1, 6) {
			// target names that contain `$` but no `__` (mappings of a jar that was nested before, or plain odd names): the
			// translated inner name is the whole last path segment, `$` included; every second one shares its part after the
			// last `$` with an earlier target name, so that cutting at `$` makes two inner names collide
			let tail: S = match dsts.iter().rev().find(|d| d.contains(&('$' as u32))) {
				Some(d) if rng.chance(1, 2) => { let p = d.iter().rposition(|&c| c == '$' as u32).unwrap(); d[p + 1..].to_vec() }
				_ => cps_str(*rng.pick(&["Thing", "C_5", "1", "Local", "Ⅷ"][..])),
			};
			dst = cps_str(*rng.pick(&DST_PKGS[..])); dst.extend(cps_str(*rng.pick(&["Things", "Stuff", "Host", "C_3", "Ü"][..])));
			if rng.chance(1, 4) { dst.extend(cps_str("$Mid")); }
			dst.push('$' as u32); dst.extend(tail);
		}
		if rng.chance(1, 4) {
			// target names that already use nesting: Encl__Inner (also chains, also next to a package)
			let mut e = if !dsts.is_empty() && rng.chance(1, 2) { rng.pick(&dsts[..]).clone() } else { dst.clone() };
			e.extend(cps_str("__")); e.extend(cps_str(*rng.pick(&DST_SIMPLE[..10])));
			dst = e;
		}
		if flavor == Flavor::Weird && rng.chance(1, 6) { dst = cps_str(*rng.pick(&["x/__y", "x__/y", "___", "a___b", "__", "x/C_1__", "C_9x", "q/C_"][..])); }
		if dsts.contains(&dst) && flavor != Flavor::Collide { dst.extend(cps_str(&format!("{i}"))); }
		dsts.push(dst.clone());
		let dst_cell = if flavor == Flavor::NoDst && rng.chance(1, 3) { None } else { Some(dst) };
		let mut c = MClass { names: vec![Some(src.clone()), dst_cell], doc: if rng.chance(1, 6) { Some(cps_str("doc")) } else { None }, fields: vec![], methods: vec![] };
		for _ in 0..rng.below(3) {
			let name = cps_str(*rng.pick(&MEMBER[..4]));
			let mut desc = gen_field_desc(rng, &u);
			if flavor == Flavor::Weird && rng.chance(1, 8) { desc = cps_str(*rng.pick(&["L;", "LA", "[L;", "La;L", "L", "LA;;"][..])); }
			if c.fields.iter().any(|f: &MField| f.names[0].as_ref() == Some(&name) && f.desc == desc) { continue; }
			let second = if rng.chance(1, 4) { None } else { Some(cps_str(*rng.pick(&MEMBER[..]))) };
			c.fields.push(MField { desc, names: vec![Some(name), second], doc: None });
		}
		for _ in 0..rng.below(4) {
			let name = cps_str(*rng.pick(&MEMBER[..]));
			let mut desc = gen_method_desc(rng, &u);
			if flavor == Flavor::Weird && rng.chance(1, 8) { desc = cps_str(*rng.pick(&["(L;)V", "(LA)V", "()LA", "(LA;)L", "x"][..])); }
			if c.methods.iter().any(|f: &MMeth| f.names[0].as_ref() == Some(&name) && f.desc == desc) { continue; }
			let second = if rng.chance(1, 4) { None } else { Some(cps_str(*rng.pick(&MEMBER[..]))) };
			let mut me = MMeth { desc, names: vec![Some(name), second], doc: None, params: vec![] };
			if rng.chance(1, 4) { me.params.push(MParam { index: rng.below(3) as u64, names: vec![None, Some(cps_str("p"))], doc: None }); }
			c.methods.push(me);
		}
		classes.push(c);
	}
	let mut m = MMappings { ns: vec![cps_str("official"), cps_str("named")], doc: None, classes };

	// the nests table
	let mut t: MTable = vec![];
	let mut prev_in_table: Option<usize> = None;
	for i in 0..u.len() {
		if !rng.chance(3, 5) { continue; }
		let cls = u[i].clone();
		let encl = if let (Some(prev), true) = (t.last(), rng.chance(1, 5)) { prev.encl.clone() }   // a sibling: same enclosing class
			else if let (Some(p), true) = (prev_in_table, rng.chance(1, 2)) { u[p].clone() }   // lengthen the chain
			else if i > 0 && rng.chance(2, 3) { u[rng.below(i)].clone() }
			else { rng.pick(&outside[..]).clone() };
		let encl = if encl == cls { rng.pick(&outside[..]).clone() } else { encl };
		// the name the class would derive its inner name from
		let tail: S = match cls.iter().rposition(|&c| c == '$' as u32 || c == '/' as u32) { Some(p) => cls[p + 1..].to_vec(), None => cls.clone() };
		let tail_alpha: S = { let k = tail.iter().take_while(|&&c| (48..=57).contains(&c)).count(); if k == tail.len() { cps_str("Loc") } else { tail[k..].to_vec() } };
		let kind = *rng.pick(&[INNER, INNER, LOCAL, ANON][..]);
		let mut inner: S = match kind {
			INNER => if rng.chance(2, 3) { tail_alpha.clone() } else { cps_str(*rng.pick(&CUSTOM[..])) },
			LOCAL => { let mut v = cps_str(&rng.range(1, 12).to_string()); if rng.chance(2, 3) { v.extend(tail_alpha.clone()); } else { v.extend(cps_str(*rng.pick(&CUSTOM[..]))); } v }
			_ => cps_str(*rng.pick(&["1", "2", "13", "007", "1"][..])),
		};
		let mut kind = kind;
		if rng.chance(1, 6) {
			// numeric characters of other scripts: the kind is what the ASCII-only rule says
			inner = cps_str(*rng.pick(&NUM_INNER[..]));
			kind = ascii_kind(&inner);
		}
		if flavor == Flavor::Weird && rng.chance(1, 4) {
			inner = cps_str(*rng.pick(&["+1", "-1", "0", "99999999999", "2147483647", "2147483648", "1x", "x1", "", "a/b", "12", "00", "+٣", "٠", "１", "01", "+0", "-0", "4294967295", "+2147483647", "00000000000000000000002147483647", "00000000000000000000002147483648", " 1", "1_0", "+", "-"][..]));
			kind = *rng.pick(&[INNER, LOCAL, ANON][..]);
		}
		// enclosing method: one the enclosing class really has in M, or any
		let meth = if kind == INNER && rng.chance(3, 4) { None } else if rng.chance(1, 5) { None } else {
			let host = m.classes.iter().find(|c| c.names[0].as_ref() == Some(&encl));
			match host { Some(h) if !h.methods.is_empty() && rng.chance(3, 4) => { let me = rng.pick(&h.methods[..]); Some((me.names[0].clone().unwrap(), me.desc.clone())) }
				_ => {
					// a method the mappings know nothing about (constructor, static initialiser, lambda body, accessor):
					// its name must be kept and its descriptor still rewritten through the class map
					let name = if rng.chance(1, 2) { cps_str(*rng.pick(&UNMAPPED_METHOD[..])) } else { cps_str(*rng.pick(&MEMBER[..])) };
					let desc = if flavor == Flavor::Weird && rng.chance(1, 5) { cps_str("(LA)V") } else if rng.chance(1, 2) {
						// certainly mentions a class of the universe (most of them have a target name)
						let mut d = cps_str("(L"); d.extend(rng.pick(&u[..]).iter()); d.extend(cps_str(";I[[L")); d.extend(rng.pick(&u[..]).iter()); d.extend(cps_str(";)V")); d
					} else { gen_method_desc(rng, &u) };
					Some((name, desc))
				} }
		};
		t.push(MNest { kind, class: cls, encl, meth, inner, access: *rng.pick(&ACCESS[..]) });
		prev_in_table = Some(i);
	}
	// nests for classes that exist nowhere
	if rng.chance(1, 4) { t.push(MNest { kind: INNER, class: cps_str("gone/Missing"), encl: if u.is_empty() { cps_str("Outer") } else { rng.pick(&u[..]).clone() }, meth: None, inner: cps_str("Missing"), access: 1 }); }
	// the order of the table carries no meaning: random, and in one world of four inner-most first
	// (every nest before the nest of its enclosing class)
	rng.shuffle(&mut t);
	if rng.chance(1, 4) { let ix = index(&t); let d: Vec<usize> = t.iter().map(|n| depth(&ix, &n.class)).collect(); let mut order: Vec<usize> = (0..t.len()).collect(); order.sort_by(|a, b| d[*b].cmp(&d[*a])); t = order.iter().map(|&i| t[i].clone()).collect(); }

	// a target name that is itself the name of a listed class (undo turns its `$` into `__`: it looks the target
	// name up in the table, nester_run.rs `nests.all.contains_key(&dst)`)
	if !t.is_empty() && rng.chance(1, 8) {
		let k = rng.pick(&t[..]).class.clone();
		if !dsts.contains(&k) { if let Some(c) = { let n = m.classes.len(); if n == 0 { None } else { let i = rng.below(n); m.classes.get_mut(i) } } { c.names[1] = Some(k); } }
	}
	if flavor == Flavor::Collide && !t.is_empty() {
		// a class of M that is not listed but carries the very name a listed class is renamed to
		let ix = index(&t);
		let n = rng.pick(&t[..]);
		if let Some(img) = ref_tr(&ix, &n.class) {
			if !m.classes.iter().any(|c| c.names[0].as_ref() == Some(&img)) && !t.iter().any(|x| x.class == img) {
				m.classes.push(MClass { names: vec![Some(img), Some(cps_str("clash/Dst"))], doc: None, fields: vec![], methods: vec![] });
			}
		}
	}
	if flavor == Flavor::Cyclic && !t.is_empty() {
		if rng.chance(1, 2) || t.len() < 2 {
			// a cycle in the table itself: i enclosed by j (and j by i); i = j is a class enclosed by itself
			let (i, j) = (rng.below(t.len()), rng.below(t.len()));
			t[i].encl = t[j].class.clone();
			if acyclic(&t) { t[j].encl = t[i].class.clone(); }
		} else {
			// an acyclic table whose IMAGE in the target namespace is cyclic: c2 enclosed by c1, c1 mapped to
			// the already nested name <target of c2>__Q, which makes the image of c1 enclosed by the image of c2
			let (i, j) = (0, 1 + rng.below(t.len() - 1));
			let (c1, c2) = (t[i].class.clone(), t[j].class.clone());
			let saved = t[j].encl.clone();
			t[j].encl = c1.clone();
			if !acyclic(&t) { t[j].encl = saved; } else {
				let p: S = cps_str(&format!("m/P{}", rng.below(9)));
				let mut pq = p.clone(); pq.extend(cps_str("__Q"));
				for (src, dst) in [(&c2, p), (&c1, pq)] {
					match m.classes.iter_mut().find(|c| c.names[0].as_ref() == Some(src)) {
						Some(c) => c.names[1] = Some(dst),
						None => m.classes.push(MClass { names: vec![Some(src.clone()), Some(dst)], doc: None, fields: vec![], methods: vec![] }),
					}
				}
			}
		}
	}
	if via_text {
		// what the text format can express: no empty inner names, kinds derived from the inner name
		t.retain(|n| !n.inner.is_empty());
		for n in &mut t { n.kind = ascii_kind(&n.inner); }
	}
	let j = gen_jar(rng, &u, &m, &t, flavor);
	World { m, t, j, flavor, via_text, big: false }
}

fn mk_class(name: &str, methods: &[(&str, &str)]) -> JSpec {
	JSpec { major: 52, access: 0x0021, name: cps_str(name), super_class: Some(cps_str(OBJECT)), interfaces: vec![], fields: vec![],
		methods: methods.iter().map(|(n, d)| JMethod { access: 0x0401, name: cps_str(n), desc: cps_str(d), code: None, exceptions: vec![] }).collect(), inner: None, encl: None }
}
fn mk_nest(kind: u8, class: &str, encl: &str, meth: Option<(&str, &str)>, inner: &str, access: u16) -> MNest {
	MNest { kind, class: cps_str(class), encl: cps_str(encl), meth: meth.map(|(a, b)| (cps_str(a), cps_str(b))), inner: cps_str(inner), access }
}
fn mk_mappings(rows: &[(&str, &str, &[(&str, &str)], &[(&str, &str)])]) -> MMappings {
	MMappings { ns: vec![cps_str("official"), cps_str("named")], doc: None, classes: rows.iter().map(|(a, b, fs, ms)| MClass {
		names: vec![Some(cps_str(a)), Some(cps_str(b))], doc: None,
		fields: fs.iter().map(|(n, d)| MField { desc: cps_str(d), names: vec![Some(cps_str(n)), Some(cps_str(n))], doc: None }).collect(),
		methods: ms.iter().map(|(n, d)| MMeth { desc: cps_str(d), names: vec![Some(cps_str(n)), Some(cps_str(n))], doc: None, params: vec![] }).collect() }).collect() }
}
/// worlds that are in every run whatever the seed: chains listed inner-most first, the witness of a
/// cyclic image (c1 -> P__Q, c2 -> P), the order-dependent creation of a listed class, inner names
/// with numeric characters that are not ASCII digits (read from text)
fn fixed_worlds() -> Vec<(&'static str, World)> {
	let mut v = vec![];
	let chain_m = mk_mappings(&[("a", "pkg/Outer", &[("f", "Lc;")], &[("m", "(Lb;)[Lc;"), ("k", "()Ld;")]), ("b", "pkg/Middle", &[("g", "La;")], &[]), ("c", "pkg/Deep", &[], &[("<init>", "(Lc;Lb;La;)V")]), ("d", "pkg/C_5", &[], &[])]);
	let chain_j = vec![mk_class("a", &[("m", "(Lb;)[Lc;")]), mk_class("b", &[]), mk_class("c", &[("run", "()V")]), mk_class("d", &[])];
	for via_text in [false, true] {
		v.push(("fixed-inner-most-first", World { m: chain_m.clone(), j: chain_j.clone(), flavor: Flavor::Valid, via_text, big: false,
			t: vec![mk_nest(INNER, "c", "b", None, "C", 1), mk_nest(INNER, "b", "a", None, "B", 9)] }));
		v.push(("fixed-inner-most-first", World { m: chain_m.clone(), j: chain_j.clone(), flavor: Flavor::Valid, via_text, big: false,
			t: vec![mk_nest(ANON, "d", "c", Some(("run", "()V")), "1", 0), mk_nest(INNER, "c", "b", None, "C", 1), mk_nest(INNER, "b", "a", None, "B", 9)] }));
		v.push(("fixed-inner-most-first", World { m: chain_m.clone(), j: chain_j.clone(), flavor: Flavor::Valid, via_text, big: false,
			t: vec![mk_nest(INNER, "b", "a", None, "B", 9), mk_nest(ANON, "d", "c", Some(("run", "()V")), "1", 0), mk_nest(INNER, "c", "b", None, "C", 1)] }));
	}
	// acyclic table, well-formed injective mappings, cyclic image (theorem C14_map_nests_can_create_cycle)
	v.push(("fixed-cyclic-image", World { m: mk_mappings(&[("c1", "P__Q", &[], &[]), ("c2", "P", &[], &[])]), j: vec![mk_class("c1", &[]), mk_class("c2", &[]), mk_class("Outer", &[])], flavor: Flavor::Cyclic, via_text: false, big: false,
		t: vec![mk_nest(INNER, "c1", "Outer", None, "I", 1), mk_nest(INNER, "c2", "c1", None, "J", 1)] }));
	// cyclic tables
	v.push(("fixed-cyclic", World { m: mk_mappings(&[("A", "X", &[], &[])]), j: vec![mk_class("A", &[]), mk_class("B", &[])], flavor: Flavor::Cyclic, via_text: true, big: false,
		t: vec![mk_nest(INNER, "A", "B", None, "A", 0), mk_nest(INNER, "B", "A", None, "B", 0)] }));
	v.push(("fixed-cyclic", World { m: mk_mappings(&[("A", "X", &[("f", "LA;")], &[])]), j: vec![mk_class("A", &[])], flavor: Flavor::Cyclic, via_text: false, big: false,
		t: vec![mk_nest(INNER, "A", "A", None, "A", 0)] }));
	// the order-dependent filter (theorem C14_filter_order_dependent): jar {Y}; X in Z, Y in X
	for rev in [false, true] {
		let mut t = vec![mk_nest(INNER, "X", "Z", None, "X", 1), mk_nest(INNER, "Y", "X", None, "Y", 1)];
		if rev { t.reverse(); }
		v.push(("fixed-order", World { m: mk_mappings(&[("X", "x/Ex", &[], &[]), ("Y", "x/Why", &[("f", "LX;")], &[])]), j: vec![mk_class("Y", &[])], flavor: Flavor::Valid, via_text: false, big: false, t }));
	}
	// numeric characters that are not ASCII digits, through the text reader
	v.push(("fixed-numerics", World { m: mk_mappings(&[("a", "pkg/Outer", &[("f", "Lc;"), ("g", "Ld;"), ("h", "Le;")], &[("m", "()V")]), ("c", "pkg/C_12", &[], &[]), ("d", "pkg/Dee", &[], &[]), ("e", "pkg/C_٤٢", &[], &[]), ("g", "pkg/C_7", &[], &[])]),
		j: vec![mk_class("a", &[("m", "()V")]), mk_class("c", &[]), mk_class("d", &[]), mk_class("e", &[]), mk_class("g", &[])], flavor: Flavor::Valid, via_text: true, big: false,
		t: vec![mk_nest(INNER, "c", "a", None, "٤٢", 1), mk_nest(LOCAL, "d", "a", Some(("m", "()V")), "1٣", 0), mk_nest(INNER, "e", "a", None, "٣D", 8), mk_nest(ANON, "g", "a", None, "7", 0)] }));
	// enclosing methods WITHOUT a mapping whose descriptors mention renamed classes (`<init>`, a lambda body, `<clinit>`),
	// beside one that has a mapping: names kept / mapped, descriptors always rewritten
	for via_text in [false, true] {
		let mut m = mk_mappings(&[("o", "pkg/O", &[], &[("m", "(Lp;)V")]), ("p", "q/Renamed", &[], &[]), ("c", "pkg/C_4", &[], &[]), ("d", "pkg/Dee", &[], &[]), ("e", "pkg/Eee", &[], &[]), ("g", "pkg/Gee", &[], &[])]);
		m.classes[0].methods[0].names[1] = Some(cps_str("renamed"));
		v.push(("fixed-unmapped-method", World { m, flavor: Flavor::Valid, via_text, big: false,
			j: vec![mk_class("o", &[("<init>", "(Lp;I)V"), ("lambda$run$0", "(Lp;[Lp;)Lp;"), ("m", "(Lp;)V"), ("<clinit>", "()V")]), mk_class("p", &[]), mk_class("c", &[]), mk_class("d", &[]), mk_class("e", &[]), mk_class("g", &[])],
			t: vec![mk_nest(ANON, "c", "o", Some(("<init>", "(Lp;I)V")), "1", 0), mk_nest(LOCAL, "d", "o", Some(("lambda$run$0", "(Lp;[Lp;)Lp;")), "1Dee", 0),
				mk_nest(ANON, "e", "o", Some(("m", "(Lp;)V")), "2", 0), mk_nest(ANON, "g", "o", Some(("<clinit>", "()V")), "3", 8)] }));
	}
	// target names that can not be split at their last `__`: the enclosing part would end in `/`, the inner part start with `/`
	for bad in ["x/__y", "x__/y", "__y", "x__"] {
		v.push(("fixed-bad-split", World { m: mk_mappings(&[("a", "pkg/Outer", &[], &[]), ("b", bad, &[("f", "La;")], &[])]), flavor: Flavor::Weird, via_text: false, big: false,
			j: vec![mk_class("a", &[]), mk_class("b", &[])], t: vec![mk_nest(INNER, "b", "a", None, "b", 1)] }));
	}
	// a TARGET name that is the name of a listed class: undo looks it up in the table and turns `$` into `__`
	v.push(("fixed-undo-target-is-listed", World { m: mk_mappings(&[("u", "Host$Inner", &[("f", "LHost$Inner;")], &[]), ("Host$Inner", "named/HI", &[], &[]), ("Host", "named/Host", &[], &[])]), flavor: Flavor::Valid, via_text: false, big: false,
		j: vec![mk_class("u", &[]), mk_class("Host$Inner", &[]), mk_class("Host", &[])], t: vec![mk_nest(INNER, "Host$Inner", "Host", None, "Inner", 1)] }));
	// "exactly those listed classes": Foo is nested into Bar; the UNLISTED classes Foo$Helper, Foo$1 and Foo$Helper$Deep
	// (names that extend a listed name with `$`) keep their names in the jar, in the mappings and in every descriptor
	for via_text in [false, true] {
		v.push(("fixed-dollar-child", World { flavor: Flavor::Valid, via_text, big: false,
			m: mk_mappings(&[("Foo", "pkg/Foo", &[("h", "LFoo$Helper;")], &[("m", "(LFoo;LFoo$1;)LFoo$Helper$Deep;")]), ("Bar", "pkg/Bar", &[], &[]), ("Foo$Helper", "pkg/FooHelper", &[("f", "LFoo;")], &[("k", "([LFoo$Helper;)V")]), ("Foo$1", "pkg/Foo1", &[], &[]), ("Foo$Helper$Deep", "pkg/Deep", &[], &[]), ("User", "pkg/User", &[("a", "LFoo$1;"), ("b", "[[LFoo;")], &[])]),
			j: vec![mk_class("Foo", &[("m", "(LFoo;LFoo$1;)LFoo$Helper$Deep;")]), mk_class("Bar", &[]), mk_class("Foo$Helper", &[("k", "([LFoo$Helper;)V")]), mk_class("Foo$1", &[]), mk_class("Foo$Helper$Deep", &[]), mk_class("User", &[("u", "(LFoo$Helper;)LFoo;")])],
			t: vec![mk_nest(INNER, "Foo", "Bar", None, "Foo", 1)] }));
		// the same with a chain: Bar itself is nested into Baz, the unlisted Bar$Foo (!) is a different class than the image of Foo
		v.push(("fixed-dollar-child", World { flavor: Flavor::Valid, via_text, big: false,
			m: mk_mappings(&[("Foo", "pkg/Foo", &[], &[("m", "(LBar$X;)LFoo$X;")]), ("Bar", "pkg/Bar", &[("g", "LBar$X;")], &[]), ("Baz", "pkg/Baz", &[], &[]), ("Bar$X", "pkg/BarX", &[], &[]), ("Foo$X", "pkg/FooX", &[("f", "LBar;")], &[])]),
			j: vec![mk_class("Foo", &[("m", "(LBar$X;)LFoo$X;")]), mk_class("Bar", &[]), mk_class("Baz", &[]), mk_class("Bar$X", &[]), mk_class("Foo$X", &[])],
			t: vec![mk_nest(INNER, "Foo", "Bar", None, "Foo", 1), mk_nest(INNER, "Bar", "Baz", None, "Bar", 9)] }));
	}
	// target names with `$` and without `__`: the translated inner name is the whole last path segment (Things$Thing,
	// 1Things$Local), an anonymous class mapped to Host$C_12 keeps its number; net/Things$Thing and net/Stuff$Thing sit in
	// the same enclosing class and must stay apart
	for via_text in [false, true] {
		v.push(("fixed-dollar-target", World { flavor: Flavor::Valid, via_text, big: false,
			m: mk_mappings(&[("e", "net/Encl", &[("f", "Ls1;"), ("g", "Ls2;")], &[("run", "()V")]), ("s1", "net/Things$Thing", &[], &[]), ("s2", "net/Stuff$Thing", &[], &[("m", "(Ls1;)Ls3;")]), ("s3", "net/Things$Local", &[], &[]), ("s4", "net/Host$C_12", &[], &[]), ("s5", "Top$C_7", &[], &[]), ("s6", "net/A$B$Thing", &[], &[])]),
			j: vec![mk_class("e", &[("run", "()V")]), mk_class("s1", &[]), mk_class("s2", &[("m", "(Ls1;)Ls3;")]), mk_class("s3", &[]), mk_class("s4", &[]), mk_class("s5", &[]), mk_class("s6", &[])],
			t: vec![mk_nest(INNER, "s1", "e", None, "s1", 1), mk_nest(INNER, "s2", "e", None, "s2", 1), mk_nest(LOCAL, "s3", "e", Some(("run", "()V")), "1s3", 0),
				mk_nest(ANON, "s4", "e", Some(("run", "()V")), "3", 0), mk_nest(ANON, "s5", "e", None, "4", 0), mk_nest(INNER, "s6", "s1", None, "s6", 8)] }));
	}
	// two listed classes of different packages with the same simple target name in one enclosing class (the translated
	// inner names are equal: Thing), and a custom inner name beside a derived one
	v.push(("fixed-same-simple-name", World { flavor: Flavor::Valid, via_text: false, big: false,
		m: mk_mappings(&[("e", "net/Encl", &[], &[]), ("p1", "a/Thing", &[("f", "Lp2;")], &[]), ("p2", "b/Thing", &[("f", "Lp1;")], &[]), ("p3", "c/Other", &[], &[])]),
		j: vec![mk_class("e", &[]), mk_class("p1", &[]), mk_class("p2", &[]), mk_class("p3", &[])],
		t: vec![mk_nest(INNER, "p1", "e", None, "p1", 1), mk_nest(INNER, "p2", "e", None, "p2", 1), mk_nest(INNER, "p3", "e", None, "Custom", 1)] }));
	// an anonymous class mapped to C_<fullwidth digit>: construct_inner_name_from_anonymous_number must refuse
	v.push(("fixed-numerics", World { m: mk_mappings(&[("a", "pkg/Outer", &[], &[]), ("g", "pkg/C_７", &[], &[])]), j: vec![mk_class("a", &[]), mk_class("g", &[])], flavor: Flavor::Valid, via_text: true, big: false,
		t: vec![mk_nest(ANON, "g", "a", None, "7", 0)] }));
	v
}

const OBJECT: &str = "java/lang/Object";
fn gen_insns(rng: &mut Rng, u: &[S]) -> Vec<JInsn> {
	let mut v = vec![];
	let cls = |rng: &mut Rng| -> S { if rng.chance(1, 6) { cps_str(OBJECT) } else { rng.pick(u).clone() } };
	for _ in 0..rng.range(1, 5) {
		let c = cls(rng);
		match rng.below(9) {
			0 => { v.push(JInsn::New(c)); v.push(JInsn::Pop); }
			1 => { v.push(JInsn::AConstNull); v.push(JInsn::CheckCast(if rng.chance(1, 3) { let mut a = cps_str("[L"); a.extend(c); a.push(';' as u32); a } else { c })); v.push(JInsn::Pop); }
			2 => { v.push(JInsn::AConstNull); v.push(JInsn::InstanceOf(c)); v.push(JInsn::Pop); }
			3 => { v.push(JInsn::LdcClass(c)); v.push(JInsn::Pop); }
			4 => { let d = gen_field_desc(rng, u); if rng.chance(1, 2) { v.push(JInsn::GetStatic(c, cps_str("f"), d)); } else { v.push(JInsn::AConstNull); v.push(JInsn::GetField(c, cps_str("i"), d)); } v.push(JInsn::Pop); }
			5 => { let d = gen_field_desc(rng, u); v.push(JInsn::AConstNull); if rng.chance(1, 2) { v.push(JInsn::PutStatic(c, cps_str("g"), d)); } else { v.push(JInsn::AConstNull); v.push(JInsn::PutField(c, cps_str("h"), d)); } }
			6 => { v.push(JInsn::InvokeStatic(c, cps_str("s"), { let mut d = cps_str("()"); d.extend(gen_field_desc(rng, u)); d })); v.push(JInsn::Pop); }
			7 => { v.push(JInsn::AConstNull); v.push(JInsn::InvokeVirtual(c, cps_str("v"), cps_str("()V"))); }
			_ => { v.push(JInsn::AConstNull); v.push(JInsn::ANewArray(c)); v.push(JInsn::Pop); }
		}
	}
	v.push(JInsn::Return);
	v
}
fn gen_jar(rng: &mut Rng, u: &[S], m: &MMappings, t: &MTable, flavor: Flavor) -> Vec<JSpec> {
	let mut j = vec![];
	let majors = [52u16, 52, 50, 55, 61];
	for c in u {
		if !rng.chance(5, 6) { continue; }
		let mut spec = JSpec { major: *rng.pick(&majors[..]), access: 0x0021, name: c.clone(),
			super_class: Some(if rng.chance(1, 2) { cps_str(OBJECT) } else { rng.pick(u).clone() }),
			interfaces: if rng.chance(1, 4) { vec![rng.pick(u).clone()] } else { vec![] }, fields: vec![], methods: vec![], inner: None, encl: None };
		let in_m = m.classes.iter().find(|x| x.names[0].as_ref() == Some(c));
		let valid_desc = |d: &S| { let j = fbh::classfile::jstr::JStr::from_code_points(d); if d.first() == Some(&('(' as u32)) { raw::parse_method_descriptor(&j).is_ok() } else { raw::check_field_descriptor(&j).is_ok() } };
		if let Some(mc) = in_m {
			for f in &mc.fields { if valid_desc(&f.desc) { spec.fields.push((0x0002, f.names[0].clone().unwrap(), f.desc.clone())); } }
			for me in &mc.methods { if valid_desc(&me.desc) { spec.methods.push(JMethod { access: 0x0009, name: me.names[0].clone().unwrap(), desc: me.desc.clone(), code: None, exceptions: vec![] }); } }
		}
		// enclosing methods named by the table
		for n in t { if &n.encl == c { if let Some((a, b)) = &n.meth {
			if rng.chance(2, 3) && valid_desc(b) && !spec.methods.iter().any(|x| &x.name == a && &x.desc == b) { spec.methods.push(JMethod { access: 0x0001, name: a.clone(), desc: b.clone(), code: None, exceptions: vec![] }); }
		} } }
		if rng.chance(1, 3) { spec.fields.push((0x0019, cps_str("extra"), gen_field_desc(rng, u))); }
		for me in &mut spec.methods {
			if rng.chance(1, 2) { me.code = Some(gen_insns(rng, u)); } else { me.access |= 0x0400; }
			if rng.chance(1, 6) { me.exceptions.push(rng.pick(u).clone()); }
		}
		if rng.chance(1, 3) { spec.methods.push(JMethod { access: 0x0008, name: cps_str("body"), desc: cps_str("()V"), code: Some(gen_insns(rng, u)), exceptions: vec![] }); }
		if rng.chance(1, 8) { spec.inner = Some(vec![(rng.pick(u).clone(), Some(rng.pick(u).clone()), Some(cps_str("Old")), 0x0008)]); }
		let _ = flavor;
		j.push(spec);
	}
	rng.shuffle(&mut j);
	j
}

// ---------------------------------------------------------------------------------------------

fn replay_text(what: &str, w: &World, extra: &str) -> String {
	let mut s = format!("property C14\nwhat: {what}\nnests table (in IndexMap order):\n{}", show_table(&w.t));
	s.push_str("mappings (source -> target; fields; methods):\n");
	for c in &w.m.classes {
		s.push_str(&format!("  class {} -> {}\n", c.names[0].as_ref().map(|x| show(x)).unwrap_or("-".into()), c.names.get(1).cloned().flatten().map(|x| show(&x)).unwrap_or("-".into())));
		for f in &c.fields { s.push_str(&format!("    field {} {} -> {}\n", show(f.names[0].as_ref().unwrap()), show(&f.desc), f.names[1].as_ref().map(|x| show(x)).unwrap_or("-".into()))); }
		for me in &c.methods { s.push_str(&format!("    method {}{} -> {}\n", show(me.names[0].as_ref().unwrap()), show(&me.desc), me.names[1].as_ref().map(|x| show(x)).unwrap_or("-".into()))); }
	}
	s.push_str(extra);
	s.push_str(&format!("\nGallina: table = {}\nGallina: mappings = {}\n", g_table(&w.t), g_mappings(&w.m)));
	s
}

fn first_diff(a: &MMappings, b: &MMappings) -> String {
	if a.classes.len() != b.classes.len() { return format!("{} classes vs {}", a.classes.len(), b.classes.len()); }
	for (x, y) in a.classes.iter().zip(&b.classes) {
		if x != y {
			if x.names != y.names { return format!("class names {:?} vs {:?}", x.names.iter().map(|o| o.as_ref().map(|s| show(s))).collect::<Vec<_>>(), y.names.iter().map(|o| o.as_ref().map(|s| show(s))).collect::<Vec<_>>()); }
			for (f, g) in x.fields.iter().zip(&y.fields) { if f != g { return format!("in class {}: field {} {} vs {} {}", show(x.names[0].as_ref().unwrap()), show(f.names[0].as_ref().unwrap()), show(&f.desc), show(g.names[0].as_ref().unwrap()), show(&g.desc)); } }
			for (f, g) in x.methods.iter().zip(&y.methods) { if f != g { return format!("in class {}: method {}{} vs {}{}", show(x.names[0].as_ref().unwrap()), show(f.names[0].as_ref().unwrap()), show(&f.desc), show(g.names[0].as_ref().unwrap()), show(&g.desc)); } }
			return format!("class {} differs", show(x.names[0].as_ref().unwrap()));
		}
	}
	"header differs".into()
}

/// one world through the three entry points; returns true when something non-trivial happened
fn through_world(r: &mut Report, w: &World, n: &Nests<NA>, stream: &str) -> anyhow::Result<bool> {
	let (m, t) = (&w.m, &w.t);
	let depth_max = { let ix = index(t); t.iter().map(|n| depth(&ix, &n.class)).max().unwrap_or(0) };
	r.count(&format!("chain_depth_{}", depth_max.min(5)));
	r.count(&format!("table_size_{}", t.len().min(6)));
	if !acyclic(t) { r.count("table_cyclic"); }
	else if depth_max >= 2 && listed_before_enclosing(t) > 0 { r.count("table_lists_a_nest_before_the_nest_of_its_enclosing_class(depth>=2)"); }
	if t.iter().any(|n| n.inner.iter().any(|&c| c > 127 && char::from_u32(c).map_or(false, char::is_numeric))) { r.count("table_inner_name_with_non_ascii_numeric"); }
	if m.classes.iter().any(|c| c.names[1].as_ref().map_or(false, |d| d.windows(2).any(|p| p == ['C' as u32, '_' as u32]) && d.iter().any(|&c| c > 127 && char::from_u32(c).map_or(false, char::is_numeric)))) { r.count("mappings_target_C_<non_ascii_numeric>"); }
	{
		// round 5: the shapes two neighbouring helpers decide (ARemapper::map_class, ObjClassNameSlice::get_simple_name)
		let listed: Vec<&S> = t.iter().map(|n| &n.class).collect();
		let is_child = |c: &S| !listed.contains(&c) && listed.iter().any(|l| c.len() > l.len() + 1 && c.starts_with(l) && c[l.len()] == '$' as u32);
		if m.classes.iter().any(|c| c.names[0].as_ref().map_or(false, |s| is_child(s))) || source_classes(m).iter().any(|c| is_child(c)) { r.count("unlisted_class_named_<listed>$x(in mappings or a descriptor)"); }
		let dollar_dst = |d: &S| d.contains(&('$' as u32)) && !d.windows(2).any(|p| p == ['_' as u32, '_' as u32]);
		let dst_of = |c: &S| m.classes.iter().rev().find(|k| k.names[0].as_ref() == Some(c)).and_then(|k| k.names[1].clone());
		let dd: Vec<(S, S)> = t.iter().filter_map(|n| dst_of(&n.class).filter(|d| dollar_dst(d)).map(|d| (n.encl.clone(), d))).collect();
		if !dd.is_empty() { r.count("listed_class_with_target_name_containing_$_and_no___"); }
		let tail = |d: &S| { let p = d.iter().rposition(|&c| c == '$' as u32).unwrap_or(0); d[p..].to_vec() };
		if dd.iter().enumerate().any(|(i, a)| dd.iter().skip(i + 1).any(|b| a.0 == b.0 && a.1 != b.1 && tail(&a.1) == tail(&b.1))) { r.count("siblings_whose_target_names_share_the_part_after_the_last_$"); }
		if t.iter().enumerate().any(|(i, a)| t.iter().skip(i + 1).any(|b| a.encl == b.encl)) { r.count("table_with_siblings(one enclosing class)"); }
	}

	// ---- remap_nests
	let mut collisions = 0;
	let want_t2 = ref_map_nests(t, m, &mut collisions);
	let got_t2 = impl_map_nests(m, n)?;
	match &got_t2 {
		Err(p) => r.violation(format!("remap_nests panicked: {p}"), replay_text("remap_nests panicked", w, "")),
		Ok(got) => {
			let same = match (got, &want_t2) { (Some(a), Ok(b)) => a == b, (None, Err(())) => true, _ => false };
			if !same {
				let what = format!("remap_nests: implementation {:?}, reference (documented rules) {:?}", got.as_ref().map(|x| show_table(x)), want_t2.as_ref().map(|x| show_table(x)));
				r.violation(what.clone(), replay_text(&what, w, ""));
			}
			if collisions > 0 { r.count("map_nests_target_collision(hypothesis violated)"); }
			r.count(if got.is_some() { "map_nests_ok" } else { "map_nests_err" });
			if let Some(g) = got { for n in g { if n.class.windows(2).any(|p| p == ['_' as u32, '_' as u32]) { r.count("image_already_nested_C__D"); break; } } }
			if !w.big { r.case(stream, format!("CMapNests {} {} {}", g_table(t), g_mappings(m), gres(got.as_ref().map(g_table)))); }
		}
	}
	// an acyclic table can have a cyclic image (already nested target names override the enclosing class):
	// apply must answer with an error then, like for a table that is cyclic itself
	if let Ok(t2) = &want_t2 { if acyclic(t) && !acyclic(t2) { r.count("image_of_acyclic_table_is_cyclic(apply must return Err)"); } }

	// ---- apply
	let got_apply = impl_apply(m, n)?;
	let want_apply = match &want_t2 { Ok(t2) => ref_apply(m, t, t2), Err(()) => Expect::Err };
	if expect_of(&got_apply) != want_apply {
		let what = match (&got_apply, &want_apply) {
			(Ok(Some(g)), Expect::Ok(wnt)) => format!("apply_nests_to_mappings: result differs from the documented renaming (Enclosing$Inner transitively, descriptors rewritten): {}", first_diff(g, wnt)),
			(g, wnt) => format!("apply_nests_to_mappings: implementation {}, reference {}", match g { Err(p) => format!("panicked ({p})"), Ok(None) => "returned Err".into(), Ok(Some(_)) => "returned Ok".into() }, match wnt { Expect::Ok(_) => "Ok", Expect::Err => "Err (cyclic table or image, malformed descriptor, key collision)", Expect::Panic => "panic" }),
		};
		r.violation(what.clone(), replay_text(&what, w, ""));
	}
	r.count(match &got_apply { Err(_) => "apply_panic", Ok(None) => "apply_err", Ok(Some(_)) => "apply_ok" });
	if m.classes.iter().any(|c| c.names[1].is_none()) { r.count("apply_with_class_without_target_name"); }
	if !w.big { r.case(stream, format!("CApply {} {} {}", g_table(t), g_mappings(m), g_outcome(&got_apply))); }

	// ---- undo, on the applied mappings (the inverse law) and on the original ones
	let inj = injective(m, t);
	let mut nontrivial = false;
	if let Ok(Some(m1)) = &got_apply {
		let renamed = m.classes.iter().zip(&m1.classes).filter(|(a, b)| a.names[0] != b.names[0]).count();
		let desc_changed = m.classes.iter().zip(&m1.classes).any(|(a, b)| a.fields.iter().zip(&b.fields).any(|(f, g)| f.desc != g.desc) || a.methods.iter().zip(&b.methods).any(|(f, g)| f.desc != g.desc));
		if renamed > 0 { r.count("apply_renamed_some_class"); nontrivial = true; }
		if desc_changed { r.count("apply_rewrote_some_descriptor"); }
		let got_undo = impl_undo(m1, n)?;
		let want_undo = ref_undo(m1, t);
		if expect_of(&got_undo) != want_undo {
			let what = format!("undo_nests_to_mappings differs from the documented inverse renaming: implementation {:?}", match &got_undo { Err(p) => format!("panicked ({p})"), Ok(None) => "Err".into(), Ok(Some(g)) => match &want_undo { Expect::Ok(wn) => first_diff(g, wn), _ => "Ok".into() } });
			r.violation(what.clone(), replay_text(&what, w, &format!("\napplied mappings = {}\n", g_mappings(m1))));
		}
		if inj {
			r.count("undo_apply_checked(injective)");
			match &got_undo {
				Ok(Some(m2)) if source_view(m2) == source_view(m) => {}
				other => {
					let what = format!("undo(apply(M)) does not restore the source names and descriptors of M: {}", match other { Ok(Some(m2)) => first_diff(&source_view(m2), &source_view(m)), Ok(None) => "undo returned Err".into(), Err(p) => format!("undo panicked: {p}") });
					r.violation(what.clone(), replay_text(&what, w, &format!("\napplied mappings = {}\n", g_mappings(m1))));
				}
			}
		} else {
			r.count("undo_apply_not_checked(translation not injective: hypothesis violated)");
			if let Ok(Some(m2)) = &got_undo { if source_view(m2) != source_view(m) { r.count("undo_apply_differs_when_not_injective"); } }
		}
		if !w.big { r.case(stream, format!("CUndo {} {} {}", g_table(t), g_mappings(m1), g_outcome(&got_undo))); }
	}
	let got_undo0 = impl_undo(m, n)?;
	if expect_of(&got_undo0) != ref_undo(m, t) {
		let what = format!("undo_nests_to_mappings (on mappings that were not nested) differs from the documented inverse renaming: implementation {}", match &got_undo0 { Err(p) => format!("panicked ({p})"), Ok(None) => "returned Err".into(), Ok(Some(_)) => "returned Ok".into() });
		r.violation(what.clone(), replay_text(&what, w, ""));
	}
	if !acyclic(t) { r.count(match &got_undo0 { Ok(None) => "undo_err_on_cyclic_table", _ => "undo_not_err_on_cyclic_table" }); }
	if !w.big { r.case(stream, format!("CUndo {} {} {}", g_table(t), g_mappings(m), g_outcome(&got_undo0))); }
	Ok(nontrivial)
}

fn jar_replay(what: &str, w: &World, remap: bool, extra: &str) -> String {
	let mut s = format!("property C14 (jar side, remap={remap})\nwhat: {what}\nnests table (in IndexMap order):\n{}jar classes (entry order):\n", show_table(&w.t));
	for c in &w.j {
		s.push_str(&format!("  class {} (version {}) extends {} implements {:?}\n", show(&c.name), c.major, c.super_class.as_ref().map(|x| show(x)).unwrap_or("-".into()), c.interfaces.iter().map(|x| show(x)).collect::<Vec<_>>()));
		for (_, n, d) in &c.fields { s.push_str(&format!("    field {} {}\n", show(n), show(d))); }
		for me in &c.methods { s.push_str(&format!("    method {}{} code={:?}\n", show(&me.name), show(&me.desc), me.code)); }
	}
	s.push_str(extra);
	s.push_str(&format!("\nGallina: table = {}\nGallina: jar = {}\n", g_table(&w.t), g_jar(&w.j)));
	s
}

enum Exp { Class { spec: JSpec, had: usize, created: bool }, Other }

/// the jar side: nest_jar on the world's jar, every output class parsed by the independent parser.
/// The output is compared as a SET keyed by entry name, and only for what the property states: which
/// classes exist under which name, every reference rewritten, the InnerClasses / EnclosingMethod
/// records, other entries kept; of a created enclosing class only its existence, its name and its own
/// nesting records (not its flags, super class or version; not the position of any entry).
fn through_jar(r: &mut Report, w: &World, nests: &Nests<NA>, remap: bool, stream: &str) {
	let (t, j) = (&w.t, &w.j);
	let extra: Vec<(String, Option<Vec<u8>>)> = vec![("META-INF/".into(), None), ("META-INF/MANIFEST.MF".into(), Some(b"Manifest-Version: 1.0\r\n".to_vec()))];
	let ans = impl_nest_jar(remap, j, &extra, nests.clone());
	let stream = format!("jar-{stream}");
	let view = jar_view(j);
	let rn = ref_nesting(&view, t);
	r.count(if remap { "jar_remap_true" } else { "jar_remap_false" });
	let cyclic = !acyclic(&rn.applied);
	let out = match ans {
		Err(p) => { let what = format!("nest_jar panicked: {p}"); r.violation(what.clone(), jar_replay(&what, w, remap, "")); return; }
		Ok(None) => {
			let bad_encl_desc = remap && rn.applied.iter().any(|n| n.kind != INNER && n.meth.as_ref().map_or(false, |(_, d)| ref_desc(&|x| x.clone(), d).is_none()));
			if cyclic { r.count("jar_err(cyclic table of applicable nests)"); }
			else if bad_encl_desc { r.count("jar_err(malformed enclosing method descriptor)"); }
			else if !j.is_empty() { let what = "nest_jar returned Err on a jar with classes".to_string(); r.violation(what.clone(), jar_replay(&what, w, remap, "")); }
			if j.is_empty() { r.count("jar_err(no classes)"); }
			if !w.big { r.case(&stream, format!("CJar {} {} {} Err", gbool(remap), g_jar(j), g_table(t))); }
			return;
		}
		Ok(Some(o)) => o,
	};
	if cyclic {
		let what = "nest_jar returned Ok although the nests that apply to the jar form a cycle (a class transitively enclosed by itself)".to_string();
		r.violation(what.clone(), jar_replay(&what, w, remap, ""));
		return;
	}
	let fix = index(&rn.applied);
	let f = |c: &S| if remap { ref_tr(&fix, c).expect("acyclic") } else { c.clone() };
	r.count(&format!("jar_applied_{}_of_{}", if rn.applied.len() == t.len() { "all" } else { "some" }, if t.is_empty() { "empty" } else { "table" }));
	if !rn.created.is_empty() { r.count("jar_enclosing_class_created"); }
	if rn.created_listed { r.count("jar_created_class_is_itself_listed"); }
	if rn.created.iter().any(|c| !rn.applied.iter().any(|n| &n.encl == c)) { r.count("jar_enclosing_class_created_for_an_entry_that_is_then_rejected"); }
	for n in &rn.applied { r.count(match n.kind { ANON => "jar_nested_anonymous", INNER => "jar_nested_inner", _ => "jar_nested_local" }); }
	{
		// the order-dependent situation (theorem C14_filter_order_dependent): a listed class that is not in the
		// jar is created as a missing enclosing class AFTER its own entry was skipped.  Outside the premise.
		let mut a: Vec<S> = rn.applied.iter().map(|n| n.class.clone()).collect(); a.sort();
		let mut b = applied_fixpoint(&view, t); b.sort();
		if a != b { r.count("jar_filter_order_dependent(listed class created after its entry was skipped; outside the premise)"); }
	}
	// expected entries, keyed by name
	let mut expected: indexmap::IndexMap<String, Exp> = indexmap::IndexMap::new();
	let mut clash = false;
	for c in &rn.created {
		let spec = JSpec { major: 52, access: 0x0001, name: c.clone(), super_class: Some(cps_str(OBJECT)), interfaces: vec![], fields: vec![], methods: vec![], inner: None, encl: None };
		let e = expected_class(&spec, fix.get(c).copied(), &f);
		clash |= expected.insert(entry_name(&e.name), Exp::Class { spec: e, had: 0, created: true }).is_some();
	}
	for (n, _) in &extra { clash |= expected.insert(n.clone(), Exp::Other).is_some(); }
	for c in j {
		let e = expected_class(c, fix.get(&c.name).copied(), &f);
		clash |= expected.insert(entry_name(&e.name), Exp::Class { spec: e, had: c.inner.as_ref().map_or(0, |v| v.len()), created: false }).is_some();
	}
	// two classes end up under one name (the renaming is not injective on this jar): the later
	// entry replaces the earlier one in the output map; outside the hypotheses, only counted
	if clash { r.count("jar_two_classes_one_name(hypothesis violated, not compared)"); return; }
	let mut problems: Vec<String> = vec![];
	let mut g_out: Vec<String> = vec![];
	let mut model_ok = true;
	let mut seen: std::collections::HashSet<&String> = std::collections::HashSet::new();
	let mut out_names: std::collections::HashMap<String, S> = std::collections::HashMap::new();   // entry name -> class name inside
	for (name, content) in &out {
		if !seen.insert(name) { problems.push(format!("entry {name:?} occurs twice in the output")); model_ok = false; continue; }
		match (content, expected.get(name)) {
			(_, None) => {
				let inside = if let OutEntry::Class(b) = content { raw::parse(b).and_then(|rc| facts_from_raw(&rc)).map(|f| f.name.to_string_lossy()).unwrap_or_else(|e| format!("unparsable: {e}")) } else { "-".into() };
				problems.push(format!("unexpected entry {name:?} (class inside: {inside})")); model_ok = false;
			}
			(OutEntry::Class(bytes), Some(Exp::Class { spec, had, created })) => {
				match raw::parse(bytes).and_then(|rc| facts_from_raw(&rc)) {
					Err(e) => { problems.push(format!("output class {name} is rejected by the independent parser: {e}")); model_ok = false; }
					Ok(facts) => {
						g_out.push(g_out_class(&facts, *had));
						out_names.insert(name.clone(), facts.name.code_points());
						match facts_of_spec(spec) {
							Err(e) => problems.push(format!("harness: expected class does not assemble: {e}")),
							Ok(want) if *created => {
								if facts.name != want.name { problems.push(format!("created class in entry {name}: named {}, expected {}", facts.name, want.name)); }
								if facts.inner_classes != want.inner_classes { problems.push(format!("created class {name}: InnerClasses {:?}, expected {:?}", facts.inner_classes, want.inner_classes)); }
								if facts.enclosing_method != want.enclosing_method { problems.push(format!("created class {name}: EnclosingMethod {:?}, expected {:?}", facts.enclosing_method, want.enclosing_method)); }
							}
							Ok(want) => { let d = facts.diff(&want); if !d.is_empty() { problems.push(format!("class {name}: {}", d.iter().take(6).cloned().collect::<Vec<_>>().join("; "))); } }
						}
					}
				}
			}
			(OutEntry::Other(_), Some(Exp::Other)) | (OutEntry::Dir, Some(Exp::Other)) => {}
			_ => { problems.push(format!("entry {name:?}: kind differs from the expected entry")); model_ok = false; }
		}
	}
	for name in expected.keys() { if !seen.contains(name) { problems.push(format!("entry {name:?} is missing from the output")); model_ok = false; } }
	if !problems.is_empty() {
		let what = format!("nest_jar output differs from the documented nesting (exactly the applicable classes renamed to Enclosing$Inner, every reference rewritten, InnerClasses/EnclosingMethod recorded, missing enclosing classes created): {}", problems.iter().take(4).cloned().collect::<Vec<_>>().join(" | "));
		r.violation(what.clone(), jar_replay(&what, w, remap, &format!("\nall differences:\n{}\n", problems.join("\n"))));
	}
	// jar names = mapping names, for tables whose entries all apply
	let premise = all_in_jar(&view, t);
	if remap && acyclic(t) && (premise || rn.applied.len() == t.len()) {
		r.count(if premise { "jar_mapping_agreement_checked(every listed class in the jar: order-independent premise)" } else { "jar_mapping_agreement_checked(all entries apply only thanks to classes created earlier in table order)" });
		let tix = index(t);
		for c in j.iter().map(|c| &c.name).chain(rn.created.iter()) {
			let mapping_side = ref_tr(&tix, c).expect("acyclic");
			let jar_side = out_names.get(&entry_name(&mapping_side));
			if jar_side != Some(&mapping_side) {
				let what = format!("jar and mappings disagree on the name of class {}: mappings {}, the jar has no class of that name (jar classes: {})", show(c), show(&mapping_side), out_names.values().map(|x| show(x)).collect::<Vec<_>>().join(", "));
				r.violation(what.clone(), jar_replay(&what, w, remap, ""));
			}
		}
		// the table is a map: under the order-independent premise any other order must give the same classes
		if premise && t.len() >= 2 {
			let mut t2 = t.clone(); t2.reverse();
			if let Ok(Some(out2)) = impl_nest_jar(remap, j, &extra, to_nests(&t2)) {
				r.count("jar_order_independence_checked(reversed table)");
				let names = |o: &Vec<(String, OutEntry)>| { let mut v: Vec<String> = o.iter().map(|(n, _)| n.clone()).collect(); v.sort(); v };
				if names(&out) != names(&out2) {
					let what = format!("nest_jar depends on the order of the table although every listed class is in the jar: entries {:?} vs {:?} for the reversed table", names(&out), names(&out2));
					r.violation(what.clone(), jar_replay(&what, w, remap, ""));
				}
			}
		}
	}
	if model_ok && out.len() == expected.len() {
		if !w.big { r.case(&stream, format!("CJar {} {} {} (Ok {})", gbool(remap), g_jar(j), g_table(t), glist(g_out))); }
	}
}

fn gen_text(rng: &mut Rng, w: &World, malformed: bool) -> S {
	let mut text: S = vec![];
	let crlf = rng.chance(1, 5);
	let mut lines: Vec<S> = w.t.iter().filter(|n| !n.inner.is_empty()).map(|n| line_of(n, rng.below(4) as u8)).collect();
	if rng.chance(1, 4) && !lines.is_empty() { let l = rng.pick(&lines[..]).clone(); lines.push(l); }   // a class listed twice
	if malformed && rng.chance(1, 3) && w.t.iter().any(|n| !n.inner.is_empty()) {
		// a class listed twice with DIFFERENT content: the later line replaces the nest, at the position of the first
		let ns: Vec<&MNest> = w.t.iter().filter(|n| !n.inner.is_empty()).collect();
		let mut n2 = (*rng.pick(&ns[..])).clone();
		n2.encl = cps_str("dup/Encl"); n2.inner = cps_str(*rng.pick(&["Dup", "7Dup", "77"][..])); n2.meth = None; n2.access = 0x0010;
		let at = rng.below(lines.len() + 1);
		lines.insert(at, line_of(&n2, 1));
		if rng.chance(1, 2) { return join_lines(rng, &lines, crlf); }
	}
	if malformed && !lines.is_empty() {
		let i = rng.below(lines.len());
		let l = &mut lines[i];
		match rng.below(8) {
			0 => { l.push(9); l.extend(cps_str("x")); }                            // seven fields
			1 => { if let Some(p) = l.iter().rposition(|&c| c == 9) { l.truncate(p); } }   // five fields
			2 => { *l = cps_str("\tA\t\t\tB\t1"); }                                // empty class
			3 => { let p = l.iter().rposition(|&c| c == 9).unwrap(); l.truncate(p + 1); l.extend(cps_str(*rng.pick(&["65536", "0x10000", "-1", "", "0x", "+", "1 ", "0b2", "0xg", "+0x1"][..]))); }
			4 => { let mut v = cps_str("a.b\t"); v.extend(l.iter().skip_while(|&&c| c != 9).skip(1)); *l = v; }   // invalid class name
			5 => { *l = cps_str("A\tB\tm<\t()V\tC\t0"); }                           // invalid method name
			6 => { *l = if rng.chance(1, 2) { vec![] } else { cps_str(*rng.pick(&["A\t\t\t\tB\t1", "A\tB\t\t\t\t1", "A\tB\tm\t()V\t\t0", "A\t\tm\t()V\t1\t0"][..])) }; }   // empty line, empty enclosing class, empty inner name
			_ => { *l = cps_str("A\tB\t\t\tx/\t0"); }                              // invalid inner name
		}
	}
	text.extend(join_lines(rng, &lines, crlf));
	text
}
fn join_lines(rng: &mut Rng, lines: &[S], crlf: bool) -> S {
	let mut text: S = vec![];
	for (i, l) in lines.iter().enumerate() {
		text.extend(l);
		if i + 1 < lines.len() || rng.chance(3, 4) { if crlf { text.push(13); } text.push(10); }
	}
	text
}

fn through_read(r: &mut Report, text: &S, stream: &str, expect_table: Option<&MTable>) {
	let got = impl_read(text);
	let want = ref_read(text);
	match &got {
		Err(p) => r.violation(format!("Nests::read panicked: {p}"), format!("property C14\nwhat: Nests::read panicked: {p}\ntext: {:?}\n", show(text))),
		Ok(g) => {
			let same = match (g, &want) { (Some(a), Ok(b)) => a == b, (None, Err(())) => true, _ => false };
			if !same {
				let what = format!("Nests::read: implementation {:?}, documented format {:?}", g.as_ref().map(|x| show_table(x)), want.as_ref().map(|x| show_table(x)));
				r.violation(what.clone(), format!("property C14\nwhat: {what}\ntext: {:?}\ncode points: {}\n", show(text), gstr(text)));
			}
			if let (Some(tbl), Some(g)) = (expect_table, g) {
				if tbl != g {
					let what = "reading the text form of a table does not give the table back".to_string();
					r.violation(what.clone(), format!("property C14\nwhat: {what}\ntable:\n{}read back:\n{}text: {:?}\n", show_table(tbl), show_table(g), show(text)));
				}
			}
			r.count(if g.is_some() { "read_ok" } else { "read_err" });
			r.case(stream, format!("CRead {} {}", gstr(text), gres(g.as_ref().map(g_table))));
		}
	}
}

/// strip_local_class_prefix is private; it is observed as the inner_name of the InnerClasses entry
fn through_strip(r: &mut Report, inner: &str) {
	let obj = Some(cps_str(OBJECT));
	let mk = |name: &str| JSpec { major: 52, access: 0x21, name: cps_str(name), super_class: obj.clone(), interfaces: vec![], fields: vec![], methods: vec![], inner: None, encl: None };
	let j = vec![mk("A"), mk("B")];
	let t = vec![MNest { kind: INNER, class: cps_str("B"), encl: cps_str("A"), meth: None, inner: cps_str(inner), access: 0 }];
	match impl_nest_jar(false, &j, &[], to_nests(&t)) {
		Ok(Some(out)) => {
			let got = out.iter().find_map(|(name, e)| match e { OutEntry::Class(b) if name == "B.class" => raw::parse(b).and_then(|rc| facts_from_raw(&rc)).ok(), _ => None })
				.and_then(|f| f.inner_classes.and_then(|v| v.last().cloned())).and_then(|e| e.inner_name);
			match got {
				Some(name) => {
					let name = name.code_points();
					let want = strip_prefix_ref(&cps_str(inner));
					if name != want { let what = format!("inner name {inner:?} is recorded as {:?} in InnerClasses, the documented stripping of the number prefix gives {:?}", show(&name), show(&want)); r.violation(what.clone(), format!("property C14\nwhat: {what}\n")); }
					r.case("strip", format!("CStrip {} {}", gstr(&cps_str(inner)), gstr(&name)));
				}
				None => { let what = format!("no InnerClasses inner_name recorded for inner name {inner:?}"); r.violation(what.clone(), format!("property C14\nwhat: {what}\n")); }
			}
		}
		other => { let what = format!("nest_jar failed on the two-class jar for inner name {inner:?}: {:?}", other.map(|o| o.is_some())); r.violation(what.clone(), format!("property C14\nwhat: {what}\n")); }
	}
}

/// Cyclic tables used to make the real code recurse without bound (stack overflow, SIGABRT); the
/// repaired code returns an error.  The fixed witnesses are run in a child process FIRST, so that a
/// regression is reported as a violation with its input instead of killing the harness; the generated
/// cyclic worlds run in-process only when the child survived.
const PROBES: [&str; 4] = [
	"apply_nests_to_mappings, table A in B, B in A (cyclic), mappings A -> X",
	"apply_nests_to_mappings, ACYCLIC table c1 in Outer (inner I), c2 in c1 (inner J), mappings c1 -> P__Q, c2 -> P: remap_nests gives the cyclic table P__Q in P, P in P__Q",
	"undo_nests_to_mappings, table A in B, B in A (cyclic), mappings A -> X",
	"nest_jar(remap=true), jar {A, B}, table A in B, B in A (cyclic)",
];
fn probe(k: usize) -> bool {
	let cyc = vec![mk_nest(INNER, "A", "B", None, "A", 0), mk_nest(INNER, "B", "A", None, "B", 0)];
	let m = mk_mappings(&[("A", "X", &[], &[])]);
	match k {
		0 => dukenest::apply_nests_to_mappings(to_quill::<2, (NA, NB)>(&m).expect("mappings"), &to_nests::<NA>(&cyc)).is_err(),
		1 => {
			let t = vec![mk_nest(INNER, "c1", "Outer", None, "I", 1), mk_nest(INNER, "c2", "c1", None, "J", 1)];
			let m = mk_mappings(&[("c1", "P__Q", &[], &[]), ("c2", "P", &[], &[])]);
			dukenest::apply_nests_to_mappings(to_quill::<2, (NA, NB)>(&m).expect("mappings"), &to_nests::<NA>(&t)).is_err()
		}
		2 => dukenest::undo_nests_to_mappings(to_quill::<2, (NA, NB)>(&m).expect("mappings"), &to_nests::<NA>(&cyc)).is_err(),
		_ => matches!(impl_nest_jar(true, &[mk_class("A", &[]), mk_class("B", &[])], &[], to_nests(&cyc)), Ok(None)),
	}
}
/// true = every probe returned Err in the child process
fn cycle_probe(r: &mut Report, ctx: &Ctx) -> bool {
	let exe = match std::env::current_exe() { Ok(e) => e, Err(_) => return true };
	let mut all_ok = true;
	for (k, what) in PROBES.iter().enumerate() {
		let out = std::process::Command::new(&exe).arg(ctx.seed.to_string()).arg("quick").arg(&ctx.out).arg(format!("cycle-probe-{k}"))
			.stdout(std::process::Stdio::null()).stderr(std::process::Stdio::null()).status();
		match out {
			Ok(st) if st.code() == Some(0) => r.count("cyclic_table_probe_returned_Err(child process)"),
			Ok(st) => {
				all_ok = false;
				let how = if st.code() == Some(3) { "returned Ok".to_string() } else { format!("did not return: the child process ended with {st} (unbounded recursion)") };
				let what = format!("a cyclic nests table must be answered with an error: {what}: {how}");
				r.violation(what.clone(), format!("property C14\nwhat: {what}\n"));
			}
			Err(e) => r.notes.push(format!("cycle probe could not be started: {e}")),
		}
	}
	if all_ok { r.notes.push("cyclic tables (also the cyclic image of an acyclic table under c1 -> P__Q, c2 -> P): apply / undo / nest_jar return Err (fix c9cdfec); checked in a child process first, then on generated cyclic worlds in-process".into()); }
	all_ok
}

// ---------------------------------------------------------------------------------------------
// round 4: crumbs, chains at the boundary of the depth test, the anonymous rule on boundary strings,
// the remapper's answers on array / unlisted class names, entries that are not named <class>.class

/// what is written down before a world is handed to the implementation: if the harness process dies there
/// (unbounded recursion over the chain of enclosing classes, abort, endless loop), `check` reports this text
fn world_crumb(w: &World, stream: &str, label: &str) -> String {
	let what = format!("(stream {stream}{label}) the harness process died while this world was handed to dukenest (Nests::read, remap_nests, apply_nests_to_mappings, undo_nests_to_mappings, nest_jar)");
	if w.big {
		return format!("property C14\nwhat: {what}\nnests table: {} entries, first and last:\n{}  ...\n{}jar: {} classes; mappings: {} classes\n", w.t.len(), show_table(&w.t[..2.min(w.t.len())].to_vec()), show_table(&w.t[w.t.len().saturating_sub(2)..].to_vec()), w.j.len(), w.m.classes.len());
	}
	let mut extra = String::from("jar classes (entry order):\n");
	for c in &w.j { extra.push_str(&format!("  class {} methods {:?}\n", show(&c.name), c.methods.iter().map(|m| format!("{}{}", show(&m.name), show(&m.desc))).collect::<Vec<_>>())); }
	extra.push_str(&format!("Gallina: jar = {}\n", g_jar(&w.j)));
	replay_text(&what, w, &extra)
}

/// ONE chain k/C0 <- k/C1 <- ... <- k/C{n-1} (C0 in k/Outer): the chain passes exactly as many nests as the
/// table has, the boundary of the test `depth > len` of fix c9cdfec (it must not fire); `cycle` closes the
/// chain (C0 in C{n-1}: it must fire).  order 0 = enclosing classes first, 1 = inner-most first, 2 = shuffled.
fn chain_world(rng: &mut Rng, n: usize, cycle: bool, order: u8, with_jar: bool) -> World {
	let name = |i: usize| cps_str(&format!("k/C{i}"));
	let mut t: MTable = (0..n).map(|i| MNest { kind: INNER, class: name(i), encl: if i == 0 { if cycle { name(n - 1) } else { cps_str("k/Outer") } } else { name(i - 1) }, meth: None, inner: cps_str(&format!("I{i}")), access: 1 }).collect();
	match order { 0 => {}, 1 => t.reverse(), _ => rng.shuffle(&mut t) }
	let mut desc = cps_str("(L"); desc.extend(name(n - 1)); desc.extend(cps_str(";)L")); desc.extend(name(0)); desc.push(';' as u32);
	let classes = (0..n).map(|i| MClass { names: vec![Some(name(i)), Some(cps_str(&format!("m/M{i}")))], doc: None, fields: vec![],
		methods: if i == 0 || i + 1 == n { vec![MMeth { desc: desc.clone(), names: vec![Some(cps_str("m")), Some(cps_str("n"))], doc: None, params: vec![] }] } else { vec![] } }).collect();
	let m = MMappings { ns: vec![cps_str("official"), cps_str("named")], doc: None, classes };
	let j = if with_jar { (0..n).map(|i| mk_class(&format!("k/C{i}"), if i == 0 { &[("m", "()V")][..] } else { &[][..] })).collect() } else { vec![] };
	World { m, t, j, flavor: if cycle { Flavor::Cyclic } else { Flavor::Valid }, via_text: false, big: n > 48 }
}

/// inner names around every edge of `parse::<i32>() >= 1`
const ANON_INNER: [&str; 44] = ["0", "00", "01", "1", "7", "12", "007", "+1", "+01", "-1", "-0", "+0", "+", "-", "++1", "+-1", "-+1", "1+", "1-",
	"2147483647", "2147483648", "2147483646", "4294967295", "4294967296", "4294967297", "+2147483647", "+2147483648", "-2147483648", "-2147483649",
	"00000000000000000000002147483647", "00000000000000000000002147483648", "99999999999999999999999999", "", " 1", "1 ", "1_0", "1.0", "1e3", "0x1",
	"٤٢", "１", "1٣", "²", "١"];

/// the anonymous rule alone: jar {A, B}, B listed as anonymous in A with the given inner name
fn through_anon(r: &mut Report, inner: &S) {
	let w = World { m: mk_mappings(&[("A", "x/Outer", &[], &[("m", "()V")]), ("B", "x/Bee", &[], &[])]), j: vec![mk_class("A", &[("m", "()V")]), mk_class("B", &[])], flavor: Flavor::Weird, via_text: false, big: false,
		t: vec![MNest { kind: ANON, class: cps_str("B"), encl: cps_str("A"), meth: Some((cps_str("m"), cps_str("()V"))), inner: inner.clone(), access: 0 }] };
	crumb(&world_crumb(&w, "anon-index", ""));
	let nests: Nests<NA> = to_nests(&w.t);
	through_jar(r, &w, &nests, true, "anon-index");
	through_jar(r, &w, &nests, false, "anon-index");
	match impl_nest_jar(false, &w.j, &[], nests) {
		Ok(Some(out)) => {
			let nested = out.iter().find_map(|(name, e)| match e { OutEntry::Class(b) if name == "B.class" => raw::parse(b).and_then(|rc| facts_from_raw(&rc)).ok(), _ => None })
				.map(|f| f.inner_classes.map_or(false, |v| !v.is_empty()));
			match nested {
				Some(nested) => {
					let want = anon_ok(inner);
					if nested != want {
						let what = format!("anonymous class with inner name {:?}: nest_jar {} it, the rule (a decimal number >= 1 that fits an i32, optional `+`) says it {}", show(inner), if nested { "nested" } else { "did not nest" }, if want { "applies" } else { "does not apply" });
						r.violation(what.clone(), jar_replay(&what, &w, false, ""));
					}
					r.count(if nested { "anon_index_applies" } else { "anon_index_rejected" });
					r.case("anon-index", format!("CAnon {} {}", gstr(inner), gbool(nested)));
				}
				None => { let what = format!("class B missing from the output of nest_jar for anonymous inner name {:?}", show(inner)); r.violation(what.clone(), jar_replay(&what, &w, false, "")); }
			}
		}
		other => { let what = format!("nest_jar failed on the two-class jar for anonymous inner name {:?}: {:?}", show(inner), other.map(|o| o.is_some())); r.violation(what.clone(), jar_replay(&what, &w, false, "")); }
	}
}

/// The remapper nest_jar hands to dukebox::remap, observed from outside: a probe class whose method casts to
/// every asked class name (object names, arrays of them, arrays of primitives, classes the table does not
/// list); after nest_jar(remap = true) the operands are read back.  Oracle: Enclosing$Inner through the
/// applicable entries (ref_tr over ref_nesting), inside the `L…;` of array names.
fn through_any_class(r: &mut Report, w: &World, nests: &Nests<NA>, stream: &str) {
	let probe = cps_str("zz/Probe");
	if w.j.is_empty() || w.j.iter().any(|c| c.name == probe) || w.t.iter().any(|n| n.class == probe || n.encl == probe) { return; }
	let mut names: Vec<S> = vec![];
	for c in w.j.iter().map(|c| &c.name).chain(w.t.iter().map(|n| &n.class)).chain(w.t.iter().map(|n| &n.encl)) {
		if !names.contains(c) && !c.is_empty() && c.iter().all(|&x| x != ';' as u32 && x != '[' as u32 && x != '.' as u32 && x > 32 && !(0xD800..0xE000).contains(&x)) { names.push(c.clone()); }
	}
	names.truncate(7);
	names.push(cps_str("java/lang/Object")); names.push(cps_str("not/Listed$1"));
	let mut asks: Vec<S> = vec![];
	for (i, c) in names.iter().enumerate() {
		asks.push(c.clone());
		let mut a = cps_str(if i % 2 == 0 { "[L" } else { "[[[L" }); a.extend(c); a.push(';' as u32); asks.push(a);
	}
	for p in ["[I", "[[J", "[Z", "[[[D"] { asks.push(cps_str(p)); }
	let mut code = vec![];
	for a in &asks { code.push(JInsn::AConstNull); code.push(JInsn::CheckCast(a.clone())); code.push(JInsn::Pop); }
	code.push(JInsn::Return);
	let mut j = w.j.clone();
	j.push(JSpec { major: 52, access: 0x0021, name: probe.clone(), super_class: Some(cps_str(OBJECT)), interfaces: vec![], fields: vec![], methods: vec![JMethod { access: 0x0009, name: cps_str("p"), desc: cps_str("()V"), code: Some(code), exceptions: vec![] }], inner: None, encl: None });
	let Ok(Some(out)) = impl_nest_jar(true, &j, &[], nests.clone()) else { r.count("any_class_probe_not_run(nest_jar failed)"); return };
	let Some(facts) = out.iter().find_map(|(name, e)| match e { OutEntry::Class(b) if name == "zz/Probe.class" => raw::parse(b).and_then(|rc| facts_from_raw(&rc)).ok(), _ => None }) else {
		let what = "the unlisted class zz/Probe is missing from the output of nest_jar (or unparsable)".to_string(); r.violation(what.clone(), jar_replay(&what, w, true, "")); return };
	let answers: Vec<S> = facts.methods.iter().flat_map(|m| m.code.iter()).flat_map(|c| c.insns.iter()).filter_map(|i| match (&i.arg, i.op) { (fbh::classfile::facts::OperandG::Class(c), "checkcast") => Some(c.code_points()), _ => None }).collect();
	let view = jar_view(&j);
	let rn = ref_nesting(&view, &w.t);
	if !acyclic(&rn.applied) { return; }
	let fix = index(&rn.applied);
	let f = |c: &S| ref_tr(&fix, c).expect("acyclic");
	let want: Vec<S> = asks.iter().map(|a| if a.first() == Some(&('[' as u32)) { ref_desc(&f, a).unwrap_or_else(|| a.clone()) } else { f(a) }).collect();
	if answers != want {
		let diff: Vec<String> = asks.iter().zip(want.iter()).zip(answers.iter().chain(std::iter::repeat(&vec![]))).filter(|((_, w), g)| w != g).map(|((a, w), g)| format!("{} -> {} (expected {})", show(a), show(g), show(w))).collect();
		let what = format!("the remapper nest_jar hands to dukebox::remap does not answer Enclosing$Inner for every class name: {}", diff.join("; "));
		r.violation(what.clone(), jar_replay(&what, w, true, &format!("\nprobe class zz/Probe casts to: {}\n", asks.iter().map(|a| show(a)).collect::<Vec<_>>().join(", "))));
	}
	r.count("any_class_probe(checkcast operands read back)");
	if answers.iter().zip(&asks).any(|(a, q)| a != q && q.first() == Some(&('[' as u32))) { r.count("any_class_probe_renamed_inside_an_array_name"); }
	if answers.len() == asks.len() { r.case(&format!("any-class-{stream}"), format!("CAnyClass {} {} {} {}", g_jar(&j), g_table(&w.t), glist(asks.iter().map(|a| gstr(a))), glist(answers.iter().map(|a| gstr(a))))); }
}

/// class-file versions (major, minor) handed out to the classes of a jar: equal majors with different minors, a minor
/// larger than the minor of a smaller major, 45.3, the largest version duke reads (67.0)
const CREATED_VERSIONS: [(u16, u16); 14] = [(52, 0), (52, 0), (50, 0), (50, 3), (50, 65535), (51, 0), (51, 2), (45, 3), (45, 0), (46, 65535), (61, 0), (55, 1), (49, 7), (67, 0)];

/// Round 7: the classes nest_jar CREATES for missing enclosing classes, as class files.  Every class of the world's jar
/// gets its own (major, minor) version; after nest_jar the first |output| - |input| class entries are read back with the
/// independent parser.  Oracle (implementation alone): exactly the missing enclosing classes of the reference nesting are
/// created, in creation order, each with the SMALLEST version of the jar (major first, then minor), access flags
/// ACC_PUBLIC only, super class java/lang/Object, no interfaces, fields or methods.  Model: CCreated.
fn through_created(r: &mut Report, rng: &mut Rng, w: &World, nests: &Nests<NA>, remap: bool, stream: &str) {
	if w.big || w.j.is_empty() { return; }
	let (t, j) = (&w.t, &w.j);
	let base = *rng.pick(&CREATED_VERSIONS[..]);
	let vs: Vec<(u16, u16)> = j.iter().map(|_| if rng.chance(1, 3) { (base.0, if base.0 >= 67 { 0 } else if base.0 >= 56 { *rng.pick(&[0u16, 65535][..]) } else { *rng.pick(&[0u16, 1, 3, 65535][..]) }) /* duke's reader rejects versions above 67.0; from major 56 on JVMS 4.1 allows only minor 0 and 65535 (the independent parser refuses anything else, also in a created class) */ } else { *rng.pick(&CREATED_VERSIONS[..]) }).collect();
	let mut input = vec![];
	for (c, (major, minor)) in j.iter().zip(&vs) {
		let mut b = build(c);
		b[4..6].copy_from_slice(&minor.to_be_bytes());
		b[6..8].copy_from_slice(&major.to_be_bytes());
		input.push((entry_name(&c.name), InEntry::Class(b)));
	}
	let vtxt = format!("\nclass-file versions (major.minor) of the jar classes, in entry order: {}\n", vs.iter().map(|(a, b)| format!("{a}.{b}")).collect::<Vec<_>>().join(" "));
	let g_vs = glist(vs.iter().map(|(a, b)| format!("({a}, {b})")));
	let stream = format!("created-{stream}");
	let view = jar_view(j);
	let rn = ref_nesting(&view, t);
	let out = match impl_nest_jar_raw(remap, input, nests.clone()) {
		Err(p) => { let what = format!("nest_jar panicked: {p}"); r.violation(what.clone(), jar_replay(&what, w, remap, &vtxt)); return; }
		Ok(None) => { r.count("created_nest_jar_err"); r.case(&stream, format!("CCreated {} {} {} {} Err", gbool(remap), g_vs, g_jar(j), g_table(t))); return; }
		Ok(Some(o)) => o,
	};
	if !acyclic(&rn.applied) { return; }   // reported by through_jar
	let fix = index(&rn.applied);
	let f = |c: &S| if remap { ref_tr(&fix, c).expect("acyclic") } else { c.clone() };
	// two classes under one name: the later entry replaces the earlier one; outside the hypotheses (see through_jar)
	let mut names: std::collections::HashSet<S> = std::collections::HashSet::new();
	if !rn.created.iter().chain(j.iter().map(|c| &c.name)).all(|c| names.insert(f(c))) { r.count("created_two_classes_one_name(not compared)"); return; }
	let classes: Vec<&Vec<u8>> = out.iter().filter_map(|(_, e)| if let OutEntry::Class(b) = e { Some(b) } else { None }).collect();
	let mut problems: Vec<String> = vec![];
	if classes.len() != j.len() + rn.created.len() {
		problems.push(format!("{} class entries in the output, expected the {} classes of the jar and {} created enclosing classes ({})", classes.len(), j.len(), rn.created.len(), rn.created.iter().map(|c| show(c)).collect::<Vec<_>>().join(", ")));
	}
	let min = *vs.iter().min().expect("non-empty jar");   // tuple order: major, then minor
	let k = classes.len().saturating_sub(j.len());
	let mut g_heads: Vec<String> = vec![];
	for (i, b) in classes.iter().take(k).enumerate() {
		let Ok(rc) = raw::parse(b) else { problems.push(format!("created class #{i} is rejected by the independent parser")); continue };
		let Ok(facts) = facts_from_raw(&rc) else { problems.push(format!("created class #{i} is rejected by the independent parser (facts)")); continue };
		let name = facts.name.code_points();
		g_heads.push(format!("(mkHeader ({}, {}) {} {} {} {} {} {})", rc.major, rc.minor, rc.access, gstr(&name), gopt(facts.super_class.as_ref().map(|x| gstr(&x.code_points()))),
			glist(facts.interfaces.iter().map(|x| gstr(&x.code_points()))), facts.fields.len(), facts.methods.len()));
		match rn.created.get(i) {
			None => {}
			Some(c) => {
				if name != f(c) { problems.push(format!("created class #{i} is named {}, expected {}", show(&name), show(&f(c)))); }
				if (rc.major, rc.minor) != min { problems.push(format!("created class {} has class-file version {}.{}, the smallest version in the jar is {}.{}", show(&name), rc.major, rc.minor, min.0, min.1)); }
				if rc.access != 0x0001 { problems.push(format!("created class {} has access flags {:#06x}, expected ACC_PUBLIC alone (0x0001)", show(&name), rc.access)); }
				let want_super = f(&cps_str(OBJECT));
				if facts.super_class.as_ref().map(|x| x.code_points()) != Some(want_super.clone()) { problems.push(format!("created class {} extends {:?}, expected {}", show(&name), facts.super_class.as_ref().map(|x| x.to_string_lossy()), show(&want_super))); }
				if !facts.interfaces.is_empty() || !facts.fields.is_empty() || !facts.methods.is_empty() { problems.push(format!("created class {} has {} interfaces, {} fields, {} methods; expected an empty class", show(&name), facts.interfaces.len(), facts.fields.len(), facts.methods.len())); }
			}
		}
	}
	if !problems.is_empty() {
		let what = format!("the enclosing classes nest_jar creates differ from the documented ones (one per missing enclosing class, smallest class-file version of the jar, public, extends java/lang/Object, empty): {}", problems.iter().take(4).cloned().collect::<Vec<_>>().join(" | "));
		r.violation(what.clone(), jar_replay(&what, w, remap, &vtxt));
	}
	r.count(if k == 0 { "created_none" } else { "created_classes_read_back" });
	if k > 0 && vs.iter().any(|v| v.0 == min.0 && v.1 != min.1) { r.count("created_version_decided_by_minor"); }
	if k > 0 && vs.first() != Some(&min) && vs.last() != Some(&min) { r.count("created_version_minimum_in_the_middle"); }
	if g_heads.len() == k { r.case(&stream, format!("CCreated {} {} {} {} (Ok {})", gbool(remap), g_vs, g_jar(j), g_table(t), glist(g_heads))); }
}

/// a class entry whose name does not end in `.class`: remap_jar_entry_name leaves the name alone; the class
/// inside is still nested / remapped
fn through_odd_entry(r: &mut Report) {
	let t = vec![mk_nest(INNER, "B", "A", None, "B", 1)];
	let input = vec![("x/Alpha.klass".to_string(), InEntry::Class(build(&mk_class("A", &[])))), ("B.class".to_string(), InEntry::Class(build(&mk_class("B", &[]))))];
	match impl_nest_jar_raw(true, input, to_nests(&t)) {
		Ok(Some(out)) => {
			let names: Vec<&str> = out.iter().map(|(n, _)| n.as_str()).collect();
			let inside = |n: &str| out.iter().find_map(|(name, e)| match e { OutEntry::Class(b) if name == n => raw::parse(b).and_then(|rc| facts_from_raw(&rc)).ok().map(|f| f.name.to_string_lossy()), _ => None });
			if names != ["x/Alpha.klass", "A$B.class"] || inside("x/Alpha.klass").as_deref() != Some("A") || inside("A$B.class").as_deref() != Some("A$B") {
				let what = format!("jar with a class entry not named <class>.class: expected entries x/Alpha.klass (class A) and A$B.class (class A$B), got {:?} with classes {:?} {:?}", names, inside("x/Alpha.klass"), inside("A$B.class"));
				r.violation(what.clone(), format!("property C14\nwhat: {what}\ninput entries: x/Alpha.klass = class A, B.class = class B; table: B in A, inner name B\n"));
			}
			r.count("jar_class_entry_not_named_dot_class");
		}
		other => { let what = format!("nest_jar failed on a jar with a class entry not named <class>.class: {:?}", other.map(|o| o.is_some())); r.violation(what.clone(), format!("property C14\nwhat: {what}\n")); }
	}
}

/// MyRemapper::new alone (undo on an empty mapping set): Ok exactly on the acyclic tables — compared with the
/// LITERAL depth-counter transcription of the model (CLiteral)
fn through_literal(r: &mut Report, w: &World, nests: &Nests<NA>, stream: &str) -> anyhow::Result<()> {
	let empty = MMappings { ns: vec![cps_str("official"), cps_str("named")], doc: None, classes: vec![] };
	match impl_undo(&empty, nests)? {
		Err(p) => { let what = format!("undo_nests_to_mappings panicked on an empty mapping set: {p}"); r.violation(what.clone(), replay_text(&what, w, "")); }
		Ok(got) => {
			let ok = got.is_some();
			if ok != acyclic(&w.t) {
				let what = format!("building the translation of the table (MyRemapper::new) {} although the table is {}", if ok { "succeeded" } else { "failed" }, if ok { "cyclic" } else { "acyclic (the depth bound must never fire on an acyclic table, whatever its size and order)" });
				r.violation(what.clone(), replay_text(&what, w, ""));
			}
			r.count(if ok { "translation_ok(acyclic)" } else { "translation_err(cyclic: depth bound fired)" });
			if !w.big { r.case(stream, format!("CLiteral {} {}", g_table(&w.t), gbool(ok))); }
		}
	}
	Ok(())
}

pub fn run(ctx: &Ctx) -> anyhow::Result<Report> {
	if let Some(k) = ctx.replay.as_ref().and_then(|p| p.to_str()).and_then(|p| p.strip_prefix("cycle-probe-")).and_then(|k| k.parse::<usize>().ok()) {
		std::process::exit(if probe(k) { 0 } else { 3 });
	}
	let mut r = Report::new("C14", "C14.Run");
	let mut rng = Rng::new(ctx.seed);
	r.shard_size = 200;
	r.rule = "worlds = (mapping set with 2 namespaces, nests table, jar) over a universe of 2..8 source classes (packages, `$`-nested names, unicode, numeric characters that are not ASCII digits): chains of depth 1..5, inner/local/anonymous nests with derived and custom inner names, inner names and C_<n> target names with Arabic-Indic / fullwidth / superscript / circled / Roman numerals, nests for classes that are in no mapping or no jar, target names in Calamus form C_<n> and already nested Encl__Inner; tables are shuffled and in one world of four listed inner-most first (every nest before the nest of its enclosing class); one world of three reaches the implementation through the TEXT reader (Nests::read of the table's text) and the kinds it assigns are compared with an independent ASCII-only classification; every world goes through remap_nests, apply_nests_to_mappings, undo_nests_to_mappings (on the applied and on the original mappings) and nest_jar and is judged by the independent reference; separate streams violate one hypothesis each: classes without target name, a translation that is not injective, malformed descriptors / inner names / target names, CYCLIC tables and acyclic tables with a cyclic image (Err expected, compared with the model's Err); fixed worlds in every run: chains listed inner-most first, the cyclic-image witness, the order-dependent creation of a listed class, non-ASCII numerics through the reader; rich jars (corpus classes and gen_class output: signatures, annotations, local variable tables, stack map frames, catch types, invokedynamic, method handles/types, NestHost/NestMembers/PermittedSubclasses/Record, multianewarray, pre-existing EnclosingMethod) are nested and every reference position of every output class is compared with the specification of reference positions (C07's spec_remap) applied to the input; the nests text format is round-tripped through Nests::read together with malformed lines (wrong field counts, empty class / enclosing class / inner name, invalid names, access flags out of range). Round 4: every world is written down (crumb) before it is handed to the implementation; MyRemapper::new alone (undo on an empty mapping set) is compared with the literal depth-counter transcription (CLiteral); single chains whose depth equals the table size (1..48 with correspondence, 300 with jar and 1500 oracle-only) in three table orders, each also closed into a cycle; the anonymous rule on 44 boundary inner names (0, 00, 01, +1, -1, -0, +, -, 2^31-1, 2^31, 2^32-1, 2^32, leading zeros, empty, white space, `_`, other scripts' digits) and on random numbers around the i32/u32 boundaries, each through nest_jar in both modes (CAnon); enclosing methods without a mapping (`<init>`, `<clinit>`, lambda bodies, accessors) whose descriptors mention mapped classes; target names that are names of listed classes (undo's `$` -> `__`); a probe class casts to object names, array names of 1 and 3 dimensions, primitive arrays and unlisted classes and the operands are read back after nest_jar(remap) (CAnyClass); a class entry not named <class>.class. Round 5: unlisted classes whose names extend a listed name with `$` (Foo$Helper, Foo$1, Foo$Helper$Deep beside the listed Foo; Bar$X beside a listed Bar that is itself nested) in jar, mappings and descriptors (fixed-dollar-child); target names that contain `$` and no `__` (one generated target name in six; every second of those shares its part after the last `$` with an earlier one) and siblings in one enclosing class, so that an inner name cut at `$` collides (fixed-dollar-target: net/Things$Thing and net/Stuff$Thing in one class, 1Things$Local, an anonymous class mapped to Host$C_12); two classes of different packages with one simple target name (fixed-same-simple-name); nests texts that list a class twice with different content. A world is non-trivial when apply renamed at least one class; distinct by (table, mappings).".into();

	let survived = cycle_probe(&mut r, ctx);

	let mut worlds: Vec<(&'static str, World)> = fixed_worlds();
	let n_fixed = worlds.len();
	let n = if ctx.thorough { 6000 } else { 640 };
	for i in 0..n + n_fixed {
		let (stream, w) = if i < n_fixed { let (s, w) = worlds.remove(0); (s, w) } else {
			let k = i - n_fixed;
			let (flavor, stream) = match k % 10 { 0 => (Flavor::NoDst, "no-target-name"), 1 => (Flavor::Collide, "not-injective"), 2 | 3 => (Flavor::Weird, "weird"), 4 => (Flavor::Cyclic, "cyclic"), _ => (Flavor::Valid, "world") };
			(stream, gen_world(&mut rng, flavor, k % 3 == 1))
		};
		let flavor = w.flavor;
		if flavor == Flavor::Cyclic && !survived { r.count("cyclic_world_not_run(the probe died)"); continue; }
		crumb(&world_crumb(&w, stream, ""));
		let nests = world_nests(&mut r, &w, stream);
		through_literal(&mut r, &w, &nests, stream)?;
		let nontrivial = through_world(&mut r, &w, &nests, stream)?;
		if i < n_fixed { through_jar(&mut r, &w, &nests, true, stream); through_jar(&mut r, &w, &nests, false, stream); through_any_class(&mut r, &w, &nests, stream); }
		else if i % 2 == 0 || flavor == Flavor::Valid || flavor == Flavor::Cyclic { through_jar(&mut r, &w, &nests, i % 4 != 3, stream); }
		if i >= n_fixed && i % 4 == 0 && flavor != Flavor::Weird { through_any_class(&mut r, &w, &nests, stream); }
		if i < n_fixed || i % 2 == 1 { through_created(&mut r, &mut rng, &w, &nests, i % 4 != 1, stream); }
		r.eval(&format!("{}|{}", g_table(&w.t), g_mappings(&w.m)), nontrivial);
		// text form
		if i % 3 == 0 {
			let valid_names = flavor != Flavor::Weird;
			let text = gen_text(&mut rng, &w, false);
			// what reading must give back: kinds are derived from the inner name, ASCII digits only
			let expect: Option<MTable> = if valid_names {
				let mut e: MTable = vec![];
				for n in w.t.iter().filter(|n| !n.inner.is_empty()) {
					let mut x = n.clone(); x.kind = ascii_kind(&n.inner);
					if let Some(p) = e.iter().position(|y| y.class == x.class) { e[p] = x; } else { e.push(x); }
				}
				Some(e)
			} else { None };
			through_read(&mut r, &text, "read", expect.as_ref());
			let bad = gen_text(&mut rng, &w, true);
			through_read(&mut r, &bad, "read-malformed", None);
		}
	}
	// ---- chains whose depth is exactly the size of the table (the depth test must not fire), closed into a cycle (it must)
	if survived {
		let sizes: &[usize] = if ctx.thorough { &[1, 2, 3, 4, 5, 8, 13, 21, 34, 48] } else { &[1, 2, 3, 5, 8, 21, 48] };
		let mut k = 0u8;
		for &n in sizes { for cycle in [false, true] { k = k.wrapping_add(1); for order in 0..3u8 {
			if !ctx.thorough && order != k % 3 { continue; }
			let w = chain_world(&mut rng, n, cycle, order, true);
			let label = format!(", one chain of {n} nests{}, order {order}", if cycle { " closed into a cycle" } else { "" });
			crumb(&world_crumb(&w, "chain", &label));
			let nests = to_nests(&w.t);
			through_literal(&mut r, &w, &nests, "chain")?;
			through_world(&mut r, &w, &nests, "chain")?;
			through_jar(&mut r, &w, &nests, true, "chain");
			if n <= 5 { through_any_class(&mut r, &w, &nests, "chain"); }
			r.count(if cycle { "chain_world_cyclic" } else { "chain_world_depth_equals_table_size" });
		} } }
		// long chains: judged by the oracle only (no correspondence case); the recursion of the implementation is as deep as the chain
		for (n, cycle, with_jar) in [(1500usize, false, false), (1500, true, false), (300, false, true), (300, true, true)] {
			let w = chain_world(&mut rng, n, cycle, if with_jar { 1 } else { 2 }, with_jar);
			let label = format!(", one chain of {n} nests{}", if cycle { " closed into a cycle" } else { "" });
			crumb(&world_crumb(&w, "long-chain", &label));
			let nests = to_nests(&w.t);
			through_literal(&mut r, &w, &nests, "long-chain")?;
			through_world(&mut r, &w, &nests, "long-chain")?;
			if with_jar { through_jar(&mut r, &w, &nests, true, "long-chain"); }
			r.count(&format!("long_chain_world_{n}{}", if cycle { "_cyclic" } else { "" }));
		}
	}
	// ---- the anonymous rule on boundary strings, and on numbers around the i32 boundaries
	for inner in ANON_INNER { through_anon(&mut r, &cps_str(inner)); }
	for k in 0..(if ctx.thorough { 300 } else { 40 }) {
		let base: i64 = *rng.pick(&[0i64, 1, 9, 10, 2147483647, 2147483648, 4294967295, 4294967296, 1000000000, 999999999][..]);
		let v = (base + rng.below(5) as i64 - 2).max(0);
		let mut txt = String::new();
		if k % 5 == 0 { txt.push('+'); } else if k % 11 == 0 { txt.push('-'); }
		for _ in 0..rng.below(4) { txt.push('0'); }
		txt.push_str(&v.to_string());
		if k % 13 == 0 { txt.push(*rng.pick(&['x', ' ', '_', '٣', '１'][..])); }
		through_anon(&mut r, &cps_str(&txt));
	}
	through_odd_entry(&mut r);
	for inner in ["Foo", "123Foo", "1", "1234", "123Bar4", "0", "00x", "x1", "1$2", "９x", "12ü", "7_", "1٣", "٣D", "1２x"] { through_strip(&mut r, inner); }
	// rich classes: every reference position
	rich::run_rich(&mut r, &mut rng, if ctx.thorough { 500 } else { 48 });
	// fixed texts
	for s in ["", "\n", "A\tB\t\t\tC\t1", "A\tB\t\t\tC\t1\n\n", "A\tB\t\t\tC\t1\r", "A\tB\t\t\tC\t1\r\n", "A\tB\t\t\tC\t1\r\r\n", "\r\n", "\r", "A\tB\t\t\tC\t1\nX\tB\t\t\t2\t2\r", "A\tB\tm\t()V\t1C\t0x0019\r\nA$1\tA\tm\t\t1\t0b1\r\n", "A\tB\t\t()V\t12\t+7", "A\tB\tm\tnot a descriptor\tC\t0", "a/b/C\ta/b/D\t<init>\t(La/b/C;)V\t1\t0", "[A\tB\t\t\tC\t0", "A\tB\t\t\tC\t٣", "A\t\t\t\tC\t0", "A\tB\t\t\t\t0", "\tB\t\t\tC\t0", "A\tB\t\t\t+1\t0", "A\tB\t\t\t00\t0", "A\tB\t\t\t2147483648\t0", "A\tB\t\t\t-1\t0",
		"A\tB\t\t\tC\t1\nX\tY\t\t\tZ\t0\nA\tD\tm\t()V\t1E\t2\n", "A\tB\t\t\t7\t1\nA\tB\t\t\tSeven\t1\nA\tB\t\t\t7\t0x10",
		"c\ta\t\t\t٤٢\t1", "d\ta\tm\t()V\t1٣\t0", "e\ta\t\t\t٣D\t0", "f\ta\t\t\t１２\t0", "g\ta\t\t\t²\t0", "h\ta\tm\t()V\t7Ⅷ\t0"] {
		through_read(&mut r, &cps_str(s), "read-fixed", None);
	}
	Ok(r)
}

fn main() -> anyhow::Result<()> { fbh::main_with(run) }
