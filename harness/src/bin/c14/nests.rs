//! Mirror of dukenest's nests table with plain code-point vectors, conversion to and from the
//! real `Nests`, the Gallina printer for FB.C14.Model, and the text form read by `Nests::read`.
use fbh::gal::*;
use fbh::mapmodel::{class_name, method_desc, method_name, S};
use dukenest::nest::{Nest, NestType, Nests};
use duke::tree::method::MethodNameAndDesc;
use indexmap::IndexMap;
use std::marker::PhantomData;

/// namespace markers
#[derive(Clone)]
pub struct NA;
#[derive(Clone)]
pub struct NB;

pub const ANON: u8 = 0;
pub const INNER: u8 = 1;
pub const LOCAL: u8 = 2;
/// bits InnerClassFlags keeps
pub const ACCESS_MASK: u16 = 0x761F;

#[derive(Clone, Debug, PartialEq, Eq, Hash)]
pub struct MNest { pub kind: u8, pub class: S, pub encl: S, pub meth: Option<(S, S)>, pub inner: S, pub access: u16 }
pub type MTable = Vec<MNest>;

pub fn to_nests<Ns>(t: &MTable) -> Nests<Ns> {
	let mut all = IndexMap::new();
	for n in t {
		let nest = Nest {
			nest_type: match n.kind { ANON => NestType::Anonymous, INNER => NestType::Inner, _ => NestType::Local },
			class_name: class_name(&n.class),
			encl_class_name: class_name(&n.encl),
			encl_method: n.meth.as_ref().map(|(a, b)| MethodNameAndDesc { name: method_name(a), desc: method_desc(b) }),
			inner_name: class_name(&n.inner),
			inner_access: n.access.into(),
		};
		all.insert(class_name(&n.class), nest);
	}
	Nests { phantom: PhantomData, all }
}

pub fn from_nests<Ns>(n: &Nests<Ns>, desync: &mut Vec<String>) -> MTable {
	let mut out = vec![];
	for (k, v) in &n.all {
		if k != &v.class_name { desync.push(format!("nests key {:?} vs class_name {:?}", k, v.class_name)); }
		out.push(MNest {
			kind: match v.nest_type { NestType::Anonymous => ANON, NestType::Inner => INNER, NestType::Local => LOCAL },
			class: cps(v.class_name.as_inner()),
			encl: cps(v.encl_class_name.as_inner()),
			meth: v.encl_method.as_ref().map(|m| (cps(m.name.as_inner()), cps(m.desc.as_inner()))),
			inner: cps(v.inner_name.as_inner()),
			access: v.inner_access.into(),
		});
	}
	out
}

pub fn g_nest(n: &MNest) -> String {
	format!("(mkNest {} {} {} {} {} {})",
		match n.kind { ANON => "KAnon", INNER => "KInner", _ => "KLocal" },
		gstr(&n.class), gstr(&n.encl),
		gopt(n.meth.as_ref().map(|(a, b)| gpair(gstr(a), gstr(b)))),
		gstr(&n.inner), n.access)
}
pub fn g_table(t: &MTable) -> String { glist(t.iter().map(g_nest)) }

pub fn show_nest(n: &MNest) -> String {
	format!("{} class={} encl={} method={} inner={} access={:#06x}",
		match n.kind { ANON => "anonymous", INNER => "inner", _ => "local" },
		show(&n.class), show(&n.encl),
		n.meth.as_ref().map(|(a, b)| format!("{}{}", show(a), show(b))).unwrap_or_else(|| "-".into()),
		show(&n.inner), n.access)
}
pub fn show_table(t: &MTable) -> String { t.iter().map(|n| format!("  {}\n", show_nest(n))).collect() }

/// one line of the nests text format; `fmt` chooses how the access flags are written
pub fn line_of(n: &MNest, fmt: u8) -> S {
	let mut v = vec![];
	v.extend(&n.class); v.push(9);
	v.extend(&n.encl); v.push(9);
	if let Some((a, b)) = &n.meth { v.extend(a); v.push(9); v.extend(b); v.push(9); } else { v.push(9); v.push(9); }
	v.extend(&n.inner); v.push(9);
	let acc = match fmt { 0 => format!("{}", n.access), 1 => format!("0x{:x}", n.access), 2 => format!("0x{:04X}", n.access), _ => format!("0b{:b}", n.access) };
	v.extend(cps_str(&acc));
	v
}

/// the kind the nests text format gives an inner name: ASCII digits only (what the jar nester's
/// `parse::<i32>`, its digit-prefix stripping and NestTypeA::new understand) — written here without
/// looking at the reader
pub fn ascii_kind(inner: &[u32]) -> u8 {
	let d = inner.iter().take_while(|&&c| (0x30..=0x39).contains(&c)).count();
	if d == inner.len() { ANON } else if d > 0 { LOCAL } else { INNER }
}
/// the text form of a whole table (LF line ends; access flags in the four spellings by turns)
pub fn text_of(t: &MTable) -> S {
	let mut v = vec![];
	for (i, n) in t.iter().enumerate() { v.extend(line_of(n, (i % 4) as u8)); v.push(10); }
	v
}
