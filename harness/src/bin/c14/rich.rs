//! refs_rewritten on RICH classes: jars of corpus classes (javac / ecj output with generic signatures,
//! annotations of every kind, type annotations, LocalVariable(Type)Table, StackMapTable, exception
//! tables, invokedynamic + bootstrap arguments, MethodHandle / MethodType constants, NestHost /
//! NestMembers / PermittedSubclasses / Record, multianewarray, pre-existing InnerClasses and
//! EnclosingMethod) and of `gen_class` output are nested with a generated table.  Oracle: the facts
//! (independent parser) of every output class must equal the SPECIFICATION of reference positions
//! (harness/src/bin/c07/spec.rs `spec_remap`, written from JVMS 4, shared with C07) applied to the
//! facts of the input class plus the InnerClasses / EnclosingMethod records of its nest, with the
//! renaming Enclosing$Inner of the independent reference (`ref_tr`) as the remapper's answers.
use super::jar::*;
use super::nests::*;
use super::oracle::*;
use super::refspec::{spec_remap, Answers, Ask};
use fbh::classfile::facts::*;
use fbh::classfile::{asm, corpus, gen, raw};
use fbh::gal::*;
use fbh::mapmodel::S;
use fbh::prng::Rng;
use fbh::report::{crumb, guarded, Report};
use std::collections::{BTreeMap, HashMap, HashSet};
use std::panic::AssertUnwindSafe;

struct Rich { origin: String, bytes: Vec<u8>, facts: ClassFacts, name: S, mentions: HashSet<S> }

fn rich_of(origin: String, bytes: Vec<u8>) -> Option<Rich> {
	let facts = raw::parse(&bytes).and_then(|rc| facts_from_raw(&rc)).ok()?;
	facts.name.to_string_exact()?;
	let name = facts.name.code_points();
	if name.iter().any(|&c| c == 9 || c == 10 || c == 13) { return None; }
	let mentions = super::refspec::mentioned_classes(&facts).into_iter().collect();
	Some(Rich { origin, bytes, facts, name, mentions })
}
fn duke_reads(bytes: &[u8]) -> bool {
	let b = bytes.to_vec();
	matches!(guarded(AssertUnwindSafe(move || duke::read_class(&mut std::io::Cursor::new(&b)).is_ok())), Ok(true))
}

/// is the finding listed (open, for C14) in /verif/known_findings.json?  The list is committed by the
/// coordinator; a finding this harness recognises but that is not listed yet is counted and noted
/// (`pending_finding:…`) instead of `known`, so the check stays green until it is listed.
fn finding_listed(id: &str) -> bool {
	let Ok(text) = std::fs::read_to_string("/verif/known_findings.json") else { return false };
	let Ok(j) = serde_json::from_str::<serde_json::Value>(&text) else { return false };
	j["findings"].as_array().map(|a| a.iter().any(|f| f["id"] == id && f["property"] == "C14" && f["status"].as_str().unwrap_or("open") == "open")).unwrap_or(false)
}
const F21S: &str = "F21s nest_jar(remap) leaves generic Signature attributes (class, field, method, record component) and LocalVariableTypeTable signatures untouched: a class that is renamed by nesting keeps its OLD name there (dukebox/src/remap.rs `impl Mappable for ClassSignature / FieldSignature / MethodSignature`: `eprintln!(\"todo: impl remap …\"); return Ok(self)`)";

// ---------------------------------------------------------------------------------------------
// generic signatures (JVMS 4.7.9.1): rewrite the class names of class type signatures

struct SigP<'a> { s: &'a [u32], i: usize, out: S, f: &'a dyn Fn(&S) -> S, suffixed: Vec<S> }
impl<'a> SigP<'a> {
	fn peek(&self) -> Option<u32> { self.s.get(self.i).copied() }
	fn is(&self, c: char) -> bool { self.peek() == Some(c as u32) }
	fn bump(&mut self) -> Option<()> { let c = self.peek()?; self.out.push(c); self.i += 1; Some(()) }
	fn expect(&mut self, c: char) -> Option<()> { if self.is(c) { self.bump() } else { None } }
	fn take_until(&mut self, stops: &[char]) -> Option<S> {
		let start = self.i;
		while let Some(c) = self.peek() { if stops.iter().any(|&s| s as u32 == c) { break; } self.i += 1; }
		if self.i == start || self.peek().is_none() { return None; }
		Some(self.s[start..self.i].to_vec())
	}
	fn ref_type(&mut self) -> Option<()> {
		if self.is('L') { self.class_type() }
		else if self.is('T') { self.bump()?; let id = self.take_until(&[';'])?; self.out.extend(id); self.expect(';') }
		else if self.is('[') { self.bump()?; self.any_type() }
		else { None }
	}
	fn any_type(&mut self) -> Option<()> {
		match self.peek().and_then(char::from_u32)? { 'B' | 'C' | 'D' | 'F' | 'I' | 'J' | 'S' | 'Z' | 'V' => self.bump(), _ => self.ref_type() }
	}
	fn class_type(&mut self) -> Option<()> {
		self.expect('L')?;
		let name = self.take_until(&['<', ';', '.'])?;
		self.out.extend((self.f)(&name));
		let mut full = name;
		loop {
			if self.is('<') { self.args()?; }
			else if self.is('.') {
				// Outer<..>.Inner names the class Outer$Inner; the suffix is a simple name and stays
				self.bump()?;
				let simple = self.take_until(&['<', ';', '.'])?;
				self.out.extend(simple.iter());
				full.push('$' as u32); full.extend(simple);
				self.suffixed.push(full.clone());
			}
			else { return self.expect(';'); }
		}
	}
	fn args(&mut self) -> Option<()> {
		self.expect('<')?;
		while !self.is('>') {
			if self.is('*') { self.bump()?; } else { if self.is('+') || self.is('-') { self.bump()?; } self.ref_type()?; }
		}
		self.expect('>')
	}
	fn formals(&mut self) -> Option<()> {
		self.expect('<')?;
		while !self.is('>') {
			let id = self.take_until(&[':'])?; self.out.extend(id);
			while self.is(':') { self.bump()?; if self.is('L') || self.is('T') || self.is('[') { self.ref_type()?; } }
		}
		self.expect('>')
	}
	fn top(&mut self) -> Option<()> {
		if self.is('<') { self.formals()?; }
		if self.is('(') {
			self.bump()?;
			while !self.is(')') { self.any_type()?; }
			self.bump()?;
			self.any_type()?;
			while self.is('^') { self.bump()?; self.ref_type()?; }
		} else { while self.peek().is_some() { self.ref_type()?; } }
		if self.peek().is_some() { None } else { Some(()) }
	}
}
/// the signature with every class type's class renamed by `f`; None = not a signature this parser understands.
/// `suffixed` receives the classes named through an `Outer.Inner` suffix (their renaming cannot be expressed here)
fn rewrite_signature(sig: &[u32], f: &dyn Fn(&S) -> S, suffixed: &mut Vec<S>) -> Option<S> {
	let mut p = SigP { s: sig, i: 0, out: vec![], f, suffixed: vec![] };
	p.top()?;
	suffixed.extend(p.suffixed);
	Some(p.out)
}
fn map_signatures(c: &mut ClassFacts, g: &mut dyn FnMut(&mut JStr)) {
	if let Some(s) = &mut c.signature { g(s); }
	for f in &mut c.fields { if let Some(s) = &mut f.signature { g(s); } }
	for m in &mut c.methods {
		if let Some(s) = &mut m.signature { g(s); }
		if let Some(code) = &mut m.code { for v in &mut code.local_variable_types { g(&mut v.signature); } }
	}
	for rc in c.record.iter_mut().flatten() { if let Some(s) = &mut rc.signature { g(s); } }
}

// ---------------------------------------------------------------------------------------------

const STRING: &str = "java/lang/String";

struct NestAsk<'a> { ix: HashMap<&'a S, &'a MNest> }
impl<'a> Ask for NestAsk<'a> {
	fn class(&self, c: &[u32]) -> Result<Option<S>, String> { let c = c.to_vec(); Ok(if self.ix.contains_key(&c) { ref_tr(&self.ix, &c) } else { None }) }
	// ARemapperAsBRemapper: members keep their names, descriptors are rewritten class by class
	fn field(&self, _: &[u32], _: &[u32], _: &[u32]) -> Result<Option<(S, S)>, String> { Ok(None) }
	fn method(&self, _: &[u32], _: &[u32], _: &[u32]) -> Result<Option<(S, S)>, String> { Ok(None) }
}

fn j(s: &S) -> JStr { JStr::from_code_points(s) }

/// the input class with the records of its nest (before any renaming)
fn with_nest_records(facts: &ClassFacts, nest: Option<&MNest>) -> ClassFacts {
	let mut e = facts.clone();
	if let Some(n) = nest {
		if n.kind != INNER { e.enclosing_method = Some(EnclosingMethodFacts { class: j(&n.encl), method: n.meth.as_ref().map(|(a, b)| (j(a), j(b))) }); }
		e.inner_classes.get_or_insert_with(Vec::new).push(InnerClassFacts {
			inner: j(&n.class), outer: if n.kind == INNER { Some(j(&n.encl)) } else { None },
			inner_name: if n.kind == ANON { None } else { Some(j(&strip_prefix_ref(&n.inner))) }, access: n.access });
	}
	e
}

fn gen_table(rng: &mut Rng, classes: &[&Rich], view: &JarView, force: &HashSet<S>) -> MTable {
	let mut t: MTable = vec![];
	let mut order: Vec<usize> = (0..classes.len()).collect();
	rng.shuffle(&mut order);
	let mut earlier: Vec<S> = vec![];
	for (k, &i) in order.iter().enumerate() {
		let cls = classes[i].name.clone();
		// java/lang/String is never renamed: a String ConstantValue needs a field of exactly that type (JVMS 4.7.2),
		// renaming it would make the output ill-formed through no fault of the nester
		if cls == cps_str(STRING) { earlier.push(cls); continue; }
		if force.contains(&cls) {
			// a stub or a class named at a rare position: always nested, with an entry that applies
			let encl = if !earlier.is_empty() && rng.chance(1, 2) { rng.pick(&earlier[..]).clone() } else { cps_str("rich/Host") };
			t.push(if rng.chance(1, 4) { MNest { kind: ANON, class: cls.clone(), encl, meth: None, inner: cps_str(&format!("{}", k + 1)), access: 0 } } else { MNest { kind: INNER, class: cls.clone(), encl, meth: None, inner: cps_str(&format!("S{k}")), access: 0x0009 } });
		} else if rng.chance(2, 3) {
			// enclosing class: a class handled earlier (acyclic by construction) or one that is not in the jar (created)
			let encl = if !earlier.is_empty() && rng.chance(3, 4) { rng.pick(&earlier[..]).clone() } else { cps_str(*rng.pick(&["rich/Host", "Created", "corp/base/Missing$Host"][..])) };
			let encl_methods: Vec<(S, S)> = view.iter().rev().find(|(c, _)| c == &encl).map(|(_, ms)| ms.clone()).unwrap_or_default();
			let tail: S = match cls.iter().rposition(|&c| c == '$' as u32 || c == '/' as u32) { Some(p) => cls[p + 1..].to_vec(), None => cls.clone() };
			let n = match rng.below(6) {
				0 | 1 => MNest { kind: INNER, class: cls.clone(), encl, meth: None, inner: if rng.chance(1, 2) && ascii_kind(&tail) == INNER { tail } else { cps_str(&format!("In{k}")) }, access: *rng.pick(&[0x0009u16, 0x0001, 0x0608, 0x4018][..]) },
				2 => MNest { kind: ANON, class: cls.clone(), encl, meth: if !encl_methods.is_empty() && rng.chance(1, 2) { Some(rng.pick(&encl_methods[..]).clone()) } else { None }, inner: cps_str(&format!("{}", k + 1)), access: 0 },
				3 if !encl_methods.is_empty() => MNest { kind: LOCAL, class: cls.clone(), encl, meth: Some(rng.pick(&encl_methods[..]).clone()), inner: cps_str(&format!("{}Loc{k}", k + 1)), access: 0x0010 },
				// entries that do not satisfy the rule of their kind: the class must stay as it is
				4 if !encl_methods.is_empty() => MNest { kind: INNER, class: cls.clone(), encl, meth: Some(rng.pick(&encl_methods[..]).clone()), inner: cps_str("NotApplied"), access: 1 },
				4 => MNest { kind: ANON, class: cls.clone(), encl, meth: None, inner: cps_str("0"), access: 0 },
				_ => MNest { kind: INNER, class: cls.clone(), encl, meth: None, inner: cps_str(&format!("N{k}")), access: 0x0008 },
			};
			t.push(n);
		}
		earlier.push(cls);
	}
	if rng.chance(1, 3) { t.push(MNest { kind: INNER, class: cps_str("not/in/TheJar"), encl: classes[0].name.clone(), meth: None, inner: cps_str("TheJar"), access: 1 }); }
	rng.shuffle(&mut t);
	t
}

/// which of the reference-carrying structures a class has (input distribution for the evidence)
fn features(c: &ClassFacts) -> Vec<&'static str> {
	let mut v = vec![];
	let mut add = |b: bool, s: &'static str| if b && !v.contains(&s) { v.push(s); };
	add(c.signature.is_some() || c.fields.iter().any(|f| f.signature.is_some()) || c.methods.iter().any(|m| m.signature.is_some()), "Signature");
	add(!c.visible_annotations.is_empty() || !c.invisible_annotations.is_empty() || c.fields.iter().any(|f| !f.visible_annotations.is_empty() || !f.invisible_annotations.is_empty()) || c.methods.iter().any(|m| !m.visible_annotations.is_empty() || !m.invisible_annotations.is_empty()), "annotations");
	add(!c.visible_type_annotations.is_empty() || !c.invisible_type_annotations.is_empty() || c.methods.iter().any(|m| !m.visible_type_annotations.is_empty() || !m.invisible_type_annotations.is_empty()) || c.fields.iter().any(|f| !f.visible_type_annotations.is_empty() || !f.invisible_type_annotations.is_empty()), "type annotations");
	add(c.methods.iter().any(|m| m.annotation_default.is_some()), "AnnotationDefault");
	add(c.methods.iter().any(|m| m.exceptions.is_some()), "Exceptions");
	add(c.inner_classes.is_some(), "InnerClasses (pre-existing)");
	add(c.enclosing_method.is_some(), "EnclosingMethod (pre-existing)");
	add(c.nest_host.is_some(), "NestHost"); add(c.nest_members.is_some(), "NestMembers");
	add(c.permitted_subclasses.is_some(), "PermittedSubclasses"); add(c.record.is_some(), "Record");
	for m in &c.methods {
		let Some(code) = &m.code else { continue };
		add(!code.local_variables.is_empty(), "LocalVariableTable"); add(!code.local_variable_types.is_empty(), "LocalVariableTypeTable");
		add(code.frames.as_ref().map_or(false, |f| f.iter().any(|fr| match &fr.kind { FrameKindG::SameLocals1(t) => matches!(t, VTypeG::Object(_)), FrameKindG::Append(v) => v.iter().any(|t| matches!(t, VTypeG::Object(_))), FrameKindG::Full { locals, stack } => locals.iter().chain(stack.iter()).any(|t| matches!(t, VTypeG::Object(_))), _ => false })), "StackMapTable Object types");
		add(code.exception_table.iter().any(|e| e.catch_type.is_some()), "catch types");
		add(!code.visible_type_annotations.is_empty() || !code.invisible_type_annotations.is_empty(), "code type annotations");
		for i in &code.insns {
			match &i.arg {
				OperandG::InvokeDynamic(d) => { add(true, "invokedynamic"); add(!d.args.is_empty(), "bootstrap arguments"); }
				OperandG::MultiANewArray { .. } => add(true, "multianewarray"),
				OperandG::Const(Loadable::MethodHandle(_)) => add(true, "ldc MethodHandle"),
				OperandG::Const(Loadable::MethodType(_)) => add(true, "ldc MethodType"),
				OperandG::Const(Loadable::Dynamic(_)) => add(true, "ldc Dynamic"),
				OperandG::Const(Loadable::Class(_)) => add(true, "ldc Class"),
				_ => {}
			}
			if let OperandG::InvokeDynamic(d) = &i.arg { for a in &d.args { match a { Loadable::MethodHandle(_) => add(true, "bootstrap argument MethodHandle"), Loadable::MethodType(_) => add(true, "bootstrap argument MethodType"), _ => {} } } }
		}
	}
	v
}

fn names_in(s: &[u32], out: &mut Vec<S>) {
	if s.first() == Some(&('[' as u32)) || s.contains(&(';' as u32)) || s.first() == Some(&('(' as u32)) {
		let mut i = 0;
		while i < s.len() {
			if s[i] == 'L' as u32 { if let Some(p) = s[i + 1..].iter().position(|&c| c == ';' as u32) { out.push(s[i + 1..i + 1 + p].to_vec()); i += p + 2; continue; } }
			i += 1;
		}
	} else if s.len() > 1 { out.push(s.to_vec()); }
}
/// the classes named at the RARER kinds of reference positions (so that the table can be aimed at them)
fn rare_names(c: &ClassFacts) -> Vec<S> {
	let mut v: Vec<S> = vec![];
	fn element(e: &ElementValueFacts, v: &mut Vec<S>) {
		match e {
			ElementValueFacts::Enum { type_desc, .. } => names_in(&type_desc.code_points(), v),
			ElementValueFacts::Class(d) => names_in(&d.code_points(), v),
			ElementValueFacts::Annotation(a) => { names_in(&a.type_desc.code_points(), v); for (_, x) in &a.pairs { element(x, v); } }
			ElementValueFacts::Array(xs) => for x in xs { element(x, v); },
			_ => {}
		}
	}
	fn loadable(l: &Loadable, v: &mut Vec<S>) {
		match l {
			Loadable::MethodHandle(h) => { names_in(&h.owner.code_points(), v); names_in(&h.desc.code_points(), v); }
			Loadable::MethodType(d) => names_in(&d.code_points(), v),
			Loadable::Dynamic(d) => { names_in(&d.desc.code_points(), v); names_in(&d.bootstrap.owner.code_points(), v); for a in &d.args { loadable(a, v); } }
			_ => {}
		}
	}
	if let Some(h) = &c.nest_host { names_in(&h.code_points(), &mut v); }
	for n in c.nest_members.iter().flatten().chain(c.permitted_subclasses.iter().flatten()) { names_in(&n.code_points(), &mut v); }
	for rc in c.record.iter().flatten() { names_in(&rc.desc.code_points(), &mut v); }
	for m in &c.methods {
		if let Some(d) = &m.annotation_default { element(d, &mut v); }
		for e in m.exceptions.iter().flatten() { names_in(&e.code_points(), &mut v); }
		let Some(code) = &m.code else { continue };
		for e in &code.exception_table { if let Some(t) = &e.catch_type { names_in(&t.code_points(), &mut v); } }
		for fr in code.frames.iter().flatten() {
			let mut ty = |t: &VTypeG<usize>| if let VTypeG::Object(o) = t { names_in(&o.code_points(), &mut v); };
			match &fr.kind { FrameKindG::SameLocals1(t) => ty(t), FrameKindG::Append(ts) => ts.iter().for_each(&mut ty), FrameKindG::Full { locals, stack } => locals.iter().chain(stack.iter()).for_each(&mut ty), _ => {} }
		}
		for i in &code.insns {
			match &i.arg {
				OperandG::MultiANewArray { class, .. } => names_in(&class.code_points(), &mut v),
				OperandG::Const(l) => loadable(l, &mut v),
				OperandG::InvokeDynamic(d) => { names_in(&d.bootstrap.owner.code_points(), &mut v); for a in &d.args { loadable(a, &mut v); } }
				_ => {}
			}
		}
	}
	for a in c.visible_annotations.iter().chain(c.invisible_annotations.iter()) { for (_, x) in &a.pairs { element(x, &mut v); } }
	v.sort(); v.dedup();
	v
}

struct Verdict { stale_signatures: bool, masked: Vec<&'static str>, bad: Vec<String> }
fn judge(want_stale: &ClassFacts, want_full: &ClassFacts, got: &ClassFacts) -> Verdict {
	let mut v = Verdict { stale_signatures: false, masked: vec![], bad: vec![] };
	let (mut ws, mut wf, got) = (want_stale.with_defined_access_bits(), want_full.with_defined_access_bits(), got.with_defined_access_bits());
	// defects of duke's reader / writer that belong to C01 / C07 (known findings F13r/F18c, F13p/F01p), as narrow as there
	if wf.record.as_ref().map_or(false, |r| r.is_empty()) && got.record.is_none() { v.masked.push("empty Record attribute lost (F18c/F13r of C07/C01)"); ws.strip(FactGroup::Record); wf.strip(FactGroup::Record); }
	let has_pa = |c: &ClassFacts| c.methods.iter().any(|m| m.visible_parameter_annotations.is_some() || m.invisible_parameter_annotations.is_some());
	if has_pa(&wf) && !has_pa(&got) { v.masked.push("parameter annotations lost (F01p/F13p of C07/C01)"); ws.strip(FactGroup::ParameterAnnotations); wf.strip(FactGroup::ParameterAnnotations); }
	if got == wf { return v; }
	if wf != ws && got == ws { v.stale_signatures = true; return v; }
	// when the signatures are the stale ones (F21s), show the differences beside them
	let sigs = |c: &ClassFacts| { let mut c = c.clone(); let mut v: Vec<JStr> = vec![]; map_signatures(&mut c, &mut |s| v.push(s.clone())); v };
	if wf != ws && sigs(&got) == sigs(&ws) { v.stale_signatures = true; v.bad = ws.diff(&got); } else { v.bad = wf.diff(&got); }
	if v.bad.is_empty() { v.bad.push("facts differ (no printable difference)".into()); }
	v
}

fn replay(what: &str, remap: bool, classes: &[&Rich], order: &[String], t: &MTable, extra: &str) -> String {
	format!("property C14 (rich jar, remap={remap})\nwhat: {what}\njar entries in order: {}\nclasses: {}\nnests table (in IndexMap order):\n{}{extra}\nGallina: table = {}\n",
		order.join(", "), classes.iter().map(|c| format!("{} = {}", show(&c.name), c.origin)).collect::<Vec<_>>().join("; "), show_table(t), g_table(t))
}

pub fn run_rich(r: &mut Report, rng: &mut Rng, jars: usize) {
	// ---- the pool: corpus grouped by directory, and generated classes
	let mut groups: BTreeMap<String, Vec<Rich>> = BTreeMap::new();
	for (path, bytes) in corpus::corpus_classes() {
		let parts: Vec<&str> = path.split('/').collect();
		let root = if parts[0] == "sample" || (parts[0] == "crafted" && parts.len() > 2) { parts[..2.min(parts.len())].join("/") } else { parts[0].to_owned() };
		match rich_of(format!("corpus/classes/{path}"), bytes) { Some(c) => groups.entry(root).or_default().push(c), None => r.count("rich:corpus class not usable (independent parser rejects it or name not expressible)") }
	}
	let roots: Vec<String> = groups.iter().filter(|(_, v)| v.len() >= 2).map(|(k, _)| k.clone()).collect();
	if roots.is_empty() { r.notes.push("rich jars: corpus not found".into()); return; }
	let cfg = gen::GenCfg { exotic_strings: false, ..gen::GenCfg::default() };
	let mut renamed_ref_positions = 0u64;
	let mut pending_noted = false;
	for jar_no in 0..jars {
		// ---- the jar
		// jar 1 of every run is built around crafted/All (every loadable constant kind incl. CONSTANT_Dynamic, method handles of
		// every reference kind), jar 2 around crafted/Attrs
		let crafted = match jar_no { 1 => Some("crafted/All.class"), 2 => Some("crafted/Attrs.class"), _ => None }.filter(|_| groups.get("crafted").map_or(false, |g| g.len() >= 2));
		// jars 3, 5, 7 of every run (ten classes each, all thirty together): the vendored gen_class outputs (StackMapTable frames with every verification type,
		// method handles of every reference kind, attributes at every level)
		let vendored_gen = matches!(jar_no, 3 | 5 | 7) && groups.get("crafted/gen").map_or(false, |g| g.len() >= 2);
		let root = if crafted.is_some() { "crafted".to_string() } else if vendored_gen { "crafted/gen".to_string() } else if jar_no % 4 == 0 { rng.pick(&["r17", "r11", "r8"][..]).to_string() } else { rng.pick(&roots[..]).clone() };
		let Some(group) = groups.get(&root).filter(|g| g.len() >= 2) else { continue };
		// classes that refer to each other: start anywhere, then prefer classes that mention / are mentioned by a chosen one
		let first = crafted.and_then(|c| group.iter().position(|x| x.origin.ends_with(c))).unwrap_or_else(|| rng.below(group.len()));
		let mut idx: Vec<usize> = if vendored_gen { let k = (jar_no - 3) / 2 * 10; (0..10).map(|i| (k + i) % group.len()).collect() } else { vec![first] };
		while idx.len() < group.len().min(10) {
			let related: Vec<usize> = (0..group.len()).filter(|i| !idx.contains(i) && idx.iter().any(|&k| group[k].mentions.contains(&group[*i].name) || group[*i].mentions.contains(&group[k].name))).collect();
			let next = if !related.is_empty() && rng.chance(4, 5) { *rng.pick(&related[..]) } else { rng.below(group.len()) };
			if !idx.contains(&next) { idx.push(next); } else if related.is_empty() && idx.len() + 1 >= group.len() { break; }
		}
		let want_n = if vendored_gen { 10 } else { rng.range(2, 7) };
		let mut gens: Vec<Rich> = vec![];
		if jar_no % 2 == 0 {
			for g in 0..rng.range(1, 3) {
				let spec = gen::gen_class(rng, &cfg);
				if let Ok(bytes) = asm::try_assemble(&spec, &asm::Knobs::default()) { if let Some(c) = rich_of(format!("gen_class #{jar_no}.{g}"), bytes) { gens.push(c); } }
			}
		}
		let mut chosen: Vec<&Rich> = vec![];
		let mut names: HashSet<S> = HashSet::new();
		for c in idx.iter().map(|&i| &group[i]) {
			if chosen.len() >= want_n { break; }
			if names.contains(&c.name) { continue; }
			if !duke_reads(&c.bytes) { r.count("rich:class not read by duke (C01 findings), left out"); continue; }
			names.insert(c.name.clone()); chosen.push(c);
		}
		gens.retain(|c| duke_reads(&c.bytes) && names.insert(c.name.clone()));   // distinct names, also among themselves
		// STUBS: classes that the chosen classes mention but that are not in the jar (exception types of catch
		// clauses, annotation types, owners of bootstrap methods, types in frames / signatures / descriptors,
		// nest hosts …) are added as empty classes of that name and nested, so that references at every kind of
		// position name a class that IS renamed
		let mut absent: Vec<S> = chosen.iter().map(|c| *c).chain(gens.iter()).flat_map(|c| c.mentions.iter().cloned()).filter(|m| !names.contains(m) && !m.is_empty() && *m != cps_str(STRING) && m.iter().all(|&c| c > 32 && c != '[' as u32 && c != ';' as u32 && c != '.' as u32 && c < 0xD800) && !m.starts_with(&['/' as u32]) && !m.ends_with(&['/' as u32])).collect();
		absent.sort(); absent.dedup();
		rng.shuffle(&mut absent);
		let mut force: HashSet<S> = HashSet::new();
		// aim at the rarer kinds of positions: two of the names found there go first (a class of the jar among
		// them is nested for sure, an absent one gets a stub)
		let mut rare: Vec<S> = chosen.iter().map(|c| *c).chain(gens.iter()).flat_map(|c| rare_names(&c.facts)).collect();
		rare.sort(); rare.dedup(); rng.shuffle(&mut rare);
		for n in rare.into_iter().take(2) {
			if names.contains(&n) { force.insert(n); r.count("rich:jar_class_named_at_a_rare_position_nested"); }
			else if let Some(p) = absent.iter().position(|a| a == &n) { let x = absent.remove(p); absent.insert(0, x); }
		}
		for (k, name) in absent.into_iter().take(rng.range(2, 6)).enumerate() {
			let spec = JSpec { major: 52, access: 0x0021, name: name.clone(), super_class: Some(cps_str("java/lang/Object")), interfaces: vec![], fields: vec![], methods: vec![], inner: None, encl: None };
			if let Some(c) = rich_of(format!("stub #{k} for a class the jar mentions"), build(&spec)) { if duke_reads(&c.bytes) && names.insert(c.name.clone()) { force.insert(c.name.clone()); gens.push(c); r.count("rich:stub_class_for_a_mentioned_name"); } }
		}
		let classes: Vec<&Rich> = chosen.into_iter().chain(gens.iter()).collect();
		if classes.len() < 2 { continue; }
		let view: JarView = classes.iter().map(|c| (c.name.clone(), c.facts.methods.iter().map(|m| (m.name.code_points(), m.desc.code_points())).collect())).collect();
		let t = gen_table(rng, &classes, &view, &force);
		let remap = jar_no % 5 != 4;
		let rn = ref_nesting(&view, &t);
		let fix = index(&rn.applied);
		let renamed: HashSet<S> = if remap { rn.applied.iter().map(|n| n.class.clone()).collect() } else { HashSet::new() };
		let mut input: Vec<(String, InEntry)> = classes.iter().map(|c| (format!("{}.class", show(&c.name)), InEntry::Class(c.bytes.clone()))).collect();
		input.push(("META-INF/MANIFEST.MF".into(), InEntry::Other(b"Manifest-Version: 1.0\r\n".to_vec())));
		rng.shuffle(&mut input);
		let order: Vec<String> = input.iter().map(|(n, _)| n.clone()).collect();
		let nests = if jar_no % 3 == 1 { match super::read_nests(&text_of(&t)) { Ok(Some(n)) => n, _ => to_nests(&t) } } else { to_nests(&t) };
		{
			// two classes under one name (the renaming is not injective on this jar): outside the hypotheses
			let fx = |c: &S| if remap { ref_tr(&fix, c).expect("acyclic") } else { c.clone() };
			let mut seen: HashSet<S> = HashSet::new();
			if !classes.iter().map(|c| &c.name).chain(rn.created.iter()).all(|c| seen.insert(fx(c))) { r.count("rich:two_classes_one_name(hypothesis violated, not compared)"); continue; }
		}
		r.count("rich:jars");
		r.count(&format!("rich:jar_from_{}", root.split('/').next().unwrap_or("?")));
		r.eval_distinct(!rn.applied.is_empty());
		crumb(&replay("the harness process died while nest_jar worked on this jar of rich classes (no value, no error)", remap, &classes, &order, &t, ""));
		let out = match impl_nest_jar_raw(remap, input, nests) {
			Err(p) => { let what = format!("nest_jar panicked on a jar of rich classes: {p}"); r.violation(what.clone(), replay(&what, remap, &classes, &order, &t, "")); continue; }
			Ok(None) => { let what = "nest_jar returned Err on a jar of classes that duke reads, with an acyclic table".to_string(); r.violation(what.clone(), replay(&what, remap, &classes, &order, &t, "")); continue; }
			Ok(Some(o)) => o,
		};
		let outs: HashMap<&String, &OutEntry> = out.iter().map(|(n, e)| (n, e)).collect();
		let ask = NestAsk { ix: fix.clone() };
		let f = |c: &S| if remap { ref_tr(&fix, c).expect("acyclic") } else { c.clone() };
		let mut expected_names: HashSet<String> = HashSet::new();
		expected_names.insert("META-INF/MANIFEST.MF".into());
		let mut problems: Vec<String> = vec![];
		// ---- created classes: existence, name, own nest records
		for c in &rn.created {
			let name = format!("{}.class", show(&f(c)));
			expected_names.insert(name.clone());
			r.count("rich:created_enclosing_class");
			match outs.get(&name) {
				Some(OutEntry::Class(b)) => match raw::parse(b).and_then(|rc| facts_from_raw(&rc)) {
					Ok(got) => {
						let mut e = ClassFacts::new(52, 1, "created", Some("java/lang/Object")); e.name = j(c);
						e = with_nest_records(&e, fix.get(c).copied());
						let want = if remap { spec_remap(&mut Answers::new(&ask), &e) } else { Ok(e) };
						match want { Ok(w) => { if got.name != w.name || got.inner_classes != w.inner_classes || got.enclosing_method != w.enclosing_method { problems.push(format!("created class {name}: name / InnerClasses / EnclosingMethod = {} / {:?} / {:?}, expected {} / {:?} / {:?}", got.name, got.inner_classes, got.enclosing_method, w.name, w.inner_classes, w.enclosing_method)); } } Err(e) => problems.push(format!("harness: {e}")) }
					}
					Err(e) => problems.push(format!("created class {name} is rejected by the independent parser: {e}")),
				},
				_ => problems.push(format!("created enclosing class {name} is missing from the output")),
			}
		}
		// ---- input classes: every reference position
		for c in &classes {
			let nest = fix.get(&c.name).copied();
			let e = with_nest_records(&c.facts, nest);
			let want_stale = if remap { match spec_remap(&mut Answers::new(&ask), &e) { Ok(w) => w, Err(err) => { r.count(&format!("rich:class outside the specification ({err})")); expected_names.insert(format!("{}.class", show(&f(&c.name)))); continue; } } } else { e };
			let mut want_full = want_stale.clone();
			let mut suffixed: Vec<S> = vec![];
			map_signatures(&mut want_full, &mut |s| { if let Some(n) = rewrite_signature(&s.code_points(), &f, &mut suffixed) { *s = j(&n); } });
			let name = format!("{}.class", show(&f(&c.name)));
			expected_names.insert(name.clone());
			if nest.is_some() { r.count(match nest.unwrap().kind { ANON => "rich:nested_anonymous", INNER => "rich:nested_inner", _ => "rich:nested_local" }); if c.facts.enclosing_method.is_some() { r.count("rich:nested_class_had_an_EnclosingMethod"); } if c.facts.inner_classes.is_some() { r.count("rich:nested_class_had_InnerClasses"); } }
			let got = match outs.get(&name) {
				Some(OutEntry::Class(b)) => match raw::parse(b).and_then(|rc| facts_from_raw(&rc)) { Ok(g) => g, Err(e) => { problems.push(format!("output class {name} is rejected by the independent parser: {e}")); continue; } },
				_ => { problems.push(format!("class {} ({}): entry {name} is missing from the output (entries: {})", show(&c.name), c.origin, out.iter().map(|(n, _)| n.as_str()).collect::<Vec<_>>().join(", "))); continue; }
			};
			// how many reference positions of this class named a renamed class
			if remap { renamed_ref_positions += super::refspec::mentioned_classes(&c.facts).iter().filter(|m| renamed.contains(*m)).count() as u64; }
			let v = judge(&want_stale, &want_full, &got);
			for mk in &v.masked { r.count(&format!("rich:not_compared:{mk}")); }
			if v.stale_signatures || (v.bad.is_empty() && suffixed.iter().any(|s| renamed.contains(s))) {
				r.count("rich:class_with_stale_signature(F21s)");
				if finding_listed("F21s") { r.known(F21S.to_owned()); }
				else {
					r.count("pending_finding:F21s");
					if !pending_noted { pending_noted = true; r.notes.push(format!("PENDING FINDING (not yet in known_findings.json, counted instead of reported): {F21S}; first witness: class {} ({}) in a jar nested with\n{}", show(&c.name), c.origin, show_table(&t))); }
				}
			}
			if !v.bad.is_empty() {
				// a leftover old name anywhere is the sharpest way to say it
				let left: Vec<String> = super::refspec::mentioned_classes(&got).iter().filter(|m| renamed.contains(*m)).map(|m| show(m)).collect();
				problems.push(format!("class {} ({}) -> {name}: {}{}", show(&c.name), c.origin, v.bad.iter().take(6).cloned().collect::<Vec<_>>().join("; "), if left.is_empty() { String::new() } else { format!(" [references to renamed classes left in the output: {}]", left.join(", ")) }));
			} else { r.count("rich:class_compared_at_every_reference_position"); for ft in features(&c.facts) { r.count(&format!("rich:compared_class_with:{ft}")); } }
		}
		for (n, _) in &out { if !expected_names.contains(n) { problems.push(format!("unexpected entry {n:?} in the output")); } }
		if out.len() != expected_names.len() { problems.push(format!("{} entries in the output, {} expected", out.len(), expected_names.len())); }
		if !problems.is_empty() {
			let what = format!("nest_jar on rich classes: the output differs from the specification (every reference to a renamed class rewritten, InnerClasses / EnclosingMethod recorded, everything else untouched): {}", problems.iter().take(3).cloned().collect::<Vec<_>>().join(" | "));
			r.violation(what.clone(), replay(&what, remap, &classes, &order, &t, &format!("\nall differences:\n{}\n", problems.join("\n"))));
		}
	}
	r.count_n("rich:reference_positions_naming_a_renamed_class(distinct names per class)", renamed_ref_positions);
}
