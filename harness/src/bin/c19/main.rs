//! C19 — Maven dependency resolution: nearest-wins mediation, scope table, effective POMs,
//! coordinate printing/parsing.  Modules: `pomgen` (abstract POMs, XML, Gallina printers,
//! universe generator), `reference` (independent resolver written from Maven's documented rules),
//! `trees` (Forest::breadth_first_retain / breadth_first cases), `coords` (print/parse cases).
mod pomgen;
mod reference;
mod trees;
mod coords;
mod resolve;

use fbh::prng::Rng;
use fbh::report::Report;
use fbh::Ctx;

pub fn run(ctx: &Ctx) -> anyhow::Result<Report> {
	let mut r = Report::new("C19", "C19.Run");
	let mut rng = Rng::new(ctx.seed);
	r.rule = "POM universes: 2..6 libraries x 1..3 versions in rank order (a POM refers only to higher-ranked libraries, hence acyclic), \
jar/parent/BOM kinds, parents, import-scoped BOMs, managed versions/scopes/optional flags (own entries before imports), classifiers and types \
(incl. test-jar/javadoc default classifiers), optional flags, all 5 scopes on roots and dependencies, 1..3 repositories (with and without trailing slash) \
serving different artifacts (sometimes a decoy copy in another repository), timestamped snapshot versions, root lists of 0..4 coordinates with duplicates; \
served as XML through an in-memory Downloader to get_maven_dependencies and compared with an independent reference resolver (documented rules: \
inheritance, in-place BOM import, managed fill-in, optional/non-transitive cut, scope table, nearest-wins mediation by (depth, declaration) order). \
Every universe may carry edges that must be cut BEFORE resolution (optional or test/provided/system scope, declared or filled in from \
dependencyManagement / a parent / an imported BOM) pointing at artifacts with no document anywhere, a document only in a repository that is not among the resolvers, \
an undeserialisable document, a wrong modelVersion, a POM with a missing or non-pom parent or an unmanaged version-less dependency (stream cut-before-resolution: \
every cut x every target x two depths, plus followed-edge controls); the same artifact under two (type, classifier) pairs sharing or not sharing a file extension \
(stream type-pairs: all pairs of 16); stream mediation: plain POMs, 3..6 artifacts in 1..3 versions with dense dependencies and 2..4 roots naming other versions of \
artifacts deep inside other roots' trees, kept when a rival with a subtree is discarded; a third of the documents is rendered as realistic XML (XML declaration, xmlns/xsi attributes, comments, CRLF and indentation, \
padded and CDATA values, children in any order, relativePath, name/description/licenses/scm/properties/build-with-plugin-dependencies/repositories/modules, empty \
<dependencies/> and <dependencyManagement/> elements). Universes in which an imported BOM and an inherited managed entry disagree are classified, not judged. \
Separate streams violate each hypothesis (imports before managed entries, child re-declaring a parent's dependency, missing POMs/versions, \
non-pom parents, undeserialisable XML, cyclic universes under a download budget) and are compared with the model only; the cyclic streams run last, in a child process of the harness (a change that lets the crate recurse without downloading would otherwise kill the process together with the verdicts on the universes inside the quantifier). \
Exhaustive 5x5(+5 omitted) scope-table universes. \
Stream fill-in-matrix: every subset of {version, scope, optional} declared on a dependency x (no managed entry | an entry in the POM's own dependencyManagement, its parent's, or an imported BOM, \
fixing the version and every subset of {scope, optional}) x two value sets (+ a typed dependency whose classifier is the type's default on one side and explicit on the other), judged field by field \
(declared, else managed, else default) and by the reference resolver. Stream managed-twice: one artifact managed twice with different values (version / scope / optional / all; the first entry fixing fewer fields than the second) in every pair of sources of the effective management \
(own before parent's, own before an imported BOM's, first import before the second, parent's before grandparent's, a BOM's own before its parent's, a parent's own before the BOM it imports, nested imports), the dependency the POM's own or inherited: the first entry supplies all three fields as a whole. \
Stream loser-first: two or three versions of one artifact with different dependency sets / repositories / parents, the losing version reached first depth-first; two versions of one parent POM and of one BOM used by different dependencies. Stream repo-order: what the first and the second repository hold for one artifact (nothing / a usable POM / another usable POM / modelVersion 4.1.0 / broken XML) x where it is needed (root, dependency, parent, imported BOM): the first repository holding any document decides, an unusable document is an error and never falls through. Stream cyclic-fixed: dependency / parent / import cycles of length 1..3 (stopped by the download budget; compared with the model, which has no answer for any fuel) \
and cycles that close only through a cut edge (must resolve). Stream edge-cases: no repositories, no roots, duplicate roots, roots that are dependencies of other roots, serving repository last. \
Artifact names with non-ASCII and non-BMP letters, versions with empty build numbers, empty prefixes, full-width and Arabic-Indic digits in the snapshot time stamp, packagings outside the handler table. \
Every universe is written as a crumb before get_maven_dependencies is called (a crash, stack overflow or endless loop is reported with it). Forest::breadth_first_retain/breadth_first on random forests of integers with three stateful \
predicates; MavenCoord/FoundDependency/DependencyScope print/parse on generated (separator-free) and separator-laden strings; free texts of 0..7 pieces against the documented form \
`group:artifact[:type[:classifier]]:version`; FoundDependency::make_url (all handler-table types and others, time-stamped snapshot versions) against the repository layout; \
stream snapshot-version: the version directory (to_snapshot_version / base_version) cut out of make_url for versions assembled from prefix, hyphen, date, dot, time, hyphen, build number with each part \
also missing, too short, too long, spoiled by a non-digit (letters, separators, full-width / Arabic-Indic / Devanagari digits, blanks) or followed by a tail, judged by a matcher from the end of the text written from the repository layout; \
MavenCoord::from_group_artifact_version; Display/Debug of Tree and FormattedTree with both palettes, read back into the tree. \
A resolve case is non-trivial when the result has at least 2 dependencies; distinct by canonical text of the input.".into();

	resolve::scope_table_cases(&mut r)?;
	let n_resolve = if ctx.thorough { 8000 } else { 900 };
	resolve::generated_cases(&mut r, &mut rng.fork(1), n_resolve)?;
	resolve::documented_examples(&mut r)?;
	resolve::cut_cases(&mut r)?;
	resolve::type_pair_cases(&mut r)?;
	resolve::fill_in_cases(&mut r)?;
	resolve::managed_twice_cases(&mut r)?;
	resolve::loser_first_cases(&mut r)?;
	resolve::repo_order_cases(&mut r)?;
	resolve::edge_cases(&mut r)?;
	resolve::mediation_cases(&mut r, &mut rng.fork(4), if ctx.thorough { 3000 } else { 300 })?;
	r.notes.push(format!("stack of the harness thread: {} MiB (deep async recursion of the crate on cyclic universes, stopped by a download budget of 400)", STACK_MIB.load(std::sync::atomic::Ordering::SeqCst)));
	let n_tree = if ctx.thorough { 3000 } else { 500 };
	trees::cases(&mut r, &mut rng.fork(2), n_tree);
	let n_coord = if ctx.thorough { 4000 } else { 700 };
	coords::cases(&mut r, &mut rng.fork(3), n_coord);
	coords::snapshot_cases(&mut r, &mut rng.fork(6), if ctx.thorough { 6000 } else { 1200 });
	// the cyclic streams last, in a process of their own: whatever they do to that process, the streams above have been judged
	cyclic_in_child(ctx, &mut r, n_resolve / 20)?;
	// coqc spends far more time reading a resolve case than evaluating it: deal the cases round-robin
	// into shards of equal size (at least 16, at most ~400 cases each: a coqc process needs about 0.5 MB of
	// memory per case) so that the shards take equally long
	let n = r.cases.len();
	let shards = 16usize.max((n + 399) / 400);
	let mut dealt = Vec::with_capacity(n);
	for s in 0..shards { let mut i = s; while i < n { dealt.push(std::mem::take(&mut r.cases[i])); i += shards; } }
	r.cases = dealt;
	r.shard_size = (n + shards - 1) / shards;
	Ok(r)
}

/// The cyclic universes (streams cyclic-fixed and cyclic) are outside the property's quantifier, and the crate walks them with no
/// limiter of its own: normally every step downloads a document and the Downloader's budget ends the walk with an error.  A change
/// that lets the crate recurse WITHOUT downloading (a cache of POMs, say) turns that into a stack overflow which kills the process —
/// and with it every verdict on the universes INSIDE the quantifier.  So these streams run in a child process (this binary with
/// C19_CYCLIC_CHILD set) after everything else; the child hands back its cases and counts; if it dies, the universe it was working
/// on (its crumb) is reported as a violation that comes after the ones found inside the quantifier.
fn cyclic_in_child(ctx: &Ctx, r: &mut Report, n: usize) -> anyhow::Result<()> {
	use std::io::Read;
	let out_file = ctx.out.join("cyclic_child.json");
	let crumb_file = ctx.out.join("cyclic_child_input.txt");
	let _ = std::fs::remove_file(&out_file); let _ = std::fs::remove_file(&crumb_file);
	let mut child = std::process::Command::new(std::env::current_exe()?)
		.arg(ctx.seed.to_string()).arg(if ctx.thorough { "thorough" } else { "quick" }).arg(&ctx.out)
		.env("C19_CYCLIC_CHILD", n.to_string()).env("C19_CYCLIC_OUT", &out_file).env("FBH_CRUMB", &crumb_file)
		.stdout(std::process::Stdio::null()).spawn()?;
	let started = std::time::Instant::now();
	let limit = std::time::Duration::from_secs(if ctx.thorough { 900 } else { 300 });
	let status = loop {
		if let Some(st) = child.try_wait()? { break Some(st); }
		if started.elapsed() > limit { let _ = child.kill(); let _ = child.wait(); break None; }
		std::thread::sleep(std::time::Duration::from_millis(50));
	};
	let mut text = String::new();
	if let Ok(mut f) = std::fs::File::open(&out_file) { let _ = f.read_to_string(&mut text); }
	let parsed: Option<serde_json::Value> = serde_json::from_str(&text).ok();
	match (status.map_or(false, |s| s.success()), parsed) {
		(true, Some(j)) => {
			for st in j["streams"].as_array().cloned().unwrap_or_default() {
				let stream = st["stream"].as_str().unwrap_or("cyclic").to_string();
				for c in st["cases"].as_array().cloned().unwrap_or_default() { if let Some(c) = c.as_str() { r.case(&stream, c.to_string()); } }
				if let Some(d) = st["dist"].as_object() { for (k, v) in d { if !k.starts_with("stream:") { r.count_n(k, v.as_u64().unwrap_or(0)); } } }
				let ev = st["evaluations"].as_u64().unwrap_or(0);
				r.evaluations += ev; r.enumerated += ev; r.nontrivial += st["nontrivial"].as_u64().unwrap_or(0);
				for v in st["violations"].as_array().cloned().unwrap_or_default() { r.violation(v["what"].as_str().unwrap_or("").to_string(), v["replay"].as_str().unwrap_or("").to_string()); }
				for n in st["notes"].as_array().cloned().unwrap_or_default() { if let Some(n) = n.as_str() { if !r.notes.iter().any(|x| x == n) { r.notes.push(n.to_string()); } } }
			}
			r.count("cyclic_child_process_ok");
		}
		(_, _) => {
			let crumb = std::fs::read_to_string(&crumb_file).unwrap_or_default();
			let how = match status { None => "did not finish within its time limit and was killed".to_string(), Some(s) => format!("ended with {s}") };
			r.count("cyclic_child_process_died");
			r.violation(format!("the child process running the CYCLIC universes {how} (crash, stack overflow, abort or endless loop in get_maven_dependencies; cyclic universes are outside the property's quantifier — the verdicts on the universes inside it are the violations listed before this one, if any)"),
				if crumb.trim().is_empty() { "property C19 (cyclic streams, child process): no input recorded\n".to_string() } else { crumb });
		}
	}
	let _ = std::fs::remove_file(&out_file); let _ = std::fs::remove_file(&crumb_file);
	Ok(())
}

/// the child's side: the two cyclic streams, each into a report of its own, handed back as JSON
fn cyclic_child_main() -> anyhow::Result<()> {
	let args: Vec<String> = std::env::args().collect();
	let seed: u64 = args.get(1).map_or(Ok(1), |x| x.parse())?;
	let n: usize = std::env::var("C19_CYCLIC_CHILD").ok().and_then(|x| x.parse().ok()).unwrap_or(0);
	std::panic::set_hook(Box::new(|_| {}));
	let mut streams = vec![];
	for which in 0..2 {
		let mut r = Report::new("C19", "C19.Run");
		if which == 0 { resolve::cyclic_cases(&mut r)?; } else { resolve::cyclic_generated_cases(&mut r, &mut Rng::new(seed).fork(5), n)?; }
		streams.push(serde_json::json!({ "stream": if which == 0 { "cyclic-fixed" } else { "cyclic" }, "cases": r.cases, "dist": r.dist, "evaluations": r.evaluations, "nontrivial": r.nontrivial,
			"violations": r.violations.iter().map(|v| serde_json::json!({ "what": v.what, "replay": v.replay })).collect::<Vec<_>>(), "notes": r.notes }));
	}
	if let Some(p) = std::env::var_os("C19_CYCLIC_OUT") { std::fs::write(p, serde_json::to_string(&serde_json::json!({ "streams": streams }))?)?; }
	Ok(())
}

static STACK_MIB: std::sync::atomic::AtomicUsize = std::sync::atomic::AtomicUsize::new(0);

fn main() -> anyhow::Result<()> {
	// deep async recursion on cyclic universes (stopped by the download budget) needs stack; a machine that cannot
	// reserve the large stack gets a smaller one (recorded in the evidence) instead of a harness error
	for mib in [1024usize, 512, 256, 128] {
		STACK_MIB.store(mib, std::sync::atomic::Ordering::SeqCst);
		let child = std::env::var_os("C19_CYCLIC_CHILD").is_some();
		match std::thread::Builder::new().stack_size(mib << 20).spawn(move || if child { cyclic_child_main() } else { fbh::main_with(run) }) {
			Ok(h) => return match h.join() { Ok(x) => x, Err(_) => anyhow::bail!("harness thread panicked") },
			Err(_) => continue,
		}
	}
	STACK_MIB.store(0, std::sync::atomic::Ordering::SeqCst);
	if std::env::var_os("C19_CYCLIC_CHILD").is_some() { cyclic_child_main() } else { fbh::main_with(run) }
}
