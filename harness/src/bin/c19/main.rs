//! C19 — Maven dependency resolution: nearest-wins mediation, scope table, effective POMs,
//! coordinate printing/parsing.  Modules: `pomgen` (abstract POMs, XML, Gallina printers,
//! universe generator), `reference` (independent resolver written from Maven's documented rules),
//! `trees` (Forest::breadth_first_retain / breadth_first cases), `coords` (print/parse cases).
mod pomgen;
mod reference;
mod trees;
mod coords;
mod resolve;

use fbh::prng::Rng;
use fbh::report::Report;
use fbh::Ctx;

pub fn run(ctx: &Ctx) -> anyhow::Result<Report> {
	let mut r = Report::new("C19", "C19.Run");
	let mut rng = Rng::new(ctx.seed);
	r.rule = "POM universes: 2..6 libraries x 1..3 versions in rank order (a POM refers only to higher-ranked libraries, hence acyclic), \
jar/parent/BOM kinds, parents, import-scoped BOMs, managed versions/scopes/optional flags (own entries before imports), classifiers and types \
(incl. test-jar/javadoc default classifiers), optional flags, all 5 scopes on roots and dependencies, 1..3 repositories (with and without trailing slash) \
serving different artifacts (sometimes a decoy copy in another repository), timestamped snapshot versions, root lists of 0..4 coordinates with duplicates; \
served as XML through an in-memory Downloader to get_maven_dependencies and compared with an independent reference resolver (documented rules: \
inheritance, in-place BOM import, managed fill-in, optional/non-transitive cut, scope table, nearest-wins mediation by (depth, declaration) order). \
Every universe may carry edges that must be cut BEFORE resolution (optional or test/provided/system scope, declared or filled in from \
dependencyManagement / a parent / an imported BOM) pointing at artifacts with no document anywhere, a document only in a repository that is not among the resolvers, \
an undeserialisable document, a wrong modelVersion, a POM with a missing or non-pom parent or an unmanaged version-less dependency (stream cut-before-resolution: \
every cut x every target x two depths, plus followed-edge controls); the same artifact under two (type, classifier) pairs sharing or not sharing a file extension \
(stream type-pairs: all pairs of 16); stream mediation: plain POMs, 3..6 artifacts in 1..3 versions with dense dependencies and 2..4 roots naming other versions of \
artifacts deep inside other roots' trees, kept when a rival with a subtree is discarded; a third of the documents is rendered as realistic XML (XML declaration, xmlns/xsi attributes, comments, CRLF and indentation, \
padded and CDATA values, children in any order, relativePath, name/description/licenses/scm/properties/build-with-plugin-dependencies/repositories/modules, empty \
<dependencies/> and <dependencyManagement/> elements). Universes in which an imported BOM and an inherited managed entry disagree are classified, not judged. \
Separate streams violate each hypothesis (imports before managed entries, child re-declaring a parent's dependency, missing POMs/versions, \
non-pom parents, undeserialisable XML, cyclic universes under a download budget) and are compared with the model only. \
Exhaustive 5x5(+5 omitted) scope-table universes. \
Stream fill-in-matrix: every subset of {version, scope, optional} declared on a dependency x (no managed entry | an entry in the POM's own dependencyManagement, its parent's, or an imported BOM, \
fixing the version and every subset of {scope, optional}) x two value sets (+ a typed dependency whose classifier is the type's default on one side and explicit on the other), judged field by field \
(declared, else managed, else default) and by the reference resolver. Stream cyclic-fixed: dependency / parent / import cycles of length 1..3 (stopped by the download budget; compared with the model, which has no answer for any fuel) \
and cycles that close only through a cut edge (must resolve). Stream edge-cases: no repositories, no roots, duplicate roots, roots that are dependencies of other roots, serving repository last. \
Artifact names with non-ASCII and non-BMP letters, versions with empty build numbers, empty prefixes, full-width and Arabic-Indic digits in the snapshot time stamp, packagings outside the handler table. \
Every universe is written as a crumb before get_maven_dependencies is called (a crash, stack overflow or endless loop is reported with it). Forest::breadth_first_retain/breadth_first on random forests of integers with three stateful \
predicates; MavenCoord/FoundDependency/DependencyScope print/parse on generated (separator-free) and separator-laden strings; free texts of 0..7 pieces against the documented form \
`group:artifact[:type[:classifier]]:version`; FoundDependency::make_url (all handler-table types and others, time-stamped snapshot versions) against the repository layout; \
MavenCoord::from_group_artifact_version; Display/Debug of Tree and FormattedTree with both palettes, read back into the tree. \
A resolve case is non-trivial when the result has at least 2 dependencies; distinct by canonical text of the input.".into();

	resolve::scope_table_cases(&mut r)?;
	let n_resolve = if ctx.thorough { 8000 } else { 900 };
	resolve::generated_cases(&mut r, &mut rng.fork(1), n_resolve)?;
	resolve::documented_examples(&mut r)?;
	resolve::cut_cases(&mut r)?;
	resolve::type_pair_cases(&mut r)?;
	resolve::fill_in_cases(&mut r)?;
	resolve::cyclic_cases(&mut r)?;
	resolve::edge_cases(&mut r)?;
	resolve::mediation_cases(&mut r, &mut rng.fork(4), if ctx.thorough { 3000 } else { 300 })?;
	r.notes.push(format!("stack of the harness thread: {} MiB (deep async recursion of the crate on cyclic universes, stopped by a download budget of 400)", STACK_MIB.load(std::sync::atomic::Ordering::SeqCst)));
	let n_tree = if ctx.thorough { 3000 } else { 500 };
	trees::cases(&mut r, &mut rng.fork(2), n_tree);
	let n_coord = if ctx.thorough { 4000 } else { 700 };
	coords::cases(&mut r, &mut rng.fork(3), n_coord);
	// coqc spends far more time reading a resolve case than evaluating it: deal the cases round-robin
	// into shards of equal size (at least 16, at most ~400 cases each: a coqc process needs about 0.5 MB of
	// memory per case) so that the shards take equally long
	let n = r.cases.len();
	let shards = 16usize.max((n + 399) / 400);
	let mut dealt = Vec::with_capacity(n);
	for s in 0..shards { let mut i = s; while i < n { dealt.push(std::mem::take(&mut r.cases[i])); i += shards; } }
	r.cases = dealt;
	r.shard_size = (n + shards - 1) / shards;
	Ok(r)
}

static STACK_MIB: std::sync::atomic::AtomicUsize = std::sync::atomic::AtomicUsize::new(0);

fn main() -> anyhow::Result<()> {
	// deep async recursion on cyclic universes (stopped by the download budget) needs stack; a machine that cannot
	// reserve the large stack gets a smaller one (recorded in the evidence) instead of a harness error
	for mib in [1024usize, 512, 256, 128] {
		STACK_MIB.store(mib, std::sync::atomic::Ordering::SeqCst);
		match std::thread::Builder::new().stack_size(mib << 20).spawn(|| fbh::main_with(run)) {
			Ok(h) => return match h.join() { Ok(x) => x, Err(_) => anyhow::bail!("harness thread panicked") },
			Err(_) => continue,
		}
	}
	STACK_MIB.store(0, std::sync::atomic::Ordering::SeqCst);
	fbh::main_with(run)
}
