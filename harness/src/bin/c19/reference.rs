//! An independent resolver written from Maven's documentation
//! (Introduction to the POM: inheritance; Introduction to the Dependency Mechanism: transitive
//! dependencies, mediation, scope table, dependency management, importing dependencies).
//! It shares no code with the crate: POMs are looked up by coordinate per repository, the
//! effective POM is computed recursively, and mediation is a single pass over all nodes of the
//! dependency graph sorted by (depth, declaration path).
use std::collections::{HashMap, HashSet};
use crate::pomgen::*;

#[derive(Clone, Debug, PartialEq)]
pub struct RDone { pub coord: ACoord, pub scope: Option<u8>, pub optional: Option<bool> }
#[derive(Clone, Debug)]
pub struct REff { pub group: String, pub version: String, pub packaging: String, pub dm: Vec<RDone>, pub declared: Vec<ADep>, pub deps: Vec<RDone>,
	/// for the `parent_before_import` reading: the declared (non-import) managed entries along the parent chain, child
	/// first, and the import entries along the chain (own ones first), still unexpanded
	pub dm_declared: Vec<RDone>, pub dm_imports: Vec<(String, String, String)> }
#[derive(Clone, Debug)]
pub struct RNode { pub repo: usize, pub coord: ACoord, pub scope: u8, pub children: Vec<RNode> }
#[derive(Clone, Debug, PartialEq)]
pub struct RFound { pub repo: usize, pub coord: ACoord, pub scope: u8 }

/// The documented table (rows: scope of the dependency, columns: scope of ITS dependency; `None` = omitted).
/// The documentation lists compile/provided/runtime/test; `system` is "similar to provided": never
/// transitive as a column, and as a row it keeps the row's scope like provided does.
pub fn doc_scope_table(left: u8, top: u8) -> Option<u8> {
	const C: u8 = 0; const R: u8 = 1; const T: u8 = 2; const S: u8 = 3; const P: u8 = 4;
	let row = |l: u8| -> [Option<u8>; 4] { // columns compile, provided, runtime, test
		match l {
			C => [Some(C), None, Some(R), None],
			P => [Some(P), None, Some(P), None],
			R => [Some(R), None, Some(R), None],
			T => [Some(T), None, Some(T), None],
			_ => [Some(S), None, Some(S), None],
		}
	};
	match top { C => row(left)[0], P | S => row(left)[1], R => row(left)[2], _ => row(left)[3] }
}

pub fn default_classifier(type_: &str) -> Option<&'static str> {
	// Maven's default artifact handlers table
	match type_ { "test-jar" => Some("tests"), "ejb-client" => Some("client"), "java-source" => Some("sources"), "javadoc" => Some("javadoc"), _ => None }
}

pub struct Ref<'u> { pub u: &'u Universe, memo: HashMap<(String, String, String), Result<(usize, REff), ()>>, pub depth_limit: usize,
	/// How an imported BOM ranks against managed entries INHERITED from a parent.  The documentation
	/// (Introduction to the Dependency Mechanism) says the importing POM looks as if the BOM's entries were written
	/// in it, own entries win over imported ones, the first import wins, and a child's declaration wins over its
	/// parent's; it does not say how an import ranks against the parent's entries.  `false`: the import is expanded in
	/// place, inherited entries follow (what the crate does).  `true`: what Maven's model builder does — inheritance
	/// is assembled first (import entries are inherited like any other managed entry), and the importer only adds
	/// keys that are still unmanaged, so every declared entry of the whole parent chain beats every import.
	pub parent_before_import: bool }

impl<'u> Ref<'u> {
	pub fn new(u: &'u Universe) -> Self { Ref { u, memo: HashMap::new(), depth_limit: 64, parent_before_import: false } }

	/// the first repository, in the given order, that has a document for the coordinate
	pub fn lookup(&self, g: &str, a: &str, v: &str) -> Result<(usize, &'u APom), ()> {
		for (i, r) in self.u.repos.iter().enumerate() {
			if let Some((_, e)) = r.files.iter().find(|((g2, a2, v2), _)| g2 == g && a2 == a && v2 == v) {
				return match e { Entry::Pom(p) if p.model_version == "4.0.0" => Ok((i, p)), _ => Err(()) };
			}
		}
		Err(())
	}

	pub fn complete(dm: &[RDone], d: &ADep) -> Result<RDone, ()> {
		let type_ = d.type_.clone().unwrap_or_else(|| "jar".to_string());
		let classifier = d.classifier.clone().or_else(|| default_classifier(&type_).map(|x| x.to_string()));
		let managed = dm.iter().find(|m| m.coord.group == d.group && m.coord.artifact == d.artifact && m.coord.classifier == classifier && m.coord.type_ == type_);
		let version = match (&d.version, managed) { (Some(v), _) => v.clone(), (None, Some(m)) => m.coord.version.clone(), (None, None) => return Err(()) };
		Ok(RDone {
			coord: ACoord { group: d.group.clone(), artifact: d.artifact.clone(), version, classifier, type_ },
			scope: d.scope.or(managed.and_then(|m| m.scope)),
			optional: d.optional.or(managed.and_then(|m| m.optional)),
		})
	}

	/// effective POM: inheritance from the parent, BOM imports replaced in place, managed fill-in
	pub fn effective(&mut self, g: &str, a: &str, v: &str, depth: usize) -> Result<(usize, REff), ()> {
		if depth > self.depth_limit { return Err(()); }
		let key = (g.to_string(), a.to_string(), v.to_string());
		if let Some(x) = self.memo.get(&key) { return x.clone(); }
		let res = self.effective_uncached(g, a, v, depth);
		self.memo.insert(key, res.clone());
		res
	}
	fn effective_uncached(&mut self, g: &str, a: &str, v: &str, depth: usize) -> Result<(usize, REff), ()> {
		let (repo, pom) = self.lookup(g, a, v)?;
		let parent = match &pom.parent {
			None => None,
			Some((pg, pa, pv)) => {
				let (_, pe) = self.effective(pg, pa, pv, depth + 1)?;
				if pe.packaging != "pom" { return Err(()); }
				Some(pe)
			}
		};
		let group = pom.group.clone().or(parent.as_ref().map(|p| p.group.clone())).ok_or(())?;
		let version = pom.version.clone().or(parent.as_ref().map(|p| p.version.clone())).ok_or(())?;
		let packaging = pom.packaging.clone().unwrap_or_else(|| "jar".to_string());
		let mut dm = vec![];
		let mut dm_declared = vec![];
		let mut dm_imports = vec![];
		for e in &pom.dm {
			let ev = e.version.clone().ok_or(())?;
			if e.scope == Some(IMPORT) {
				dm_imports.push((e.group.clone(), e.artifact.clone(), ev.clone()));
				if !self.parent_before_import {
					let (_, te) = self.effective(&e.group, &e.artifact, &ev, depth + 1)?;
					dm.extend(te.dm);
				}
			} else {
				let type_ = e.type_.clone().unwrap_or_else(|| "jar".to_string());
				let classifier = e.classifier.clone().or_else(|| default_classifier(&type_).map(|x| x.to_string()));
				let done = RDone { coord: ACoord { group: e.group.clone(), artifact: e.artifact.clone(), version: ev, classifier, type_ }, scope: e.scope, optional: e.optional };
				dm_declared.push(done.clone());
				if !self.parent_before_import { dm.push(done); }
			}
		}
		let mut declared = pom.deps.clone();
		if let Some(p) = &parent {
			if !self.parent_before_import { dm.extend(p.dm.clone()); }
			declared.extend(p.declared.clone());
			dm_declared.extend(p.dm_declared.clone()); dm_imports.extend(p.dm_imports.clone());
		}
		if self.parent_before_import {
			dm = dm_declared.clone();
			for (g, a, v) in dm_imports.clone() { let (_, te) = self.effective(&g, &a, &v, depth + 1)?; dm.extend(te.dm); }
		}
		let deps = declared.iter().map(|d| Self::complete(&dm, d)).collect::<Result<Vec<_>, ()>>()?;
		Ok((repo, REff { group, version, packaging, dm, declared, deps, dm_declared, dm_imports }))
	}

	pub fn tree(&mut self, c: &ACoord, scope: u8, depth: usize, count: &mut usize, limit: usize) -> Result<RNode, ()> {
		if depth > self.depth_limit { return Err(()); }
		*count += 1;
		if *count > limit { return Err(()); }
		let (repo, eff) = self.effective(&c.group, &c.artifact, &c.version, 0)?;
		let mut children = vec![];
		for d in &eff.deps {
			if d.optional == Some(true) { continue; }
			if let Some(s) = doc_scope_table(scope, d.scope.unwrap_or(0)) { children.push(self.tree(&d.coord, s, depth + 1, count, limit)?); }
		}
		Ok(RNode { repo, coord: c.clone(), scope, children })
	}
}

pub fn collision_id(c: &ACoord) -> (String, String, Option<String>, String) { (c.group.clone(), c.artifact.clone(), c.classifier.clone(), c.type_.clone()) }

/// nearest wins, declaration order breaks ties, the rivals' subtrees do not take part
pub fn mediate(forest: &[RNode]) -> Vec<RFound> {
	fn collect<'a>(n: &'a RNode, path: Vec<usize>, out: &mut Vec<(usize, Vec<usize>, &'a RNode)>) {
		out.push((path.len(), path.clone(), n));
		for (i, c) in n.children.iter().enumerate() { let mut p = path.clone(); p.push(i); collect(c, p, out); }
	}
	let mut all = vec![];
	for (i, t) in forest.iter().enumerate() { collect(t, vec![i], &mut all); }
	all.sort_by(|a, b| (a.0, &a.1).cmp(&(b.0, &b.1)));
	let mut kept: HashSet<Vec<usize>> = HashSet::new();
	let mut seen = HashSet::new();
	let mut out = vec![];
	for (depth, path, n) in all {
		if depth > 1 && !kept.contains(&path[..path.len() - 1].to_vec()) { continue; }
		if seen.insert(collision_id(&n.coord)) {
			kept.insert(path);
			out.push(RFound { repo: n.repo, coord: n.coord.clone(), scope: n.scope });
		}
	}
	out
}

#[derive(Default, Clone, Copy, Debug)]
pub struct Stats { pub conflict_equal_depth: bool, pub conflict_different_depth: bool, pub diamond: bool, pub pruned_subtree: bool }

/// what kinds of collisions the unmediated graph contains (for the evidence: generator distribution)
pub fn stats(forest: &[RNode]) -> Stats {
	fn collect<'a>(n: &'a RNode, depth: usize, out: &mut Vec<(usize, &'a RNode)>) { out.push((depth, n)); for c in &n.children { collect(c, depth + 1, out); } }
	let mut all = vec![];
	for t in forest { collect(t, 1, &mut all); }
	let mut st = Stats::default();
	for (i, (d1, a)) in all.iter().enumerate() {
		for (d2, b) in all.iter().skip(i + 1) {
			if collision_id(&a.coord) != collision_id(&b.coord) { continue; }
			if a.coord.version == b.coord.version { st.diamond = true; }
			else if d1 == d2 { st.conflict_equal_depth = true; } else { st.conflict_different_depth = true; }
			if !a.children.is_empty() || !b.children.is_empty() { st.pruned_subtree = true; }
		}
	}
	st
}

/// the whole documented resolution; `Err(())` when a needed POM is missing/unusable; `None` in `size` when too big
pub fn resolve(u: &Universe, limit: usize) -> (Result<Vec<RFound>, ()>, usize) { let (a, b, _) = resolve_stats(u, limit, false); (a, b) }
pub fn resolve_stats(u: &Universe, limit: usize, parent_before_import: bool) -> (Result<Vec<RFound>, ()>, usize, Stats) {
	let mut r = Ref::new(u);
	r.parent_before_import = parent_before_import;
	let mut count = 0usize;
	let mut forest = vec![];
	for (c, s) in &u.roots {
		match r.tree(c, *s, 0, &mut count, limit) { Ok(t) => forest.push(t), Err(()) => return (Err(()), count, Stats::default()) }
	}
	(Ok(mediate(&forest)), count, stats(&forest))
}
