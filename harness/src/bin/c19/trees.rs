//! Forest::breadth_first_retain / breadth_first / into_breadth_first on random forests of integers.
use fbh::gal::*;
use fbh::prng::Rng;
use fbh::report::{guarded, Report};
use maven_dependency_resolver::tree::helper::{l, t};
use maven_dependency_resolver::tree::{Forest, Palette, Tree};

fn gen_tree(rng: &mut Rng, depth: usize, budget: &mut usize, vals: usize) -> Tree<u64> {
	let data = rng.below(vals) as u64;
	let mut children = vec![];
	if depth > 0 {
		let k = match rng.below(6) { 0 | 1 => 0, 2 | 3 => 1, 4 => 2, _ => rng.range(3, 4) };
		for _ in 0..k { if *budget == 0 { break; } *budget -= 1; children.push(gen_tree(rng, depth - 1, budget, vals)); }
	}
	if children.is_empty() && rng.chance(1, 2) { l(data) } else if rng.chance(1, 2) { t(data, children) } else { Tree { data, children } }
}
pub fn gen_forest(rng: &mut Rng) -> Vec<Tree<u64>> {
	let mut budget = rng.range(0, 40);
	let vals = *rng.pick(&[2usize, 3, 5, 8, 30]);
	let depth = rng.range(0, 5);
	let roots = rng.range(0, 4);
	let mut f = vec![];
	for _ in 0..roots { if budget == 0 { break; } budget -= 1; f.push(gen_tree(rng, depth, &mut budget, vals)); }
	f
}
pub fn g_tree(t: &Tree<u64>) -> String { format!("Node {} {}", t.data, glist(t.children.iter().map(|c| format!("({})", g_tree(c))))) }
pub fn g_forest(f: &[Tree<u64>]) -> String { glist(f.iter().map(g_tree)) }
fn size(f: &[Tree<u64>]) -> usize { f.iter().map(|t| 1 + size(&t.children)).sum() }

/// reads a printed tree back: every line is <indentation of `width` columns per level><number>; a node's parent is the
/// nearest earlier line with one level less
fn reread(text: &str, width: usize) -> Option<Tree<u64>> {
	// stack[k] = the node at level k that is still open
	let mut stack: Vec<Tree<u64>> = vec![];
	fn close(stack: &mut Vec<Tree<u64>>, level: usize) { while stack.len() > level { let c = stack.pop().unwrap(); stack.last_mut().unwrap().children.push(c); } }
	for (n, line) in text.lines().enumerate() {
		let chars: Vec<char> = line.chars().collect();
		let digits = chars.iter().rev().take_while(|c| c.is_ascii_digit()).count();
		let indent = chars.len() - digits;
		if digits == 0 || indent % width != 0 { return None; }
		let level = indent / width;
		if (n == 0) != (level == 0) || level > stack.len() { return None; }
		if n > 0 { close(&mut stack, level); }
		let data = chars[indent..].iter().collect::<String>().parse().ok()?;
		stack.push(Tree { data, children: vec![] });
	}
	if stack.is_empty() { return None; }
	close(&mut stack, 1);
	stack.pop()
}

/// the property on the implementation alone: what the documentation of breadth_first_retain promises for a
/// first-seen predicate, computed by a plain level-by-level pass
fn oracle_first_seen(f: &[Tree<u64>], k: u64) -> Vec<Tree<u64>> {
	// decide per path, in (depth, declaration) order
	let mut level: Vec<(Vec<usize>, &Tree<u64>)> = f.iter().enumerate().map(|(i, t)| (vec![i], t)).collect();
	let mut seen = std::collections::HashSet::new();
	let mut kept = std::collections::HashSet::new();
	while !level.is_empty() {
		let mut next = vec![];
		for (p, t) in &level {
			if seen.insert(t.data % k) {
				kept.insert(p.clone());
				for (i, c) in t.children.iter().enumerate() { let mut q = p.clone(); q.push(i); next.push((q, c)); }
			}
		}
		level = next;
	}
	fn rebuild(ts: &[Tree<u64>], p: &[usize], kept: &std::collections::HashSet<Vec<usize>>) -> Vec<Tree<u64>> {
		ts.iter().enumerate().filter_map(|(i, t)| {
			let mut q = p.to_vec(); q.push(i);
			if kept.contains(&q) { Some(Tree { data: t.data, children: rebuild(&t.children, &q, kept) }) } else { None }
		}).collect()
	}
	rebuild(f, &[], &kept)
}

pub fn cases(r: &mut Report, rng: &mut Rng, n: usize) {
	for i in 0..n {
		let f = gen_forest(rng);
		let canon = g_forest(&f);
		// the queue loops of tree.rs run on this forest next: should one of them never end, `check` reports the forest
		fbh::report::crumb(&format!("property C19 (Forest::breadth_first / breadth_first_retain / Display did not return)\nforest: {canon}\n"));
		r.eval(&format!("forest {canon}"), size(&f) >= 3);
		r.count(&format!("forest_size_{}", match size(&f) { 0 => "0", 1..=3 => "1-3", 4..=10 => "4-10", 11..=25 => "11-25", _ => "26+" }));
		// breadth-first listing, by value and by reference
		let f1 = f.clone();
		match guarded(move || Forest::into_breadth_first(f1).collect::<Vec<u64>>()) {
			Ok(l) => {
				let by_ref: Vec<u64> = Forest::breadth_first(&f).cloned().collect();
				if by_ref != l { r.violation("Forest::breadth_first and Forest::into_breadth_first disagree".into(), format!("property C19\nforest: {canon}\n")); }
				let per_tree: Vec<u64> = f.iter().flat_map(|t| t.breadth_first().cloned().collect::<Vec<_>>()).collect();
				let mut a = per_tree.clone(); a.sort(); let mut b = l.clone(); b.sort();
				if a != b { r.violation("breadth_first does not list every node exactly once".into(), format!("property C19\nforest: {canon}\n")); }
				r.case("bfs", format!("CBfs {canon} {}", gnums(l)));
				// a single tree: Tree::into_breadth_first and Tree::breadth_first
				if let Some(first) = f.first() {
					let one = first.clone().into_breadth_first().collect::<Vec<u64>>();
					if one != first.breadth_first().cloned().collect::<Vec<u64>>() { r.violation("Tree::breadth_first and Tree::into_breadth_first disagree".into(), format!("property C19\ntree: {}\n", g_tree(first))); }
					if i % 4 == 0 { r.case("bfs", format!("CBfs [{}] {}", g_tree(first), gnums(one))); }
				}
			}
			Err(p) => r.violation(format!("Forest::into_breadth_first panicked: {p}"), format!("property C19\nforest: {canon}\n")),
		}
		// the printed tree: Display and Debug of Tree, FormattedTree with both palettes.  Judged on the implementation alone by
		// reading the text back: the indentation (4 resp. 3 columns per level) and the order of the lines give the tree again
		if i % 3 == 0 { if let Some(first) = f.first() {
			let texts = [format!("{first}"), format!("{first:?}"), format!("{}", first.format_with(|x| *x)), format!("{}", first.format_with(|x| *x).with_palette(Palette::ASCII))];
			if texts[0] != texts[1] || texts[0] != texts[2] { r.violation("Display, Debug and format_with of one tree of integers differ".into(), format!("property C19\ntree: {}\n{texts:?}\n", g_tree(first))); }
			for (k, (text, width)) in [(&texts[0], 4usize), (&texts[3], 3usize)].into_iter().enumerate() {
				if reread(text, width).as_ref() != Some(first) { r.violation("the printed tree does not read back as the tree (one line per node, depth first, one indentation step per level)".into(), format!("property C19\ntree: {}\nprinted:\n{text}\n", g_tree(first))); }
				r.case("tree-print", format!("CTreeShow {} ({}) {}", gbool(k == 1), g_tree(first), crate::pomgen::gs(text)));
			}
			r.count("tree_print_trees");
		} }
		// retain with stateful predicates
		match i % 3 {
			0 => {
				let k = *rng.pick(&[1u64, 2, 3, 5, 7]);
				let mut g = f.clone();
				let res = guarded(move || { let mut seen = std::collections::HashSet::new(); Forest::breadth_first_retain(&mut g, |x| seen.insert(*x % k)); g });
				match res {
					Ok(g) => {
						if g != oracle_first_seen(&f, k) { r.violation(format!("breadth_first_retain with a first-seen predicate (x mod {k}) is not the nearest-wins sub-forest"), format!("property C19\nforest: {canon}\nresult: {}\n", g_forest(&g))); }
						r.case("retain-first-seen", format!("CRetainSeen {k} {canon} {}", g_forest(&g)));
					}
					Err(p) => r.violation(format!("breadth_first_retain panicked: {p}"), format!("property C19\nforest: {canon}\n")),
				}
			}
			1 => {
				let bits: Vec<bool> = (0..rng.range(0, 30)).map(|_| rng.chance(2, 3)).collect();
				let mut g = f.clone();
				let b2 = bits.clone();
				let res = guarded(move || { let mut it = b2.into_iter(); Forest::breadth_first_retain(&mut g, |_| it.next().unwrap_or(true)); g });
				match res {
					Ok(g) => r.case("retain-schedule", format!("CRetainBits {} {canon} {}", glist(bits.iter().map(|b| gbool(*b))), g_forest(&g))),
					Err(p) => r.violation(format!("breadth_first_retain panicked: {p}"), format!("property C19\nforest: {canon}\n")),
				}
			}
			_ => {
				let mut g = f.clone();
				let res = guarded(move || { Forest::breadth_first_retain(&mut g, |x| x % 3 != 0); g });
				match res {
					Ok(g) => r.case("retain-stateless", format!("CRetainMod3 {canon} {}", g_forest(&g))),
					Err(p) => r.violation(format!("breadth_first_retain panicked: {p}"), format!("property C19\nforest: {canon}\n")),
				}
			}
		}
	}
}
