//! Forest::breadth_first_retain / breadth_first / into_breadth_first on random forests of integers.
use fbh::gal::*;
use fbh::prng::Rng;
use fbh::report::{guarded, Report};
use maven_dependency_resolver::tree::{Forest, Tree};

fn gen_tree(rng: &mut Rng, depth: usize, budget: &mut usize, vals: usize) -> Tree<u64> {
	let data = rng.below(vals) as u64;
	let mut children = vec![];
	if depth > 0 {
		let k = match rng.below(6) { 0 | 1 => 0, 2 | 3 => 1, 4 => 2, _ => rng.range(3, 4) };
		for _ in 0..k { if *budget == 0 { break; } *budget -= 1; children.push(gen_tree(rng, depth - 1, budget, vals)); }
	}
	Tree { data, children }
}
pub fn gen_forest(rng: &mut Rng) -> Vec<Tree<u64>> {
	let mut budget = rng.range(0, 40);
	let vals = *rng.pick(&[2usize, 3, 5, 8, 30]);
	let depth = rng.range(0, 5);
	let roots = rng.range(0, 4);
	let mut f = vec![];
	for _ in 0..roots { if budget == 0 { break; } budget -= 1; f.push(gen_tree(rng, depth, &mut budget, vals)); }
	f
}
pub fn g_tree(t: &Tree<u64>) -> String { format!("Node {} {}", t.data, glist(t.children.iter().map(|c| format!("({})", g_tree(c))))) }
pub fn g_forest(f: &[Tree<u64>]) -> String { glist(f.iter().map(g_tree)) }
fn size(f: &[Tree<u64>]) -> usize { f.iter().map(|t| 1 + size(&t.children)).sum() }

/// the property on the implementation alone: what the documentation of breadth_first_retain promises for a
/// first-seen predicate, computed by a plain level-by-level pass
fn oracle_first_seen(f: &[Tree<u64>], k: u64) -> Vec<Tree<u64>> {
	// decide per path, in (depth, declaration) order
	let mut level: Vec<(Vec<usize>, &Tree<u64>)> = f.iter().enumerate().map(|(i, t)| (vec![i], t)).collect();
	let mut seen = std::collections::HashSet::new();
	let mut kept = std::collections::HashSet::new();
	while !level.is_empty() {
		let mut next = vec![];
		for (p, t) in &level {
			if seen.insert(t.data % k) {
				kept.insert(p.clone());
				for (i, c) in t.children.iter().enumerate() { let mut q = p.clone(); q.push(i); next.push((q, c)); }
			}
		}
		level = next;
	}
	fn rebuild(ts: &[Tree<u64>], p: &[usize], kept: &std::collections::HashSet<Vec<usize>>) -> Vec<Tree<u64>> {
		ts.iter().enumerate().filter_map(|(i, t)| {
			let mut q = p.to_vec(); q.push(i);
			if kept.contains(&q) { Some(Tree { data: t.data, children: rebuild(&t.children, &q, kept) }) } else { None }
		}).collect()
	}
	rebuild(f, &[], &kept)
}

pub fn cases(r: &mut Report, rng: &mut Rng, n: usize) {
	for i in 0..n {
		let f = gen_forest(rng);
		let canon = g_forest(&f);
		r.eval(&format!("forest {canon}"), size(&f) >= 3);
		r.count(&format!("forest_size_{}", match size(&f) { 0 => "0", 1..=3 => "1-3", 4..=10 => "4-10", 11..=25 => "11-25", _ => "26+" }));
		// breadth-first listing, by value and by reference
		let f1 = f.clone();
		match guarded(move || Forest::into_breadth_first(f1).collect::<Vec<u64>>()) {
			Ok(l) => {
				let by_ref: Vec<u64> = Forest::breadth_first(&f).cloned().collect();
				if by_ref != l { r.violation("Forest::breadth_first and Forest::into_breadth_first disagree".into(), format!("property C19\nforest: {canon}\n")); }
				let per_tree: Vec<u64> = f.iter().flat_map(|t| t.breadth_first().cloned().collect::<Vec<_>>()).collect();
				let mut a = per_tree.clone(); a.sort(); let mut b = l.clone(); b.sort();
				if a != b { r.violation("breadth_first does not list every node exactly once".into(), format!("property C19\nforest: {canon}\n")); }
				r.case("bfs", format!("CBfs {canon} {}", gnums(l)));
			}
			Err(p) => r.violation(format!("Forest::into_breadth_first panicked: {p}"), format!("property C19\nforest: {canon}\n")),
		}
		// retain with stateful predicates
		match i % 3 {
			0 => {
				let k = *rng.pick(&[1u64, 2, 3, 5, 7]);
				let mut g = f.clone();
				let res = guarded(move || { let mut seen = std::collections::HashSet::new(); Forest::breadth_first_retain(&mut g, |x| seen.insert(*x % k)); g });
				match res {
					Ok(g) => {
						if g != oracle_first_seen(&f, k) { r.violation(format!("breadth_first_retain with a first-seen predicate (x mod {k}) is not the nearest-wins sub-forest"), format!("property C19\nforest: {canon}\nresult: {}\n", g_forest(&g))); }
						r.case("retain-first-seen", format!("CRetainSeen {k} {canon} {}", g_forest(&g)));
					}
					Err(p) => r.violation(format!("breadth_first_retain panicked: {p}"), format!("property C19\nforest: {canon}\n")),
				}
			}
			1 => {
				let bits: Vec<bool> = (0..rng.range(0, 30)).map(|_| rng.chance(2, 3)).collect();
				let mut g = f.clone();
				let b2 = bits.clone();
				let res = guarded(move || { let mut it = b2.into_iter(); Forest::breadth_first_retain(&mut g, |_| it.next().unwrap_or(true)); g });
				match res {
					Ok(g) => r.case("retain-schedule", format!("CRetainBits {} {canon} {}", glist(bits.iter().map(|b| gbool(*b))), g_forest(&g))),
					Err(p) => r.violation(format!("breadth_first_retain panicked: {p}"), format!("property C19\nforest: {canon}\n")),
				}
			}
			_ => {
				let mut g = f.clone();
				let res = guarded(move || { Forest::breadth_first_retain(&mut g, |x| x % 3 != 0); g });
				match res {
					Ok(g) => r.case("retain-stateless", format!("CRetainMod3 {canon} {}", g_forest(&g))),
					Err(p) => r.violation(format!("breadth_first_retain panicked: {p}"), format!("property C19\nforest: {canon}\n")),
				}
			}
		}
	}
}
