//! MavenCoord / FoundDependency / DependencyScope: Display and parsing.
use std::str::FromStr;
use fbh::gal::*;
use fbh::prng::Rng;
use fbh::report::{guarded, Report};
use maven_dependency_resolver::coord::MavenCoord;
use maven_dependency_resolver::resolver::Resolver;
use maven_dependency_resolver::{DependencyScope, FoundDependency};
use crate::pomgen::*;

pub const ALL_SCOPES: [DependencyScope; 5] = [DependencyScope::Compile, DependencyScope::Runtime, DependencyScope::Test, DependencyScope::System, DependencyScope::Provided];
pub fn scope_idx(s: DependencyScope) -> usize { ALL_SCOPES.iter().position(|x| *x == s).unwrap() }

pub fn to_coord(c: &ACoord) -> MavenCoord {
	MavenCoord { group: c.group.clone(), artifact: c.artifact.clone(), version: c.version.clone(), classifier: c.classifier.clone(), type_: c.type_.clone() }
}
pub fn of_coord(c: &MavenCoord) -> ACoord {
	ACoord { group: c.group.clone(), artifact: c.artifact.clone(), version: c.version.clone(), classifier: c.classifier.clone(), type_: c.type_.clone() }
}
pub fn g_found(d: &FoundDependency) -> String {
	format!("(mkFound {} {} {})", g_resolver(&d.resolver.name, &d.resolver.maven), g_coord(&of_coord(&d.coord)), SCOPE_CTORS[scope_idx(d.scope)])
}

fn gen_field(rng: &mut Rng, dirty: bool) -> String {
	let clean: [&str; 36] = ["org.example", "a", "foo-bar", "1.0", "1.2.3-SNAPSHOT", "", "jar", "ü", "x y", "@", " @", "漢字", "a/b", "sources", "war", "pom", "test-jar", "compile", "@ ",
		"ejb", "ejb-client", "maven-plugin", "bundle", "java-source", "javadoc", "ear", "rar", "zip", "JAR", "jar ", "1.5-20230713.025619-3", "2-20230713.025619-", "a.b.c-1-20230713.02561-3", "😀", "x-12345678.123456-7", "\u{2003}"];
	let bad: [&str; 6] = [":", "a:b", " @ ", "x @ y", "::", " @ :"];
	if dirty && rng.chance(1, 3) { rng.pick(&bad).to_string() } else { rng.pick(&clean).to_string() }
}
fn gen_coord(rng: &mut Rng, dirty: bool) -> ACoord {
	ACoord { group: gen_field(rng, dirty), artifact: gen_field(rng, dirty), version: gen_field(rng, dirty),
		classifier: if rng.chance(1, 2) { Some(gen_field(rng, dirty)) } else { None },
		type_: if rng.chance(1, 2) { rng.pick(&HANDLER_TYPES).0.to_string() } else { gen_field(rng, dirty) } }
}
/// Maven's default artifact handlers (type, extension) and the bundle plugin's type; any other type is its own extension
pub const HANDLER_TYPES: [(&str, &str); 12] = [("pom", "pom"), ("jar", "jar"), ("test-jar", "jar"), ("maven-plugin", "jar"), ("ejb", "jar"), ("ejb-client", "jar"), ("war", "war"),
	("ear", "ear"), ("rar", "rar"), ("java-source", "jar"), ("javadoc", "jar"), ("bundle", "jar")];
/// the repository layout: <repo>/<group with '/' for '.'>/<artifact>/<base version>/<artifact>-<version>[-<classifier>].<extension>
fn layout_url(maven: &str, c: &ACoord) -> String {
	let ext = HANDLER_TYPES.iter().find(|(t, _)| *t == c.type_).map_or(c.type_.as_str(), |(_, e)| *e);
	format!("{}/{}/{}/{}/{}-{}{}.{}", maven.strip_suffix('/').unwrap_or(maven), c.group.replace('.', "/"), c.artifact, base_version(&c.version), c.artifact, c.version,
		c.classifier.as_ref().map_or(String::new(), |k| format!("-{k}")), ext)
}
/// `group:artifact[:type[:classifier]]:version` as documented on MavenCoord
fn doc_parse(s: &str) -> Option<ACoord> {
	let p: Vec<&str> = s.split(':').collect();
	let (g, a) = (p.first()?.to_string(), p.get(1)?.to_string());
	match p.len() {
		3 => Some(ACoord { group: g, artifact: a, version: p[2].into(), classifier: None, type_: "jar".into() }),
		4 => Some(ACoord { group: g, artifact: a, version: p[3].into(), classifier: None, type_: p[2].into() }),
		5 => Some(ACoord { group: g, artifact: a, version: p[4].into(), classifier: Some(p[3].into()), type_: p[2].into() }),
		_ => None,
	}
}
fn clean_field(s: &str) -> bool { !s.contains(':') && !s.contains(" @ ") }
fn clean_coord(c: &ACoord) -> bool {
	clean_field(&c.group) && clean_field(&c.artifact) && clean_field(&c.version) && clean_field(&c.type_) && c.classifier.as_ref().map_or(true, |k| clean_field(k))
}

pub fn cases(r: &mut Report, rng: &mut Rng, n: usize) {
	// scopes: exhaustive print, parse of every name and of near misses
	for s in ALL_SCOPES {
		let p = format!("{s}");
		r.case("scope", format!("CScopePrint {} {}", SCOPE_CTORS[scope_idx(s)], gs(&p)));
		match DependencyScope::from_str(&p) { Ok(b) if b == s => {}, other => r.violation(format!("DependencyScope {s:?}: from_str(to_string) = {other:?}"), format!("property C19\nscope {p}\n")) }
	}
	// names, near misses (case, surrounding blanks / TAB / LF / CR LF / NBSP, prefixes, extensions): what from_str accepts must print as the very text
	let mut texts: Vec<String> = ["import", "Compile", "", "tes", "testx", "COMPILE", "compile,runtime", "compile:", "Test"].iter().map(|x| x.to_string()).collect();
	for name in ["compile", "runtime", "test", "system", "provided"] {
		texts.push(name.to_string());
		for (pre, post) in [("", " "), (" ", ""), ("", "\n"), ("", "\r\n"), ("\t", ""), ("", "\u{a0}"), (" ", " "), ("", "\u{2003}")] { texts.push(format!("{pre}{name}{post}")); }
	}
	for s in texts.iter().map(|x| x.as_str()) {
		let got = DependencyScope::from_str(s).ok();
		if let Some(x) = got {
			if format!("{x}") != s {
				r.violation("DependencyScope::from_str accepts a text that is not the scope's name (from_str(t) = Ok(s) but to_string(s) != t: the documented round trip between Display and FromStr fails from the text's side, two different texts of a resolved dependency read as one)".into(),
					format!("property C19\nscope text {s:?}\nparsed {x:?}, printed {:?}\n", format!("{x}")));
			}
		}
		r.case("scope", format!("CScopeParse {} {}", gs(s), gres(got.map(|x| SCOPE_CTORS[scope_idx(x)].to_string()))));
		r.eval(&format!("scope {s}"), got.is_some());
	}
	for i in 0..n {
		let dirty = i % 4 == 3;
		let c = gen_coord(rng, dirty);
		let mc = to_coord(&c);
		let text = match guarded({ let mc = mc.clone(); move || format!("{mc}") }) { Ok(t) => t, Err(p) => { r.violation(format!("Display for MavenCoord panicked: {p}"), format!("property C19\n{c:?}\n")); continue; } };
		r.eval(&format!("coord {c:?}"), true);
		r.count(if clean_coord(&c) { "coord_separator_free" } else { "coord_with_separators" });
		r.case(if dirty { "coord-dirty" } else { "coord" }, format!("CCoordPrint {} {}", g_coord(&c), gs(&text)));
		let back = MavenCoord::from_str(&text).ok();
		r.case(if dirty { "coord-dirty" } else { "coord" }, format!("CCoordParse {} {}", gs(&text), gres(back.as_ref().map(|b| g_coord(&of_coord(b))))));
		if clean_coord(&c) && back.as_ref() != Some(&mc) {
			r.violation("MavenCoord: from_str(to_string(c)) differs from c although no field contains ':'".into(), format!("property C19\ncoordinate {c:?}\nprinted {text:?}\nparsed {back:?}\n"));
		}
		// free-form strings through the parser (2..7 pieces)
		let pieces = rng.range(0, 7);
		let free = (0..pieces).map(|_| gen_field(rng, false)).collect::<Vec<_>>().join(":");
		let got = MavenCoord::from_str(&free).ok();
		if got.as_ref().map(of_coord) != doc_parse(&free) {
			r.violation("MavenCoord::from_str does not read `group:artifact[:type[:classifier]]:version` (3, 4 or 5 pieces; type defaults to jar, classifier to none)".into(),
				format!("property C19\ntext {free:?}\nparsed {got:?}\ndocumented form gives {:?}\n", doc_parse(&free)));
		}
		r.count(&format!("coord_text_pieces_{}", free.split(':').count().min(7)));
		r.case("coord-parse", format!("CCoordParse {} {}", gs(&free), gres(got.as_ref().map(|b| g_coord(&of_coord(b))))));
		r.eval(&format!("coordtext {free}"), got.is_some());
		if let Some(b) = &got { // printing what was parsed and parsing again is stable
			let again = MavenCoord::from_str(&format!("{b}")).ok();
			if again.as_ref() != Some(b) { r.violation("MavenCoord: from_str(to_string(from_str(s))) differs from from_str(s)".into(), format!("property C19\ntext {free:?}\n")); }
		}
		// FoundDependency
		let scope = *rng.pick(&ALL_SCOPES);
		let url = rng.pick(&["https://repo.example/maven2", "r", "a @ b", "x:y", "", " @ ", "file:///m2/"]).to_string();
		let name = rng.pick(&["central", "", "x"]).to_string();
		let d = FoundDependency { resolver: Resolver { name: name.clone().into(), maven: url.clone().into() }, coord: mc.clone(), scope };
		let dtext = format!("{d}");
		r.case(if dirty { "found-dirty" } else { "found" }, format!("CFoundPrint {} {}", g_found(&d), gs(&dtext)));
		let parsed = FoundDependency::try_from(dtext.as_str()).ok();
		r.case(if dirty { "found-dirty" } else { "found" }, format!("CFoundParse {} {}", gs(&dtext), gres(parsed.as_ref().map(g_found))));
		if clean_coord(&c) {
			// the round trip loses only the repository's name (it becomes the url)
			let want = FoundDependency { resolver: Resolver { name: url.clone().into(), maven: url.clone().into() }, coord: mc.clone(), scope };
			if parsed.as_ref() != Some(&want) {
				r.violation("FoundDependency: try_from(to_string(d)) differs from d (up to the repository name) although no coordinate field contains ':' or \" @ \"".into(),
					format!("property C19\ndependency {d:?}\nprinted {dtext:?}\nparsed {parsed:?}\n"));
			}
		}
		// the artifact's URL in the repository (FoundDependency::make_url -> MavenCoord::make_url, Types::type_to_extension)
		match guarded({ let d = FoundDependency { resolver: d.resolver.clone(), coord: mc.clone(), scope }; move || d.make_url() }) {
			Ok(u) => {
				if u != layout_url(&url, &c) { r.violation("FoundDependency::make_url is not the repository layout's path of the artifact".into(), format!("property C19\ndependency {d:?}\nmake_url {u:?}\nrepository layout {:?}\n", layout_url(&url, &c))); }
				r.case("artifact-url", format!("CFoundUrl {} {}", g_found(&d), gs(&u)));
				r.count(if HANDLER_TYPES.iter().any(|(t, _)| *t == c.type_) { "artifact_url_known_type" } else { "artifact_url_other_type" });
			}
			Err(p) => r.violation(format!("FoundDependency::make_url panicked: {p}"), format!("property C19\n{d:?}\n")),
		}
		if i % 7 == 0 {
			let b = MavenCoord::from_group_artifact_version(&c.group, &c.artifact, &c.version);
			if b != (MavenCoord { group: c.group.clone(), artifact: c.artifact.clone(), version: c.version.clone(), classifier: None, type_: "jar".into() }) {
				r.violation("MavenCoord::from_group_artifact_version is not (group, artifact, version, no classifier, type jar)".into(), format!("property C19\n{c:?}\n{b:?}\n"));
			}
			r.case("coord", format!("CCoordGav {} {} {} {}", gs(&c.group), gs(&c.artifact), gs(&c.version), g_coord(&of_coord(&b))));
		}
		// mutated text through the parser
		let mut m: Vec<char> = dtext.chars().collect();
		if !m.is_empty() {
			let k = rng.below(m.len());
			match rng.below(3) { 0 => { m.remove(k); } 1 => { m.insert(k, *rng.pick(&[':', '@', ' ', 'x'])); } _ => { m[k] = *rng.pick(&[':', '@', ' ', 'e']); } }
		}
		let mtext: String = m.into_iter().collect();
		let mp = FoundDependency::try_from(mtext.as_str()).ok();
		r.case("found-mutated", format!("CFoundParse {} {}", gs(&mtext), gres(mp.as_ref().map(g_found))));
	}
}

/// The Maven repository layout's rule for the directory of a version, written as a matcher from the END of the text
/// (independent of the crate's two rsplit_once and of pomgen::base_version's rsplitn): a version ending in
/// `-` 8 digits `.` 6 digits `-` 1+ digits (ASCII digits, a literal dot) lives in `<what is before>-SNAPSHOT`, any other in its own directory.
fn layout_version_dir(v: &str) -> String {
	let c: Vec<char> = v.chars().collect();
	let mut i = c.len();
	let take_digits = |i: &mut usize, want: Option<usize>| -> bool {
		let start = *i;
		while *i > 0 && c[*i - 1].is_ascii_digit() && want.map_or(true, |w| start - *i < w) { *i -= 1; }
		match want { Some(w) => start - *i == w, None => start > *i }
	};
	let lit = |i: &mut usize, ch: char| -> bool { if *i > 0 && c[*i - 1] == ch { *i -= 1; true } else { false } };
	let ok = take_digits(&mut i, None) && lit(&mut i, '-') && take_digits(&mut i, Some(6)) && lit(&mut i, '.') && take_digits(&mut i, Some(8)) && lit(&mut i, '-');
	if ok { format!("{}-SNAPSHOT", c[..i].iter().collect::<String>()) } else { v.to_string() }
}

fn gen_digits(rng: &mut Rng, len: usize) -> String { (0..len).map(|_| char::from(b'0' + rng.below(10) as u8)).collect() }
/// one character of a digit run replaced by something that is not an ASCII digit (letters, separators, digits of other scripts, blanks)
fn spoil(rng: &mut Rng, s: &str) -> String {
	let mut c: Vec<char> = s.chars().collect();
	if c.is_empty() { return s.to_string(); }
	let k = rng.below(c.len());
	c[k] = *rng.pick(&['x', '-', '.', '\u{ff12}', '\u{0663}', ' ', '\u{0967}', '/', ':', '+']);
	c.into_iter().collect()
}
fn gen_snapshot_version(rng: &mut Rng) -> String {
	let prefix = rng.pick(&["", "1.0", "1", "vineflower-1.10.0", "a-b", "1-2", "-", "1.0-20230713.025619-3", "\u{fc}", "x.y", "1.0-SNAPSHOT", "12345678.123456", "1.0-12345678.123456",
		"\u{1f600}", "1.0-", "0"]).to_string();
	let sep1 = if rng.chance(5, 6) { "-" } else { *rng.pick(&["", "_", "--", ".", "\u{2010}", "+"]) };
	let n_date = if rng.chance(4, 5) { 8 } else { *rng.pick(&[0usize, 7, 9, 14]) };
	let mut date = gen_digits(rng, n_date);
	if rng.chance(1, 8) { date = spoil(rng, &date); }
	let dot = if rng.chance(5, 6) { "." } else { *rng.pick(&["", ",", "-", "..", "x", "0", "\u{3002}", ":"]) };
	let n_time = if rng.chance(4, 5) { 6 } else { *rng.pick(&[0usize, 5, 7, 8]) };
	let mut time = gen_digits(rng, n_time);
	if rng.chance(1, 8) { time = spoil(rng, &time); }
	let sep2 = if rng.chance(5, 6) { "-" } else { *rng.pick(&["", "_", "--", ".", "x", "\u{2010}"]) };
	let n_build = *rng.pick(&[0usize, 1, 1, 1, 2, 2, 3, 15, 40]);
	let mut build = gen_digits(rng, n_build);
	if rng.chance(1, 8) { build = spoil(rng, &build); }
	let tail = if rng.chance(7, 8) { "" } else { *rng.pick(&["-", " ", "\n", "x", ".", "-SNAPSHOT", "-1", "-20230713.025619-1"]) };
	format!("{prefix}{sep1}{date}{dot}{time}{sep2}{build}{tail}")
}

/// to_snapshot_version (private; reached as MavenCoord::base_version inside make_url): the version directory of the artifact's URL,
/// cut out of make_url's answer for a coordinate with empty group and artifact in the repository "R"
pub fn snapshot_cases(r: &mut Report, rng: &mut Rng, n: usize) {
	let fixed = ["vineflower-1.10.0", "vineflower-1.10.0-20230713.025619-1", "vineflower-1.10.0-20230909.205406-282828123456790", "vineflower-1.10.0-20x30909.205406-28",
		"vineflower-1.10.0-20230909.205406x28", "vineflower-1.10.0-202309090205406028", "vineflower-1.10.0-20230713.025619-", "vineflower-1.10.0-2023071.3025619-1",
		"", "-", "--", "-1", "-.-1", "-12345678.123456-1", "12345678.123456-1", "1-12345678.123456-1-12345678.123456-1", "1.0-SNAPSHOT", "1-12345678.123456-1-SNAPSHOT"];
	for i in 0..fixed.len() + n {
		let v = if i < fixed.len() { fixed[i].to_string() } else { gen_snapshot_version(rng) };
		let d = FoundDependency { resolver: Resolver { name: "n".into(), maven: "R".into() }, scope: DependencyScope::Compile,
			coord: MavenCoord { group: String::new(), artifact: String::new(), version: v.clone(), classifier: None, type_: "jar".into() } };
		let u = match guarded(move || d.make_url()) { Ok(u) => u, Err(p) => { r.violation(format!("FoundDependency::make_url panicked: {p}"), format!("property C19\nversion {v:?}\n")); continue; } };
		let (pre, suf) = ("R///".to_string(), format!("/-{v}.jar"));
		let dir = match u.strip_prefix(pre.as_str()).and_then(|x| x.strip_suffix(suf.as_str())) {
			Some(x) => x.to_string(),
			None => { r.violation("FoundDependency::make_url is not <repository>/<group>/<artifact>/<version directory>/<artifact>-<version>.<extension>".into(), format!("property C19\nversion {v:?} (empty group and artifact, repository \"R\", type jar)\nmake_url {u:?}\n")); continue; }
		};
		let want = layout_version_dir(&v);
		if dir != want {
			r.violation("the version directory in the URL is not the repository layout's: `X-<8 digits>.<6 digits>-<digits>` lives in `X-SNAPSHOT`, every other version in its own directory".into(),
				format!("property C19\nversion {v:?}\nversion directory in make_url {dir:?}\nrepository layout {want:?}\n"));
		}
		if want != base_version(&v) { r.violation("harness: the two layout references disagree on a version".into(), format!("property C19\nversion {v:?}\n")); }
		r.eval(&format!("snapshot-version {v}"), dir != v);
		r.count(if want != v { "snapshot_version_timestamped" } else { "snapshot_version_plain" });
		r.case("snapshot-version", format!("CSnapshot {} {}", gs(&v), gs(&dir)));
	}
}
