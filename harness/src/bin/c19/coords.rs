//! MavenCoord / FoundDependency / DependencyScope: Display and parsing.
use std::str::FromStr;
use fbh::gal::*;
use fbh::prng::Rng;
use fbh::report::{guarded, Report};
use maven_dependency_resolver::coord::MavenCoord;
use maven_dependency_resolver::resolver::Resolver;
use maven_dependency_resolver::{DependencyScope, FoundDependency};
use crate::pomgen::*;

pub const ALL_SCOPES: [DependencyScope; 5] = [DependencyScope::Compile, DependencyScope::Runtime, DependencyScope::Test, DependencyScope::System, DependencyScope::Provided];
pub fn scope_idx(s: DependencyScope) -> usize { ALL_SCOPES.iter().position(|x| *x == s).unwrap() }

pub fn to_coord(c: &ACoord) -> MavenCoord {
	MavenCoord { group: c.group.clone(), artifact: c.artifact.clone(), version: c.version.clone(), classifier: c.classifier.clone(), type_: c.type_.clone() }
}
pub fn of_coord(c: &MavenCoord) -> ACoord {
	ACoord { group: c.group.clone(), artifact: c.artifact.clone(), version: c.version.clone(), classifier: c.classifier.clone(), type_: c.type_.clone() }
}
pub fn g_found(d: &FoundDependency) -> String {
	format!("(mkFound {} {} {})", g_resolver(&d.resolver.name, &d.resolver.maven), g_coord(&of_coord(&d.coord)), SCOPE_CTORS[scope_idx(d.scope)])
}

fn gen_field(rng: &mut Rng, dirty: bool) -> String {
	let clean: [&str; 19] = ["org.example", "a", "foo-bar", "1.0", "1.2.3-SNAPSHOT", "", "jar", "ü", "x y", "@", " @", "漢字", "a/b", "sources", "war", "pom", "test-jar", "compile", "@ "];
	let bad: [&str; 6] = [":", "a:b", " @ ", "x @ y", "::", " @ :"];
	if dirty && rng.chance(1, 3) { rng.pick(&bad).to_string() } else { rng.pick(&clean).to_string() }
}
fn gen_coord(rng: &mut Rng, dirty: bool) -> ACoord {
	ACoord { group: gen_field(rng, dirty), artifact: gen_field(rng, dirty), version: gen_field(rng, dirty),
		classifier: if rng.chance(1, 2) { Some(gen_field(rng, dirty)) } else { None }, type_: gen_field(rng, dirty) }
}
fn clean_field(s: &str) -> bool { !s.contains(':') && !s.contains(" @ ") }
fn clean_coord(c: &ACoord) -> bool {
	clean_field(&c.group) && clean_field(&c.artifact) && clean_field(&c.version) && clean_field(&c.type_) && c.classifier.as_ref().map_or(true, |k| clean_field(k))
}

pub fn cases(r: &mut Report, rng: &mut Rng, n: usize) {
	// scopes: exhaustive print, parse of every name and of near misses
	for s in ALL_SCOPES {
		let p = format!("{s}");
		r.case("scope", format!("CScopePrint {} {}", SCOPE_CTORS[scope_idx(s)], gs(&p)));
		match DependencyScope::from_str(&p) { Ok(b) if b == s => {}, other => r.violation(format!("DependencyScope {s:?}: from_str(to_string) = {other:?}"), format!("property C19\nscope {p}\n")) }
	}
	for s in ["compile", "runtime", "test", "system", "provided", "import", "Compile", "", "compile ", "tes", "testx"] {
		let got = DependencyScope::from_str(s).ok();
		r.case("scope", format!("CScopeParse {} {}", gs(s), gres(got.map(|x| SCOPE_CTORS[scope_idx(x)].to_string()))));
		r.eval(&format!("scope {s}"), got.is_some());
	}
	for i in 0..n {
		let dirty = i % 4 == 3;
		let c = gen_coord(rng, dirty);
		let mc = to_coord(&c);
		let text = match guarded({ let mc = mc.clone(); move || format!("{mc}") }) { Ok(t) => t, Err(p) => { r.violation(format!("Display for MavenCoord panicked: {p}"), format!("property C19\n{c:?}\n")); continue; } };
		r.eval(&format!("coord {c:?}"), true);
		r.count(if clean_coord(&c) { "coord_separator_free" } else { "coord_with_separators" });
		r.case(if dirty { "coord-dirty" } else { "coord" }, format!("CCoordPrint {} {}", g_coord(&c), gs(&text)));
		let back = MavenCoord::from_str(&text).ok();
		r.case(if dirty { "coord-dirty" } else { "coord" }, format!("CCoordParse {} {}", gs(&text), gres(back.as_ref().map(|b| g_coord(&of_coord(b))))));
		if clean_coord(&c) && back.as_ref() != Some(&mc) {
			r.violation("MavenCoord: from_str(to_string(c)) differs from c although no field contains ':'".into(), format!("property C19\ncoordinate {c:?}\nprinted {text:?}\nparsed {back:?}\n"));
		}
		// free-form strings through the parser (2..7 pieces)
		let pieces = rng.range(0, 7);
		let free = (0..pieces).map(|_| gen_field(rng, false)).collect::<Vec<_>>().join(":");
		let got = MavenCoord::from_str(&free).ok();
		r.case("coord-parse", format!("CCoordParse {} {}", gs(&free), gres(got.as_ref().map(|b| g_coord(&of_coord(b))))));
		r.eval(&format!("coordtext {free}"), got.is_some());
		if let Some(b) = &got { // printing what was parsed and parsing again is stable
			let again = MavenCoord::from_str(&format!("{b}")).ok();
			if again.as_ref() != Some(b) { r.violation("MavenCoord: from_str(to_string(from_str(s))) differs from from_str(s)".into(), format!("property C19\ntext {free:?}\n")); }
		}
		// FoundDependency
		let scope = *rng.pick(&ALL_SCOPES);
		let url = rng.pick(&["https://repo.example/maven2", "r", "a @ b", "x:y", "", " @ ", "file:///m2/"]).to_string();
		let name = rng.pick(&["central", "", "x"]).to_string();
		let d = FoundDependency { resolver: Resolver { name: name.clone().into(), maven: url.clone().into() }, coord: mc.clone(), scope };
		let dtext = format!("{d}");
		r.case(if dirty { "found-dirty" } else { "found" }, format!("CFoundPrint {} {}", g_found(&d), gs(&dtext)));
		let parsed = FoundDependency::try_from(dtext.as_str()).ok();
		r.case(if dirty { "found-dirty" } else { "found" }, format!("CFoundParse {} {}", gs(&dtext), gres(parsed.as_ref().map(g_found))));
		if clean_coord(&c) {
			// the round trip loses only the repository's name (it becomes the url)
			let want = FoundDependency { resolver: Resolver { name: url.clone().into(), maven: url.clone().into() }, coord: mc.clone(), scope };
			if parsed.as_ref() != Some(&want) {
				r.violation("FoundDependency: try_from(to_string(d)) differs from d (up to the repository name) although no coordinate field contains ':' or \" @ \"".into(),
					format!("property C19\ndependency {d:?}\nprinted {dtext:?}\nparsed {parsed:?}\n"));
			}
		}
		// mutated text through the parser
		let mut m: Vec<char> = dtext.chars().collect();
		if !m.is_empty() {
			let k = rng.below(m.len());
			match rng.below(3) { 0 => { m.remove(k); } 1 => { m.insert(k, *rng.pick(&[':', '@', ' ', 'x'])); } _ => { m[k] = *rng.pick(&[':', '@', ' ', 'e']); } }
		}
		let mtext: String = m.into_iter().collect();
		let mp = FoundDependency::try_from(mtext.as_str()).ok();
		r.case("found-mutated", format!("CFoundParse {} {}", gs(&mtext), gres(mp.as_ref().map(g_found))));
	}
}
