//! MavenCoord / FoundDependency / DependencyScope: Display and parsing.
use std::str::FromStr;
use fbh::gal::*;
use fbh::prng::Rng;
use fbh::report::{guarded, Report};
use maven_dependency_resolver::coord::MavenCoord;
use maven_dependency_resolver::resolver::Resolver;
use maven_dependency_resolver::{DependencyScope, FoundDependency};
use crate::pomgen::*;

pub const ALL_SCOPES: [DependencyScope; 5] = [DependencyScope::Compile, DependencyScope::Runtime, DependencyScope::Test, DependencyScope::System, DependencyScope::Provided];
pub fn scope_idx(s: DependencyScope) -> usize { ALL_SCOPES.iter().position(|x| *x == s).unwrap() }

pub fn to_coord(c: &ACoord) -> MavenCoord {
	MavenCoord { group: c.group.clone(), artifact: c.artifact.clone(), version: c.version.clone(), classifier: c.classifier.clone(), type_: c.type_.clone() }
}
pub fn of_coord(c: &MavenCoord) -> ACoord {
	ACoord { group: c.group.clone(), artifact: c.artifact.clone(), version: c.version.clone(), classifier: c.classifier.clone(), type_: c.type_.clone() }
}
pub fn g_found(d: &FoundDependency) -> String {
	format!("(mkFound {} {} {})", g_resolver(&d.resolver.name, &d.resolver.maven), g_coord(&of_coord(&d.coord)), SCOPE_CTORS[scope_idx(d.scope)])
}

fn gen_field(rng: &mut Rng, dirty: bool) -> String {
	let clean: [&str; 36] = ["org.example", "a", "foo-bar", "1.0", "1.2.3-SNAPSHOT", "", "jar", "ü", "x y", "@", " @", "漢字", "a/b", "sources", "war", "pom", "test-jar", "compile", "@ ",
		"ejb", "ejb-client", "maven-plugin", "bundle", "java-source", "javadoc", "ear", "rar", "zip", "JAR", "jar ", "1.5-20230713.025619-3", "2-20230713.025619-", "a.b.c-1-20230713.02561-3", "😀", "x-12345678.123456-7", "\u{2003}"];
	let bad: [&str; 6] = [":", "a:b", " @ ", "x @ y", "::", " @ :"];
	if dirty && rng.chance(1, 3) { rng.pick(&bad).to_string() } else { rng.pick(&clean).to_string() }
}
fn gen_coord(rng: &mut Rng, dirty: bool) -> ACoord {
	ACoord { group: gen_field(rng, dirty), artifact: gen_field(rng, dirty), version: gen_field(rng, dirty),
		classifier: if rng.chance(1, 2) { Some(gen_field(rng, dirty)) } else { None },
		type_: if rng.chance(1, 2) { rng.pick(&HANDLER_TYPES).0.to_string() } else { gen_field(rng, dirty) } }
}
/// Maven's default artifact handlers (type, extension) and the bundle plugin's type; any other type is its own extension
pub const HANDLER_TYPES: [(&str, &str); 12] = [("pom", "pom"), ("jar", "jar"), ("test-jar", "jar"), ("maven-plugin", "jar"), ("ejb", "jar"), ("ejb-client", "jar"), ("war", "war"),
	("ear", "ear"), ("rar", "rar"), ("java-source", "jar"), ("javadoc", "jar"), ("bundle", "jar")];
/// the repository layout: <repo>/<group with '/' for '.'>/<artifact>/<base version>/<artifact>-<version>[-<classifier>].<extension>
fn layout_url(maven: &str, c: &ACoord) -> String {
	let ext = HANDLER_TYPES.iter().find(|(t, _)| *t == c.type_).map_or(c.type_.as_str(), |(_, e)| *e);
	format!("{}/{}/{}/{}/{}-{}{}.{}", maven.strip_suffix('/').unwrap_or(maven), c.group.replace('.', "/"), c.artifact, base_version(&c.version), c.artifact, c.version,
		c.classifier.as_ref().map_or(String::new(), |k| format!("-{k}")), ext)
}
/// `group:artifact[:type[:classifier]]:version` as documented on MavenCoord
fn doc_parse(s: &str) -> Option<ACoord> {
	let p: Vec<&str> = s.split(':').collect();
	let (g, a) = (p.first()?.to_string(), p.get(1)?.to_string());
	match p.len() {
		3 => Some(ACoord { group: g, artifact: a, version: p[2].into(), classifier: None, type_: "jar".into() }),
		4 => Some(ACoord { group: g, artifact: a, version: p[3].into(), classifier: None, type_: p[2].into() }),
		5 => Some(ACoord { group: g, artifact: a, version: p[4].into(), classifier: Some(p[3].into()), type_: p[2].into() }),
		_ => None,
	}
}
fn clean_field(s: &str) -> bool { !s.contains(':') && !s.contains(" @ ") }
fn clean_coord(c: &ACoord) -> bool {
	clean_field(&c.group) && clean_field(&c.artifact) && clean_field(&c.version) && clean_field(&c.type_) && c.classifier.as_ref().map_or(true, |k| clean_field(k))
}

pub fn cases(r: &mut Report, rng: &mut Rng, n: usize) {
	// scopes: exhaustive print, parse of every name and of near misses
	for s in ALL_SCOPES {
		let p = format!("{s}");
		r.case("scope", format!("CScopePrint {} {}", SCOPE_CTORS[scope_idx(s)], gs(&p)));
		match DependencyScope::from_str(&p) { Ok(b) if b == s => {}, other => r.violation(format!("DependencyScope {s:?}: from_str(to_string) = {other:?}"), format!("property C19\nscope {p}\n")) }
	}
	for s in ["compile", "runtime", "test", "system", "provided", "import", "Compile", "", "compile ", "tes", "testx"] {
		let got = DependencyScope::from_str(s).ok();
		r.case("scope", format!("CScopeParse {} {}", gs(s), gres(got.map(|x| SCOPE_CTORS[scope_idx(x)].to_string()))));
		r.eval(&format!("scope {s}"), got.is_some());
	}
	for i in 0..n {
		let dirty = i % 4 == 3;
		let c = gen_coord(rng, dirty);
		let mc = to_coord(&c);
		let text = match guarded({ let mc = mc.clone(); move || format!("{mc}") }) { Ok(t) => t, Err(p) => { r.violation(format!("Display for MavenCoord panicked: {p}"), format!("property C19\n{c:?}\n")); continue; } };
		r.eval(&format!("coord {c:?}"), true);
		r.count(if clean_coord(&c) { "coord_separator_free" } else { "coord_with_separators" });
		r.case(if dirty { "coord-dirty" } else { "coord" }, format!("CCoordPrint {} {}", g_coord(&c), gs(&text)));
		let back = MavenCoord::from_str(&text).ok();
		r.case(if dirty { "coord-dirty" } else { "coord" }, format!("CCoordParse {} {}", gs(&text), gres(back.as_ref().map(|b| g_coord(&of_coord(b))))));
		if clean_coord(&c) && back.as_ref() != Some(&mc) {
			r.violation("MavenCoord: from_str(to_string(c)) differs from c although no field contains ':'".into(), format!("property C19\ncoordinate {c:?}\nprinted {text:?}\nparsed {back:?}\n"));
		}
		// free-form strings through the parser (2..7 pieces)
		let pieces = rng.range(0, 7);
		let free = (0..pieces).map(|_| gen_field(rng, false)).collect::<Vec<_>>().join(":");
		let got = MavenCoord::from_str(&free).ok();
		if got.as_ref().map(of_coord) != doc_parse(&free) {
			r.violation("MavenCoord::from_str does not read `group:artifact[:type[:classifier]]:version` (3, 4 or 5 pieces; type defaults to jar, classifier to none)".into(),
				format!("property C19\ntext {free:?}\nparsed {got:?}\ndocumented form gives {:?}\n", doc_parse(&free)));
		}
		r.count(&format!("coord_text_pieces_{}", free.split(':').count().min(7)));
		r.case("coord-parse", format!("CCoordParse {} {}", gs(&free), gres(got.as_ref().map(|b| g_coord(&of_coord(b))))));
		r.eval(&format!("coordtext {free}"), got.is_some());
		if let Some(b) = &got { // printing what was parsed and parsing again is stable
			let again = MavenCoord::from_str(&format!("{b}")).ok();
			if again.as_ref() != Some(b) { r.violation("MavenCoord: from_str(to_string(from_str(s))) differs from from_str(s)".into(), format!("property C19\ntext {free:?}\n")); }
		}
		// FoundDependency
		let scope = *rng.pick(&ALL_SCOPES);
		let url = rng.pick(&["https://repo.example/maven2", "r", "a @ b", "x:y", "", " @ ", "file:///m2/"]).to_string();
		let name = rng.pick(&["central", "", "x"]).to_string();
		let d = FoundDependency { resolver: Resolver { name: name.clone().into(), maven: url.clone().into() }, coord: mc.clone(), scope };
		let dtext = format!("{d}");
		r.case(if dirty { "found-dirty" } else { "found" }, format!("CFoundPrint {} {}", g_found(&d), gs(&dtext)));
		let parsed = FoundDependency::try_from(dtext.as_str()).ok();
		r.case(if dirty { "found-dirty" } else { "found" }, format!("CFoundParse {} {}", gs(&dtext), gres(parsed.as_ref().map(g_found))));
		if clean_coord(&c) {
			// the round trip loses only the repository's name (it becomes the url)
			let want = FoundDependency { resolver: Resolver { name: url.clone().into(), maven: url.clone().into() }, coord: mc.clone(), scope };
			if parsed.as_ref() != Some(&want) {
				r.violation("FoundDependency: try_from(to_string(d)) differs from d (up to the repository name) although no coordinate field contains ':' or \" @ \"".into(),
					format!("property C19\ndependency {d:?}\nprinted {dtext:?}\nparsed {parsed:?}\n"));
			}
		}
		// the artifact's URL in the repository (FoundDependency::make_url -> MavenCoord::make_url, Types::type_to_extension)
		match guarded({ let d = FoundDependency { resolver: d.resolver.clone(), coord: mc.clone(), scope }; move || d.make_url() }) {
			Ok(u) => {
				if u != layout_url(&url, &c) { r.violation("FoundDependency::make_url is not the repository layout's path of the artifact".into(), format!("property C19\ndependency {d:?}\nmake_url {u:?}\nrepository layout {:?}\n", layout_url(&url, &c))); }
				r.case("artifact-url", format!("CFoundUrl {} {}", g_found(&d), gs(&u)));
				r.count(if HANDLER_TYPES.iter().any(|(t, _)| *t == c.type_) { "artifact_url_known_type" } else { "artifact_url_other_type" });
			}
			Err(p) => r.violation(format!("FoundDependency::make_url panicked: {p}"), format!("property C19\n{d:?}\n")),
		}
		if i % 7 == 0 {
			let b = MavenCoord::from_group_artifact_version(&c.group, &c.artifact, &c.version);
			if b != (MavenCoord { group: c.group.clone(), artifact: c.artifact.clone(), version: c.version.clone(), classifier: None, type_: "jar".into() }) {
				r.violation("MavenCoord::from_group_artifact_version is not (group, artifact, version, no classifier, type jar)".into(), format!("property C19\n{c:?}\n{b:?}\n"));
			}
			r.case("coord", format!("CCoordGav {} {} {} {}", gs(&c.group), gs(&c.artifact), gs(&c.version), g_coord(&of_coord(&b))));
		}
		// mutated text through the parser
		let mut m: Vec<char> = dtext.chars().collect();
		if !m.is_empty() {
			let k = rng.below(m.len());
			match rng.below(3) { 0 => { m.remove(k); } 1 => { m.insert(k, *rng.pick(&[':', '@', ' ', 'x'])); } _ => { m[k] = *rng.pick(&[':', '@', ' ', 'e']); } }
		}
		let mtext: String = m.into_iter().collect();
		let mp = FoundDependency::try_from(mtext.as_str()).ok();
		r.case("found-mutated", format!("CFoundParse {} {}", gs(&mtext), gres(mp.as_ref().map(g_found))));
	}
}
