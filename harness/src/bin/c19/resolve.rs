//! get_maven_dependencies on generated POM universes, against the reference resolver and the model.
use std::collections::HashMap;
use std::future::Future;
use std::str::FromStr;
use std::sync::atomic::{AtomicUsize, Ordering};
use anyhow::{bail, Context, Result};
use fbh::gal::*;
use fbh::prng::Rng;
use fbh::report::{guarded, Report};
use maven_dependency_resolver::maven_pom::MavenPom;
use maven_dependency_resolver::resolver::Resolver;
use maven_dependency_resolver::{get_maven_dependencies, Downloader, FoundDependency};
use crate::coords::{g_found, of_coord, scope_idx, to_coord, ALL_SCOPES};
use crate::pomgen::*;
use crate::reference::{self, RFound, Ref};

struct Dl { map: HashMap<String, String>, calls: AtomicUsize, budget: usize }
impl Downloader for Dl {
	#[allow(clippy::manual_async_fn)]
	fn get_maven_pom(&self, url: &str) -> impl Future<Output = Result<Option<MavenPom>>> + Send {
		async move {
			if self.calls.fetch_add(1, Ordering::SeqCst) >= self.budget { bail!("download budget exhausted"); }
			self.map.get(url).map(|xml| serde_xml_rs::from_str(xml).context("maven pom")).transpose()
		}
	}
}

pub struct ImplAnswer { pub found: Result<Vec<(usize, ACoord, u8)>, String>, pub gallina: String, pub budget_hit: bool,
	/// print/parse round trip of every resolved dependency: failures, and (printed form as a Gallina case) samples
	pub roundtrip_failures: Vec<String>, pub prints: Vec<String>,
	/// the tie between the generated XML and the abstract POM could not be established for some document (a note for
	/// the evidence, not a failure of the property: the oracle still judges the crate's answer on the XML it was given)
	pub tie_notes: Vec<String>,
	/// a document of the universe that is meant to be undeserialisable deserialises: the universe is not what the
	/// generator meant and is skipped
	pub broken_document_parses: Option<String> }

/// serve the universe as XML and ask the crate
pub fn ask_impl(u: &Universe, budget: usize) -> Result<ImplAnswer> {
	// the crate walks parents, imports and dependencies recursively with no limiter of its own: should it ever kill the
	// process (stack overflow, endless loop past the download budget), `check` reports this universe as the failing input
	fbh::report::crumb(&format!("property C19 (get_maven_dependencies did not return: crash, stack overflow or endless loop; download budget {budget})\n{}", u.replay()));
	let mut map = HashMap::new();
	let mut tie_notes = vec![];
	let mut broken_document_parses = None;
	for (url, e) in u.url_map() {
		let xml = match &e { Entry::Pom(p) => pom_xml(p), Entry::Broken(x) => x.clone() };
		// the XML step is outside the model: check that the document deserialises to exactly the abstract POM
		let parsed: Result<MavenPom, _> = serde_xml_rs::from_str(&xml);
		match (&e, parsed) {
			(Entry::Pom(p), Ok(m)) => match serde_json::to_value(&m) {
				Ok(j) => { if !json_covers(&pom_json(p), &j) { tie_notes.push(format!("serde reads a generated document differently from the abstract POM given to the model:\n{xml}\nexpected (at least) {}\ngot {j}", pom_json(p))); } }
				Err(x) => tie_notes.push(format!("MavenPom does not serialise ({x}); XML tie unchecked")),
			},
			(Entry::Pom(p), Err(x)) => tie_notes.push(format!("a generated document does not deserialise ({x}); the model is given {}\n{xml}", pom_json(p))),
			(Entry::Broken(_), Ok(m)) => broken_document_parses = Some(format!("{xml}\n{m:?}")),
			(Entry::Broken(_), Err(_)) => {}
		}
		map.insert(url, xml);
	}
	let dl = Dl { map, calls: AtomicUsize::new(0), budget };
	let resolvers: Vec<Resolver> = u.repos.iter().map(|r| Resolver { name: r.name.clone().into(), maven: r.maven.clone().into() }).collect();
	let roots: Vec<_> = u.roots.iter().map(|(c, s)| (to_coord(c), ALL_SCOPES[*s as usize])).collect();
	let rt = tokio::runtime::Builder::new_current_thread().build()?;
	let rt_fail = std::cell::RefCell::new(vec![]);
	let prints = std::cell::RefCell::new(vec![]);
	let res = guarded(std::panic::AssertUnwindSafe(|| {
		rt.block_on(get_maven_dependencies(&dl, &resolvers, &roots)).map(|v: Vec<FoundDependency>| {
			let g = glist(v.iter().map(g_found));
			for d in &v {
				let text = format!("{d}");
				let want = FoundDependency { resolver: Resolver { name: d.resolver.maven.clone(), maven: d.resolver.maven.clone() }, coord: d.coord.clone(), scope: d.scope };
				match FoundDependency::try_from(text.as_str()) {
					Ok(b) if b == want => {}
					other => rt_fail.borrow_mut().push(format!("resolved dependency {d:?}\nprinted {text:?}\nparsed {other:?}")),
				}
				match maven_dependency_resolver::coord::MavenCoord::from_str(&format!("{}", d.coord)) {
					Ok(b) if b == d.coord => {}
					other => rt_fail.borrow_mut().push(format!("coordinate {:?}\nprinted {:?}\nparsed {other:?}", d.coord, format!("{}", d.coord))),
				}
				if prints.borrow().len() < 2 { prints.borrow_mut().push(format!("CFoundPrint {} {}", g_found(d), gs(&text))); }
			}
			let f: Vec<(usize, ACoord, u8)> = v.iter().map(|d| (resolvers.iter().position(|r| *r == d.resolver).unwrap_or(usize::MAX), of_coord(&d.coord), scope_idx(d.scope) as u8)).collect();
			(g, f)
		}).map_err(|e| format!("{e:#}"))
	}));
	let budget_hit = dl.calls.load(Ordering::SeqCst) > budget;
	let (roundtrip_failures, prints) = (rt_fail.into_inner(), prints.into_inner());
	Ok(match res {
		Err(p) => ImplAnswer { found: Err(format!("PANIC {p}")), gallina: "Err".into(), budget_hit, roundtrip_failures, prints, tie_notes, broken_document_parses },
		Ok(Err(e)) => ImplAnswer { found: Err(e), gallina: "Err".into(), budget_hit, roundtrip_failures, prints, tie_notes, broken_document_parses },
		Ok(Ok((g, f))) => ImplAnswer { found: Ok(f), gallina: format!("(Ok {g})"), budget_hit, roundtrip_failures, prints, tie_notes, broken_document_parses },
	})
}

pub fn case_text(u: &Universe, ans: &ImplAnswer) -> String {
	format!("CResolve {} {} {} {}", u.g_resolvers(), u.g_files(), u.g_roots(), ans.gallina)
}

fn show_found(u: &Universe, v: &[(usize, ACoord, u8)]) -> String {
	v.iter().map(|(r, c, s)| format!("  {}:{}:{}{}:{}:{} @ {}", c.group, c.artifact, c.type_, c.classifier.as_ref().map_or(String::new(), |k| format!(":{k}")), c.version, SCOPES[*s as usize],
		u.repos.get(*r).map_or("?".to_string(), |x| x.maven.clone()))).collect::<Vec<_>>().join("\n")
}

/// notes instead of harness errors: what could not be tied or had to be skipped; true when the universe is unusable
fn absorb(r: &mut Report, ans: &ImplAnswer) -> bool {
	for n in &ans.tie_notes {
		r.count("xml_tie_not_established");
		if r.notes.iter().filter(|x| x.starts_with("XML tie")).count() < 3 { r.notes.push(format!("XML tie: {n}")); }
	}
	if let Some(x) = &ans.broken_document_parses {
		r.count("skipped_broken_document_deserialises");
		if r.notes.iter().filter(|x| x.starts_with("skipped")).count() < 3 { r.notes.push(format!("skipped a universe: a document meant to be undeserialisable deserialises: {x}")); }
		return true;
	}
	false
}

/// compare with the documented rules; returns whether the case was non-trivial
fn oracle(r: &mut Report, u: &Universe, ans: &ImplAnswer, what: &str) -> bool {
	let (want, _, st) = reference::resolve_stats(u, 100_000, false);
	if st.conflict_equal_depth { r.count("graph_conflict_equal_depth"); }
	if st.conflict_different_depth { r.count("graph_conflict_different_depth"); }
	if st.diamond { r.count("graph_diamond_same_version"); }
	if st.pruned_subtree { r.count("graph_rival_with_subtree"); }
	// Outside the quantified subset: an imported BOM and an INHERITED managed entry fix different things for one
	// artifact.  The documentation does not rank them; the crate expands the import in place (import wins), Maven's
	// model builder assembles inheritance first (parent wins).  Such universes are classified, not judged.
	let (want_maven, _, _) = reference::resolve_stats(u, 100_000, true);
	if want != want_maven {
		r.count("import_vs_inherited_management_universes");
		let conv = |w: &Result<Vec<RFound>, ()>| -> Result<Vec<(usize, ACoord, u8)>, ()> { w.clone().map(|v| v.into_iter().map(|RFound { repo, coord, scope }| (repo, coord, scope)).collect()) };
		let got = ans.found.clone().map_err(|_| ());
		if got == conv(&want) { r.count("import_vs_inherited_management_crate_takes_the_import"); }
		else if got == conv(&want_maven) { r.count("import_vs_inherited_management_crate_takes_the_parent"); }
		else {
			r.violation(format!("{what}: an imported BOM and an inherited managed entry disagree, and get_maven_dependencies matches neither the in-place reading nor Maven's inheritance-first reading"),
				format!("property C19 ({what})\n{}crate answered:\n{}\nimport expanded in place:\n{}\ninheritance first:\n{}\n", u.replay(),
					ans.found.as_ref().map_or_else(|e| e.clone(), |v| show_found(u, v)), conv(&want).map_or("Err".into(), |v| show_found(u, &v)), conv(&want_maven).map_or("Err".into(), |v| show_found(u, &v))));
		}
		return ans.found.as_ref().map_or(false, |v| v.len() >= 2);
	}
	let want_t: Result<Vec<(usize, ACoord, u8)>, ()> = want.map(|v| v.into_iter().map(|RFound { repo, coord, scope }| (repo, coord, scope)).collect());
	for f in &ans.roundtrip_failures {
		r.violation(format!("{what}: a resolved dependency does not survive printing and re-parsing"), format!("property C19 ({what})\n{f}\n"));
	}
	if let Err(e) = &ans.found { if e.starts_with("PANIC") { r.violation(format!("get_maven_dependencies panicked: {e}"), format!("property C19 ({what})\n{}", u.replay())); return false; } }
	match (&ans.found, &want_t) {
		(Ok(got), Ok(want)) => {
			if got != want {
				r.violation(format!("{what}: get_maven_dependencies differs from Maven's documented rules (inheritance, BOM import, managed fill-in, optional/scope cut, scope table, nearest-wins mediation)"),
					format!("property C19 ({what})\n{}crate answered:\n{}\ndocumented rules give:\n{}\n", u.replay(), show_found(u, got), show_found(u, want)));
			}
			// no duplicates by (group, artifact, classifier, type)
			let mut ids: Vec<_> = got.iter().map(|(_, c, _)| reference::collision_id(c)).collect();
			let n = ids.len(); ids.sort(); ids.dedup();
			if ids.len() != n { r.violation(format!("{what}: the resolved list contains two versions of one artifact"), format!("property C19 ({what})\n{}crate answered:\n{}\n", u.replay(), show_found(u, got))); }
			got.len() >= 2
		}
		(Err(_), Err(())) => false,
		(Ok(got), Err(())) => { r.violation(format!("{what}: get_maven_dependencies succeeds although a needed POM is missing, unusable or incomplete"), format!("property C19 ({what})\n{}crate answered:\n{}\n", u.replay(), show_found(u, got))); false }
		(Err(e), Ok(want)) => { r.violation(format!("{what}: get_maven_dependencies fails ({e}) where the documented rules resolve"), format!("property C19 ({what})\n{}documented rules give:\n{}\n", u.replay(), show_found(u, want))); false }
	}
}

/// ranks of the documents: longest chain of references below their (group, artifact); None when cyclic
pub fn ranks(u: &Universe) -> Option<Vec<(String, u64)>> {
	use std::collections::{BTreeMap, BTreeSet};
	let mut refs: BTreeMap<(String, String), BTreeSet<(String, String)>> = BTreeMap::new();
	for r in u.repos.iter().chain(u.unlisted.iter()) { for ((g, a, _), e) in &r.files {
		let set = refs.entry((g.clone(), a.clone())).or_default();
		if let Entry::Pom(p) = e {
			if let Some((pg, pa, _)) = &p.parent { set.insert((pg.clone(), pa.clone())); }
			for d in p.dm.iter().chain(p.deps.iter()) { set.insert((d.group.clone(), d.artifact.clone())); }
		}
	} }
	fn rank(k: &(String, String), refs: &BTreeMap<(String, String), BTreeSet<(String, String)>>, memo: &mut BTreeMap<(String, String), Option<u64>>, depth: usize) -> Option<u64> {
		if depth > refs.len() + 1 { return None; }
		if let Some(x) = memo.get(k) { return *x; }
		let mut best = 0u64;
		if let Some(set) = refs.get(k) { for t in set { if refs.contains_key(t) { best = best.max(rank(t, refs, memo, depth + 1)? + 1); } } }
		memo.insert(k.clone(), Some(best));
		Some(best)
	}
	let mut memo = BTreeMap::new();
	let mut out = vec![];
	for r in u.repos.iter().chain(u.unlisted.iter()) { for ((g, a, v), _) in &r.files {
		let k = rank(&(g.clone(), a.clone()), &refs, &mut memo, 0)?;
		let url = pom_url(&r.maven, g, a, v);
		if !out.iter().any(|(x, _): &(String, u64)| *x == url) { out.push((url, k)); }
	} }
	Some(out)
}

// ---------- fixed universes ----------
fn dep(g: &str, a: &str, v: Option<&str>) -> ADep { ADep { group: g.into(), artifact: a.into(), version: v.map(|x| x.into()), type_: None, classifier: None, scope: None, optional: None } }
fn pom(g: &str, a: &str, v: &str) -> APom {
	APom { model_version: "4.0.0".into(), parent: None, group: Some(g.into()), artifact: a.into(), version: Some(v.into()), packaging: None, dm: vec![], deps: vec![], dm_empty_element: false, empty_lists: 0, xml_style: 0 }
}
fn coord(g: &str, a: &str, v: &str) -> ACoord { ACoord { group: g.into(), artifact: a.into(), version: v.into(), classifier: None, type_: "jar".into() } }
fn one_repo(files: Vec<APom>) -> Vec<Repo> {
	vec![Repo { name: "central".into(), maven: "r://c".into(), files: files.into_iter().map(|p| ((p.group.clone().unwrap(), p.artifact.clone(), p.version.clone().unwrap()), Entry::Pom(p))).collect() }]
}

pub fn scope_table_cases(r: &mut Report) -> Result<()> {
	// exhaustive: root scope x declared scope of the dependency (and the omitted scope)
	for left in 0..5u8 {
		for top in 0..6u8 {
			let mut a = pom("g", "a", "1");
			let mut d = dep("g", "b", Some("1"));
			d.scope = if top < 5 { Some(top) } else { None };
			a.deps.push(d);
			let u = Universe::new(one_repo(vec![a, pom("g", "b", "1")]), vec![(coord("g", "a", "1"), left)]);
			let ans = ask_impl(&u, 1000)?;
			if absorb(r, &ans) { continue; }
			let nt = oracle(r, &u, &ans, "scope table");
			r.eval(&format!("table {left} {top}"), nt);
			r.count("scope_table_universes");
			r.case("scope-table", case_text(&u, &ans));
		}
	}
	Ok(())
}

/// the examples of the Maven documentation (and of the crate's tests), as universes
pub fn documented_examples(r: &mut Report) -> Result<()> {
	let mut us: Vec<(&str, Universe)> = vec![];
	// A -> B -> C -> D 2.0 and A -> E -> D 1.0: D 1.0 wins
	let with = |p: APom, ds: Vec<ADep>| { let mut p = p; p.deps = ds; p };
	let files = vec![
		with(pom("g", "B", "1"), vec![dep("g", "C", Some("1"))]), with(pom("g", "C", "1"), vec![dep("g", "D", Some("2.0"))]),
		with(pom("g", "E", "1"), vec![dep("g", "D", Some("1.0"))]), pom("g", "D", "1.0"), pom("g", "D", "2.0"),
	];
	us.push(("mediation example", Universe::new(one_repo(files.clone()), vec![(coord("g", "B", "1"), 0), (coord("g", "E", "1"), 0)])));
	us.push(("mediation example with explicit D 2.0", Universe::new(one_repo(files.clone()), vec![(coord("g", "B", "1"), 0), (coord("g", "E", "1"), 0), (coord("g", "D", "2.0"), 0)])));
	// first declaration wins at equal depth
	let files2 = vec![with(pom("g", "B", "1"), vec![dep("g", "C", Some("1.0"))]), with(pom("g", "D", "1"), vec![dep("g", "C", Some("2.0"))]), pom("g", "C", "1.0"), pom("g", "C", "2.0")];
	us.push(("first declaration wins at equal depth", Universe::new(one_repo(files2), vec![(coord("g", "B", "1"), 0), (coord("g", "D", "1"), 0)])));
	// dependency management: parent A manages a 1.2, b 1.0; child B manages d... (Introduction to the Dependency Mechanism)
	let mut pa = pom("maven", "A", "1.0"); pa.packaging = Some("pom".into());
	let m = |a: &str, v: &str, sc: Option<u8>| { let mut d = dep("test", a, Some(v)); d.scope = sc; d };
	pa.dm = vec![m("a", "1.2", None), m("b", "1.0", Some(0)), m("c", "1.0", Some(0)), m("d", "1.2", None)];
	let mut pb = pom("maven", "B", "1.0"); pb.parent = Some(("maven".into(), "A".into(), "1.0".into()));
	pb.dm = vec![m("d", "1.0", None)];
	pb.deps = vec![m("a", "1.0", Some(1)), { let mut d = dep("test", "c", None); d.scope = Some(1); d }, dep("test", "d", None), dep("test", "b", None)];
	let fs = vec![pa.clone(), pb, pom("test", "a", "1.0"), pom("test", "b", "1.0"), pom("test", "c", "1.0"), pom("test", "d", "1.0")];
	us.push(("dependency management example", Universe::new(one_repo(fs), vec![(coord("maven", "B", "1.0"), 0)])));
	// importing: Z imports X and Y, both manage a; X first
	let bom = |name: &str, av: &str| { let mut p = pom("maven", name, "1.0"); p.packaging = Some("pom".into()); p.dm = vec![m("a", av, None), m(if name == "X" { "b" } else { "c" }, "1.0", Some(0))]; p };
	let imp = |name: &str| { let mut d = dep("maven", name, Some("1.0")); d.type_ = Some("pom".into()); d.scope = Some(IMPORT); d };
	let mut z = pom("maven", "Z", "1.0");
	z.dm = vec![imp("X"), imp("Y")];
	z.deps = vec![dep("test", "a", None), dep("test", "b", None), dep("test", "c", None)];
	let fs = vec![bom("X", "1.1"), bom("Y", "1.2"), z, pom("test", "a", "1.1"), pom("test", "a", "1.2"), pom("test", "b", "1.0"), pom("test", "c", "1.0")];
	us.push(("import example", Universe::new(one_repo(fs), vec![(coord("maven", "Z", "1.0"), 0)])));
	// a child's managed version applies to a dependency inherited from the parent
	let mut p = pom("g", "p", "1"); p.packaging = Some("pom".into()); p.dm = vec![dep("g", "x", Some("1"))]; p.deps = vec![dep("g", "x", None)];
	let mut c = pom("g", "c", "1"); c.parent = Some(("g".into(), "p".into(), "1".into())); c.dm = vec![dep("g", "x", Some("2"))];
	us.push(("child manages an inherited dependency", Universe::new(one_repo(vec![p, c, pom("g", "x", "1"), pom("g", "x", "2")]), vec![(coord("g", "c", "1"), 0)])));
	// a parent's managed entry against an imported BOM: parent manages x 1.0, the child imports a BOM managing x 2.0 and
	// depends on x without a version.  Outside the quantified subset (see `oracle`): classified, and noted.
	let mut par = pom("g", "par", "1"); par.packaging = Some("pom".into()); par.dm = vec![dep("g", "x", Some("1.0"))];
	let mut bom = pom("g", "bom", "1"); bom.packaging = Some("pom".into()); bom.dm = vec![dep("g", "x", Some("2.0"))];
	let mut ch = pom("g", "child", "1"); ch.parent = Some(("g".into(), "par".into(), "1".into()));
	ch.dm = vec![{ let mut d = dep("g", "bom", Some("1")); d.type_ = Some("pom".into()); d.scope = Some(IMPORT); d }]; ch.deps = vec![dep("g", "x", None)];
	us.push(("parent's managed entry against an imported BOM", Universe::new(one_repo(vec![par, bom, ch, pom("g", "x", "1.0"), pom("g", "x", "2.0")]), vec![(coord("g", "child", "1"), 0)])));
	// the same universes in realistic XML: namespace declarations, comments, white space, CDATA, reordered sections,
	// ignored elements (name, licenses, properties, build with plugin dependencies, ...), empty <dependencies/> elements
	let plain = us.clone();
	for k in 1..=4u64 {
		for (i, (what, u)) in plain.iter().enumerate() {
			let mut u = u.clone();
			for rp in u.repos.iter_mut() { for (j, (_, e)) in rp.files.iter_mut().enumerate() { if let Entry::Pom(p) = e {
				p.xml_style = (k * 1_000_003 + i as u64 * 131 + j as u64) | 1;
				if p.deps.is_empty() && (j as u64 + k) % 2 == 0 { p.empty_lists |= 1; }
				if p.dm.is_empty() && (j as u64 + k) % 3 == 0 { p.empty_lists |= 2; }
			} } }
			us.push((what, u));
		}
	}
	for (what, u) in us {
		let ans = ask_impl(&u, 10_000)?;
		if absorb(r, &ans) { continue; }
		if what.starts_with("parent's managed entry") {
			let x = ans.found.as_ref().ok().and_then(|v| v.iter().find(|(_, c, _)| c.artifact == "x").map(|(_, c, _)| c.version.clone()));
			let line = format!("parent manages g:x:1.0, child imports a BOM managing g:x:2.0 and depends on g:x without version: the crate resolves g:x:{} (Maven's model builder: 1.0, inheritance before import; in-place expansion: 2.0)", x.unwrap_or("?".into()));
			if !r.notes.contains(&line) { r.notes.push(line); }
		}
		let nt = oracle(r, &u, &ans, what);
		r.eval(&format!("doc {what} {}", u.replay()), nt);
		r.count("documented_examples");
		if u.repos.iter().flat_map(|x| x.files.iter()).any(|(_, e)| matches!(e, Entry::Pom(p) if p.xml_style != 0)) { r.count("documented_examples_realistic_xml"); }
		r.case("documented", case_text(&u, &ans));
	}
	Ok(())
}

/// what lies behind an edge that must be cut before it is looked at
const TARGETS: [&str; 7] = ["no document in any repository", "document only in a repository that is not among the resolvers", "document that does not deserialise",
	"document with modelVersion 3.0.0", "POM whose parent has no document", "POM with a dependency lacking a version", "POM whose parent is not pom-packaged"];
/// why the edge is cut
const CUTS: [&str; 9] = ["optional", "optional, scope runtime", "scope test", "scope provided", "scope system", "optional from dependencyManagement",
	"scope test from dependencyManagement", "optional from the parent's dependencyManagement", "scope provided from an imported BOM"];

/// puts the target of a dangling edge into the universe
fn add_target(target: usize, repos: &mut [Repo], unlisted: &mut Vec<Repo>, at: usize, g: &str, a: &str, v: &str) {
	let key = (g.to_string(), a.to_string(), v.to_string());
	match target {
		0 => {}
		1 => {
			if unlisted.is_empty() { unlisted.push(Repo { name: "unlisted".into(), maven: "r://unlisted/m2".into(), files: vec![] }); }
			unlisted[0].files.push((key, Entry::Pom(pom(g, a, v))));
		}
		2 => repos[at].files.push((key, Entry::Broken("<project><modelVersion>4.0.0</modelVersion><groupId>g</groupId></project>".into()))),
		3 => { let mut p = pom(g, a, v); p.model_version = "3.0.0".into(); repos[at].files.push((key, Entry::Pom(p))); }
		4 => { let mut p = pom(g, a, v); p.parent = Some((g.into(), format!("{a}-absent-parent"), "1".into())); repos[at].files.push((key, Entry::Pom(p))); }
		5 => { let mut p = pom(g, a, v); p.deps = vec![dep(g, &format!("{a}-unmanaged"), None)]; repos[at].files.push((key, Entry::Pom(p))); }
		_ => {
			let mut p = pom(g, a, v); p.parent = Some((g.into(), format!("{a}-jar-parent"), "1".into()));
			repos[at].files.push((key, Entry::Pom(p)));
			repos[at].files.push(((g.to_string(), format!("{a}-jar-parent"), "1".to_string()), Entry::Pom(pom(g, &format!("{a}-jar-parent"), "1"))));
		}
	}
}

/// "optional and non-transitive scopes are cut": the cut happens BEFORE the dependency is looked at, so what lies
/// behind a cut edge — nothing, an unusable document, a POM that cannot be completed — must not matter.
/// Every way of cutting x every kind of unusable target, on the root's POM and one level below; and as controls the
/// same targets behind an edge that is followed (resolution must fail).
pub fn cut_cases(r: &mut Report) -> Result<()> {
	for cut in 0..CUTS.len() + 1 {
		for target in 0..TARGETS.len() {
			for deep in [false, true] {
				let mut x = dep("gh", "x", Some("1"));
				let mut a = pom("g", "a", "1"); let mut b = pom("g", "b", "1"); let c = pom("g", "c", "1");
				let mut extra: Vec<APom> = vec![];
				let holder = if deep { &mut b } else { &mut a };
				match cut {
					0 => x.optional = Some(true),
					1 => { x.optional = Some(true); x.scope = Some(1); }
					2 => x.scope = Some(2),
					3 => x.scope = Some(4),
					4 => x.scope = Some(3),
					5 => { let mut m = dep("gh", "x", Some("1")); m.optional = Some(true); holder.dm.push(m); x.version = None; }
					6 => { let mut m = dep("gh", "x", Some("1")); m.scope = Some(2); holder.dm.push(m); }
					7 => {
						let mut p = pom("g", "par", "1"); p.packaging = Some("pom".into());
						let mut m = dep("gh", "x", Some("1")); m.optional = Some(true); p.dm.push(m); extra.push(p);
						holder.parent = Some(("g".into(), "par".into(), "1".into())); x.version = None;
					}
					8 => {
						let mut p = pom("g", "bom", "1"); p.packaging = Some("pom".into());
						let mut m = dep("gh", "x", Some("1")); m.scope = Some(4); p.dm.push(m); extra.push(p);
						let mut i = dep("g", "bom", Some("1")); i.type_ = Some("pom".into()); i.scope = Some(IMPORT); holder.dm.push(i); x.version = None;
					}
					_ => {} // control: the edge is followed
				}
				holder.deps.push(x);
				if deep { b.deps.push(dep("g", "c", Some("1"))); a.deps.push(dep("g", "b", Some("1"))); }
				else { a.deps.insert(0, dep("g", "b", Some("1"))); b.deps.push(dep("g", "c", Some("1"))); }
				let mut files = vec![a, b, c]; files.extend(extra);
				let mut repos = one_repo(files);
				repos.push(Repo { name: "second".into(), maven: "r://second/".into(), files: vec![] });
				let mut unlisted = vec![];
				add_target(target, &mut repos, &mut unlisted, (cut + target) % 2, "gh", "x", "1");
				let root_scope = ((cut + 2 * target + deep as usize) % 5) as u8;
				let mut u = Universe::new(repos, vec![(coord("g", "a", "1"), root_scope)]);
				u.unlisted = unlisted;
				let ans = ask_impl(&u, 10_000)?;
				if absorb(r, &ans) { continue; }
				let what = if cut < CUTS.len() { format!("cut before resolution ({}; behind the edge: {})", CUTS[cut], TARGETS[target]) } else { format!("followed edge ({})", TARGETS[target]) };
				let nt = oracle(r, &u, &ans, &what);
				r.eval(&format!("cut {cut} {target} {deep}"), nt);
				r.count(if cut < CUTS.len() { "cut_edge_universes" } else { "followed_edge_control_universes" });
				r.case("cut-before-resolution", case_text(&u, &ans));
			}
		}
	}
	Ok(())
}

/// Mediation across roots: plain POMs (no management, no parents), few artifacts in several versions, dense
/// dependencies, 2..4 roots that name different versions of artifacts which also occur deep inside other roots' trees —
/// winners inside one root's tree sit below nodes that lose against another root, rivals carry subtrees of their own.
pub fn mediation_cases(r: &mut Report, rng: &mut Rng, n: usize) -> Result<()> {
	// the seeded shape first: roots [a:1, l:2]; a:1 -> l:1 -> x:1 and a:1 -> m:1 -> n:1 -> x:2
	let with = |p: APom, ds: Vec<ADep>| { let mut p = p; p.deps = ds; p };
	let fixed = Universe::new(one_repo(vec![
		with(pom("g", "a", "1"), vec![dep("g", "l", Some("1")), dep("g", "m", Some("1"))]), with(pom("g", "l", "1"), vec![dep("g", "x", Some("1"))]), pom("g", "l", "2"),
		with(pom("g", "m", "1"), vec![dep("g", "n", Some("1"))]), with(pom("g", "n", "1"), vec![dep("g", "x", Some("2"))]), pom("g", "x", "1"), pom("g", "x", "2")]),
		vec![(coord("g", "a", "1"), 0), (coord("g", "l", "2"), 0)]);
	let mut i = 0;
	let mut attempts = 0;
	while i < n {
		attempts += 1;
		if attempts > 50 * n + 50 { bail!("mediation generator rejects too many universes"); }
		let u = if i == 0 { fixed.clone() } else {
			let nl = rng.range(3, 6);
			let nv: Vec<usize> = (0..nl).map(|_| rng.range(1, 3)).collect();
			let mut files = vec![];
			for a in 0..nl { for v in 0..nv[a] {
				let mut p = pom("g", &format!("m{a}"), &format!("{}", v + 1));
				if a + 1 < nl { for _ in 0..rng.below(4) {
					let b = rng.range(a + 1, nl - 1);
					let d = dep("g", &format!("m{b}"), Some(&format!("{}", rng.range(1, nv[b]))));
					if p.deps.iter().all(|x| x.artifact != d.artifact) { p.deps.push(d); }
				} }
				files.push(p);
			} }
			let mut roots = vec![];
			for _ in 0..rng.range(2, 4) { let a = if rng.chance(1, 2) { rng.below(2) } else { rng.below(nl) }; roots.push((coord("g", &format!("m{a}"), &format!("{}", rng.range(1, nv[a]))), *rng.pick(&[0u8, 0, 1]))); }
			let mut u = Universe::new(one_repo(files), roots);
			if rng.chance(2, 3) {
				// another version of something inside the first root's tree as a later root: that inner node loses, with its subtree
				let mut rf = Ref::new(&u);
				let mut count = 0;
				if let Ok(t) = rf.tree(&u.roots[0].0.clone(), 0, 0, &mut count, 300) {
					fn inner<'a>(n: &'a reference::RNode, depth: usize, out: &mut Vec<&'a ACoord>) { if depth >= 1 && !n.children.is_empty() { out.push(&n.coord); } for c in &n.children { inner(c, depth + 1, out); } }
					let mut cands = vec![]; inner(&t, 0, &mut cands);
					let cands: Vec<ACoord> = cands.into_iter().filter(|c| { let a: usize = c.artifact[1..].parse().unwrap(); nv[a] > 1 }).cloned().collect();
					if !cands.is_empty() {
						let c = rng.pick(&cands).clone();
						let a: usize = c.artifact[1..].parse().unwrap();
						let mut v = rng.range(1, nv[a]); if format!("{v}") == c.version { v = v % nv[a] + 1; }
						let k = u.roots.len() - 1;
						u.roots[k] = (coord("g", &c.artifact, &format!("{v}")), 0);
					}
				}
			}
			u
		};
		let (_, size, st) = reference::resolve_stats(&u, 300, false);
		if size > 300 { continue; }
		// keep the universes in which a rival with a subtree is discarded (the others are covered by the general stream)
		if i > 0 && !(st.pruned_subtree && (st.conflict_different_depth || st.conflict_equal_depth)) && rng.chance(4, 5) { continue; }
		let ans = ask_impl(&u, 100_000)?;
		if absorb(r, &ans) { continue; }
		let nt = oracle(r, &u, &ans, "mediation across roots");
		r.eval(&format!("mediation {} {}", u.g_files(), u.g_roots()), nt);
		r.count("mediation_universes");
		r.case("mediation", case_text(&u, &ans));
		i += 1;
	}
	Ok(())
}

/// (type, explicit classifier) of a dependency; the default handlers' table and the bundle plugin: which share a file
/// extension, which imply a classifier
pub const TYPE_SPECS: [(&str, Option<&str>); 16] = [("jar", None), ("ejb", None), ("maven-plugin", None), ("bundle", None), ("ejb-client", None), ("java-source", None),
	("javadoc", None), ("test-jar", None), ("jar", Some("sources")), ("jar", Some("client")), ("jar", Some("tests")), ("jar", Some("javadoc")), ("ejb", Some("client")),
	("war", None), ("pom", None), ("zip", None)];

/// "conflicting versions of one artifact (same group, artifact, classifier, type)": two dependencies on one
/// group:artifact with every pair of (type, classifier) — sharing the file extension or not, with equal or different
/// effective classifier — at equal and at different depth, each version with a subtree of its own
pub fn type_pair_cases(r: &mut Report) -> Result<()> {
	for (i, (t1, c1)) in TYPE_SPECS.iter().enumerate() {
		for (j, (t2, c2)) in TYPE_SPECS.iter().enumerate() {
			if (i + j) % 2 == 1 && i > j { continue; } // the ordered pairs matter (who is first); thin out the mirror images
			let mk = |t: &str, c: &Option<&str>, v: &str| { let mut d = dep("g", "lib", Some(v)); if t != "jar" || (i + j) % 3 == 0 { d.type_ = Some(t.into()); } d.classifier = c.map(|x| x.into()); d };
			let mut root = pom("g", "root", "1"); let mut mid = pom("g", "mid", "1");
			let mut l1 = pom("g", "lib", "1.0"); l1.deps = vec![dep("g", "under1", Some("1"))];
			let mut l2 = pom("g", "lib", "2.0"); l2.deps = vec![dep("g", "under2", Some("1"))];
			let same_depth = (i * 7 + j) % 3 == 0;
			if same_depth { root.deps = vec![mk(t1, c1, "1.0"), mk(t2, c2, "2.0"), dep("g", "mid", Some("1"))]; }
			else { root.deps = vec![dep("g", "mid", Some("1")), mk(t1, c1, "1.0")]; mid.deps = vec![mk(t2, c2, "2.0")]; }
			if i == j { // the same (type, classifier) twice in one list is not a POM Maven accepts: put the second one level down
				root.deps = vec![dep("g", "mid", Some("1")), mk(t1, c1, "1.0")]; mid.deps = vec![mk(t2, c2, "2.0")];
			}
			let _ = &mut l1; let _ = &mut l2;
			let u = Universe::new(one_repo(vec![root, mid, l1, l2, pom("g", "under1", "1"), pom("g", "under2", "1")]), vec![(coord("g", "root", "1"), ((i + j) % 2) as u8)]);
			let ans = ask_impl(&u, 10_000)?;
			if absorb(r, &ans) { continue; }
			let what = format!("two types of one artifact ({t1}{} and {t2}{})", c1.map_or(String::new(), |c| format!(" classifier {c:?}")), c2.map_or(String::new(), |c| format!(" classifier {c:?}")));
			let nt = oracle(r, &u, &ans, &what);
			r.eval(&format!("types {i} {j}"), nt);
			r.count("type_pair_universes");
			if let Ok(v) = &ans.found { r.count(if v.iter().filter(|(_, c, _)| c.artifact == "lib").count() == 2 { "type_pair_both_listed" } else { "type_pair_one_evicted" }); }
			r.case("type-pairs", case_text(&u, &ans));
		}
	}
	Ok(())
}

/// "managed versions and scopes fill in omitted ones": every subset of {version, scope, optional} DECLARED on the
/// dependency x every state of the management (no entry; an entry — own, inherited from the parent, or imported from a
/// BOM — that fixes the version and every subset of {scope, optional}) x value sets in which filling in / not filling in
/// each field is visible in the answer (which version and subtree, which scope, listed or cut), plus the same with a
/// typed dependency whose classifier is the type's default on one side and explicit on the other.
/// Judged field by field against the rule itself (declared wins, else managed, else default), and by the reference resolver.
pub fn fill_in_cases(r: &mut Report) -> Result<()> {
	const WHERE: [&str; 4] = ["no managed entry", "own dependencyManagement", "the parent's dependencyManagement", "an imported BOM"];
	for k in 0..3usize {
		let (dscope, mscope, dopt, mopt) = match k { 1 => (1u8, 2u8, true, false), _ => (0u8, 1u8, false, true) };
		for wh in 0..4usize {
			if k == 2 && wh > 1 { continue; }
			for m_mask in 0..4usize { // bit 0: the managed entry fixes a scope, bit 1: it fixes optional
				if wh == 0 && m_mask != 0 { continue; }
				for d_mask in 0..8usize { // bit 0: version declared, bit 1: scope declared, bit 2: optional declared
					let mut x = dep("g", "x", if d_mask & 1 != 0 { Some("1") } else { None });
					if d_mask & 2 != 0 { x.scope = Some(dscope); }
					if d_mask & 4 != 0 { x.optional = Some(dopt); }
					let mut m = dep("g", "x", Some("2"));
					if m_mask & 1 != 0 { m.scope = Some(mscope); }
					if m_mask & 2 != 0 { m.optional = Some(mopt); }
					if k == 2 { x.type_ = Some("test-jar".into()); m.type_ = Some("test-jar".into()); m.classifier = Some("tests".into()); }
					let mut a = pom("g", "a", "1");
					let mut extra: Vec<APom> = vec![];
					match wh {
						0 => {}
						1 => a.dm.push(m),
						2 => { let mut p = pom("g", "par", "1"); p.packaging = Some("pom".into()); p.dm.push(m); extra.push(p); a.parent = Some(("g".into(), "par".into(), "1".into())); }
						_ => {
							let mut p = pom("g", "bom", "1"); p.packaging = Some("pom".into()); p.dm.push(m); extra.push(p);
							let mut i = dep("g", "bom", Some("1")); i.type_ = Some("pom".into()); i.scope = Some(IMPORT); a.dm.push(i);
						}
					}
					a.deps.push(x);
					let mut x1 = pom("g", "x", "1"); x1.deps = vec![dep("g", "under1", Some("1"))];
					let mut x2 = pom("g", "x", "2"); x2.deps = vec![dep("g", "under2", Some("1"))];
					let mut files = vec![a, x1, x2, pom("g", "under1", "1"), pom("g", "under2", "1")]; files.extend(extra);
					let u = Universe::new(one_repo(files), vec![(coord("g", "a", "1"), 0)]);
					let ans = ask_impl(&u, 10_000)?;
					if absorb(r, &ans) { continue; }
					// the rule, field by field
					let managed = wh != 0;
					let eff_v: Option<&str> = if d_mask & 1 != 0 { Some("1") } else if managed { Some("2") } else { None };
					let eff_s: u8 = if d_mask & 2 != 0 { dscope } else if managed && m_mask & 1 != 0 { mscope } else { 0 };
					let eff_o: bool = if d_mask & 4 != 0 { dopt } else if managed && m_mask & 2 != 0 { mopt } else { false };
					let want: Result<Vec<(usize, ACoord, u8)>, ()> = match eff_v {
						None => Err(()),
						Some(v) => {
							let mut l = vec![(0usize, coord("g", "a", "1"), 0u8)];
							if !eff_o { if let Some(s) = reference::doc_scope_table(0, eff_s) {
								let mut cx = coord("g", "x", v);
								if k == 2 { cx.type_ = "test-jar".into(); cx.classifier = Some("tests".into()); }
								l.push((0, cx, s));
								l.push((0, coord("g", &format!("under{v}"), "1"), s));
							} }
							Ok(l)
						}
					};
					let what = format!("managed fill-in (declared: {}{}{}; managed by {}: version{}{})",
						if d_mask & 1 != 0 { "version " } else { "" }, if d_mask & 2 != 0 { "scope " } else { "" }, if d_mask & 4 != 0 { "optional" } else { "" },
						WHERE[wh], if managed && m_mask & 1 != 0 { " scope" } else { "" }, if managed && m_mask & 2 != 0 { " optional" } else { "" });
					let got = ans.found.clone().map_err(|_| ());
					if got != want {
						r.violation(format!("{what}: each of version, scope and optional must be the declared value, else the managed one, else the default — get_maven_dependencies answers otherwise"),
							format!("property C19 ({what})\n{}crate answered:\n{}\nthe rule gives (version {:?}, scope {}, optional {}):\n{}\n", u.replay(),
								ans.found.as_ref().map_or_else(|e| e.clone(), |v| show_found(&u, v)), eff_v, SCOPES[eff_s as usize], eff_o, want.as_ref().map_or("Err".into(), |v| show_found(&u, v))));
					}
					let nt = oracle(r, &u, &ans, &what);
					r.eval(&format!("fill {k} {wh} {m_mask} {d_mask}"), nt);
					r.count("fill_in_matrix_universes");
					r.count(&format!("fill_in_declared_{}{}{}", if d_mask & 1 != 0 { "v" } else { "-" }, if d_mask & 2 != 0 { "s" } else { "-" }, if d_mask & 4 != 0 { "o" } else { "-" }));
					r.case("fill-in-matrix", case_text(&u, &ans));
				}
			}
		}
	}
	Ok(())
}

/// "managed versions and scopes fill in omitted ones ... from parents and import-scoped BOMs": ONE artifact managed TWICE with
/// different values, for every pair of sources the effective dependency management is assembled from — the entry that comes
/// first in (own entries and imports in declaration order, then the parent's, then the grandparent's) supplies version, scope
/// and optional AS A WHOLE; nothing of the second entry may show.  x (pair of sources) x (which fields differ) x (the dependency is the POM's own / inherited
/// from the parent that also manages it).  Judged by the rule itself and by the reference resolver.
pub fn managed_twice_cases(r: &mut Report) -> Result<()> {
	const PAIRS: [&str; 7] = ["own entry before the parent's", "own entry before an imported BOM's", "first imported BOM before the second", "parent's entry before the grandparent's",
		"an imported BOM's own entry before the entry of the BOM's parent", "the parent's own entry before the BOM the parent imports", "a BOM imported by an imported BOM before the outer BOM's later import"];
	// (version, scope, optional) of the first and of the second entry
	let value_sets: [((&str, Option<u8>, Option<bool>), (&str, Option<u8>, Option<bool>), &str); 7] = [
		(("2", None, None), ("3", None, None), "versions differ"),
		(("2", Some(1), None), ("2", Some(2), None), "scopes differ (runtime / test)"),
		(("2", None, Some(false)), ("2", None, Some(true)), "optional differs"),
		(("2", None, None), ("3", Some(1), Some(true)), "the first fixes only the version, the second also scope and optional"),
		(("2", Some(1), Some(false)), ("3", Some(4), Some(true)), "everything differs"),
		(("3", Some(2), None), ("2", None, None), "the first cuts the dependency (scope test), the second would keep it"),
		(("2", Some(0), None), ("3", Some(1), None), "compile / runtime and versions"),
	];
	let ppom = |a: &str| { let mut p = pom("g", a, "1"); p.packaging = Some("pom".into()); p };
	let imp = |a: &str| { let mut d = dep("g", a, Some("1")); d.type_ = Some("pom".into()); d.scope = Some(IMPORT); d };
	for (pi, pair) in PAIRS.iter().enumerate() {
		for (vi, (first, second, differ)) in value_sets.iter().enumerate() {
			for inherited in [false, true] {
				// the dependency is inherited only where the POM has a parent to inherit it from
				if inherited && !matches!(pi, 0 | 3 | 5) { continue; }
				let entry = |v: &(&str, Option<u8>, Option<bool>)| { let mut m = dep("g", "x", Some(v.0)); m.scope = v.1; m.optional = v.2; m };
				let (m1, m2) = (entry(first), entry(second));
				let mut a = pom("g", "a", "1");
				let mut extra: Vec<APom> = vec![];
				let parent_of = |p: &mut APom, par: &str| p.parent = Some(("g".into(), par.into(), "1".into()));
				// an unrelated managed entry in front / behind, so that positions are not all 0
				let filler = |n: &str| dep("g", n, Some("9"));
				match pi {
					0 => { a.dm = vec![filler("f0"), m1]; let mut par = ppom("par"); par.dm = vec![m2, filler("f1")]; parent_of(&mut a, "par"); if inherited { par.deps.push(dep("g", "x", None)); } extra.push(par); }
					1 => { a.dm = vec![m1, imp("bom")]; let mut b = ppom("bom"); b.dm = vec![filler("f0"), m2]; extra.push(b); }
					2 => { a.dm = vec![imp("bom1"), imp("bom2")]; let mut b1 = ppom("bom1"); b1.dm = vec![m1]; let mut b2 = ppom("bom2"); b2.dm = vec![m2, filler("f1")]; extra.push(b1); extra.push(b2); }
					3 => { parent_of(&mut a, "par"); let mut par = ppom("par"); par.dm = vec![m1]; parent_of(&mut par, "gp"); let mut gp = ppom("gp"); gp.dm = vec![filler("f0"), m2]; if inherited { gp.deps.push(dep("g", "x", None)); } extra.push(par); extra.push(gp); }
					4 => { a.dm = vec![imp("bom")]; let mut b = ppom("bom"); b.dm = vec![m1]; parent_of(&mut b, "bp"); let mut bp = ppom("bp"); bp.dm = vec![m2]; extra.push(b); extra.push(bp); }
					5 => { parent_of(&mut a, "par"); let mut par = ppom("par"); par.dm = vec![m1, imp("bom")]; let mut b = ppom("bom"); b.dm = vec![m2]; if inherited { par.deps.push(dep("g", "x", None)); } extra.push(par); extra.push(b); }
					_ => { a.dm = vec![imp("outer")]; let mut o = ppom("outer"); o.dm = vec![imp("inner"), imp("late")]; let mut i = ppom("inner"); i.dm = vec![m1]; let mut l = ppom("late"); l.dm = vec![m2]; extra.push(o); extra.push(i); extra.push(l); }
				}
				if !inherited { a.deps.push(dep("g", "x", None)); }
				let mut files = vec![a];
				for v in ["2", "3"] { let mut x = pom("g", "x", v); x.deps = vec![dep("g", &format!("under{v}"), Some("1"))]; files.push(x); files.push(pom("g", &format!("under{v}"), "1")); }
				files.extend(extra);
				let u = Universe::new(one_repo(files), vec![(coord("g", "a", "1"), 0)]);
				let ans = ask_impl(&u, 10_000)?;
				if absorb(r, &ans) { continue; }
				// the rule: the FIRST entry, as a whole
				let (eff_v, eff_s, eff_o) = (first.0, first.1.unwrap_or(0), first.2.unwrap_or(false));
				let mut want = vec![(0usize, coord("g", "a", "1"), 0u8)];
				if !eff_o { if let Some(sc) = reference::doc_scope_table(0, eff_s) { want.push((0, coord("g", "x", eff_v), sc)); want.push((0, coord("g", &format!("under{eff_v}"), "1"), sc)); } }
				let what = format!("one artifact managed twice ({pair}; {differ}; the dependency is {})", if inherited { "inherited from the POM that declares the second entry's side" } else { "the POM's own" });
				if ans.found.clone().map_err(|_| ()) != Ok(want.clone()) {
					r.violation(format!("{what}: the first managed entry must supply version, scope and optional as a whole — get_maven_dependencies answers otherwise"),
						format!("property C19 ({what})\n{}crate answered:\n{}\nthe first entry (version {}, scope {:?}, optional {:?}) gives:\n{}\n", u.replay(),
							ans.found.as_ref().map_or_else(|e| e.clone(), |v| show_found(&u, v)), first.0, first.1.map(|s| SCOPES[s as usize]), first.2, show_found(&u, &want)));
				}
				let nt = oracle(r, &u, &ans, &what);
				r.eval(&format!("managed-twice {pi} {vi} {inherited}"), nt);
				r.count("managed_twice_universes");
				r.count(&format!("managed_twice_pair_{pi}"));
				r.case("managed-twice", case_text(&u, &ans));
			}
		}
	}
	Ok(())
}

/// "among conflicting versions of one artifact ... the occurrence nearest to the roots wins ..., its rivals' subtrees being
/// discarded": two (three) versions of ONE artifact whose POMs differ — other dependencies, another repository, another parent —
/// laid out so that depth-first, in declaration order, the LOSER is reached before the winner; likewise two versions of one
/// parent POM / of one BOM used by two different dependencies.  Everything listed must come from the winner's POM.
pub fn loser_first_cases(r: &mut Report) -> Result<()> {
	let with = |p: APom, ds: Vec<ADep>| { let mut p = p; p.deps = ds; p };
	let d = |a: &str, v: &str| dep("g", a, Some(v));
	let xs = |n: usize| -> Vec<APom> { (1..=n).flat_map(|v| vec![with(pom("g", "x", &format!("{v}")), vec![d(&format!("u{v}"), "1"), d("common", "1")]), pom("g", &format!("u{v}"), "1")]).chain(std::iter::once(pom("g", "common", "1"))).collect() };
	let mut us: Vec<(&str, Universe)> = vec![];
	// the loser deeper and earlier in one root's tree
	let mut f = vec![with(pom("g", "r", "1"), vec![d("m", "1"), d("x", "2")]), with(pom("g", "m", "1"), vec![d("x", "1")])]; f.extend(xs(2));
	us.push(("loser x:1 below the first dependency, winner x:2 declared directly afterwards", Universe::new(one_repo(f), vec![(coord("g", "r", "1"), 0)])));
	let mut f = vec![with(pom("g", "r", "1"), vec![d("m", "1"), d("q", "1")]), with(pom("g", "m", "1"), vec![d("n", "1")]), with(pom("g", "n", "1"), vec![d("x", "1")]), with(pom("g", "q", "1"), vec![d("x", "2")])]; f.extend(xs(2));
	us.push(("loser x:1 at depth 3 below the first dependency, winner x:2 at depth 2 below the second", Universe::new(one_repo(f), vec![(coord("g", "r", "1"), 1)])));
	// across roots
	let mut f = vec![with(pom("g", "r1", "1"), vec![d("m", "1")]), with(pom("g", "m", "1"), vec![d("x", "1")]), with(pom("g", "r2", "1"), vec![d("x", "2")])]; f.extend(xs(2));
	us.push(("loser x:1 deep below the first root, winner x:2 directly below the second root", Universe::new(one_repo(f.clone()), vec![(coord("g", "r1", "1"), 0), (coord("g", "r2", "1"), 0)])));
	us.push(("loser x:1 deep below the first root, winner x:2 is itself a later root", Universe::new(one_repo(f), vec![(coord("g", "r1", "1"), 0), (coord("g", "x", "2"), 1)])));
	// three versions, met in the order 1, 2, 3; the last one met wins
	let mut f = vec![with(pom("g", "r", "1"), vec![d("m", "1"), d("q", "1"), d("x", "3")]), with(pom("g", "m", "1"), vec![d("n", "1")]), with(pom("g", "n", "1"), vec![d("x", "1")]), with(pom("g", "q", "1"), vec![d("x", "2")])]; f.extend(xs(3));
	us.push(("three versions met in the order 1, 2, 3: the last one met is the nearest", Universe::new(one_repo(f), vec![(coord("g", "r", "1"), 0)])));
	// the versions live in different repositories
	{
		let a = vec![with(pom("g", "r", "1"), vec![d("m", "1"), d("x", "2")]), with(pom("g", "m", "1"), vec![d("x", "1")]), with(pom("g", "x", "1"), vec![d("u1", "1")]), pom("g", "u1", "1")];
		let b = vec![with(pom("g", "x", "2"), vec![d("u2", "1")]), pom("g", "u2", "1")];
		let mut repos = one_repo(a);
		repos.push(Repo { name: "second".into(), maven: "r://second/".into(), files: b.into_iter().map(|p| ((p.group.clone().unwrap(), p.artifact.clone(), p.version.clone().unwrap()), Entry::Pom(p))).collect() });
		us.push(("the loser's POM comes from the first repository, the winner's from the second", Universe::new(repos, vec![(coord("g", "r", "1"), 0)])));
	}
	// the winner's dependencies come through ITS parent and ITS management
	{
		let mut par1 = pom("g", "par", "1"); par1.packaging = Some("pom".into()); par1.dm = vec![d("y", "1")];
		let mut par2 = pom("g", "par", "2"); par2.packaging = Some("pom".into()); par2.dm = vec![d("y", "2")]; par2.deps = vec![d("extra", "1")];
		let mut x1 = pom("g", "x", "1"); x1.parent = Some(("g".into(), "par".into(), "1".into())); x1.deps = vec![dep("g", "y", None)];
		let mut x2 = pom("g", "x", "2"); x2.parent = Some(("g".into(), "par".into(), "2".into())); x2.deps = vec![dep("g", "y", None)];
		let f = vec![with(pom("g", "r", "1"), vec![d("m", "1"), d("x", "2")]), with(pom("g", "m", "1"), vec![d("x", "1")]), x1, x2, par1, par2, pom("g", "y", "1"), pom("g", "y", "2"), pom("g", "extra", "1")];
		us.push(("loser and winner have different versions of one parent, which manage y differently", Universe::new(one_repo(f), vec![(coord("g", "r", "1"), 0)])));
	}
	// two versions of one parent / of one BOM used by two different artifacts, the first one met must not serve the second
	{
		let mut par1 = pom("g", "par", "1"); par1.packaging = Some("pom".into()); par1.dm = vec![d("y", "1")]; par1.deps = vec![d("only1", "1")];
		let mut par2 = pom("g", "par", "2"); par2.packaging = Some("pom".into()); par2.dm = vec![d("y", "2")];
		let mut a = pom("g", "a", "1"); a.parent = Some(("g".into(), "par".into(), "1".into())); a.deps = vec![dep("g", "y", None)];
		let mut b = pom("g", "b", "1"); b.parent = Some(("g".into(), "par".into(), "2".into())); b.deps = vec![dep("g", "z", None)]; b.dm = vec![d("z", "1")];
		let f = vec![with(pom("g", "r", "1"), vec![d("a", "1"), d("b", "1")]), a, b, par1, par2, pom("g", "y", "1"), pom("g", "y", "2"), pom("g", "z", "1"), pom("g", "only1", "1")];
		us.push(("two dependencies inherit from two versions of one parent POM", Universe::new(one_repo(f), vec![(coord("g", "r", "1"), 0)])));
		let imp = |v: &str| { let mut i = dep("g", "bom", Some(v)); i.type_ = Some("pom".into()); i.scope = Some(IMPORT); i };
		let mut bom1 = pom("g", "bom", "1"); bom1.packaging = Some("pom".into()); bom1.dm = vec![d("y", "1")];
		let mut bom2 = pom("g", "bom", "2"); bom2.packaging = Some("pom".into()); bom2.dm = vec![d("y", "2")];
		let mut a = pom("g", "a", "1"); a.dm = vec![imp("1")]; a.deps = vec![dep("g", "y", None)];
		let mut b = pom("g", "b", "1"); b.dm = vec![imp("2")]; b.deps = vec![dep("g", "w", Some("1"))];
		let w = with(pom("g", "w", "1"), vec![]);
		let mut c = pom("g", "c", "1"); c.dm = vec![imp("2")]; c.deps = vec![dep("g", "y", None)];
		let f = vec![with(pom("g", "r", "1"), vec![d("a", "1"), d("b", "1")]), with(pom("g", "r2", "1"), vec![d("c", "1")]), a, b, c, w, bom1, bom2, pom("g", "y", "1"), pom("g", "y", "2")];
		us.push(("two POMs import two versions of one BOM (second root: y through BOM 2 after y:1 won)", Universe::new(one_repo(f.clone()), vec![(coord("g", "r", "1"), 0), (coord("g", "r2", "1"), 0)])));
		us.push(("two POMs import two versions of one BOM (BOM 2 first)", Universe::new(one_repo(f), vec![(coord("g", "r2", "1"), 0), (coord("g", "r", "1"), 0)])));
	}
	for (what, u) in us {
		let ans = ask_impl(&u, 10_000)?;
		if absorb(r, &ans) { continue; }
		let nt = oracle(r, &u, &ans, &format!("loser met first depth-first: {what}"));
		r.eval(&format!("loser-first {what}"), nt);
		r.count("loser_first_universes");
		r.case("loser-first", case_text(&u, &ans));
	}
	Ok(())
}

/// "several repositories serving different artifacts": the FIRST repository, in the given order, that has a document for a
/// coordinate decides — its POM is used and it is the repository recorded; a document that is there but unusable (wrong
/// modelVersion, not deserialisable) is an error, NOT a reason to ask the next repository; only an absent document is.
/// Every combination of what the first and the second repository hold for one artifact (nothing / a good POM / another
/// good POM with other content / modelVersion 4.1.0 / broken XML) x where that artifact is needed (root, dependency, parent,
/// imported BOM), behind an empty repository or not.
pub fn repo_order_cases(r: &mut Report) -> Result<()> {
	const HOLDS: [&str; 4] = ["nothing", "a usable POM", "a POM with modelVersion 4.1.0", "a document that does not deserialise"];
	const NEEDED: [&str; 4] = ["as a root", "as a dependency", "as the parent of the root", "as a BOM the root imports"];
	for first in 0..4usize { for second in 0..4usize { for pos in 0..4usize { for lead_empty in [false, true] {
		if lead_empty && (first + second + pos) % 3 != 0 { continue; }
		// the document of g:t:1 in repository `which` (0 = first, 1 = second): the two good POMs differ in what they bring
		let doc = |kind: usize, which: usize| -> Option<Entry> {
			let tag = if which == 0 { "a" } else { "b" };
			match kind {
				0 => None,
				1 | 2 => {
					let mut t = pom("g", "t", "1");
					if pos >= 2 { t.packaging = Some("pom".into()); }
					match pos { 3 => t.dm = vec![dep("g", "y", Some(if which == 0 { "1" } else { "2" }))], _ => t.deps = vec![dep("g", &format!("u{tag}"), Some("1"))] }
					if kind == 2 { t.model_version = "4.1.0".into(); }
					Some(Entry::Pom(t))
				}
				_ => Some(Entry::Broken("<project><modelVersion>4.0.0</modelVersion><groupId>g</groupId></project>".into())),
			}
		};
		let mut root = pom("g", "r", "1");
		match pos {
			0 => {}
			1 => root.deps = vec![dep("g", "t", Some("1"))],
			2 => root.parent = Some(("g".into(), "t".into(), "1".into())),
			_ => { let mut i = dep("g", "t", Some("1")); i.type_ = Some("pom".into()); i.scope = Some(IMPORT); root.dm = vec![i]; root.deps = vec![dep("g", "y", None)]; }
		}
		let key = |p: &APom| (p.group.clone().unwrap(), p.artifact.clone(), p.version.clone().unwrap());
		let mut f0: Vec<((String, String, String), Entry)> = vec![];
		let mut f1: Vec<((String, String, String), Entry)> = vec![];
		// everything else lives in the second repository only (so the recorded repository of t tells the two apart)
		for p in [root, pom("g", "ua", "1"), pom("g", "ub", "1"), pom("g", "y", "1"), pom("g", "y", "2")] { f1.push((key(&p), Entry::Pom(p))); }
		if let Some(e) = doc(first, 0) { f0.push((("g".into(), "t".into(), "1".into()), e)); }
		if let Some(e) = doc(second, 1) { f1.push((("g".into(), "t".into(), "1".into()), e)); }
		let mut repos = vec![];
		if lead_empty { repos.push(Repo { name: "empty".into(), maven: "r://empty/".into(), files: vec![] }); }
		repos.push(Repo { name: "first".into(), maven: "r://first".into(), files: f0 });
		repos.push(Repo { name: "second".into(), maven: "r://second/".into(), files: f1 });
		let roots = if pos == 0 { vec![(coord("g", "t", "1"), 0)] } else { vec![(coord("g", "r", "1"), 0)] };
		let u = Universe::new(repos, roots);
		let ans = ask_impl(&u, 10_000)?;
		if absorb(r, &ans) { continue; }
		let what = format!("repository order: g:t:1 needed {}; the first repository holds {}, the second {}", NEEDED[pos], HOLDS[first], HOLDS[second]);
		// the rule, spelled out for the verdict Ok / error: the first repository holding ANY document decides
		let decisive = if first != 0 { first } else { second };
		let must_fail = decisive != 1;
		if must_fail != ans.found.is_err() {
			r.violation(format!("{what}: resolution must {} (an unusable document is an error, only an absent one lets the next repository answer)", if must_fail { "fail" } else { "succeed" }),
				format!("property C19 ({what})\n{}crate answered:\n{}\n", u.replay(), ans.found.as_ref().map_or_else(|e| e.clone(), |v| show_found(&u, v))));
		}
		let nt = oracle(r, &u, &ans, &what);
		r.eval(&format!("repo-order {first} {second} {pos} {lead_empty}"), nt);
		r.count("repo_order_universes");
		r.case("repo-order", case_text(&u, &ans));
	} } } }
	Ok(())
}

/// Cyclic universes (outside the property's quantifier; compared with the model only, which runs out of fuel): the
/// crate has no recursion limiter, so every cycle that is actually walked ends only at the Downloader's budget. Cycles
/// through dependencies, parents and imports, of length 1 and 2 — and cycles that close only through an edge that is
/// cut before resolution (optional / non-transitive scope), which are harmless and must resolve.
pub fn cyclic_cases(r: &mut Report) -> Result<()> {
	let with = |p: APom, ds: Vec<ADep>| { let mut p = p; p.deps = ds; p };
	let ppom = |a: &str, parent: &str| { let mut p = pom("g", a, "1"); p.packaging = Some("pom".into()); p.parent = Some(("g".into(), parent.into(), "1".into())); p };
	let imp = |a: &str| { let mut d = dep("g", a, Some("1")); d.type_ = Some("pom".into()); d.scope = Some(IMPORT); d };
	let ipom = |a: &str, target: &str| { let mut p = pom("g", a, "1"); p.packaging = Some("pom".into()); p.dm = vec![imp(target)]; p };
	let cut = |a: &str, how: usize| { let mut d = dep("g", a, Some("1")); match how { 0 => d.optional = Some(true), 1 => d.scope = Some(2), _ => d.scope = Some(4) }; d };
	let mut us: Vec<(&str, bool, Universe)> = vec![
		("a POM depending on itself", true, Universe::new(one_repo(vec![with(pom("g", "a", "1"), vec![dep("g", "a", Some("1"))])]), vec![(coord("g", "a", "1"), 0)])),
		("a -> b -> a", true, Universe::new(one_repo(vec![with(pom("g", "a", "1"), vec![dep("g", "b", Some("1"))]), with(pom("g", "b", "1"), vec![dep("g", "a", Some("1"))])]), vec![(coord("g", "a", "1"), 1)])),
		("a -> b -> c -> a below an acyclic first root", true, Universe::new(one_repo(vec![pom("g", "z", "1"), with(pom("g", "a", "1"), vec![dep("g", "b", Some("1"))]), with(pom("g", "b", "1"), vec![dep("g", "z", Some("1")), dep("g", "c", Some("1"))]), with(pom("g", "c", "1"), vec![dep("g", "a", Some("1"))])]), vec![(coord("g", "z", "1"), 0), (coord("g", "a", "1"), 0)])),
		("a POM that is its own parent", true, Universe::new(one_repo(vec![ppom("a", "a")]), vec![(coord("g", "a", "1"), 0)])),
		("parents a <- b <- a", true, Universe::new(one_repo(vec![ppom("a", "b"), ppom("b", "a")]), vec![(coord("g", "a", "1"), 0)])),
		("a POM importing itself", true, Universe::new(one_repo(vec![ipom("a", "a")]), vec![(coord("g", "a", "1"), 0)])),
		("imports a -> b -> a", true, Universe::new(one_repo(vec![ipom("a", "b"), ipom("b", "a")]), vec![(coord("g", "a", "1"), 0)])),
		("a dependency whose parent imports the dependent", true, Universe::new(one_repo(vec![with(pom("g", "a", "1"), vec![dep("g", "b", Some("1"))]), { let mut b = pom("g", "b", "1"); b.parent = Some(("g".into(), "p".into(), "1".into())); b }, ipom("p", "a")]), vec![(coord("g", "a", "1"), 0)])),
	];
	for how in 0..3usize {
		us.push(("a cycle closed only by an edge that is cut (self)", false, Universe::new(one_repo(vec![with(pom("g", "a", "1"), vec![cut("a", how)])]), vec![(coord("g", "a", "1"), 0)])));
		us.push(("a cycle closed only by an edge that is cut (a -> b -/-> a)", false, Universe::new(one_repo(vec![with(pom("g", "a", "1"), vec![dep("g", "b", Some("1"))]), with(pom("g", "b", "1"), vec![cut("a", how)])]), vec![(coord("g", "a", "1"), 0)])));
	}
	for (what, walked, u) in us {
		let ans = ask_impl(&u, 400)?;
		if absorb(r, &ans) { continue; }
		match (&ans.found, walked) {
			(Err(e), true) if e.starts_with("PANIC") => r.violation(format!("cyclic universe ({what}): get_maven_dependencies panicked: {e}"), format!("property C19 (cyclic universe: {what})\n{}", u.replay())),
			(Err(_), true) => { r.count(if ans.budget_hit { "cyclic_fixed_stopped_by_download_budget" } else { "cyclic_fixed_error_before_budget" }); }
			(Ok(v), true) => { r.count("cyclic_fixed_resolved"); r.notes.push(format!("cyclic universe ({what}) resolved to {} entries", v.len())); }
			(_, false) => {
				// nothing is asked of a cut edge, so the cycle is never walked: inside the rules, judged by the oracle
				let _ = oracle(r, &u, &ans, &format!("cycle behind a cut edge: {what}"));
				r.count("cycle_behind_cut_edge_universes");
			}
		}
		r.eval(&format!("cyclic {what} {}", u.g_files()), false);
		r.count("cyclic_fixed_universes");
		r.case("cyclic-fixed", case_text(&u, &ans));
	}
	Ok(())
}

/// small universes at the edges of the input space: no repositories, no roots, a root listed twice (same and different
/// scope: the first occurrence wins), a root that is also a dependency of an earlier / later root, a repository list in
/// which the first serving repository comes last
pub fn edge_cases(r: &mut Report) -> Result<()> {
	let with = |p: APom, ds: Vec<ADep>| { let mut p = p; p.deps = ds; p };
	let files = vec![with(pom("g", "a", "1"), vec![dep("g", "b", Some("1"))]), with(pom("g", "b", "1"), vec![dep("g", "c", Some("1"))]), pom("g", "c", "1"), pom("g", "c", "2")];
	let base = |roots: Vec<(ACoord, u8)>| Universe::new(one_repo(files.clone()), roots);
	let mut us: Vec<(&str, Universe)> = vec![
		("no roots", base(vec![])),
		("no repositories, no roots", Universe::new(vec![], vec![])),
		("no repositories, one root", Universe::new(vec![], vec![(coord("g", "a", "1"), 0)])),
		("a root listed twice", base(vec![(coord("g", "a", "1"), 0), (coord("g", "a", "1"), 0)])),
		("a root listed twice with different scopes", base(vec![(coord("g", "a", "1"), 1), (coord("g", "a", "1"), 0)])),
		("a root that is a dependency of an earlier root", base(vec![(coord("g", "a", "1"), 0), (coord("g", "b", "1"), 2)])),
		("a root that is a dependency of a later root", base(vec![(coord("g", "c", "2"), 4), (coord("g", "a", "1"), 0)])),
		("another version of a deep dependency as a later root", base(vec![(coord("g", "a", "1"), 0), (coord("g", "c", "2"), 3)])),
	];
	let mut three = vec![Repo { name: "empty".into(), maven: "r://e".into(), files: vec![] }, Repo { name: "also empty".into(), maven: "r://e2/".into(), files: vec![] }];
	three.extend(one_repo(files.clone()));
	us.push(("the serving repository is the last of three", Universe::new(three, vec![(coord("g", "a", "1"), 0)])));
	for (what, u) in us {
		let ans = ask_impl(&u, 10_000)?;
		if absorb(r, &ans) { continue; }
		let nt = oracle(r, &u, &ans, what);
		r.eval(&format!("edge {what}"), nt);
		r.count("edge_case_universes");
		r.case("edge-cases", case_text(&u, &ans));
	}
	Ok(())
}

// ---------- generator ----------
#[derive(Clone, Copy, PartialEq, Debug)]
pub enum Stream { Valid, Errors, ImportFirst, Redeclare, Cyclic, BrokenXml }

#[derive(Clone, Copy, PartialEq)]
enum Kind { Jar, Parent, Bom }
struct Lib { group: String, artifact: String, kind: Kind, versions: Vec<String> }

const GROUPS: [&str; 5] = ["g", "org.ex", "com.ex.lib", "io", "ünï.cöde"];
const VERSIONS: [&str; 14] = ["1", "1.0", "2.0", "2.1", "3.0-SNAPSHOT", "1.5-20230713.025619-3", "0.9-beta", "1.0-20230713.02561-3",
	"1.0-20230713.025619-", "1-2-20230713.025619-77", "-20230713.025619-1", "1.0-\u{ff12}\u{ff10}230713.025619-1", "\u{4e00}.0", "1.0-20230713.025619-\u{0663}"];
const TYPES: [(&str, Option<&str>); 16] = [("test-jar", None), ("jar", Some("sources")), ("javadoc", None), ("war", None), ("test-jar", Some("tests")), ("jar", Some("")), ("zip", Some("dist")),
	("ejb", None), ("maven-plugin", None), ("bundle", None), ("java-source", None), ("ejb-client", None), ("jar", Some("client")), ("jar", Some("tests")), ("ejb", Some("client")), ("jar", Some("javadoc"))];

fn key_of(d: &ADep) -> (String, String, Option<String>, String) {
	let t = d.type_.clone().unwrap_or_else(|| "jar".into());
	let c = d.classifier.clone().or_else(|| reference::default_classifier(&t).map(|x| x.to_string()));
	(d.group.clone(), d.artifact.clone(), c, t)
}

pub fn gen_universe(rng: &mut Rng, stream: Stream) -> Universe {
	let nl = rng.range(2, 7);
	let mut libs: Vec<Lib> = vec![];
	for i in 0..nl {
		// the last libraries are the ones everybody may refer to; make a few of them parents/BOMs
		let kind = if i > 0 && rng.chance(1, 4) { Kind::Parent } else if i > 0 && rng.chance(1, 4) { Kind::Bom } else { Kind::Jar };
		let nv = if kind == Kind::Jar { rng.range(1, 3) } else { rng.range(1, 2) };
		let mut versions: Vec<String> = vec![];
		while versions.len() < nv { let v = rng.pick(&VERSIONS).to_string(); if !versions.contains(&v) { versions.push(v); } }
		libs.push(Lib { group: rng.pick(&GROUPS).to_string(), artifact: format!("{}{i}", rng.pick(&["a", "lib-", "x_", "\u{e4}", "\u{5e93}-", "\u{1f600}"])), kind, versions });
	}
	let nr = rng.range(1, 3);
	let mut repos: Vec<Repo> = (0..nr).map(|i| Repo { name: format!("repo{i}"), maven: rng.pick(&["r://a", "r://b/", "https://m.ex/m2", "file:///m2/"]).to_string() + &format!("{i}") + if rng.chance(1, 3) { "/" } else { "" }, files: vec![] }).collect();
	// where each (library, version) lives
	let mut home: HashMap<(usize, usize), usize> = HashMap::new();
	for (i, l) in libs.iter().enumerate() { for j in 0..l.versions.len() { home.insert((i, j), rng.below(nr)); } }

	let mut unlisted: Vec<Repo> = vec![];
	let mut ghosts = 0usize;
	let mut dangling = 0usize;
	// generate from the highest rank down, so that everything a POM refers to already exists
	for i in (0..nl).rev() {
		for j in 0..libs[i].versions.len() {
			let u_so_far = Universe::new(repos.clone(), vec![]);
			let mut rf = Ref::new(&u_so_far);
			let l = &libs[i];
			let mut p = APom { model_version: "4.0.0".into(), parent: None, group: Some(l.group.clone()), artifact: l.artifact.clone(), version: Some(l.versions[j].clone()),
				packaging: match l.kind { Kind::Jar => match rng.below(10) { 0 => Some("jar".into()), 1 => Some("bundle".into()), 2 => Some("war".into()), 3 => Some("custom-pack".into()), 4 => Some("ejb".into()), _ => None }, _ => Some("pom".into()) },
				dm: vec![], deps: vec![], dm_empty_element: rng.chance(1, 10), empty_lists: 0, xml_style: if rng.chance(1, 3) { rng.next() | 1 } else { 0 } };
			let higher: Vec<usize> = ((i + 1)..nl).collect();
			let pick_ver = |rng: &mut Rng, k: usize, libs: &Vec<Lib>| -> String { rng.pick(&libs[k].versions).clone() };
			// parent
			let parents: Vec<usize> = higher.iter().copied().filter(|k| libs[*k].kind == Kind::Parent).collect();
			let mut parent_eff = None;
			if !parents.is_empty() && rng.chance(2, 5) {
				let k = *rng.pick(&parents);
				let v = pick_ver(rng, k, &libs);
				parent_eff = rf.effective(&libs[k].group, &libs[k].artifact, &v, 0).ok().map(|x| x.1);
				p.parent = Some((libs[k].group.clone(), libs[k].artifact.clone(), v));
				if rng.chance(1, 2) { p.group = None; }
				if rng.chance(1, 3) { p.version = None; }
			} else if stream == Stream::Errors && rng.chance(1, 12) && !higher.is_empty() {
				let k = *rng.pick(&higher); // possibly a parent that is not pom-packaged
				let v = pick_ver(rng, k, &libs);
				p.parent = Some((libs[k].group.clone(), libs[k].artifact.clone(), v));
			}
			if stream == Stream::Errors && rng.chance(1, 25) { if rng.chance(1, 2) { p.group = None; } else { p.version = None; } }
			if stream == Stream::Errors && rng.chance(1, 40) { p.model_version = rng.pick(&["4.0", "4.1.0", ""]).to_string(); }
			// dependency management
			if !higher.is_empty() {
				for _ in 0..rng.below(4) {
					let k = *rng.pick(&higher);
					let mut d = dep(&libs[k].group, &libs[k].artifact, Some(&pick_ver(rng, k, &libs)));
					if rng.chance(1, 5) { let (t, c) = *rng.pick(&TYPES); d.type_ = Some(t.into()); d.classifier = c.map(|x| x.into()); }
					if rng.chance(1, 3) { d.scope = Some(rng.below(5) as u8); }
					if rng.chance(1, 6) { d.optional = Some(rng.chance(1, 2)); }
					if stream == Stream::Errors && rng.chance(1, 20) { d.version = None; }
					if p.dm.iter().all(|x| key_of(x) != key_of(&d)) { p.dm.push(d); }
				}
				let boms: Vec<usize> = higher.iter().copied().filter(|k| libs[*k].kind != Kind::Jar).collect();
				if !boms.is_empty() {
					for _ in 0..rng.below(3) {
						let k = *rng.pick(&boms);
						let mut d = dep(&libs[k].group, &libs[k].artifact, Some(&pick_ver(rng, k, &libs)));
						d.type_ = Some("pom".into()); d.scope = Some(IMPORT);
						if stream == Stream::ImportFirst { let at = rng.below(p.dm.len() + 1); p.dm.insert(at, d); } else { p.dm.push(d); }
					}
				}
			}
			// what the POM manages, to decide which versions may be omitted
			let mut probe = p.clone(); probe.deps.clear();
			let managed: Vec<reference::RDone> = {
				let mut tmp = repos.clone();
				tmp[0].files.insert(0, (("\u{0}probe".into(), "probe".into(), "0".into()), Entry::Pom(probe)));
				let tu = Universe::new(tmp, vec![]);
				let mut r2 = Ref::new(&tu);
				r2.effective("\u{0}probe", "probe", "0", 0).ok().map_or(vec![], |x| x.1.dm)
			};
			let inherited: Vec<_> = parent_eff.as_ref().map_or(vec![], |pe| pe.declared.iter().map(key_of).collect());
			// dependencies
			if !higher.is_empty() {
				let nd = match rng.below(8) { 0 => 0, 1 => 1, 2 | 3 => 2, 4 | 5 => 3, 6 => 4, _ => 5 };
				for _ in 0..nd {
					let mut d;
					if !managed.is_empty() && rng.chance(2, 5) {
						let m = rng.pick(&managed);
						d = dep(&m.coord.group, &m.coord.artifact, Some(&m.coord.version));
						if m.coord.type_ != "jar" { d.type_ = Some(m.coord.type_.clone()); }
						if m.coord.classifier.as_deref() != reference::default_classifier(&m.coord.type_) { d.classifier = m.coord.classifier.clone(); }
						if rng.chance(1, 4) { // explicit version wins over the managed one
							if let Some(k) = libs.iter().position(|l| l.group == m.coord.group && l.artifact == m.coord.artifact) { d.version = Some(pick_ver(rng, k, &libs)); }
						}
					} else {
						let jars: Vec<usize> = higher.iter().copied().filter(|k| libs[*k].kind == Kind::Jar || rng.chance(1, 6)).collect();
						if jars.is_empty() { continue; }
						let k = *rng.pick(&jars);
						d = dep(&libs[k].group, &libs[k].artifact, Some(&pick_ver(rng, k, &libs)));
						if rng.chance(1, 8) { let (t, c) = *rng.pick(&TYPES); d.type_ = Some(t.into()); d.classifier = c.map(|x| x.into()); }
					}
					let is_managed = managed.iter().any(|m| reference::collision_id(&m.coord) == key_of(&d));
					if is_managed && rng.chance(3, 5) { d.version = None; }
					if stream == Stream::Errors && rng.chance(1, 15) { if rng.chance(1, 2) { d.version = None; } else { d.version = Some("9.9-missing".into()); } }
					if rng.chance(1, 2) { d.scope = Some(match rng.below(10) { 0..=3 => 0, 4 | 5 => 1, 6 => 2, 7 => 3, _ => 4 }); }
					if rng.chance(1, 5) { d.optional = Some(rng.chance(3, 5)); }
					let k = key_of(&d);
					if p.deps.iter().any(|x| key_of(x) == k) { continue; }
					if inherited.contains(&k) && stream != Stream::Redeclare { continue; }
					p.deps.push(d);
				}
				if stream == Stream::Redeclare && !inherited.is_empty() && rng.chance(2, 3) {
					let pe = parent_eff.as_ref().unwrap();
					let mut d = rng.pick(&pe.declared).clone();
					if let Some(k) = libs.iter().position(|l| l.group == d.group && l.artifact == d.artifact) { d.version = Some(pick_ver(rng, k, &libs)); }
					if p.deps.iter().all(|x| key_of(x) != key_of(&d)) { p.deps.push(d); }
				}
			}
			// the same artifact once more under another type: different artifacts for Maven unless type AND classifier agree
			if !p.deps.is_empty() && rng.chance(1, 5) {
				let mut d = rng.pick(&p.deps).clone();
				if let Some(k) = libs.iter().position(|l| l.group == d.group && l.artifact == d.artifact) {
					let (t, c) = *rng.pick(&TYPE_SPECS);
					d.type_ = if t == "jar" && rng.chance(1, 2) { None } else { Some(t.into()) }; d.classifier = c.map(|x| x.into());
					d.version = Some(pick_ver(rng, k, &libs));
					let kd = key_of(&d);
					if p.deps.iter().all(|x| key_of(x) != kd) && (!inherited.contains(&kd) || stream == Stream::Redeclare) { let at = rng.below(p.deps.len() + 1); p.deps.insert(at, d); }
				}
			}
			// edges that must be cut before anybody looks behind them: optional / non-transitive scope (declared or
			// managed), pointing at something that cannot be resolved
			if rng.chance(1, 4) {
				for _ in 0..rng.range(1, 2) {
					ghosts += 1;
					let (gg, ga, gv) = ("gh.ost".to_string(), format!("x{ghosts}"), rng.pick(&VERSIONS).to_string());
					let at = rng.below(nr);
					add_target(rng.below(TARGETS.len()), &mut repos, &mut unlisted, at, &gg, &ga, &gv);
					let mut d = dep(&gg, &ga, Some(&gv));
					match rng.below(8) {
						0 => d.optional = Some(true),
						1 => { d.optional = Some(true); d.scope = Some(*rng.pick(&[0u8, 1])); }
						2 | 3 => d.scope = Some(2),
						4 => d.scope = Some(4),
						5 => d.scope = Some(3),
						6 => { let mut m = dep(&gg, &ga, Some(&gv)); m.optional = Some(true); if rng.chance(1, 2) { m.scope = Some(1); } p.dm.insert(0, m); if rng.chance(1, 2) { d.version = None; } }
						_ => { let mut m = dep(&gg, &ga, Some(&gv)); m.scope = Some(*rng.pick(&[2u8, 3, 4])); p.dm.insert(0, m); d.version = None; }
					}
					let pos = rng.below(p.deps.len() + 1); p.deps.insert(pos, d);
					dangling += 1;
				}
			}
			if p.deps.is_empty() && rng.chance(1, 4) { p.empty_lists |= 1; }
			if p.dm.is_empty() && rng.chance(1, 8) { p.empty_lists |= 2; }
			let key = (l.group.clone(), l.artifact.clone(), l.versions[j].clone());
			let h = home[&(i, j)];
			repos[h].files.push((key.clone(), Entry::Pom(p.clone())));
			// sometimes another repository has a document for the same coordinate
			if nr > 1 && rng.chance(1, 8) {
				let other = (h + 1 + rng.below(nr - 1)) % nr;
				let decoy = match rng.below(3) { 0 if stream == Stream::BrokenXml => Entry::Broken("<project><modelVersion>4.0.0</modelVersion></project>".into()), 0 | 1 => { let mut q = p.clone(); q.deps.clear(); Entry::Pom(q) }, _ => Entry::Pom(p.clone()) };
				repos[other].files.push((key, decoy));
			}
		}
	}
	if stream == Stream::BrokenXml {
		// one document that does not deserialise
		let all: Vec<(usize, usize)> = repos.iter().enumerate().flat_map(|(ri, r)| (0..r.files.len()).map(move |fi| (ri, fi))).collect();
		let (ri, fi) = *rng.pick(&all);
		let bad = *rng.pick(&["<project><modelVersion>4.0.0</modelVersion><groupId>g</groupId></project>", "not xml at all",
			"<project><modelVersion>4.0.0</modelVersion><artifactId>a</artifactId><dependencies><dependency><artifactId>x</artifactId><version>1</version></dependency></dependencies></project>",
			"<project><modelVersion>4.0.0</modelVersion><artifactId>a</artifactId><dependencies><dependency><groupId>g</groupId><artifactId>x</artifactId><scope>bogus</scope></dependency></dependencies></project>",
			"<project><modelVersion>4.0.0</modelVersion><artifactId>a</artifactId><dependencies><dependency><groupId>g</groupId></project>",
			"<project><modelVersion>4.0.0</modelVersion><artifactId>a</artifactId><dependencies><dependency><groupId>g</groupId><artifactId>x</artifactId><scope>import</scope></dependency></dependencies></project>",
			"<project><modelVersion>4.0.0</modelVersion><artifactId>a</artifactId><dependencies><dependency><groupId>g</groupId><artifactId>x</artifactId><optional>yes</optional></dependency></dependencies></project>"]);
		repos[ri].files[fi].1 = Entry::Broken(bad.into());
	}
	if stream == Stream::Cyclic {
		// a reference back to a lower-ranked library: dependency, parent or import
		let hi = rng.range(1, nl - 1); let lo = rng.below(hi);
		let (lg, la, lv) = (libs[lo].group.clone(), libs[lo].artifact.clone(), libs[lo].versions[0].clone());
		let mode = rng.below(3);
		for r in repos.iter_mut() { for (k, e) in r.files.iter_mut() {
			if k.0 == libs[hi].group && k.1 == libs[hi].artifact { if let Entry::Pom(p) = e {
				match mode {
					0 => p.deps.insert(0, dep(&lg, &la, Some(&lv))),
					1 => p.parent = Some((lg.clone(), la.clone(), lv.clone())),
					_ => { let mut d = dep(&lg, &la, Some(&lv)); d.type_ = Some("pom".into()); d.scope = Some(IMPORT); p.dm.push(d); }
				}
			} }
		} }
	}
	// roots
	let mut roots = vec![];
	let nroots = match rng.below(12) { 0 => 0, 1..=4 => 1, 5..=8 => 2, 9 | 10 => 3, _ => 4 };
	for _ in 0..nroots {
		let k = if rng.chance(2, 3) { rng.below(nl.min(2)) } else { rng.below(nl) };
		let mut c = coord(&libs[k].group, &libs[k].artifact, &rng.pick(&libs[k].versions).clone());
		if rng.chance(1, 10) { let (t, cl) = *rng.pick(&TYPES); c.type_ = t.into(); c.classifier = cl.map(|x| x.into()); }
		if stream == Stream::Errors && rng.chance(1, 12) { c.version = "0-absent".into(); }
		roots.push((c, rng.below(5) as u8));
	}
	if !roots.is_empty() && rng.chance(1, 10) { let d = rng.pick(&roots).clone(); roots.push(d); }
	let _ = dangling;
	Universe { repos, roots, unlisted }
}

pub fn generated_cases(r: &mut Report, rng: &mut Rng, n: usize) -> Result<()> {
	let mut i = 0;
	let mut attempts = 0;
	while i < n {
		attempts += 1;
		if attempts > n * 20 { bail!("generator rejects too many universes"); }
		let stream = match i % 20 { 0..=11 | 18 => Stream::Valid, 12 | 13 => Stream::Errors, 14 | 15 => Stream::ImportFirst, 16 | 17 => Stream::Redeclare, _ => Stream::BrokenXml };
		let u = gen_universe(rng, stream);
		if stream != Stream::Cyclic {
			let (_, size) = reference::resolve(&u, 250);
			if size > 250 { r.count("oversize_regenerated"); continue; }
		}
		let name = match stream { Stream::Valid => "valid", Stream::Errors => "errors", Stream::ImportFirst => "imports-before-managed", Stream::Redeclare => "child-redeclares", Stream::Cyclic => "cyclic", Stream::BrokenXml => "broken-xml" };
		let ans = ask_impl(&u, if stream == Stream::Cyclic { 400 } else { 100_000 })?;
		if absorb(r, &ans) { continue; }
		if ans.budget_hit && stream != Stream::Cyclic {
			// not a property failure: the reference bounded the graph by 250 nodes, the crate asked for more than 100 000 documents
			r.count("skipped_download_budget_on_acyclic_universe");
			if r.notes.iter().filter(|x| x.starts_with("skipped: download budget")).count() < 2 { r.notes.push(format!("skipped: download budget hit on an acyclic universe:\n{}", u.replay())); }
			continue;
		}
		let canon = format!("{} {} {}", u.g_resolvers(), u.g_files(), u.g_roots());
		let nontrivial = match stream {
			// inside the property's quantifier: compare with the documented rules
			Stream::Valid | Stream::Errors | Stream::BrokenXml => oracle(r, &u, &ans, name),
			_ => ans.found.as_ref().map_or(false, |v| v.len() >= 2),
		};
		r.eval(&canon, nontrivial);
		r.count(&format!("resolve_{name}"));
		match &ans.found {
			Ok(v) => r.count(&format!("resolved_len_{}", match v.len() { 0 => "0", 1 => "1", 2..=4 => "2-4", 5..=9 => "5-9", _ => "10+" })),
			Err(_) => r.count(if ans.budget_hit { "resolve_err_budget" } else { "resolve_err" }),
		}
		if u.repos.iter().flat_map(|x| x.files.iter()).any(|(_, e)| matches!(e, Entry::Pom(p) if p.parent.is_some())) { r.count("universe_with_parent"); }
		if u.repos.iter().flat_map(|x| x.files.iter()).any(|(_, e)| matches!(e, Entry::Pom(p) if p.dm.iter().any(|d| d.scope == Some(IMPORT)))) { r.count("universe_with_import"); }
		if u.repos.iter().flat_map(|x| x.files.iter()).any(|(_, e)| matches!(e, Entry::Pom(p) if p.deps.iter().any(|d| d.version.is_none()))) { r.count("universe_with_managed_version"); }
		if u.repos.len() > 1 { r.count("universe_multi_repo"); }
		// measured with the reference resolver: some POM's effective dependency management holds two entries for one key with
		// different values, and a dependency of that POM that omits something is completed from that key
		if stream != Stream::Cyclic {
			let mut rf = Ref::new(&u);
			let mut rival = false;
			let mut clean = true;
			for rp in u.repos.iter() { for ((g, a, v), e) in &rp.files { if let Entry::Pom(p) = e {
				for d in p.dm.iter().chain(p.deps.iter()) {
					for f in [Some(&d.group), Some(&d.artifact), d.version.as_ref(), d.type_.as_ref(), d.classifier.as_ref()].into_iter().flatten() { if f.contains(':') || f.contains(" @ ") { clean = false; } }
				}
				if let Ok((_, eff)) = rf.effective(g, a, v, 0) {
					for d in &eff.declared {
						if d.version.is_some() && d.scope.is_some() && d.optional.is_some() { continue; }
						let k = key_of(d);
						let ms: Vec<&reference::RDone> = eff.dm.iter().filter(|m| reference::collision_id(&m.coord) == k).collect();
						if ms.len() >= 2 && ms.iter().any(|m| (&m.coord.version, m.scope, m.optional) != (&ms[0].coord.version, ms[0].scope, ms[0].optional)) { rival = true; }
					}
				}
			} } }
			if rival { r.count("universe_with_rival_managed_entries_used"); }
			if clean { r.count("universe_files_clean"); }
		}
		if !u.unlisted.is_empty() { r.count("universe_with_unlisted_repository"); }
		if u.url_map().iter().any(|(url, _)| url.contains("/gh/ost/")) || u.repos.iter().flat_map(|x| x.files.iter()).any(|(_, e)| matches!(e, Entry::Pom(p) if p.deps.iter().any(|d| d.group == "gh.ost"))) { r.count("universe_with_dangling_cut_edge"); }
		if u.repos.iter().flat_map(|x| x.files.iter()).any(|(_, e)| matches!(e, Entry::Pom(p) if p.xml_style != 0)) { r.count("universe_with_realistic_xml"); }
		if u.repos.iter().flat_map(|x| x.files.iter()).any(|(_, e)| matches!(e, Entry::Pom(p) if p.empty_lists != 0)) { r.count("universe_with_empty_dependencies_element"); }
		r.case(name, case_text(&u, &ans));
		if stream == Stream::Valid { for p in &ans.prints { r.case("resolved-print", p.clone()); } }
		if stream == Stream::Valid && i % 5 == 0 {
			// the generated universe satisfies the decidable hypothesis of the fuel theorem
			match ranks(&u) {
				Some(rk) => r.case("acyclic-check", format!("CAcyclic {} {} {}", u.g_resolvers(), u.g_files(), glist(rk.iter().map(|(url, k)| format!("({}, {k})", gs(url)))))),
				None => bail!("a universe of the valid stream is cyclic:\n{}", u.replay()),
			}
		}
		i += 1;
	}
	Ok(())
}

/// generated CYCLIC universes (a reference back to a lower-ranked library: dependency, parent or import).  Outside the
/// property's quantifier; compared with the model only.  Runs in the child process (see main.rs): the crate has no recursion
/// limiter, and a change that lets it recurse without downloading kills the process instead of ending at the download budget.
pub fn cyclic_generated_cases(r: &mut Report, rng: &mut Rng, n: usize) -> Result<()> {
	for _ in 0..n {
		let u = gen_universe(rng, Stream::Cyclic);
		let ans = ask_impl(&u, 400)?;
		if absorb(r, &ans) { continue; }
		let canon = format!("{} {} {}", u.g_resolvers(), u.g_files(), u.g_roots());
		r.eval(&canon, ans.found.as_ref().map_or(false, |v| v.len() >= 2));
		r.count("resolve_cyclic");
		match &ans.found {
			Ok(_) => r.count("resolve_cyclic_resolved"),
			Err(e) if e.starts_with("PANIC") => r.violation(format!("cyclic universe: get_maven_dependencies panicked: {e}"), format!("property C19 (generated cyclic universe)\n{}", u.replay())),
			Err(_) => r.count(if ans.budget_hit { "resolve_err_budget" } else { "resolve_cyclic_err_before_budget" }),
		}
		r.case("cyclic", case_text(&u, &ans));
	}
	Ok(())
}
