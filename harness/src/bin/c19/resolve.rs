//! get_maven_dependencies on generated POM universes, against the reference resolver and the model.
use std::collections::HashMap;
use std::future::Future;
use std::str::FromStr;
use std::sync::atomic::{AtomicUsize, Ordering};
use anyhow::{bail, Context, Result};
use fbh::gal::*;
use fbh::prng::Rng;
use fbh::report::{guarded, Report};
use maven_dependency_resolver::maven_pom::MavenPom;
use maven_dependency_resolver::resolver::Resolver;
use maven_dependency_resolver::{get_maven_dependencies, DependencyScope, Downloader, FoundDependency};
use crate::coords::{g_found, of_coord, scope_idx, to_coord, ALL_SCOPES};
use crate::pomgen::*;
use crate::reference::{self, RFound, Ref};

struct Dl { map: HashMap<String, String>, calls: AtomicUsize, budget: usize }
impl Downloader for Dl {
	#[allow(clippy::manual_async_fn)]
	fn get_maven_pom(&self, url: &str) -> impl Future<Output = Result<Option<MavenPom>>> + Send {
		async move {
			if self.calls.fetch_add(1, Ordering::SeqCst) >= self.budget { bail!("download budget exhausted"); }
			self.map.get(url).map(|xml| serde_xml_rs::from_str(xml).context("maven pom")).transpose()
		}
	}
}

pub struct ImplAnswer { pub found: Result<Vec<(usize, ACoord, u8)>, String>, pub gallina: String, pub budget_hit: bool,
	/// print/parse round trip of every resolved dependency: failures, and (printed form as a Gallina case) samples
	pub roundtrip_failures: Vec<String>, pub prints: Vec<String> }

/// serve the universe as XML and ask the crate
pub fn ask_impl(u: &Universe, budget: usize) -> Result<ImplAnswer> {
	let mut map = HashMap::new();
	for (url, e) in u.url_map() {
		let xml = match &e { Entry::Pom(p) => pom_xml(p), Entry::Broken(x) => x.clone() };
		// the XML step is outside the model: check that the document deserialises to exactly the abstract POM
		let parsed: Result<MavenPom, _> = serde_xml_rs::from_str(&xml);
		match (&e, parsed) {
			(Entry::Pom(p), Ok(m)) => { if format!("{m:?}") != pom_debug(p) { bail!("XML printer of the harness and serde disagree:\n{xml}\nexpected {}\ngot      {m:?}", pom_debug(p)); } }
			(Entry::Pom(p), Err(x)) => bail!("generated XML does not deserialise: {x}\n{xml}\n{}", pom_debug(p)),
			(Entry::Broken(_), Ok(m)) => bail!("a document meant to be undeserialisable deserialises: {xml}\n{m:?}"),
			(Entry::Broken(_), Err(_)) => {}
		}
		map.insert(url, xml);
	}
	let dl = Dl { map, calls: AtomicUsize::new(0), budget };
	let resolvers: Vec<Resolver> = u.repos.iter().map(|r| Resolver { name: r.name.clone().into(), maven: r.maven.clone().into() }).collect();
	let roots: Vec<_> = u.roots.iter().map(|(c, s)| (to_coord(c), ALL_SCOPES[*s as usize])).collect();
	let rt = tokio::runtime::Builder::new_current_thread().build()?;
	let rt_fail = std::cell::RefCell::new(vec![]);
	let prints = std::cell::RefCell::new(vec![]);
	let res = guarded(std::panic::AssertUnwindSafe(|| {
		rt.block_on(get_maven_dependencies(&dl, &resolvers, &roots)).map(|v: Vec<FoundDependency>| {
			let g = glist(v.iter().map(g_found));
			for d in &v {
				let text = format!("{d}");
				let want = FoundDependency { resolver: Resolver { name: d.resolver.maven.clone(), maven: d.resolver.maven.clone() }, coord: d.coord.clone(), scope: d.scope };
				match FoundDependency::try_from(text.as_str()) {
					Ok(b) if b == want => {}
					other => rt_fail.borrow_mut().push(format!("resolved dependency {d:?}\nprinted {text:?}\nparsed {other:?}")),
				}
				match maven_dependency_resolver::coord::MavenCoord::from_str(&format!("{}", d.coord)) {
					Ok(b) if b == d.coord => {}
					other => rt_fail.borrow_mut().push(format!("coordinate {:?}\nprinted {:?}\nparsed {other:?}", d.coord, format!("{}", d.coord))),
				}
				if prints.borrow().len() < 2 { prints.borrow_mut().push(format!("CFoundPrint {} {}", g_found(d), gs(&text))); }
			}
			let f: Vec<(usize, ACoord, u8)> = v.iter().map(|d| (resolvers.iter().position(|r| *r == d.resolver).unwrap_or(usize::MAX), of_coord(&d.coord), scope_idx(d.scope) as u8)).collect();
			(g, f)
		}).map_err(|e| format!("{e:#}"))
	}));
	let budget_hit = dl.calls.load(Ordering::SeqCst) > budget;
	let (roundtrip_failures, prints) = (rt_fail.into_inner(), prints.into_inner());
	Ok(match res {
		Err(p) => ImplAnswer { found: Err(format!("PANIC {p}")), gallina: "Err".into(), budget_hit, roundtrip_failures, prints },
		Ok(Err(e)) => ImplAnswer { found: Err(e), gallina: "Err".into(), budget_hit, roundtrip_failures, prints },
		Ok(Ok((g, f))) => ImplAnswer { found: Ok(f), gallina: format!("(Ok {g})"), budget_hit, roundtrip_failures, prints },
	})
}

pub fn case_text(u: &Universe, ans: &ImplAnswer) -> String {
	format!("CResolve {} {} {} {}", u.g_resolvers(), u.g_files(), u.g_roots(), ans.gallina)
}

fn show_found(u: &Universe, v: &[(usize, ACoord, u8)]) -> String {
	v.iter().map(|(r, c, s)| format!("  {}:{}:{}{}:{}:{} @ {}", c.group, c.artifact, c.type_, c.classifier.as_ref().map_or(String::new(), |k| format!(":{k}")), c.version, SCOPES[*s as usize],
		u.repos.get(*r).map_or("?".to_string(), |x| x.maven.clone()))).collect::<Vec<_>>().join("\n")
}

/// compare with the documented rules; returns whether the case was non-trivial
fn oracle(r: &mut Report, u: &Universe, ans: &ImplAnswer, what: &str) -> bool {
	let (want, _, st) = reference::resolve_stats(u, 100_000);
	if st.conflict_equal_depth { r.count("graph_conflict_equal_depth"); }
	if st.conflict_different_depth { r.count("graph_conflict_different_depth"); }
	if st.diamond { r.count("graph_diamond_same_version"); }
	if st.pruned_subtree { r.count("graph_rival_with_subtree"); }
	let want_t: Result<Vec<(usize, ACoord, u8)>, ()> = want.map(|v| v.into_iter().map(|RFound { repo, coord, scope }| (repo, coord, scope)).collect());
	for f in &ans.roundtrip_failures {
		r.violation(format!("{what}: a resolved dependency does not survive printing and re-parsing"), format!("property C19 ({what})\n{f}\n"));
	}
	if let Err(e) = &ans.found { if e.starts_with("PANIC") { r.violation(format!("get_maven_dependencies panicked: {e}"), format!("property C19 ({what})\n{}", u.replay())); return false; } }
	match (&ans.found, &want_t) {
		(Ok(got), Ok(want)) => {
			if got != want {
				r.violation(format!("{what}: get_maven_dependencies differs from Maven's documented rules (inheritance, BOM import, managed fill-in, optional/scope cut, scope table, nearest-wins mediation)"),
					format!("property C19 ({what})\n{}crate answered:\n{}\ndocumented rules give:\n{}\n", u.replay(), show_found(u, got), show_found(u, want)));
			}
			// no duplicates by (group, artifact, classifier, type)
			let mut ids: Vec<_> = got.iter().map(|(_, c, _)| reference::collision_id(c)).collect();
			let n = ids.len(); ids.sort(); ids.dedup();
			if ids.len() != n { r.violation(format!("{what}: the resolved list contains two versions of one artifact"), format!("property C19 ({what})\n{}crate answered:\n{}\n", u.replay(), show_found(u, got))); }
			got.len() >= 2
		}
		(Err(_), Err(())) => false,
		(Ok(got), Err(())) => { r.violation(format!("{what}: get_maven_dependencies succeeds although a needed POM is missing, unusable or incomplete"), format!("property C19 ({what})\n{}crate answered:\n{}\n", u.replay(), show_found(u, got))); false }
		(Err(e), Ok(want)) => { r.violation(format!("{what}: get_maven_dependencies fails ({e}) where the documented rules resolve"), format!("property C19 ({what})\n{}documented rules give:\n{}\n", u.replay(), show_found(u, want))); false }
	}
}

/// ranks of the documents: longest chain of references below their (group, artifact); None when cyclic
pub fn ranks(u: &Universe) -> Option<Vec<(String, u64)>> {
	use std::collections::{BTreeMap, BTreeSet};
	let mut refs: BTreeMap<(String, String), BTreeSet<(String, String)>> = BTreeMap::new();
	for r in &u.repos { for ((g, a, _), e) in &r.files {
		let set = refs.entry((g.clone(), a.clone())).or_default();
		if let Entry::Pom(p) = e {
			if let Some((pg, pa, _)) = &p.parent { set.insert((pg.clone(), pa.clone())); }
			for d in p.dm.iter().chain(p.deps.iter()) { set.insert((d.group.clone(), d.artifact.clone())); }
		}
	} }
	fn rank(k: &(String, String), refs: &BTreeMap<(String, String), BTreeSet<(String, String)>>, memo: &mut BTreeMap<(String, String), Option<u64>>, depth: usize) -> Option<u64> {
		if depth > refs.len() + 1 { return None; }
		if let Some(x) = memo.get(k) { return *x; }
		let mut best = 0u64;
		if let Some(set) = refs.get(k) { for t in set { if refs.contains_key(t) { best = best.max(rank(t, refs, memo, depth + 1)? + 1); } } }
		memo.insert(k.clone(), Some(best));
		Some(best)
	}
	let mut memo = BTreeMap::new();
	let mut out = vec![];
	for r in &u.repos { for ((g, a, v), _) in &r.files {
		let k = rank(&(g.clone(), a.clone()), &refs, &mut memo, 0)?;
		let url = pom_url(&r.maven, g, a, v);
		if !out.iter().any(|(x, _): &(String, u64)| *x == url) { out.push((url, k)); }
	} }
	Some(out)
}

// ---------- fixed universes ----------
fn dep(g: &str, a: &str, v: Option<&str>) -> ADep { ADep { group: g.into(), artifact: a.into(), version: v.map(|x| x.into()), type_: None, classifier: None, scope: None, optional: None } }
fn pom(g: &str, a: &str, v: &str) -> APom {
	APom { model_version: "4.0.0".into(), parent: None, group: Some(g.into()), artifact: a.into(), version: Some(v.into()), packaging: None, dm: vec![], deps: vec![], dm_empty_element: false }
}
fn coord(g: &str, a: &str, v: &str) -> ACoord { ACoord { group: g.into(), artifact: a.into(), version: v.into(), classifier: None, type_: "jar".into() } }
fn one_repo(files: Vec<APom>) -> Vec<Repo> {
	vec![Repo { name: "central".into(), maven: "r://c".into(), files: files.into_iter().map(|p| ((p.group.clone().unwrap(), p.artifact.clone(), p.version.clone().unwrap()), Entry::Pom(p))).collect() }]
}

pub fn scope_table_cases(r: &mut Report) -> Result<()> {
	// exhaustive: root scope x declared scope of the dependency (and the omitted scope)
	for left in 0..5u8 {
		for top in 0..6u8 {
			let mut a = pom("g", "a", "1");
			let mut d = dep("g", "b", Some("1"));
			d.scope = if top < 5 { Some(top) } else { None };
			a.deps.push(d);
			let u = Universe { repos: one_repo(vec![a, pom("g", "b", "1")]), roots: vec![(coord("g", "a", "1"), left)] };
			let ans = ask_impl(&u, 1000)?;
			let nt = oracle(r, &u, &ans, "scope table");
			r.eval(&format!("table {left} {top}"), nt);
			r.count("scope_table_universes");
			r.case("scope-table", case_text(&u, &ans));
		}
	}
	Ok(())
}

/// the examples of the Maven documentation (and of the crate's tests), as universes
pub fn documented_examples(r: &mut Report) -> Result<()> {
	let mut us: Vec<(&str, Universe)> = vec![];
	// A -> B -> C -> D 2.0 and A -> E -> D 1.0: D 1.0 wins
	let with = |p: APom, ds: Vec<ADep>| { let mut p = p; p.deps = ds; p };
	let files = vec![
		with(pom("g", "B", "1"), vec![dep("g", "C", Some("1"))]), with(pom("g", "C", "1"), vec![dep("g", "D", Some("2.0"))]),
		with(pom("g", "E", "1"), vec![dep("g", "D", Some("1.0"))]), pom("g", "D", "1.0"), pom("g", "D", "2.0"),
	];
	us.push(("mediation example", Universe { repos: one_repo(files.clone()), roots: vec![(coord("g", "B", "1"), 0), (coord("g", "E", "1"), 0)] }));
	us.push(("mediation example with explicit D 2.0", Universe { repos: one_repo(files.clone()), roots: vec![(coord("g", "B", "1"), 0), (coord("g", "E", "1"), 0), (coord("g", "D", "2.0"), 0)] }));
	// first declaration wins at equal depth
	let files2 = vec![with(pom("g", "B", "1"), vec![dep("g", "C", Some("1.0"))]), with(pom("g", "D", "1"), vec![dep("g", "C", Some("2.0"))]), pom("g", "C", "1.0"), pom("g", "C", "2.0")];
	us.push(("first declaration wins at equal depth", Universe { repos: one_repo(files2), roots: vec![(coord("g", "B", "1"), 0), (coord("g", "D", "1"), 0)] }));
	// dependency management: parent A manages a 1.2, b 1.0; child B manages d... (Introduction to the Dependency Mechanism)
	let mut pa = pom("maven", "A", "1.0"); pa.packaging = Some("pom".into());
	let m = |a: &str, v: &str, sc: Option<u8>| { let mut d = dep("test", a, Some(v)); d.scope = sc; d };
	pa.dm = vec![m("a", "1.2", None), m("b", "1.0", Some(0)), m("c", "1.0", Some(0)), m("d", "1.2", None)];
	let mut pb = pom("maven", "B", "1.0"); pb.parent = Some(("maven".into(), "A".into(), "1.0".into()));
	pb.dm = vec![m("d", "1.0", None)];
	pb.deps = vec![m("a", "1.0", Some(1)), { let mut d = dep("test", "c", None); d.scope = Some(1); d }, dep("test", "d", None), dep("test", "b", None)];
	let fs = vec![pa.clone(), pb, pom("test", "a", "1.0"), pom("test", "b", "1.0"), pom("test", "c", "1.0"), pom("test", "d", "1.0")];
	us.push(("dependency management example", Universe { repos: one_repo(fs), roots: vec![(coord("maven", "B", "1.0"), 0)] }));
	// importing: Z imports X and Y, both manage a; X first
	let bom = |name: &str, av: &str| { let mut p = pom("maven", name, "1.0"); p.packaging = Some("pom".into()); p.dm = vec![m("a", av, None), m(if name == "X" { "b" } else { "c" }, "1.0", Some(0))]; p };
	let imp = |name: &str| { let mut d = dep("maven", name, Some("1.0")); d.type_ = Some("pom".into()); d.scope = Some(IMPORT); d };
	let mut z = pom("maven", "Z", "1.0");
	z.dm = vec![imp("X"), imp("Y")];
	z.deps = vec![dep("test", "a", None), dep("test", "b", None), dep("test", "c", None)];
	let fs = vec![bom("X", "1.1"), bom("Y", "1.2"), z, pom("test", "a", "1.1"), pom("test", "a", "1.2"), pom("test", "b", "1.0"), pom("test", "c", "1.0")];
	us.push(("import example", Universe { repos: one_repo(fs), roots: vec![(coord("maven", "Z", "1.0"), 0)] }));
	// a child's managed version applies to a dependency inherited from the parent
	let mut p = pom("g", "p", "1"); p.packaging = Some("pom".into()); p.dm = vec![dep("g", "x", Some("1"))]; p.deps = vec![dep("g", "x", None)];
	let mut c = pom("g", "c", "1"); c.parent = Some(("g".into(), "p".into(), "1".into())); c.dm = vec![dep("g", "x", Some("2"))];
	us.push(("child manages an inherited dependency", Universe { repos: one_repo(vec![p, c, pom("g", "x", "1"), pom("g", "x", "2")]), roots: vec![(coord("g", "c", "1"), 0)] }));
	for (what, u) in us {
		let ans = ask_impl(&u, 10_000)?;
		let nt = oracle(r, &u, &ans, what);
		r.eval(&format!("doc {what}"), nt);
		r.count("documented_examples");
		r.case("documented", case_text(&u, &ans));
	}
	Ok(())
}

// ---------- generator ----------
#[derive(Clone, Copy, PartialEq, Debug)]
pub enum Stream { Valid, Errors, ImportFirst, Redeclare, Cyclic, BrokenXml }

#[derive(Clone, Copy, PartialEq)]
enum Kind { Jar, Parent, Bom }
struct Lib { group: String, artifact: String, kind: Kind, versions: Vec<String> }

const GROUPS: [&str; 5] = ["g", "org.ex", "com.ex.lib", "io", "ünï.cöde"];
const VERSIONS: [&str; 8] = ["1", "1.0", "2.0", "2.1", "3.0-SNAPSHOT", "1.5-20230713.025619-3", "0.9-beta", "1.0-20230713.02561-3"];
const TYPES: [(&str, Option<&str>); 7] = [("test-jar", None), ("jar", Some("sources")), ("javadoc", None), ("war", None), ("test-jar", Some("tests")), ("jar", Some("")), ("zip", Some("dist"))];

fn key_of(d: &ADep) -> (String, String, Option<String>, String) {
	let t = d.type_.clone().unwrap_or_else(|| "jar".into());
	let c = d.classifier.clone().or_else(|| reference::default_classifier(&t).map(|x| x.to_string()));
	(d.group.clone(), d.artifact.clone(), c, t)
}

pub fn gen_universe(rng: &mut Rng, stream: Stream) -> Universe {
	let nl = rng.range(2, 7);
	let mut libs: Vec<Lib> = vec![];
	for i in 0..nl {
		// the last libraries are the ones everybody may refer to; make a few of them parents/BOMs
		let kind = if i > 0 && rng.chance(1, 4) { Kind::Parent } else if i > 0 && rng.chance(1, 4) { Kind::Bom } else { Kind::Jar };
		let nv = if kind == Kind::Jar { rng.range(1, 3) } else { rng.range(1, 2) };
		let mut versions: Vec<String> = vec![];
		while versions.len() < nv { let v = rng.pick(&VERSIONS).to_string(); if !versions.contains(&v) { versions.push(v); } }
		libs.push(Lib { group: rng.pick(&GROUPS).to_string(), artifact: format!("{}{i}", rng.pick(&["a", "lib-", "x_"])), kind, versions });
	}
	let nr = rng.range(1, 3);
	let mut repos: Vec<Repo> = (0..nr).map(|i| Repo { name: format!("repo{i}"), maven: rng.pick(&["r://a", "r://b/", "https://m.ex/m2", "file:///m2/"]).to_string() + &format!("{i}") + if rng.chance(1, 3) { "/" } else { "" }, files: vec![] }).collect();
	// where each (library, version) lives
	let mut home: HashMap<(usize, usize), usize> = HashMap::new();
	for (i, l) in libs.iter().enumerate() { for j in 0..l.versions.len() { home.insert((i, j), rng.below(nr)); } }

	// generate from the highest rank down, so that everything a POM refers to already exists
	for i in (0..nl).rev() {
		for j in 0..libs[i].versions.len() {
			let u_so_far = Universe { repos: repos.clone(), roots: vec![] };
			let mut rf = Ref::new(&u_so_far);
			let l = &libs[i];
			let mut p = APom { model_version: "4.0.0".into(), parent: None, group: Some(l.group.clone()), artifact: l.artifact.clone(), version: Some(l.versions[j].clone()),
				packaging: match l.kind { Kind::Jar => match rng.below(10) { 0 => Some("jar".into()), 1 => Some("bundle".into()), 2 => Some("war".into()), _ => None }, _ => Some("pom".into()) },
				dm: vec![], deps: vec![], dm_empty_element: rng.chance(1, 10) };
			let higher: Vec<usize> = ((i + 1)..nl).collect();
			let pick_ver = |rng: &mut Rng, k: usize, libs: &Vec<Lib>| -> String { rng.pick(&libs[k].versions).clone() };
			// parent
			let parents: Vec<usize> = higher.iter().copied().filter(|k| libs[*k].kind == Kind::Parent).collect();
			let mut parent_eff = None;
			if !parents.is_empty() && rng.chance(2, 5) {
				let k = *rng.pick(&parents);
				let v = pick_ver(rng, k, &libs);
				parent_eff = rf.effective(&libs[k].group, &libs[k].artifact, &v, 0).ok().map(|x| x.1);
				p.parent = Some((libs[k].group.clone(), libs[k].artifact.clone(), v));
				if rng.chance(1, 2) { p.group = None; }
				if rng.chance(1, 3) { p.version = None; }
			} else if stream == Stream::Errors && rng.chance(1, 12) && !higher.is_empty() {
				let k = *rng.pick(&higher); // possibly a parent that is not pom-packaged
				let v = pick_ver(rng, k, &libs);
				p.parent = Some((libs[k].group.clone(), libs[k].artifact.clone(), v));
			}
			if stream == Stream::Errors && rng.chance(1, 25) { if rng.chance(1, 2) { p.group = None; } else { p.version = None; } }
			if stream == Stream::Errors && rng.chance(1, 40) { p.model_version = rng.pick(&["4.0", "4.1.0", ""]).to_string(); }
			// dependency management
			if !higher.is_empty() {
				for _ in 0..rng.below(4) {
					let k = *rng.pick(&higher);
					let mut d = dep(&libs[k].group, &libs[k].artifact, Some(&pick_ver(rng, k, &libs)));
					if rng.chance(1, 5) { let (t, c) = *rng.pick(&TYPES); d.type_ = Some(t.into()); d.classifier = c.map(|x| x.into()); }
					if rng.chance(1, 3) { d.scope = Some(rng.below(5) as u8); }
					if rng.chance(1, 6) { d.optional = Some(rng.chance(1, 2)); }
					if stream == Stream::Errors && rng.chance(1, 20) { d.version = None; }
					if p.dm.iter().all(|x| key_of(x) != key_of(&d)) { p.dm.push(d); }
				}
				let boms: Vec<usize> = higher.iter().copied().filter(|k| libs[*k].kind != Kind::Jar).collect();
				if !boms.is_empty() {
					for _ in 0..rng.below(3) {
						let k = *rng.pick(&boms);
						let mut d = dep(&libs[k].group, &libs[k].artifact, Some(&pick_ver(rng, k, &libs)));
						d.type_ = Some("pom".into()); d.scope = Some(IMPORT);
						if stream == Stream::ImportFirst { let at = rng.below(p.dm.len() + 1); p.dm.insert(at, d); } else { p.dm.push(d); }
					}
				}
			}
			// what the POM manages, to decide which versions may be omitted
			let mut probe = p.clone(); probe.deps.clear();
			let managed: Vec<reference::RDone> = {
				let mut tmp = repos.clone();
				tmp[0].files.insert(0, (("\u{0}probe".into(), "probe".into(), "0".into()), Entry::Pom(probe)));
				let tu = Universe { repos: tmp, roots: vec![] };
				let mut r2 = Ref::new(&tu);
				r2.effective("\u{0}probe", "probe", "0", 0).ok().map_or(vec![], |x| x.1.dm)
			};
			let inherited: Vec<_> = parent_eff.as_ref().map_or(vec![], |pe| pe.declared.iter().map(key_of).collect());
			// dependencies
			if !higher.is_empty() {
				let nd = match rng.below(8) { 0 => 0, 1 => 1, 2 | 3 => 2, 4 | 5 => 3, 6 => 4, _ => 5 };
				for _ in 0..nd {
					let mut d;
					if !managed.is_empty() && rng.chance(2, 5) {
						let m = rng.pick(&managed);
						d = dep(&m.coord.group, &m.coord.artifact, Some(&m.coord.version));
						if m.coord.type_ != "jar" { d.type_ = Some(m.coord.type_.clone()); }
						if m.coord.classifier.as_deref() != reference::default_classifier(&m.coord.type_) { d.classifier = m.coord.classifier.clone(); }
						if rng.chance(1, 4) { // explicit version wins over the managed one
							if let Some(k) = libs.iter().position(|l| l.group == m.coord.group && l.artifact == m.coord.artifact) { d.version = Some(pick_ver(rng, k, &libs)); }
						}
					} else {
						let jars: Vec<usize> = higher.iter().copied().filter(|k| libs[*k].kind == Kind::Jar || rng.chance(1, 6)).collect();
						if jars.is_empty() { continue; }
						let k = *rng.pick(&jars);
						d = dep(&libs[k].group, &libs[k].artifact, Some(&pick_ver(rng, k, &libs)));
						if rng.chance(1, 8) { let (t, c) = *rng.pick(&TYPES); d.type_ = Some(t.into()); d.classifier = c.map(|x| x.into()); }
					}
					let is_managed = managed.iter().any(|m| reference::collision_id(&m.coord) == key_of(&d));
					if is_managed && rng.chance(3, 5) { d.version = None; }
					if stream == Stream::Errors && rng.chance(1, 15) { if rng.chance(1, 2) { d.version = None; } else { d.version = Some("9.9-missing".into()); } }
					if rng.chance(1, 2) { d.scope = Some(match rng.below(10) { 0..=3 => 0, 4 | 5 => 1, 6 => 2, 7 => 3, _ => 4 }); }
					if rng.chance(1, 5) { d.optional = Some(rng.chance(3, 5)); }
					let k = key_of(&d);
					if p.deps.iter().any(|x| key_of(x) == k) { continue; }
					if inherited.contains(&k) && stream != Stream::Redeclare { continue; }
					p.deps.push(d);
				}
				if stream == Stream::Redeclare && !inherited.is_empty() && rng.chance(2, 3) {
					let pe = parent_eff.as_ref().unwrap();
					let mut d = rng.pick(&pe.declared).clone();
					if let Some(k) = libs.iter().position(|l| l.group == d.group && l.artifact == d.artifact) { d.version = Some(pick_ver(rng, k, &libs)); }
					if p.deps.iter().all(|x| key_of(x) != key_of(&d)) { p.deps.push(d); }
				}
			}
			let key = (l.group.clone(), l.artifact.clone(), l.versions[j].clone());
			let h = home[&(i, j)];
			repos[h].files.push((key.clone(), Entry::Pom(p.clone())));
			// sometimes another repository has a document for the same coordinate
			if nr > 1 && rng.chance(1, 8) {
				let other = (h + 1 + rng.below(nr - 1)) % nr;
				let decoy = match rng.below(3) { 0 if stream == Stream::BrokenXml => Entry::Broken("<project><modelVersion>4.0.0</modelVersion></project>".into()), 0 | 1 => { let mut q = p.clone(); q.deps.clear(); Entry::Pom(q) }, _ => Entry::Pom(p.clone()) };
				repos[other].files.push((key, decoy));
			}
		}
	}
	if stream == Stream::BrokenXml {
		// one document that does not deserialise
		let all: Vec<(usize, usize)> = repos.iter().enumerate().flat_map(|(ri, r)| (0..r.files.len()).map(move |fi| (ri, fi))).collect();
		let (ri, fi) = *rng.pick(&all);
		let bad = *rng.pick(&["<project><modelVersion>4.0.0</modelVersion><groupId>g</groupId></project>", "not xml at all",
			"<project><modelVersion>4.0.0</modelVersion><artifactId>a</artifactId><dependencies></dependencies></project>",
			"<project><modelVersion>4.0.0</modelVersion><artifactId>a</artifactId><dependencies><dependency><groupId>g</groupId><artifactId>x</artifactId><scope>import</scope></dependency></dependencies></project>",
			"<project><modelVersion>4.0.0</modelVersion><artifactId>a</artifactId><dependencies><dependency><groupId>g</groupId><artifactId>x</artifactId><optional>yes</optional></dependency></dependencies></project>"]);
		repos[ri].files[fi].1 = Entry::Broken(bad.into());
	}
	if stream == Stream::Cyclic {
		// a reference back to a lower-ranked library: dependency, parent or import
		let hi = rng.range(1, nl - 1); let lo = rng.below(hi);
		let (lg, la, lv) = (libs[lo].group.clone(), libs[lo].artifact.clone(), libs[lo].versions[0].clone());
		let mode = rng.below(3);
		for r in repos.iter_mut() { for (k, e) in r.files.iter_mut() {
			if k.0 == libs[hi].group && k.1 == libs[hi].artifact { if let Entry::Pom(p) = e {
				match mode {
					0 => p.deps.insert(0, dep(&lg, &la, Some(&lv))),
					1 => p.parent = Some((lg.clone(), la.clone(), lv.clone())),
					_ => { let mut d = dep(&lg, &la, Some(&lv)); d.type_ = Some("pom".into()); d.scope = Some(IMPORT); p.dm.push(d); }
				}
			} }
		} }
	}
	// roots
	let mut roots = vec![];
	let nroots = match rng.below(12) { 0 => 0, 1..=4 => 1, 5..=8 => 2, 9 | 10 => 3, _ => 4 };
	for _ in 0..nroots {
		let k = if rng.chance(2, 3) { rng.below(nl.min(2)) } else { rng.below(nl) };
		let mut c = coord(&libs[k].group, &libs[k].artifact, &rng.pick(&libs[k].versions).clone());
		if rng.chance(1, 10) { let (t, cl) = *rng.pick(&TYPES); c.type_ = t.into(); c.classifier = cl.map(|x| x.into()); }
		if stream == Stream::Errors && rng.chance(1, 12) { c.version = "0-absent".into(); }
		roots.push((c, rng.below(5) as u8));
	}
	if !roots.is_empty() && rng.chance(1, 10) { let d = rng.pick(&roots).clone(); roots.push(d); }
	Universe { repos, roots }
}

pub fn generated_cases(r: &mut Report, rng: &mut Rng, n: usize) -> Result<()> {
	let mut i = 0;
	let mut attempts = 0;
	while i < n {
		attempts += 1;
		if attempts > n * 20 { bail!("generator rejects too many universes"); }
		let stream = match i % 20 { 0..=11 => Stream::Valid, 12 | 13 => Stream::Errors, 14 | 15 => Stream::ImportFirst, 16 | 17 => Stream::Redeclare, 18 => Stream::Cyclic, _ => Stream::BrokenXml };
		let u = gen_universe(rng, stream);
		if stream != Stream::Cyclic {
			let (_, size) = reference::resolve(&u, 250);
			if size > 250 { r.count("oversize_regenerated"); continue; }
		}
		let name = match stream { Stream::Valid => "valid", Stream::Errors => "errors", Stream::ImportFirst => "imports-before-managed", Stream::Redeclare => "child-redeclares", Stream::Cyclic => "cyclic", Stream::BrokenXml => "broken-xml" };
		let ans = ask_impl(&u, if stream == Stream::Cyclic { 1500 } else { 100_000 })?;
		if ans.budget_hit && stream != Stream::Cyclic { bail!("download budget hit on an acyclic universe:\n{}", u.replay()); }
		let canon = format!("{} {} {}", u.g_resolvers(), u.g_files(), u.g_roots());
		let nontrivial = match stream {
			// inside the property's quantifier: compare with the documented rules
			Stream::Valid | Stream::Errors | Stream::BrokenXml => oracle(r, &u, &ans, name),
			_ => ans.found.as_ref().map_or(false, |v| v.len() >= 2),
		};
		r.eval(&canon, nontrivial);
		r.count(&format!("resolve_{name}"));
		match &ans.found {
			Ok(v) => r.count(&format!("resolved_len_{}", match v.len() { 0 => "0", 1 => "1", 2..=4 => "2-4", 5..=9 => "5-9", _ => "10+" })),
			Err(_) => r.count(if ans.budget_hit { "resolve_err_budget" } else { "resolve_err" }),
		}
		if u.repos.iter().flat_map(|x| x.files.iter()).any(|(_, e)| matches!(e, Entry::Pom(p) if p.parent.is_some())) { r.count("universe_with_parent"); }
		if u.repos.iter().flat_map(|x| x.files.iter()).any(|(_, e)| matches!(e, Entry::Pom(p) if p.dm.iter().any(|d| d.scope == Some(IMPORT)))) { r.count("universe_with_import"); }
		if u.repos.iter().flat_map(|x| x.files.iter()).any(|(_, e)| matches!(e, Entry::Pom(p) if p.deps.iter().any(|d| d.version.is_none()))) { r.count("universe_with_managed_version"); }
		if u.repos.len() > 1 { r.count("universe_multi_repo"); }
		r.case(name, case_text(&u, &ans));
		if stream == Stream::Valid { for p in &ans.prints { r.case("resolved-print", p.clone()); } }
		if stream == Stream::Valid && i % 5 == 0 {
			// the generated universe satisfies the decidable hypothesis of the fuel theorem
			match ranks(&u) {
				Some(rk) => r.case("acyclic-check", format!("CAcyclic {} {} {}", u.g_resolvers(), u.g_files(), glist(rk.iter().map(|(url, k)| format!("({}, {k})", gs(url)))))),
				None => bail!("a universe of the valid stream is cyclic:\n{}", u.replay()),
			}
		}
		i += 1;
	}
	Ok(())
}
