//! Abstract POMs and universes; their XML (bare, or a realistic rendering with namespace declarations,
//! comments, white space, CDATA and elements the resolver ignores), the serialised form serde must produce
//! from that XML (checked for every generated document, so the XML step outside the model is still tied),
//! and their Gallina form.
use fbh::gal::*;

pub const SCOPES: [&str; 5] = ["compile", "runtime", "test", "system", "provided"];
pub const SCOPE_CTORS: [&str; 5] = ["Compile", "Runtime", "Test", "System", "Provided"];
pub const IMPORT: u8 = 5;

#[derive(Clone, Debug, PartialEq, Eq, Hash)]
pub struct ADep {
	pub group: String, pub artifact: String, pub version: Option<String>, pub type_: Option<String>,
	pub classifier: Option<String>, pub scope: Option<u8>, pub optional: Option<bool>,
}
#[derive(Clone, Debug, PartialEq, Eq, Hash)]
pub struct APom {
	pub model_version: String, pub parent: Option<(String, String, String)>, pub group: Option<String>, pub artifact: String,
	pub version: Option<String>, pub packaging: Option<String>, pub dm: Vec<ADep>, pub deps: Vec<ADep>,
	/// XML only: an empty `<dependencyManagement>` element instead of none (no effect on the POM's meaning)
	pub dm_empty_element: bool,
	/// XML only, bit 0: an empty `<dependencies/>` element instead of none; bit 1: `<dependencyManagement>` holding an
	/// empty `<dependencies>` element (both legal by the POM schema; accepted since the `fix:` of Dependencies::dependency)
	pub empty_lists: u8,
	/// XML only: 0 = the bare document; otherwise the seed of a realistic rendering (XML declaration, namespace
	/// declarations, comments, white space around values, CDATA, reordered sections, elements the resolver must ignore)
	pub xml_style: u64,
}
#[derive(Clone, Debug, PartialEq, Eq, Hash)]
pub enum Entry { Pom(APom), Broken(String) }

#[derive(Clone, Debug, PartialEq, Eq, Hash)]
pub struct ACoord { pub group: String, pub artifact: String, pub version: String, pub classifier: Option<String>, pub type_: String }

#[derive(Clone, Debug)]
pub struct Repo { pub name: String, pub maven: String, pub files: Vec<((String, String, String), Entry)> }

#[derive(Clone, Debug)]
pub struct Universe { pub repos: Vec<Repo>, pub roots: Vec<(ACoord, u8)>,
	/// repositories whose documents the Downloader would serve but which are NOT among the resolvers handed to the crate
	pub unlisted: Vec<Repo> }

// ---------- XML ----------
pub fn esc(s: &str) -> String { s.replace('&', "&amp;").replace('<', "&lt;").replace('>', "&gt;") }
fn el(name: &str, v: &str) -> String { format!("<{name}>{}</{name}>", esc(v)) }
fn opt_el(name: &str, v: &Option<String>) -> String { v.as_ref().map_or(String::new(), |v| el(name, v)) }

fn dep_xml(d: &ADep) -> String {
	let mut s = String::from("<dependency>");
	s += &el("groupId", &d.group); s += &el("artifactId", &d.artifact);
	s += &opt_el("version", &d.version); s += &opt_el("type", &d.type_); s += &opt_el("classifier", &d.classifier);
	if let Some(sc) = d.scope { s += &el("scope", if sc == IMPORT { "import" } else { SCOPES[sc as usize] }); }
	if let Some(o) = d.optional { s += &el("optional", if o { "true" } else { "false" }); }
	s += "</dependency>";
	s
}
pub fn pom_xml(p: &APom) -> String {
	if p.xml_style != 0 { return pom_xml_rich(p); }
	let mut s = String::from("<project>\n");
	s += &el("modelVersion", &p.model_version);
	if let Some((g, a, v)) = &p.parent { s += &format!("<parent>{}{}{}</parent>", el("groupId", g), el("artifactId", a), el("version", v)); }
	s += &opt_el("groupId", &p.group); s += &el("artifactId", &p.artifact); s += &opt_el("version", &p.version); s += &opt_el("packaging", &p.packaging);
	if !p.dm.is_empty() {
		s += "\n<dependencyManagement><dependencies>";
		for d in &p.dm { s += &dep_xml(d); }
		s += "</dependencies></dependencyManagement>";
	} else if p.empty_lists & 2 != 0 { s += "<dependencyManagement><dependencies/></dependencyManagement>"; }
	else if p.dm_empty_element { s += "<dependencyManagement></dependencyManagement>"; }
	if !p.deps.is_empty() {
		s += "\n<dependencies>";
		for d in &p.deps { s += &dep_xml(d); }
		s += "</dependencies>";
	} else if p.empty_lists & 1 != 0 { s += "\n<dependencies></dependencies>"; }
	s += "\n</project>";
	s
}

// ---------- realistic rendering: what POMs in repositories look like ----------
struct Sty(u64);
impl Sty {
	fn next(&mut self) -> u64 { self.0 = self.0.wrapping_mul(6364136223846793005).wrapping_add(1442695040888963407); self.0 >> 33 }
	fn below(&mut self, n: u64) -> u64 { self.next() % n }
	fn chance(&mut self, a: u64, b: u64) -> bool { self.below(b) < a }
	/// white space and comments between elements
	fn gap(&mut self, indent: usize) -> String {
		let mut s = match self.below(4) { 0 => String::new(), 1 => "\n".to_string(), 2 => format!("\n{}", "  ".repeat(indent)), _ => format!("\r\n{}", "\t".repeat(indent)) };
		if self.chance(1, 6) { s += *[ "<!-- a comment -->", "<!--<dependency><groupId>commented</groupId><artifactId>out</artifactId><version>0</version></dependency>-->", "<!-- multi\n     line -->", "<!---->" ].get(self.below(4) as usize).unwrap(); s += "\n"; s += &"  ".repeat(indent); }
		s
	}
	/// an element with a text value: padded with white space (Maven and serde-xml-rs both trim), sometimes CDATA
	fn el(&mut self, name: &str, v: &str) -> String {
		let body = if !v.is_empty() && !v.contains("]]>") && self.chance(1, 10) { format!("<![CDATA[{v}]]>") } else { esc(v) };
		match self.below(8) { 0 => format!("<{name}> {body} </{name}>"), 1 => format!("<{name}>\n      {body}\n    </{name}>"), 2 if v.is_empty() => format!("<{name}/>"), _ => format!("<{name}>{body}</{name}>") }
	}
	fn opt_el(&mut self, name: &str, v: &Option<String>) -> String { match v { Some(v) => self.el(name, v), None => String::new() } }
	/// an element of the POM schema that plays no part in dependency resolution within the supported subset
	fn ignored(&mut self) -> String {
		match self.below(14) {
			0 => "<name>Some Library</name>".into(),
			1 => "<description>A library.\n    Second line &amp; an entity, <![CDATA[ <raw> text ]]></description>".into(),
			2 => "<url>https://example.org/lib</url>".into(),
			3 => "<inceptionYear/>".into(),
			4 => "<licenses><license><name>Apache-2.0</name><url>https://www.apache.org/licenses/LICENSE-2.0.txt</url><distribution>repo</distribution></license></licenses>".into(),
			5 => "<developers><developer><id>dev</id><name>D. Eveloper</name><email>d@example.org</email></developer></developers>".into(),
			6 => "<scm><connection>scm:git:https://example.org/lib.git</connection><tag>HEAD</tag></scm>".into(),
			7 => "<properties><project.build.sourceEncoding>UTF-8</project.build.sourceEncoding><maven.compiler.release>17</maven.compiler.release><empty.property/></properties>".into(),
			// a plugin's own <dependencies> and <version> are nested below <build>: not the project's
			8 => "<build><finalName>lib</finalName><plugins><plugin><groupId>org.apache.maven.plugins</groupId><artifactId>maven-compiler-plugin</artifactId><version>3.11.0</version><configuration><release>17</release></configuration><dependencies><dependency><groupId>plugin.only</groupId><artifactId>plugin-dep</artifactId><version>9</version></dependency></dependencies></plugin></plugins></build>".into(),
			9 => "<repositories><repository><id>extra</id><url>https://repo.example.org/m2</url></repository></repositories>".into(),
			10 => "<distributionManagement><repository><id>releases</id><url>https://repo.example.org/releases</url></repository></distributionManagement>".into(),
			11 => "<modules><module>core</module><module>api</module></modules>".into(),
			12 => "<organization><name>Example Org</name></organization>".into(),
			_ => "<issueManagement><system>none</system></issueManagement>".into(),
		}
	}
	fn dep(&mut self, d: &ADep, indent: usize) -> String {
		let mut s = String::from("<dependency>");
		let mut parts = vec![self.el("groupId", &d.group), self.el("artifactId", &d.artifact), self.opt_el("version", &d.version), self.opt_el("type", &d.type_), self.opt_el("classifier", &d.classifier)];
		if let Some(sc) = d.scope { parts.push(self.el("scope", if sc == IMPORT { "import" } else { SCOPES[sc as usize] })); }
		if let Some(o) = d.optional { parts.push(self.el("optional", if o { "true" } else { "false" })); }
		parts.retain(|x| !x.is_empty());
		if self.chance(1, 4) { parts.reverse(); } // the schema's xs:all: children in any order
		for x in parts { s += &self.gap(indent + 1); s += &x; }
		s += &self.gap(indent); s += "</dependency>";
		s
	}
	fn deps(&mut self, ds: &[ADep], indent: usize) -> String {
		if ds.is_empty() { return if self.chance(1, 2) { "<dependencies/>".into() } else { "<dependencies>\n  </dependencies>".into() }; }
		let mut s = String::from("<dependencies>");
		for d in ds { s += &self.gap(indent + 1); s += &self.dep(d, indent + 1); }
		s += &self.gap(indent); s += "</dependencies>";
		s
	}
}
fn pom_xml_rich(p: &APom) -> String {
	let mut st = Sty(p.xml_style);
	let mut s = String::new();
	if st.chance(3, 4) { s += if st.chance(1, 2) { "<?xml version=\"1.0\" encoding=\"UTF-8\"?>\n" } else { "<?xml version='1.0' encoding='utf-8' standalone='yes'?>\n" }; }
	if st.chance(1, 3) { s += "<!--\n  Licensed under the Example License; <project> in a comment\n-->\n"; }
	s += match st.below(4) {
		0 => "<project>",
		1 => "<project xmlns=\"http://maven.apache.org/POM/4.0.0\">",
		_ => "<project xmlns=\"http://maven.apache.org/POM/4.0.0\" xmlns:xsi=\"http://www.w3.org/2001/XMLSchema-instance\"\n         xsi:schemaLocation=\"http://maven.apache.org/POM/4.0.0 https://maven.apache.org/xsd/maven-4.0.0.xsd\">",
	};
	// the sections of the document; their order is free (xs:all)
	let mut sections: Vec<String> = vec![];
	sections.push(st.el("modelVersion", &p.model_version));
	if let Some((g, a, v)) = &p.parent {
		let mut x = String::from("<parent>");
		x += &st.gap(2); x += &st.el("groupId", g); x += &st.gap(2); x += &st.el("artifactId", a); x += &st.gap(2); x += &st.el("version", v);
		if st.chance(1, 2) { x += &st.gap(2); x += if st.chance(1, 2) { "<relativePath/>" } else { "<relativePath>../pom.xml</relativePath>" }; }
		x += &st.gap(1); x += "</parent>";
		sections.push(x);
	}
	for (n, v) in [("groupId", &p.group), ("version", &p.version), ("packaging", &p.packaging)] { if v.is_some() { sections.push(st.opt_el(n, v)); } }
	sections.push(st.el("artifactId", &p.artifact));
	if !p.dm.is_empty() || p.empty_lists & 2 != 0 {
		let mut x = String::from("<dependencyManagement>"); x += &st.gap(2); x += &st.deps(&p.dm, 2); x += &st.gap(1); x += "</dependencyManagement>";
		sections.push(x);
	} else if p.dm_empty_element { sections.push(if st.chance(1, 2) { "<dependencyManagement/>".into() } else { "<dependencyManagement>\n  </dependencyManagement>".into() }); }
	if !p.deps.is_empty() || p.empty_lists & 1 != 0 { sections.push(st.deps(&p.deps, 1)); }
	let extra = st.below(6);
	let mut seen = vec![];
	for _ in 0..extra { let x = st.ignored(); let tag: String = x.chars().take_while(|c| *c != '>' && *c != '/').collect(); if !seen.contains(&tag) { seen.push(tag); sections.push(x); } }
	// modelVersion first as everybody writes it (sometimes not), the rest shuffled half of the time
	if st.chance(1, 2) { let n = sections.len(); for i in (2..n).rev() { let j = 1 + st.below(i as u64) as usize; sections.swap(i, j); } }
	if st.chance(1, 8) { sections.rotate_left(1); }
	for x in sections { s += &st.gap(1); s += &x; }
	s += &st.gap(0); s += "</project>";
	if st.chance(1, 2) { s += "\n"; }
	if st.chance(1, 8) { s += "<!-- trailing comment -->\n"; }
	s
}

// ---------- what serde must make of the XML: the serialised form of the deserialised MavenPom ----------
// (compared field by field against the abstract POM; fields this harness does not know are ignored, so a field
//  added to MavenPom does not break the tie)
fn dep_json(d: &ADep) -> serde_json::Value {
	let sc = d.scope.map(|x| if x == IMPORT { "import" } else { SCOPES[x as usize] });
	serde_json::json!({ "groupId": d.group, "artifactId": d.artifact, "version": d.version, "type": d.type_, "classifier": d.classifier, "scope": sc, "optional": d.optional })
}
pub fn pom_json(p: &APom) -> serde_json::Value {
	let deps = |ds: &[ADep]| serde_json::json!({ "dependency": ds.iter().map(dep_json).collect::<Vec<_>>() });
	let dm = if !p.dm.is_empty() || p.empty_lists & 2 != 0 { serde_json::json!({ "dependencies": deps(&p.dm) }) }
		else if p.dm_empty_element { serde_json::json!({ "dependencies": null }) } else { serde_json::Value::Null };
	let dependencies = if !p.deps.is_empty() || p.empty_lists & 1 != 0 { deps(&p.deps) } else { serde_json::Value::Null };
	let parent = match &p.parent { None => serde_json::Value::Null, Some((g, a, v)) => serde_json::json!({ "groupId": g, "artifactId": a, "version": v }) };
	serde_json::json!({ "modelVersion": p.model_version, "parent": parent, "groupId": p.group, "artifactId": p.artifact, "version": p.version,
		"packaging": p.packaging, "dependencyManagement": dm, "dependencies": dependencies })
}
/// every field of `want` is in `got` with the same value (missing = null); `got` may have more fields
pub fn json_covers(want: &serde_json::Value, got: &serde_json::Value) -> bool {
	use serde_json::Value::*;
	match (want, got) {
		(Object(w), Object(g)) => w.iter().all(|(k, v)| json_covers(v, g.get(k).unwrap_or(&Null))),
		(Array(w), Array(g)) => w.len() == g.len() && w.iter().zip(g.iter()).all(|(a, b)| json_covers(a, b)),
		(a, b) => a == b,
	}
}

// ---------- the repository layout (Maven repository layout documentation) ----------
fn all_digits(s: &str) -> bool { !s.is_empty() && s.bytes().all(|b| b.is_ascii_digit()) }
/// `X-yyyymmdd.hhmmss-n` lives in the directory of `X-SNAPSHOT`
pub fn base_version(v: &str) -> String {
	let parts: Vec<&str> = v.rsplitn(3, '-').collect(); // [build, timestamp, rest]
	if parts.len() == 3 && all_digits(parts[0]) {
		if let Some((d, t)) = parts[1].split_once('.') {
			if d.len() == 8 && t.len() == 6 && all_digits(d) && all_digits(t) { return format!("{}-SNAPSHOT", parts[2]); }
		}
	}
	v.to_string()
}
pub fn pom_url(maven: &str, g: &str, a: &str, v: &str) -> String {
	let base = maven.strip_suffix('/').unwrap_or(maven);
	format!("{base}/{}/{a}/{}/{a}-{v}.pom", g.replace('.', "/"), base_version(v))
}

// ---------- Gallina ----------
/// a string as a list of code points; printable ASCII as the constants k32..k126 of coq/C19/Run.v
pub fn gs(s: &str) -> String {
	let v: Vec<String> = s.chars().map(|c| { let n = c as u32; if (32..127).contains(&n) { format!("k{n}") } else { n.to_string() } }).collect();
	format!("[{}]", v.join(";"))
}
pub fn gos(s: &Option<String>) -> String { gopt(s.as_ref().map(|x| gs(x))) }
fn g_dep(d: &ADep, mgmt: bool) -> String {
	let sc = match d.scope {
		None => "None".to_string(),
		Some(x) if mgmt && x == IMPORT => "(Some MImport)".to_string(),
		Some(x) if mgmt => format!("(Some (MScope {}))", SCOPE_CTORS[x as usize]),
		Some(x) => format!("(Some {})", SCOPE_CTORS[x as usize]),
	};
	format!("(mkDep {} {} {} {} {} {} {})", gs(&d.group), gs(&d.artifact), gos(&d.version), gos(&d.type_), gos(&d.classifier), sc, gopt(d.optional.map(gbool)))
}
pub fn g_pom(p: &APom) -> String {
	let parent = gopt(p.parent.as_ref().map(|(g, a, v)| format!("(mkParent {} {} {})", gs(g), gs(a), gs(v))));
	format!("(mkPom {} {} {} {} {} {} {} {})", gs(&p.model_version), parent, gos(&p.group), gs(&p.artifact), gos(&p.version), gos(&p.packaging),
		glist(p.dm.iter().map(|d| g_dep(d, true))), glist(p.deps.iter().map(|d| g_dep(d, false))))
}
pub fn g_coord(c: &ACoord) -> String {
	format!("(mkCoord {} {} {} {} {})", gs(&c.group), gs(&c.artifact), gs(&c.version), gos(&c.classifier), gs(&c.type_))
}
pub fn g_resolver(name: &str, maven: &str) -> String { format!("(mkResolver {} {})", gs(name), gs(maven)) }

impl Universe {
	pub fn new(repos: Vec<Repo>, roots: Vec<(ACoord, u8)>) -> Universe { Universe { repos, roots, unlisted: vec![] } }
	/// the Downloader's map: URL -> document
	pub fn url_map(&self) -> Vec<(String, Entry)> {
		let mut out: Vec<(String, Entry)> = vec![];
		for r in self.repos.iter().chain(self.unlisted.iter()) {
			for ((g, a, v), e) in &r.files {
				let url = pom_url(&r.maven, g, a, v);
				if !out.iter().any(|(u, _)| *u == url) { out.push((url, e.clone())); }
			}
		}
		out
	}
	pub fn g_files(&self) -> String {
		glist(self.url_map().iter().map(|(u, e)| format!("({}, {})", gs(u), match e { Entry::Pom(p) => format!("Ok {}", g_pom(p)), Entry::Broken(_) => "Err".to_string() })))
	}
	pub fn g_resolvers(&self) -> String { glist(self.repos.iter().map(|r| g_resolver(&r.name, &r.maven))) }
	pub fn g_roots(&self) -> String { glist(self.roots.iter().map(|(c, s)| format!("({}, {})", g_coord(c), SCOPE_CTORS[*s as usize]))) }
	/// human-readable replay text
	pub fn replay(&self) -> String {
		let mut s = String::new();
		s += "resolvers (in order):\n";
		for r in &self.repos { s += &format!("  name={:?} maven={:?}\n", r.name, r.maven); }
		s += "roots (coordinate, scope):\n";
		for (c, sc) in &self.roots { s += &format!("  {}:{}:{}{}:{} {}\n", c.group, c.artifact, c.type_, c.classifier.as_ref().map_or(String::new(), |k| format!(":{k}")), c.version, SCOPES[*sc as usize]); }
		for r in &self.unlisted { s += &format!("a repository that is NOT among the resolvers: maven={:?}\n", r.maven); }
		s += "documents served by the Downloader:\n";
		for (u, e) in self.url_map() {
			s += &format!("--- {u}\n{}\n", match &e { Entry::Pom(p) => pom_xml(p), Entry::Broken(x) => x.clone() });
		}
		s
	}
}
