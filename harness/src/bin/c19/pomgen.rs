//! Abstract POMs and universes; their XML, the Debug text serde must produce from that XML
//! (checked for every generated document, so the XML step outside the model is still tied),
//! and their Gallina form.
use fbh::gal::*;

pub const SCOPES: [&str; 5] = ["compile", "runtime", "test", "system", "provided"];
pub const SCOPE_CTORS: [&str; 5] = ["Compile", "Runtime", "Test", "System", "Provided"];
pub const SCOPE_DEBUG: [&str; 5] = ["Compile", "Runtime", "Test", "System", "Provided"];
pub const IMPORT: u8 = 5;

#[derive(Clone, Debug, PartialEq, Eq, Hash)]
pub struct ADep {
	pub group: String, pub artifact: String, pub version: Option<String>, pub type_: Option<String>,
	pub classifier: Option<String>, pub scope: Option<u8>, pub optional: Option<bool>,
}
#[derive(Clone, Debug, PartialEq, Eq, Hash)]
pub struct APom {
	pub model_version: String, pub parent: Option<(String, String, String)>, pub group: Option<String>, pub artifact: String,
	pub version: Option<String>, pub packaging: Option<String>, pub dm: Vec<ADep>, pub deps: Vec<ADep>,
	/// XML only: an empty `<dependencyManagement>` element instead of none (no effect on the POM's meaning)
	pub dm_empty_element: bool,
}
#[derive(Clone, Debug, PartialEq, Eq, Hash)]
pub enum Entry { Pom(APom), Broken(String) }

#[derive(Clone, Debug, PartialEq, Eq, Hash)]
pub struct ACoord { pub group: String, pub artifact: String, pub version: String, pub classifier: Option<String>, pub type_: String }

#[derive(Clone, Debug)]
pub struct Repo { pub name: String, pub maven: String, pub files: Vec<((String, String, String), Entry)> }

#[derive(Clone, Debug)]
pub struct Universe { pub repos: Vec<Repo>, pub roots: Vec<(ACoord, u8)> }

// ---------- XML ----------
pub fn esc(s: &str) -> String { s.replace('&', "&amp;").replace('<', "&lt;").replace('>', "&gt;") }
fn el(name: &str, v: &str) -> String { format!("<{name}>{}</{name}>", esc(v)) }
fn opt_el(name: &str, v: &Option<String>) -> String { v.as_ref().map_or(String::new(), |v| el(name, v)) }

fn dep_xml(d: &ADep) -> String {
	let mut s = String::from("<dependency>");
	s += &el("groupId", &d.group); s += &el("artifactId", &d.artifact);
	s += &opt_el("version", &d.version); s += &opt_el("type", &d.type_); s += &opt_el("classifier", &d.classifier);
	if let Some(sc) = d.scope { s += &el("scope", if sc == IMPORT { "import" } else { SCOPES[sc as usize] }); }
	if let Some(o) = d.optional { s += &el("optional", if o { "true" } else { "false" }); }
	s += "</dependency>";
	s
}
pub fn pom_xml(p: &APom) -> String {
	let mut s = String::from("<project>\n");
	s += &el("modelVersion", &p.model_version);
	if let Some((g, a, v)) = &p.parent { s += &format!("<parent>{}{}{}</parent>", el("groupId", g), el("artifactId", a), el("version", v)); }
	s += &opt_el("groupId", &p.group); s += &el("artifactId", &p.artifact); s += &opt_el("version", &p.version); s += &opt_el("packaging", &p.packaging);
	if !p.dm.is_empty() {
		s += "\n<dependencyManagement><dependencies>";
		for d in &p.dm { s += &dep_xml(d); }
		s += "</dependencies></dependencyManagement>";
	} else if p.dm_empty_element { s += "<dependencyManagement></dependencyManagement>"; }
	if !p.deps.is_empty() {
		s += "\n<dependencies>";
		for d in &p.deps { s += &dep_xml(d); }
		s += "</dependencies>";
	}
	s += "\n</project>";
	s
}

// ---------- the Debug text of the deserialised MavenPom ----------
fn dep_debug(d: &ADep, mgmt: bool) -> String {
	let sc = match d.scope { None => "None".to_string(), Some(x) if x == IMPORT && mgmt => "Some(Import)".to_string(), Some(x) => format!("Some({})", SCOPE_DEBUG[x as usize]) };
	format!("Dependency {{ group_id: {:?}, artifact_id: {:?}, version: {:?}, type_: {:?}, classifier: {:?}, scope: {}, optional: {:?} }}",
		d.group, d.artifact, d.version, d.type_, d.classifier, sc, d.optional)
}
fn deps_debug(ds: &[ADep], mgmt: bool) -> String {
	format!("Some(Dependencies {{ dependency: [{}] }})", ds.iter().map(|d| dep_debug(d, mgmt)).collect::<Vec<_>>().join(", "))
}
pub fn pom_debug(p: &APom) -> String {
	let parent = match &p.parent { None => "None".to_string(), Some((g, a, v)) => format!("Some(Parent {{ group_id: {g:?}, artifact_id: {a:?}, version: {v:?} }})") };
	let dm = if !p.dm.is_empty() { format!("Some(DependencyManagement {{ dependencies: {} }})", deps_debug(&p.dm, true)) }
		else if p.dm_empty_element { "Some(DependencyManagement { dependencies: None })".to_string() } else { "None".to_string() };
	let deps = if p.deps.is_empty() { "None".to_string() } else { deps_debug(&p.deps, false) };
	format!("MavenPom {{ model_version: {:?}, parent: {}, group_id: {:?}, artifact_id: {:?}, version: {:?}, packaging: {:?}, dependency_management: {}, dependencies: {} }}",
		p.model_version, parent, p.group, p.artifact, p.version, p.packaging, dm, deps)
}

// ---------- the repository layout (Maven repository layout documentation) ----------
fn all_digits(s: &str) -> bool { !s.is_empty() && s.bytes().all(|b| b.is_ascii_digit()) }
/// `X-yyyymmdd.hhmmss-n` lives in the directory of `X-SNAPSHOT`
pub fn base_version(v: &str) -> String {
	let parts: Vec<&str> = v.rsplitn(3, '-').collect(); // [build, timestamp, rest]
	if parts.len() == 3 && all_digits(parts[0]) {
		if let Some((d, t)) = parts[1].split_once('.') {
			if d.len() == 8 && t.len() == 6 && all_digits(d) && all_digits(t) { return format!("{}-SNAPSHOT", parts[2]); }
		}
	}
	v.to_string()
}
pub fn pom_url(maven: &str, g: &str, a: &str, v: &str) -> String {
	let base = maven.strip_suffix('/').unwrap_or(maven);
	format!("{base}/{}/{a}/{}/{a}-{v}.pom", g.replace('.', "/"), base_version(v))
}

// ---------- Gallina ----------
/// a string as a list of code points; printable ASCII as the constants k32..k126 of coq/C19/Run.v
pub fn gs(s: &str) -> String {
	let v: Vec<String> = s.chars().map(|c| { let n = c as u32; if (32..127).contains(&n) { format!("k{n}") } else { n.to_string() } }).collect();
	format!("[{}]", v.join(";"))
}
pub fn gos(s: &Option<String>) -> String { gopt(s.as_ref().map(|x| gs(x))) }
fn g_dep(d: &ADep, mgmt: bool) -> String {
	let sc = match d.scope {
		None => "None".to_string(),
		Some(x) if mgmt && x == IMPORT => "(Some MImport)".to_string(),
		Some(x) if mgmt => format!("(Some (MScope {}))", SCOPE_CTORS[x as usize]),
		Some(x) => format!("(Some {})", SCOPE_CTORS[x as usize]),
	};
	format!("(mkDep {} {} {} {} {} {} {})", gs(&d.group), gs(&d.artifact), gos(&d.version), gos(&d.type_), gos(&d.classifier), sc, gopt(d.optional.map(gbool)))
}
pub fn g_pom(p: &APom) -> String {
	let parent = gopt(p.parent.as_ref().map(|(g, a, v)| format!("(mkParent {} {} {})", gs(g), gs(a), gs(v))));
	format!("(mkPom {} {} {} {} {} {} {} {})", gs(&p.model_version), parent, gos(&p.group), gs(&p.artifact), gos(&p.version), gos(&p.packaging),
		glist(p.dm.iter().map(|d| g_dep(d, true))), glist(p.deps.iter().map(|d| g_dep(d, false))))
}
pub fn g_coord(c: &ACoord) -> String {
	format!("(mkCoord {} {} {} {} {})", gs(&c.group), gs(&c.artifact), gs(&c.version), gos(&c.classifier), gs(&c.type_))
}
pub fn g_resolver(name: &str, maven: &str) -> String { format!("(mkResolver {} {})", gs(name), gs(maven)) }

impl Universe {
	/// the Downloader's map: URL -> document
	pub fn url_map(&self) -> Vec<(String, Entry)> {
		let mut out: Vec<(String, Entry)> = vec![];
		for r in &self.repos {
			for ((g, a, v), e) in &r.files {
				let url = pom_url(&r.maven, g, a, v);
				if !out.iter().any(|(u, _)| *u == url) { out.push((url, e.clone())); }
			}
		}
		out
	}
	pub fn g_files(&self) -> String {
		glist(self.url_map().iter().map(|(u, e)| format!("({}, {})", gs(u), match e { Entry::Pom(p) => format!("Ok {}", g_pom(p)), Entry::Broken(_) => "Err".to_string() })))
	}
	pub fn g_resolvers(&self) -> String { glist(self.repos.iter().map(|r| g_resolver(&r.name, &r.maven))) }
	pub fn g_roots(&self) -> String { glist(self.roots.iter().map(|(c, s)| format!("({}, {})", g_coord(c), SCOPE_CTORS[*s as usize]))) }
	/// human-readable replay text
	pub fn replay(&self) -> String {
		let mut s = String::new();
		s += "resolvers (in order):\n";
		for r in &self.repos { s += &format!("  name={:?} maven={:?}\n", r.name, r.maven); }
		s += "roots (coordinate, scope):\n";
		for (c, sc) in &self.roots { s += &format!("  {}:{}:{}{}:{} {}\n", c.group, c.artifact, c.type_, c.classifier.as_ref().map_or(String::new(), |k| format!(":{k}")), c.version, SCOPES[*sc as usize]); }
		s += "documents served by the Downloader:\n";
		for (u, e) in self.url_map() {
			s += &format!("--- {u}\n{}\n", match &e { Entry::Pom(p) => pom_xml(p), Entry::Broken(x) => x.clone() });
		}
		s
	}
}
