//! C13 — dukebox::merge::merge: client/server jar merge.
//!
//! Jars are generated from abstract descriptions (classes.rs), built in memory either as zip
//! archives (`UnnamedMemJar`, the way the program uses the merge) or as `ParsedJar`s, merged by the
//! real crate, and the result is (a) judged by an oracle that knows only the property text and
//! (b) printed, together with the inputs, as a Gallina `case` for the model in coq/C13.
mod anntree;
mod classes;
mod gen;
mod real;

use std::collections::{HashMap, HashSet};
use std::io::{Cursor, Write};
use std::panic::AssertUnwindSafe;
use std::path::Path;
use classes::*;
use dukebox::storage::{BasicFileAttributes, ClassRepr, FileJar, IsClass, IsOther, Jar, JarEntry, JarEntryEnum, NamedMemJar, OpenedJar, ParsedJar, ParsedJarEntry, UnnamedMemJar};
use fbh::classfile::facts::ClassFacts;
use fbh::gal::*;
use fbh::prng::Rng;
use fbh::report::{crumb, guarded, Report};
use fbh::Ctx;
use zip::write::{ExtendedFileOptions, FileOptions};
use zip::{CompressionMethod, DateTime, ZipWriter};

pub const REPLAY_NOTE: &str = "how to read the jars below: every entry is written into a zip archive (zip crate; `deflate` = CompressionMethod::Deflated, else Stored) or put into a ParsedJar, as `route` says (Unnamed/Named = UnnamedMemJar/NamedMemJar, File = FileJar on disk, Parsed = ParsedJar); Class(AClass) is built by harness/src/bin/c13/classes.rs to_duke and written by duke::write_class; an attribute (name, seed, len) has the bytes noise(seed, len) (xorshift64*, classes.rs); long byte strings are shown as <length, fnv64>, `origin` says how they are made";
pub const MANIFEST_NAME: &str = "META-INF/MANIFEST.MF";
pub const MANIFEST_BYTES: &[u8] = b"Manifest-Version: 1.0\nMain-Class: net.minecraft.client.Main\n";

// ---------------------------------------------------------------- abstract jars
#[derive(Clone, PartialEq)]
pub enum AContent { Dir, Other(Vec<u8>), Class(AClass), RawClass(Vec<u8>) }
/// long byte strings are shown by length and hash; `AEntry::origin` says how to make them again
fn show_bytes(d: &[u8]) -> String { if d.len() <= 64 { format!("{d:?}") } else { format!("<{} bytes, fnv64 {:016x}>", d.len(), fnv64(d)) } }
pub fn fnv64(d: &[u8]) -> u64 { d.iter().fold(0xcbf2_9ce4_8422_2325u64, |h, &b| (h ^ b as u64).wrapping_mul(0x0000_0100_0000_01b3)) }
impl std::fmt::Debug for AContent {
	fn fmt(&self, f: &mut std::fmt::Formatter<'_>) -> std::fmt::Result {
		match self {
			AContent::Dir => write!(f, "Dir"),
			AContent::Other(d) => write!(f, "Other({})", show_bytes(d)),
			AContent::RawClass(d) => write!(f, "RawClass({})", show_bytes(d)),
			AContent::Class(c) => write!(f, "Class({c:?})"),
		}
	}
}
#[derive(Clone, Debug, PartialEq)]
pub struct AEntry {
	pub name: String,
	/// year, month, day, hour, minute, second (even) of the zip time stamp
	pub time: (u16, u8, u8, u8, u8, u8),
	pub content: AContent,
	/// ParsedJar only: hand the class over as ClassRepr::Parsed (else ClassRepr::Vec)
	pub parsed_repr: bool,
	/// zip archives only: the entry is DEFLATE-compressed (else stored)
	pub deflate: bool,
	/// how the bytes of a long `Other` / `RawClass` content are made (empty for literal contents)
	pub origin: String,
	/// zip archives only: an Info-ZIP extended-timestamp extra field (0x5455) with these flags (bit 0 mtime,
	/// bit 1 atime, bit 2 ctime) and times; the zip crate's writer refuses reserved header ids, so the field
	/// is written under the id 0xE57A and the id is patched in the finished archive (build_zip)
	pub ext: Option<(u8, [u32; 3])>,
}
impl AEntry {
	pub fn new(name: &str, time: (u16, u8, u8, u8, u8, u8), content: AContent) -> AEntry { AEntry { name: name.to_owned(), time, content, parsed_repr: false, deflate: false, origin: String::new(), ext: None } }
}
pub type AJar = Vec<AEntry>;
/// the four implementations of dukebox::storage::Jar; the first three are zip archives read through
/// `impl JarEntry for ZipFile`, the last one goes through `impl JarEntry for (&String, &ParsedJarEntry)`
#[derive(Clone, Copy, Debug, PartialEq)]
pub enum JarKind { Unnamed, Named, File, Parsed }
#[derive(Clone, Copy, Debug, PartialEq)]
pub struct Route { pub c: JarKind, pub s: JarKind }
impl Route {
	pub fn name(self) -> String { let n = |k| match k { JarKind::Unnamed => "mem", JarKind::Named => "named", JarKind::File => "file", JarKind::Parsed => "parsed" }; if self.c == self.s { n(self.c).to_owned() } else { format!("{}+{}", n(self.c), n(self.s)) } }
}

// what the model is told about an input entry
#[derive(Clone, Debug)]
pub enum PContent { Dir, Other(Vec<u8>), Class { parsed_repr: bool, raw: u64, bytes: Vec<u8>, parsed: Option<PClass>, facts: Option<Box<ClassFacts>> } }
#[derive(Clone, Debug)]
pub struct PEntry { pub name: String, pub attr: u64, pub content: PContent }

#[derive(Clone, Debug)]
pub enum OContent { Dir, Other(Vec<u8>), Vec { raw: u64, bytes: Vec<u8> }, Parsed(PClass) }
#[derive(Clone, Debug)]
pub struct OEntry { pub name: String, pub attr: u64, pub content: OContent, /** facts of a ClassRepr::Parsed result's tree */ pub facts: Option<Box<ClassFacts>>, /** the bytes a ClassRepr::Parsed result yields (IsClass::write = duke::write_class) */ pub written: Option<Vec<u8>> }
#[derive(Clone, Debug)]
pub enum Outcome { Ok(Vec<OEntry>), Fail, Panic }

fn dt(t: (u16, u8, u8, u8, u8, u8)) -> DateTime { DateTime::from_date_and_time(t.0, t.1, t.2, t.3, t.4, t.5).unwrap_or_default() }
fn attrs_of(t: (u16, u8, u8, u8, u8, u8)) -> BasicFileAttributes { BasicFileAttributes { last_modified: Some(dt(t)), mtime: None, atime: None, ctime: None } }

fn class_bytes(c: &AClass) -> Result<Vec<u8>, String> {
	let k = to_duke(c);
	guarded(AssertUnwindSafe(|| { let mut b = Vec::new(); duke::write_class(&mut b, &k).map(|()| b).map_err(|e| format!("{e:#}")) })).and_then(|x| x)
}

const EXT_PLACEHOLDER: [u8; 2] = [0x7A, 0xE5];
const EXT_TIMESTAMP: [u8; 2] = [0x55, 0x54];
fn ext_field(flags: u8, t: &[u32; 3]) -> Vec<u8> {
	let mut d = vec![flags];
	for (i, x) in t.iter().enumerate() { if flags & (1 << i) != 0 { d.extend_from_slice(&x.to_le_bytes()); } }
	d
}
fn build_zip(j: &AJar) -> anyhow::Result<Vec<u8>> {
	let mut w = ZipWriter::new(Cursor::new(Vec::new()));
	let mut patterns: Vec<Vec<u8>> = vec![];
	for e in j {
		let mut opts = FileOptions::<ExtendedFileOptions>::default().compression_method(if e.deflate { CompressionMethod::Deflated } else { CompressionMethod::Stored }).last_modified_time(dt(e.time));
		if let Some((flags, t)) = &e.ext {
			let d = ext_field(*flags, t);
			opts.add_extra_data(u16::from_le_bytes(EXT_PLACEHOLDER), &d, false)?;
			let mut p = EXT_PLACEHOLDER.to_vec(); p.extend_from_slice(&(d.len() as u16).to_le_bytes()); p.extend_from_slice(&d);
			patterns.push(p);
		}
		match &e.content {
			AContent::Dir => w.add_directory(e.name.as_str(), opts)?,
			AContent::Other(d) | AContent::RawClass(d) => { w.start_file(e.name.as_str(), opts)?; w.write_all(d)?; }
			AContent::Class(c) => { let b = class_bytes(c).map_err(|e| anyhow::anyhow!(e))?; w.start_file(e.name.as_str(), opts)?; w.write_all(&b)?; }
		}
	}
	let mut z = w.finish()?.into_inner();
	// give the extra fields their real header id: every occurrence of <placeholder id, length, data> (local and
	// central header); the extra fields are not covered by any checksum
	for p in patterns {
		let mut i = 0;
		while i + p.len() <= z.len() { if z[i..i + p.len()] == p[..] { z[i] = EXT_TIMESTAMP[0]; z[i + 1] = EXT_TIMESTAMP[1]; i += p.len(); } else { i += 1; } }
	}
	Ok(z)
}

fn build_parsed(j: &AJar) -> anyhow::Result<ParsedJar<ClassRepr, Vec<u8>>> {
	let mut p = ParsedJar { entries: Default::default() };
	for e in j {
		let content = match &e.content {
			AContent::Dir => JarEntryEnum::Dir,
			AContent::Other(d) => JarEntryEnum::Other(d.clone()),
			AContent::RawClass(d) => JarEntryEnum::Class(ClassRepr::Vec { data: d.clone() }),
			AContent::Class(c) if e.parsed_repr => JarEntryEnum::Class(ClassRepr::Parsed { class: to_duke(c) }),
			AContent::Class(c) => JarEntryEnum::Class(ClassRepr::Vec { data: class_bytes(c).map_err(|e| anyhow::anyhow!(e))? }),
		};
		p.entries.insert(e.name.clone(), ParsedJarEntry { attr: attrs_of(e.time), content });
	}
	Ok(p)
}

/// The model's view of an input jar. `attrs` are the attributes the implementation itself reads
/// from the built jar (zip route) resp. the ones put into the ParsedJar.
fn prepare(j: &AJar, kind: JarKind, attrs: &[BasicFileAttributes], it: &mut Interner) -> Result<Vec<PEntry>, String> {
	let mut out = vec![];
	for (e, a) in j.iter().zip(attrs) {
		let content = match &e.content {
			AContent::Dir => PContent::Dir,
			AContent::Other(d) => PContent::Other(d.clone()),
			AContent::Class(_) | AContent::RawClass(_) => {
				let parsed_repr = kind == JarKind::Parsed && e.parsed_repr && matches!(e.content, AContent::Class(_));
				let bytes = match &e.content { AContent::Class(c) => class_bytes(c)?, AContent::RawClass(d) => d.clone(), _ => unreachable!() };
				let tree = if parsed_repr {
					match &e.content { AContent::Class(c) => Some(to_duke(c)), _ => None }
				} else {
					// what `read()` yields on these bytes; a panic of the reader is C16's business, not ours
					let b = bytes.clone();
					match guarded(move || duke::read_class(&mut Cursor::new(b)).ok()) { Ok(x) => x, Err(p) => return Err(format!("reader panicked: {p}")) }
				};
				let parsed = tree.as_ref().map(|k| project(k, it));
				let facts = tree.as_ref().and_then(facts_of_tree);
				PContent::Class { parsed_repr, raw: it.id(&bytes), bytes, parsed, facts }
			}
		};
		if kind != JarKind::Parsed && e.ext.is_some() { EXT_SEEN.fetch_add(if a.mtime.is_some() { 1 } else { 1 << 32 }, std::sync::atomic::Ordering::Relaxed); }
		out.push(PEntry { name: e.name.clone(), attr: it.text(format!("{a:?}")), content });
	}
	Ok(out)
}

/// the facts (fbh::classfile) of a duke tree; None if the projection itself panics (not a finding of C13)
fn facts_of_tree(k: &duke::tree::class::ClassFile) -> Option<Box<ClassFacts>> {
	guarded(AssertUnwindSafe(|| fbh::classfile::facts::facts_from_duke(k))).ok().map(Box::new)
}

fn project_out(j: &ParsedJar<ClassRepr, Vec<u8>>, it: &mut Interner) -> Vec<OEntry> {
	j.entries.iter().map(|(name, e)| OEntry {
		name: name.clone(), attr: it.text(format!("{:?}", e.attr)),
		facts: match &e.content { JarEntryEnum::Class(ClassRepr::Parsed { class }) => facts_of_tree(class), _ => None },
		written: match &e.content { JarEntryEnum::Class(ClassRepr::Parsed { class }) => guarded(AssertUnwindSafe(|| { let mut b = Vec::new(); duke::write_class(&mut b, class).ok().map(|()| b) })).ok().flatten(), _ => None },
		content: match &e.content {
			JarEntryEnum::Dir => OContent::Dir,
			JarEntryEnum::Other(d) => OContent::Other(d.clone()),
			JarEntryEnum::Class(ClassRepr::Vec { data }) => OContent::Vec { raw: it.id(data), bytes: data.clone() },
			JarEntryEnum::Class(ClassRepr::Parsed { class }) => OContent::Parsed(project(class, it)),
		},
	}).collect()
}

pub struct Merged { pub client: Vec<PEntry>, pub server: Vec<PEntry>, pub outcome: Outcome, pub reopened: Option<Vec<(String, Option<Vec<u8>>)>>,
	/** complaints of the look-ups by name (OpenedJar::by_name on the merge result and on the re-opened written jar) */ pub lookups: Vec<String>,
	/** how the written jar was made: to_mem / put_to_file */ pub written_as: &'static str }

/// OpenedJar::by_name on `o`: every name of `present` is found under that very name, none of `absent` is
fn lookups<O: OpenedJar>(o: &mut O, what: &str, present: &[String], absent: &[String], bad: &mut Vec<String>) {
	for n in present {
		match OpenedJar::by_name(o, n) {
			Ok(Some(e)) => { let got = JarEntry::name(&e).to_owned(); if got != *n { bad.push(format!("{what}: by_name({n:?}) returns the entry {got:?}")); } }
			Ok(None) => bad.push(format!("{what}: by_name({n:?}) finds nothing, the entry is listed")),
			Err(e) => bad.push(format!("{what}: by_name({n:?}) fails: {e:#}")),
		}
	}
	for n in absent {
		match OpenedJar::by_name(o, n) { Ok(None) => {} Ok(Some(_)) => bad.push(format!("{what}: by_name({n:?}) finds an entry that is not listed")), Err(e) => bad.push(format!("{what}: by_name({n:?}) fails: {e:#}")) }
	}
}

enum BuiltJar { Unnamed(UnnamedMemJar), Named(NamedMemJar), File(FileJar), Parsed(ParsedJar<ClassRepr, Vec<u8>>) }
macro_rules! with_jar {
	($b:expr, $j:ident => $body:expr) => { match $b { BuiltJar::Unnamed($j) => $body, BuiltJar::Named($j) => $body, BuiltJar::File($j) => $body, BuiltJar::Parsed($j) => $body } };
}

fn build(j: &AJar, kind: JarKind, tmp: &Path, side: &str) -> anyhow::Result<BuiltJar> {
	Ok(match kind {
		JarKind::Unnamed => BuiltJar::Unnamed(UnnamedMemJar { data: build_zip(j)? }),
		JarKind::Named => BuiltJar::Named(NamedMemJar { name: format!("{side}.jar"), data: build_zip(j)? }),
		JarKind::File => { let path = tmp.join(format!("{side}.jar")); std::fs::create_dir_all(tmp)?; std::fs::write(&path, build_zip(j)?)?; BuiltJar::File(FileJar { path }) }
		JarKind::Parsed => BuiltJar::Parsed(build_parsed(j)?),
	})
}

/// the attributes the implementation itself reads from a jar, entry by entry
fn read_attrs<J: Jar>(j: &J) -> Result<Vec<BasicFileAttributes>, String> {
	let e2s = |e: anyhow::Error| format!("{e:#}");
	let mut o = j.open().map_err(e2s)?;
	let keys: Vec<_> = o.entry_keys().collect();
	keys.into_iter().map(|k| o.by_entry_key(k).map(|e| e.attrs()).map_err(e2s)).collect()
}

/// builds both jars, runs dukebox::merge::merge, projects everything
pub fn run_merge(client: &AJar, server: &AJar, route: Route, reopen: bool, tmp: &Path) -> Result<Merged, String> {
	run_merge_keep(client, server, route, reopen, false, tmp).map(|x| x.0)
}
/// the same, and the merged jar itself (for a second merge)
pub fn run_merge_keep(client: &AJar, server: &AJar, route: Route, reopen: bool, keep: bool, tmp: &Path) -> Result<(Merged, Option<ParsedJar<ClassRepr, Vec<u8>>>), String> {
	let mut it = Interner::default();
	let e2s = |e: anyhow::Error| format!("{e:#}");
	let cj = build(client, route.c, tmp, "client").map_err(e2s)?;
	let sj = build(server, route.s, tmp, "server").map_err(e2s)?;
	let ca = with_jar!(&cj, j => read_attrs(j))?;
	let sa = with_jar!(&sj, j => read_attrs(j))?;
	let pc = prepare(client, route.c, &ca, &mut it)?;
	let ps = prepare(server, route.s, &sa, &mut it)?;
	// the merge has no recursion over its input, but its loops do not obviously end (merge_preserve_order's
	// outer loop relies on the no_change break): leave the input behind in case the process has to be killed
	let crumb_text = format!("property C13\n{REPLAY_NOTE}\ndukebox::merge::merge did not return (harness killed) on\n{}", describe(client, server, route));
	Ok(run_built(cj, sj, pc, ps, &crumb_text, reopen, keep, tmp, &mut it))
}

/// the inputs of one merge, for replay texts
pub fn describe(client: &AJar, server: &AJar, route: Route) -> String {
	format!("route: {route:?}\nclient jar:\n{}\nserver jar:\n{}\n", client.iter().map(|e| format!("  {e:?}")).collect::<Vec<_>>().join("\n"), server.iter().map(|e| format!("  {e:?}")).collect::<Vec<_>>().join("\n"))
}

/// The model's view of a jar that already exists (the result of an earlier merge, as a ParsedJar or written
/// and re-opened as a zip archive): what the implementation itself finds in it, entry by entry.
fn prepare_built(bj: &BuiltJar, it: &mut Interner) -> Result<Vec<PEntry>, String> {
	enum Raw<'a> { Dir, Other(Vec<u8>), Bytes(Vec<u8>), Tree(&'a duke::tree::class::ClassFile) }
	let e2s = |e: anyhow::Error| format!("{e:#}");
	let attrs = with_jar!(bj, j => read_attrs(j))?;
	let mut raws: Vec<(String, Raw)> = vec![];
	match bj {
		BuiltJar::Parsed(p) => for (n, e) in &p.entries {
			raws.push((n.clone(), match &e.content {
				JarEntryEnum::Dir => Raw::Dir, JarEntryEnum::Other(d) => Raw::Other(d.clone()),
				JarEntryEnum::Class(ClassRepr::Vec { data }) => Raw::Bytes(data.clone()), JarEntryEnum::Class(ClassRepr::Parsed { class }) => Raw::Tree(class) }));
		},
		_ => {
			fn walk<J: Jar>(j: &J) -> Result<Vec<(String, Option<Result<Vec<u8>, Vec<u8>>>)>, String> {
				let e2s = |e: anyhow::Error| format!("{e:#}");
				let mut o = j.open().map_err(e2s)?;
				let keys: Vec<_> = o.entry_keys().collect();
				let mut v = vec![];
				for k in keys {
					let e = o.by_entry_key(k).map_err(e2s)?;
					let n = JarEntry::name(&e).to_owned();
					v.push((n, match e.to_jar_entry_enum().map_err(e2s)? { JarEntryEnum::Dir => None, JarEntryEnum::Class(c) => Some(Ok(c.write().map_err(e2s)?.as_ref().to_vec())), JarEntryEnum::Other(d) => Some(Err(d.get_data().to_vec())) }));
				}
				Ok(v)
			}
			let v = match bj { BuiltJar::Unnamed(j) => walk(j), BuiltJar::Named(j) => walk(j), BuiltJar::File(j) => walk(j), BuiltJar::Parsed(_) => unreachable!() }?;
			for (n, c) in v { raws.push((n, match c { None => Raw::Dir, Some(Ok(b)) => Raw::Bytes(b), Some(Err(d)) => Raw::Other(d) })); }
		}
	}
	let _ = e2s;
	let mut out = vec![];
	for ((name, raw), a) in raws.into_iter().zip(&attrs) {
		let content = match raw {
			Raw::Dir => PContent::Dir,
			Raw::Other(d) => PContent::Other(d),
			Raw::Bytes(bytes) => {
				let b = bytes.clone();
				let tree = match guarded(move || duke::read_class(&mut Cursor::new(b)).ok()) { Ok(x) => x, Err(p) => return Err(format!("reader panicked: {p}")) };
				PContent::Class { parsed_repr: false, raw: it.id(&bytes), parsed: tree.as_ref().map(|k| project(k, it)), facts: tree.as_ref().and_then(facts_of_tree), bytes }
			}
			Raw::Tree(k) => {
				let bytes = match guarded(AssertUnwindSafe(|| { let mut b = Vec::new(); duke::write_class(&mut b, k).map(|()| b).map_err(|e| format!("{e:#}")) })) { Ok(Ok(b)) => b, Ok(Err(e)) => return Err(format!("writer failed: {e}")), Err(p) => return Err(format!("writer panicked: {p}")) };
				PContent::Class { parsed_repr: true, raw: it.id(&bytes), parsed: Some(project(k, it)), facts: facts_of_tree(k), bytes }
			}
		};
		out.push(PEntry { name, attr: it.text(format!("{a:?}")), content });
	}
	Ok(out)
}

/// runs dukebox::merge::merge on two jars that are built already, projects everything
#[allow(clippy::too_many_arguments)]
fn run_built(cj: BuiltJar, sj: BuiltJar, pc: Vec<PEntry>, ps: Vec<PEntry>, crumb_text: &str, reopen: bool, keep: bool, tmp: &Path, it: &mut Interner) -> (Merged, Option<ParsedJar<ClassRepr, Vec<u8>>>) {
	crumb(crumb_text);
	let res = with_jar!(cj, c => with_jar!(sj, s => guarded(AssertUnwindSafe(|| dukebox::merge::merge(c, s)))));
	let mut reopened = None;
	let mut lookup_bad = vec![];
	let mut written_as = "";
	let mut kept = None;
	let outcome = match res {
		Err(_) => Outcome::Panic,
		Ok(Err(_)) => Outcome::Fail,
		Ok(Ok(j)) => {
			let o = project_out(&j, it);
			let present: Vec<String> = o.iter().map(|e| e.name.clone()).collect();
			// names that are NOT in the jar: the dropped ones, and near misses of the kept ones (a look-up by name is exact: no leading
			// `/` or `./` stripped, no trailing `/` added or removed, no other letter case)
			let near: Vec<String> = present.iter().take(6).flat_map(|n| vec![format!("/{n}"), format!("./{n}"), format!("{n}/"), n.trim_end_matches('/').to_owned(), n.to_uppercase(), n.to_lowercase()]).collect();
			let absent: Vec<String> = pc.iter().chain(ps.iter()).map(|e| e.name.clone()).chain(near).chain(["no/such/entry".to_owned(), String::new()]).filter(|n| !present.contains(n)).collect();
			if let Ok(mut oj) = j.open() { lookups(&mut oj, "merged jar", &present, &absent, &mut lookup_bad); }
			if reopen {
				// ParsedJar::write + the zip reader: what is on disk after the merge — through to_mem or put_to_file
				fn walk<O: OpenedJar>(z: &mut O, present: &[String], absent: &[String]) -> (Vec<(String, Option<Vec<u8>>)>, Vec<String>) {
					let (mut v, mut bad) = (vec![], vec![]);
					let keys: Vec<_> = z.entry_keys().collect();
					for k in keys {
						if let Ok(e) = z.by_entry_key(k) {
							let name = JarEntry::name(&e).to_owned();
							let data = match e.to_jar_entry_enum() {
								Ok(JarEntryEnum::Dir) => None,
								Ok(JarEntryEnum::Class(c)) => guarded(AssertUnwindSafe(|| c.write().ok().map(|b| b.as_ref().to_vec()))).ok().flatten().or(Some(vec![])),
								Ok(JarEntryEnum::Other(d)) => Some(d.get_data().to_vec()),
								Err(_) => Some(vec![]),
							};
							v.push((name, data));
						}
					}
					lookups(z, "written jar re-opened", present, absent, &mut bad);
					(v, bad)
				}
				let n = WRITES.fetch_add(1, std::sync::atomic::Ordering::Relaxed);
				if n % 3 == 2 {
					written_as = "put_to_file";
					let path = tmp.join("merged.jar");
					let _ = std::fs::create_dir_all(tmp);
					if let Ok(Ok(_)) = guarded(AssertUnwindSafe(|| j.put_to_file(&path).map(|_| ()))) {
						let fj = FileJar { path: path.clone() };
						if let Ok(mut z) = fj.open() { let (v, b) = walk(&mut z, &present, &absent); reopened = Some(v); lookup_bad.extend(b); }
					}
					let _ = std::fs::remove_file(&path);
				} else if keep {
					// the caller wants the jar back (to_mem would consume it): the same bytes through put_to_file, read into memory
					written_as = "put_to_file, read into an UnnamedMemJar";
					let path = tmp.join("merged-mem.jar");
					let _ = std::fs::create_dir_all(tmp);
					if let Ok(Ok(_)) = guarded(AssertUnwindSafe(|| j.put_to_file(&path).map(|_| ()))) {
						if let Ok(data) = std::fs::read(&path) {
							let mem = UnnamedMemJar { data };
							if let Ok(mut z) = mem.open() { let (v, b) = walk(&mut z, &present, &absent); reopened = Some(v); lookup_bad.extend(b); }
						}
					}
					let _ = std::fs::remove_file(&path);
				} else {
					written_as = "to_mem";
					if let Ok(Ok(mem)) = guarded(AssertUnwindSafe(|| j.to_mem())) {
						if let Ok(mut z) = mem.open() { let (v, b) = walk(&mut z, &present, &absent); reopened = Some(v); lookup_bad.extend(b); }
					}
					return (Merged { client: pc, server: ps, outcome: Outcome::Ok(o), reopened, lookups: lookup_bad, written_as }, None);
				}
			}
			if keep { kept = Some(j); }
			Outcome::Ok(o)
		}
	};
	(Merged { client: pc, server: ps, outcome, reopened, lookups: lookup_bad, written_as }, kept)
}
static WRITES: std::sync::atomic::AtomicUsize = std::sync::atomic::AtomicUsize::new(0);
/// zip entries written with an extended timestamp: low half = read back with an mtime, high half = without
static EXT_SEEN: std::sync::atomic::AtomicU64 = std::sync::atomic::AtomicU64::new(0);

// ---------------------------------------------------------------- Gallina
/// resource bytes for the model, which only copies and compares them: short ones literally, long ones
/// as [256 + length; three 21-bit pieces of a 64-bit hash] (no byte list starts with a number > 255)
fn g_bytes(d: &[u8]) -> String {
	if d.len() <= 64 { return gnums(d.iter().map(|&b| b as u64)); }
	let h = fnv64(d);
	gnums([256 + d.len() as u64, h & 0x1f_ffff, (h >> 21) & 0x1f_ffff, h >> 42])
}
fn g_entry(e: &PEntry) -> String {
	let c = match &e.content {
		PContent::Dir => "Dir".to_owned(),
		PContent::Other(d) => format!("(Other {})", g_bytes(d)),
		PContent::Class { parsed_repr, raw, parsed, .. } => format!("(Class {} {} {})", if *parsed_repr { "RParsed" } else { "RVec" }, raw, gopt(parsed.as_ref().map(g_class))),
	};
	format!("mkEntry {} {} {}", gstr(&cps_str(&e.name)), e.attr, c)
}
fn g_oentry(e: &OEntry) -> String {
	let c = match &e.content {
		OContent::Dir => "ODir".to_owned(),
		OContent::Other(d) => format!("(OOther {})", g_bytes(d)),
		OContent::Vec { raw, .. } => format!("(OVec {raw})"),
		OContent::Parsed(c) => format!("(OParsed {})", g_class(c)),
	};
	format!("mkOEntry {} {} {}", gstr(&cps_str(&e.name)), e.attr, c)
}
fn g_case(m: &Merged) -> String {
	let out = match &m.outcome { Outcome::Ok(o) => format!("(OK {})", glist(o.iter().map(g_oentry))), Outcome::Fail => "Fail".into(), Outcome::Panic => "Panic".into() };
	format!("CMerge {} {} {}", glist(m.client.iter().map(g_entry)), glist(m.server.iter().map(g_entry)), out)
}

// ---------------------------------------------------------------- the property oracle (implementation alone)
/// "signature files" as the property reads them: what the JAR specification calls signature-related files below META-INF/ —
/// the signature file *.SF and its signature block file *.RSA, *.DSA or *.EC
pub fn is_signature(n: &str) -> bool { n.starts_with("META-INF/") && [".SF", ".RSA", ".DSA", ".EC"].iter().any(|x| n.ends_with(x)) }
pub fn is_server_library(n: &str) -> bool { n.ends_with(".class") && n.contains('/') && !n.starts_with("net/minecraft/") }

fn is_subseq<T: PartialEq>(a: &[T], b: &[T]) -> bool { let mut i = 0; for y in b { if i < a.len() && a[i] == *y { i += 1; } } i == a.len() }
fn nodup<T: PartialEq>(a: &[T]) -> bool { a.iter().enumerate().all(|(i, x)| !a[..i].contains(x)) }
/// the relative order of the shared elements agrees
pub fn compatible<T: PartialEq + Clone>(a: &[T], b: &[T]) -> bool {
	let sa: Vec<T> = a.iter().filter(|x| b.contains(x)).cloned().collect();
	let sb: Vec<T> = b.iter().filter(|x| a.contains(x)).cloned().collect();
	sa == sb
}

/// exact-once union and order of a merged key list; returns the complaints
pub fn check_keys<T: PartialEq + Clone + std::fmt::Debug>(what: &str, a: &[T], b: &[T], m: &[T], bad: &mut Vec<String>) {
	if !nodup(a) || !nodup(b) { return; } // outside the property's domain (a class file cannot have duplicates)
	if !nodup(m) { bad.push(format!("{what}: an element appears twice in the merged list {m:?}")); }
	for x in a.iter().chain(b.iter()) { if !m.contains(x) { bad.push(format!("{what}: {x:?} of an input is missing from the merged list {m:?}")); } }
	for x in m { if !a.contains(x) && !b.contains(x) { bad.push(format!("{what}: {x:?} in the merged list is in neither input")); } }
	if compatible(a, b) {
		if !is_subseq(a, m) { bad.push(format!("{what}: orders are compatible but the client order {a:?} is not kept in {m:?}")); }
		if !is_subseq(b, m) { bad.push(format!("{what}: orders are compatible but the server order {b:?} is not kept in {m:?}")); }
	}
}

fn with_mark(m: &PMember, s: Side) -> PMember { let mut x = m.clone(); x.inv.push(PAnn::Env(s)); x }

fn check_members(what: &str, c: &[PMember], s: &[PMember], m: &[PMember], bad: &mut Vec<String>) {
	let (kc, ks, km): (Vec<_>, Vec<_>, Vec<_>) = (c.iter().map(|x| x.key()).collect(), s.iter().map(|x| x.key()).collect(), m.iter().map(|x| x.key()).collect());
	check_keys(what, &kc, &ks, &km, bad);
	if !nodup(&kc) || !nodup(&ks) { return; }
	for x in m {
		let k = x.key();
		let (ic, is) = (c.iter().find(|y| y.key() == k), s.iter().find(|y| y.key() == k));
		match (ic, is) {
			(Some(y), None) => if *x != with_mark(y, Side::Client) { bad.push(format!("{what} {}: client-only member is not the client's member plus the CLIENT mark", show(&k.0))); },
			(None, Some(y)) => if *x != with_mark(y, Side::Server) { bad.push(format!("{what} {}: server-only member is not the server's member plus the SERVER mark", show(&k.0))); },
			(Some(y), Some(_)) => if x.inv != y.inv { bad.push(format!("{what} {}: shared member's annotations changed (it must stay unmarked)", show(&k.0))); },
			(None, None) => {}
		}
	}
}

fn check_merged_class(name: &str, c: &PClass, s: &PClass, m: &PClass, bad: &mut Vec<String>) {
	check_keys(&format!("{name} interfaces"), &c.itfs, &s.itfs, &m.itfs, bad);
	check_members(&format!("{name} field"), &c.fields, &s.fields, &m.fields, bad);
	check_members(&format!("{name} method"), &c.methods, &s.methods, &m.methods, bad);
	if nodup(&c.itfs) && nodup(&s.itfs) {
		// one-sided interfaces are marked with their side, shared ones are not: the class's invisible
		// annotations are the client's plus (when there is a one-sided interface) one @EnvironmentInterfaces
		let mut want: Vec<(Side, Vec<u32>)> = vec![];
		for i in &c.itfs { if !s.itfs.contains(i) { want.push((Side::Client, i.clone())); } }
		for i in &s.itfs { if !c.itfs.contains(i) { want.push((Side::Server, i.clone())); } }
		let extra: Vec<&PAnn> = m.inv.iter().skip(c.inv.len()).collect();
		if m.inv.len() < c.inv.len() || m.inv[..c.inv.len()] != c.inv[..] { bad.push(format!("{name}: the client's class annotations are not kept")); }
		match (want.is_empty(), extra.as_slice()) {
			(true, []) => {}
			(false, [PAnn::Itfs(got)]) => {
				let mut g = got.clone(); let mut w = want.clone();
				let key = |x: &(Side, Vec<u32>)| (x.0 == Side::Server, x.1.clone());
				g.sort_by_key(key); w.sort_by_key(key);
				if g != w { bad.push(format!("{name}: interface marks {got:?} are not exactly the one-sided interfaces {want:?}")); }
			}
			_ => bad.push(format!("{name}: one-sided interfaces {want:?} but the added class annotations are {extra:?}")),
		}
	}
	if m.vis != c.vis { bad.push(format!("{name}: a class both sides have must not get a class-level side mark")); }
	// faithful union of what the merge does not mark: what both sides agree on stays
	if c.perm == s.perm { if m.perm != c.perm { bad.push(format!("{name}: both sides have the permitted subclasses {:?}, the merged class has {:?}", c.perm, m.perm)); } }
	else {
		if m.perm.is_none() { bad.push(format!("{name}: a side has permitted subclasses, the merged class has no PermittedSubclasses")); }
		check_keys(&format!("{name} permitted subclasses"), c.perm.as_deref().unwrap_or(&[]), s.perm.as_deref().unwrap_or(&[]), m.perm.as_deref().unwrap_or(&[]), bad);
	}
	if c.rec == s.rec && m.rec != c.rec { bad.push(format!("{name}: both sides have the same record components, the merged class has {}", if m.rec == 0 { "none" } else { "others" })); }
	if c.rec != s.rec && m.rec != c.rec && m.rec != s.rec { bad.push(format!("{name}: the record components of the merged class are neither the client's nor the server's")); }
}

/// the side marks and keys of a class as the independent parser sees them, against the projection of the merge result
fn facts_differ(f: &fbh::classfile::facts::ClassFacts, p: &PClass) -> Option<&'static str> {
	use fbh::classfile::facts::{AnnotationFacts, ElementValueFacts};
	let side = |v: &ElementValueFacts| -> Option<Side> {
		match v { ElementValueFacts::Enum { type_desc, const_name } if type_desc.to_string_lossy() == ENV_TYPE => match const_name.to_string_lossy().as_str() { "CLIENT" => Some(Side::Client), "SERVER" => Some(Side::Server), _ => None }, _ => None }
	};
	let ann = |a: &AnnotationFacts| -> Option<PAnn> {
		let ty = a.type_desc.to_string_lossy();
		if ty == ENVIRONMENT && a.pairs.len() == 1 && a.pairs[0].0.to_string_lossy() == "value" { return side(&a.pairs[0].1).map(PAnn::Env); }
		if ty == ENV_ITFS && a.pairs.len() == 1 && a.pairs[0].0.to_string_lossy() == "value" {
			if let ElementValueFacts::Array(arr) = &a.pairs[0].1 {
				let mut out = vec![];
				for e in arr {
					match e {
						ElementValueFacts::Annotation(x) if x.type_desc.to_string_lossy() == ENV_ITF && x.pairs.len() == 2 && x.pairs[0].0.to_string_lossy() == "value" && x.pairs[1].0.to_string_lossy() == "itf" => {
							match (side(&x.pairs[0].1), &x.pairs[1].1) {
								(Some(sd), ElementValueFacts::Class(d)) => { let d = d.code_points(); if d.len() < 2 { return None; } out.push((sd, d[1..d.len() - 1].to_vec())); }
								_ => return None,
							}
						}
						_ => return None,
					}
				}
				return Some(PAnn::Itfs(out));
			}
		}
		None
	};
	let marks = |l: &[AnnotationFacts]| -> Vec<PAnn> { l.iter().filter_map(|a| ann(a)).collect() };
	let pmarks = |l: &[PAnn]| -> Vec<PAnn> { l.iter().filter(|a| !matches!(a, PAnn::Other(_))).cloned().collect() };
	if f.name.code_points() != p.name { return Some("the class name"); }
	if f.interfaces.iter().map(|i| i.code_points()).collect::<Vec<_>>() != p.itfs { return Some("the interface list"); }
	if f.fields.iter().map(|x| (x.name.code_points(), x.desc.code_points(), marks(&x.invisible_annotations))).collect::<Vec<_>>() != p.fields.iter().map(|x| (x.name.clone(), x.desc.clone(), pmarks(&x.inv))).collect::<Vec<_>>() { return Some("the fields or their side marks"); }
	if f.methods.iter().map(|x| (x.name.code_points(), x.desc.code_points(), marks(&x.invisible_annotations))).collect::<Vec<_>>() != p.methods.iter().map(|x| (x.name.clone(), x.desc.clone(), pmarks(&x.inv))).collect::<Vec<_>>() { return Some("the methods or their side marks"); }
	if marks(&f.visible_annotations) != pmarks(&p.vis) { return Some("the class-level side marks"); }
	if marks(&f.invisible_annotations) != pmarks(&p.inv) { return Some("the interface side marks"); }
	None
}

fn oracle(r: &mut Report, inputs: &str, route: &str, m: &Merged) -> bool {
	let Outcome::Ok(out) = &m.outcome else { return true };
	let mut bad: Vec<String> = vec![];
	let cn: Vec<&str> = m.client.iter().map(|e| e.name.as_str()).collect();
	let sn: Vec<&str> = m.server.iter().map(|e| e.name.as_str()).collect();
	// every entry of either jar exactly once, minus signature files and bundled server libraries
	let mut want: Vec<&str> = cn.iter().copied().filter(|n| !is_signature(n)).collect();
	want.extend(sn.iter().copied().filter(|n| !cn.contains(n) && !is_signature(n) && !is_server_library(n)));
	let got: Vec<&str> = out.iter().map(|e| e.name.as_str()).collect();
	let (mut w, mut g) = (want.clone(), got.clone()); w.sort(); g.sort();
	if w != g { bad.push(format!("entries: expected exactly {want:?}, merged jar has {got:?}")); }
	for e in out {
		let n = e.name.as_str();
		if n == MANIFEST_NAME { continue; }
		let (ic, is) = (m.client.iter().find(|x| x.name == n), m.server.iter().find(|x| x.name == n));
		match (ic, is, &e.content) {
			(Some(x), None, _) | (None, Some(x), _) => {
				let side = if ic.is_some() { Side::Client } else { Side::Server };
				match (&x.content, &e.content) {
					(PContent::Dir, OContent::Dir) => {}
					(PContent::Other(d), OContent::Other(o)) => if d != o { bad.push(format!("{n}: one-sided resource changed")); },
					(PContent::Class { parsed: Some(p), facts, .. }, OContent::Parsed(o)) => {
						let mut w = p.clone(); w.vis.push(PAnn::Env(side));
						if *o != w { bad.push(format!("{n}: one-sided class is not the input class plus the class-level {side:?} mark")); }
						if let (Some(f), Some(fm)) = (facts, &e.facts) { real::check_one_sided(n, f, side, fm, &mut bad); }
					}
					_ => bad.push(format!("{n}: one-sided entry changed its kind")),
				}
			}
			(Some(x), Some(y), o) => match (&x.content, &y.content, o) {
				(PContent::Dir, PContent::Dir, OContent::Dir) => {}
				(PContent::Other(d), PContent::Other(d2), OContent::Other(o)) => {
					if d == d2 && o != d { bad.push(format!("{n}: resource equal on both sides changed")); }
					// "every entry of either jar exactly once": a resource that differs between the sides is one of the two, nothing else
					if d != d2 && o != d && o != d2 { bad.push(format!("{n}: resource differing between the sides is neither the client's nor the server's bytes ({})", show_bytes(o))); }
				}
				(PContent::Class { bytes: b1, parsed: p1, .. }, PContent::Class { bytes: b2, parsed: p2, .. }, o) => {
					if b1 == b2 {
						// identical class => identical bytes: the bytes the merged entry yields (a ClassRepr::Vec's data,
						// a ClassRepr::Parsed's tree written by duke::write_class, which is what IsClass::write does)
						let ob: Option<&Vec<u8>> = match o { OContent::Vec { bytes, .. } => Some(bytes), OContent::Parsed(_) => e.written.as_ref(), _ => None };
						if ob != Some(b1) { bad.push(format!("{n}: class identical on both sides is not passed through byte-identical ({})", match (o, ob) { (OContent::Parsed(_), Some(_)) => "it is handed on as a parsed tree, which the class writer encodes differently", (OContent::Parsed(_), None) => "it is handed on as a parsed tree the class writer cannot write", _ => "other bytes" })); }
						if let (OContent::Parsed(op), Some(p)) = (o, p1) { if op != p { bad.push(format!("{n}: class identical on both sides changed")); } }
					} else if let (Some(p1), Some(p2), OContent::Parsed(om)) = (p1, p2, o) {
						check_merged_class(n, p1, p2, om, &mut bad);
						if let (PContent::Class { facts: Some(f1), .. }, PContent::Class { facts: Some(f2), .. }, Some(fm)) = (&x.content, &y.content, &e.facts) {
							r.count("faithful:differing classes compared as whole-class facts");
							if f1 == f2 { r.count("faithful:differing bytes, equal trees"); }
							real::check_faithful(n, f1, f2, fm, &mut bad);
						}
					} else { bad.push(format!("{n}: differing classes not merged into a parsed class")); }
				}
				_ => bad.push(format!("{n}: entry kinds of input and output do not match")),
			},
			(None, None, _) => {} // reported by the entries check
		}
	}
	// the written jar, re-opened: the same names; resources and passed-through classes byte for byte
	let identical: HashMap<&str, &Vec<u8>> = m.client.iter().filter_map(|c| match (&c.content, m.server.iter().find(|s| s.name == c.name).map(|s| &s.content)) {
		(PContent::Class { bytes: b1, .. }, Some(PContent::Class { bytes: b2, .. })) if b1 == b2 => Some((c.name.as_str(), b1)),
		_ => None }).collect();
	bad.extend(m.lookups.iter().cloned());
	if let Some(re) = &m.reopened {
		r.count("reopened:written jars re-opened");
		r.count(&format!("reopened:written by {}", m.written_as));
		let rn: Vec<&str> = re.iter().map(|x| x.0.as_str()).collect();
		let (mut a, mut b) = (rn.clone(), got.clone()); a.sort(); b.sort();
		if a != b { bad.push(format!("written jar re-opened has entries {rn:?}, the merge result {got:?}")); }
		if rn == got { r.count("observed:written jar lists the entries in the order of the merge result"); }
		for e in out {
			let Some((_, data)) = re.iter().find(|x| x.0 == e.name) else { continue };
			match (&e.content, data) {
				(OContent::Other(d), Some(x)) => if d != x { bad.push(format!("{}: resource bytes changed by writing the jar", e.name)); },
				(OContent::Vec { bytes, .. }, Some(x)) => if bytes != x { bad.push(format!("{}: passed-through class bytes changed by writing the jar", e.name)); },
				(OContent::Parsed(p), Some(x)) => {
					// the merged class as written into the jar, read by the harness' own strict parser (shares no code with duke)
					match fbh::classfile::raw::parse(x).and_then(|rc| fbh::classfile::facts_raw::facts_from_raw(&rc)) {
						Ok(f) => {
							r.count("reopened:merged classes read by the independent parser");
							if let Some(d) = facts_differ(&f, p) { bad.push(format!("{}: merged class in the written jar, read by the independent parser, differs from the merge result in {d}", e.name)); }
							// the whole class as written against the whole merged tree
							if let Some(fm) = &e.facts { real::check_written(r, &e.name, fm, &f, &mut bad); }
						}
						Err(err) => bad.push(format!("{}: merged class in the written jar is rejected by the independent parser: {err}", e.name)),
					}
				}
				(OContent::Dir, None) => {}
				_ => bad.push(format!("{}: kind changed by writing the jar", e.name)),
			}
		}
	}
	if !bad.is_empty() {
		let what = format!("dukebox::merge::merge ({route} jars): {}", bad[0]);
		let replay = format!("property C13\n{REPLAY_NOTE}\nwhat:\n  {}\n{inputs}merged:\n{}\n", bad.join("\n  "),
			out.iter().map(show_oentry).collect::<Vec<_>>().join("\n"));
		r.violation(what, replay);
		return false;
	}
	true
}

fn show_oentry(e: &OEntry) -> String {
	match &e.content {
		OContent::Other(d) => format!("  {:?}: Other({})", e.name, show_bytes(d)),
		OContent::Vec { bytes, .. } => format!("  {:?}: class bytes {}", e.name, show_bytes(bytes)),
		OContent::Dir => format!("  {:?}: Dir", e.name),
		OContent::Parsed(p) => format!("  {:?}: parsed class {p:?}", e.name),
	}
}

// ---------------------------------------------------------------- merge_preserve_order through the public API
/// kind 0: interfaces I<n>; 1: fields f<n>:I; 2: methods m<n>()V.  Returns the merged id list.
pub fn mpo_via_merge(kind: usize, a: &[u32], b: &[u32]) -> Result<Vec<u32>, String> {
	let mk = |l: &[u32], src: &str| {
		let mut c = gen::plain_class("net/minecraft/A");
		c.source_file = Some(src.to_owned()); // the two classes always differ, so class_merger_merge runs
		match kind {
			0 => c.itfs = l.iter().map(|n| format!("I{n}")).collect(),
			1 => c.fields = l.iter().map(|n| gen::plain_member(&format!("f{n}"), "I")).collect(),
			_ => c.methods = l.iter().map(|n| gen::plain_member(&format!("m{n}"), "()V")).collect(),
		}
		let mut j: ParsedJar<ClassRepr, Vec<u8>> = ParsedJar { entries: indexmap::IndexMap::new() };
		j.entries.insert("net/minecraft/A.class".to_owned(), ParsedJarEntry { attr: BasicFileAttributes::default(), content: JarEntryEnum::Class(ClassRepr::Parsed { class: to_duke(&c) }) });
		j
	};
	let (ja, jb) = (mk(a, "c"), mk(b, "s"));
	crumb(&format!("property C13\ndukebox::merge::merge did not return (harness killed): two classes net/minecraft/A that differ in their {} (numbers n stand for I<n> / f<n>:I / m<n>()V), merged as one-entry ParsedJars\nclient: {a:?}\nserver: {b:?}\n", ["interfaces", "fields", "methods"][kind.min(2)]));
	let m = match guarded(AssertUnwindSafe(|| dukebox::merge::merge(ja, jb))) { Err(p) => return Err(format!("panic: {p}")), Ok(Err(e)) => return Err(format!("Err: {e:#}")), Ok(Ok(m)) => m };
	let Some(ParsedJarEntry { content: JarEntryEnum::Class(ClassRepr::Parsed { class }), .. }) = m.entries.get("net/minecraft/A.class") else { return Err("no merged class".into()) };
	let num = |s: Vec<u32>| -> u32 { s[1..].iter().fold(0u32, |acc, &d| acc * 10 + (d - '0' as u32)) };
	Ok(match kind {
		0 => class.interfaces.iter().map(|i| num(cps(i.as_inner()))).collect(),
		1 => class.fields.iter().map(|f| num(cps(f.name.as_inner()))).collect(),
		_ => class.methods.iter().map(|f| num(cps(f.name.as_inner()))).collect(),
	})
}

fn nodup_lists(alpha: &[u32], n: usize) -> Vec<Vec<u32>> {
	// same enumeration order as C13/Run.v nodup_lists
	if n == 0 { return vec![vec![]]; }
	let mut out = vec![vec![]];
	for &x in alpha {
		let rest: Vec<u32> = alpha.iter().copied().filter(|&y| y != x).collect();
		for l in nodup_lists(&rest, n - 1) { let mut v = vec![x]; v.extend(l); out.push(v); }
	}
	out
}

fn all_lists(alpha: &[u32], n: usize) -> Vec<Vec<u32>> {
	// same enumeration order as C13/Run.v all_lists
	if n == 0 { return vec![vec![]]; }
	let mut out = vec![vec![]];
	let shorter = all_lists(alpha, n - 1);
	for &x in alpha { for l in &shorter { let mut v = vec![x]; v.extend(l); out.push(v); } }
	out
}

/// Judged on the implementation, for arbitrary lists: the merged list has exactly the elements of the two
/// lists (a class file cannot repeat an interface, so how OFTEN a repeated element comes out is left to the
/// comparison with the model, C13_mpo_any_lists, and so is the order of a scrambled pair); duplicate-free
/// lists are judged by mpo_oracle / check_keys
fn any_lists_oracle(r: &mut Report, a: &[u32], b: &[u32], m: &[u32]) {
	let mut bad = vec![];
	for &x in a.iter().chain(b.iter()) { if !m.contains(&x) { bad.push(format!("{x} of an input is missing from the merged list")); break; } }
	for &x in m { if !a.contains(&x) && !b.contains(&x) { bad.push(format!("{x} in the merged list is in neither input")); break; } }
	if nodup(a) && nodup(b) && !nodup(m) { bad.push("an element appears twice in the merged list".to_owned()); }
	if !bad.is_empty() {
		r.violation(format!("merge of two interface lists (duplicates allowed): {}", bad[0]),
			format!("property C13\ntwo classes net/minecraft/A that differ in their interfaces (numbers n stand for I<n>), merged with dukebox::merge::merge as one-entry jars\nclient: {a:?}\nserver: {b:?}\nmerged: {m:?}\n{}\n", bad.join("\n")));
	}
}

fn mpo_oracle(r: &mut Report, kind: usize, a: &[u32], b: &[u32], m: &[u32]) {
	let mut bad = vec![];
	check_keys(["interfaces", "fields", "methods"][kind], a, b, m, &mut bad);
	if !bad.is_empty() {
		r.violation(format!("merge of two classes' {}: {}", ["interfaces", "fields", "methods"][kind], bad[0]),
			format!("property C13\ntwo classes net/minecraft/A that differ in their {} (numbers n stand for I<n> / f<n>:I / m<n>()V), merged with dukebox::merge::merge as one-entry jars\nclient: {a:?}\nserver: {b:?}\nmerged: {m:?}\n{}\n", ["interfaces", "fields", "methods"][kind], bad.join("\n")));
	}
}

pub fn run(ctx: &Ctx) -> anyhow::Result<Report> {
	let mut r = Report::new("C13", "C13.Run");
	r.shard_size = if ctx.thorough { 250 } else { 60 };
	let mut rng = Rng::new(ctx.seed);
	let sweep_n = if ctx.thorough { 5 } else { 4 };
	r.rule = format!("(0) layout: the harness' order of the fields of duke's ClassFile / Field / Method it projects one by one, against the regenerated tables; rule sweep: ~750 entry names (12 prefixes x 4 stems x 15 suffixes around META-INF/, net/minecraft/, net/minecraftx/, net/minecraft.class, .SF/.RSA/.DSA/.EC/.sf/.dsa/.DSA.txt, .class/.CLASS/.classs/.class.txt, trailing '/' and '\\', default package, multi-byte and non-BMP stems, plus the generators' names) as resources of a jar merged once as the client and once as the server of an empty jar — what the implementation keeps/drops is compared with the rules as the property reads them (oracle) and with the model's regenerated predicates, and the kind a real zip archive's entry of that name has with zip_kind; a zip archive with a damaged local header (observed). (1) exhaustive: every ordered pair of duplicate-free lists over {sweep_n} symbols (all lengths) as the interface lists of two otherwise equal classes, merged through dukebox::merge::merge; the model enumerates the same pairs inside Coq; (1b) the same over ALL lists with duplicates over 3 symbols up to length 3 (1600 pairs). (2) random list pairs up to length 12 (every 400th pair: lists of 254..300 elements, interleaved or scrambled by swaps) that are interleavings of a common order, prefixes, suffixes, permutations, disjoint, equal, or arbitrary (also with duplicates, outside the theorems' hypothesis), through interfaces, fields and methods. (3) generated jar pairs through all four Jar implementations, also mixed (zip archives as UnnamedMemJar, NamedMemJar and FileJar on disk, entries stored or DEFLATE-compressed; ParsedJars): disjoint/identical/overlapping entry sets over classes (net/minecraft, top-level, library packages), resources equal or different, directories, META-INF with manifest, .SF/.RSA/.DSA files; class pairs identical, differing in members/interfaces/annotations/inner classes/permitted subclasses/record components; every second merged jar is also written (ParsedJar::to_mem, every third of these ParsedJar::put_to_file + FileJar), re-opened, every kept name looked up by OpenedJar::by_name in the merge result and in the re-opened archive (every dropped name must not be found), and its merged classes read by the harness' independent class-file parser; every sixth zip entry carries an Info-ZIP extended timestamp (mtime / +atime / +ctime). (3b) multi-release entries: for n in 9, 17, 21 the classes net/minecraft/V, Top, com/lib/L, net/minecraft/sub/W$1 below META-INF/versions/<n>/ AND outside, a resource, a `.class.txt` resource and the directories, in the four placements client only / server only / both equal / both differing, through zip archives and ParsedJars; one of the classes carries side marks of either side already. (3c) two-step sequences merge(merge(c, s), t) and merge(t, merge(c, s)): the first result is handed on as the ParsedJar it is or written by to_mem and re-opened; t = the server jar again, the client jar again, or a later build of one of them (entries dropped / added, members and interfaces added / removed, resources changed); both steps go through the oracle and the second one is compared with the model (its inputs carry the side marks of the first merge: CLIENT and SERVER marks on classes, members, interface lists). (4) separate streams outside the hypotheses: differing version/access/deprecated/synthetic flags (assert panics), differing super class or class name (Err), differing inner-class records, duplicate member keys, unreadable class bytes, entry kind mismatch. (5) zip archives with entries of 5 bytes to 200 KiB (sizes around 32 KiB and 64 KiB), incompressible (xorshift noise), compressible, stored or deflated: resources both sides have (equal / different) or one side has, classes carrying the bytes in unknown attributes (identical, one-sided, differing); byte-exact pass-through is checked against the generator's ground truth, in the merge result and in the written jar. (6) real classes in two builds: javac corpus classes (incl. records and sealed classes, invokedynamic, switches, frames) against duke's re-write of them (other bytes, same tree), against builds lacking some members/interfaces, and generated classes (fbh::classfile::gen) assembled in two constant-pool/attribute/encoding layouts, whole or trimmed; the merged class is compared as whole-class facts with both inputs and, written and re-read by the independent strict parser, with the merged tree. A case is non-trivial when at least one list/jar is non-empty and the merge returned a jar; distinct by printed case.");

	// 0. the layout of the opaque components, and the string rules of the entry loop name by name
	r.case("layout", format!("CLayout {} {} {}", glist(REST_CLASS.iter().map(|n| gstr(&cps_str(n)))), glist(REST_FIELD.iter().map(|n| gstr(&cps_str(n)))), glist(REST_METHOD.iter().map(|n| gstr(&cps_str(n))))));
	rule_sweep(&mut r);
	damaged_zip_probe(&mut r);

	// 1. sweep
	let alpha: Vec<u32> = (1..=sweep_n as u32).collect();
	let lists = nodup_lists(&alpha, sweep_n);
	let mut results = vec![];
	for a in &lists { for b in &lists {
		match mpo_via_merge(0, a, b) {
			Ok(m) => { mpo_oracle(&mut r, 0, a, b, &m); r.eval_distinct(!(a.is_empty() && b.is_empty())); if compatible(a, b) { r.count("sweep_compatible"); } else { r.count("sweep_incompatible"); } results.push(m); }
			Err(e) => { r.violation(format!("merge of two classes differing only in interfaces failed: {e}"), format!("property C13\nclient interfaces {a:?}\nserver interfaces {b:?}\n{e}\n")); results.push(vec![]); }
		}
	} }
	r.count_n("sweep_pairs", (lists.len() * lists.len()) as u64);
	r.case("mpo-sweep", format!("CMpoSweep {} {} {}", gnums(alpha.iter().map(|&x| x as u64)), sweep_n, glist(results.iter().map(|m| gnums(m.iter().map(|&x| x as u64))))));
	r.exhaustive = true;
	// 1b. the same over all lists with duplicates (3 symbols, length <= 3)
	let alpha3: Vec<u32> = vec![1, 2, 3];
	let dl = all_lists(&alpha3, 3);
	let mut results = vec![];
	for a in &dl { for b in &dl {
		match mpo_via_merge(0, a, b) {
			Ok(m) => { any_lists_oracle(&mut r, a, b, &m); r.eval_distinct(!(a.is_empty() && b.is_empty())); results.push(m); }
			Err(e) => { r.violation(format!("merge of two classes differing only in interfaces failed: {e}"), format!("property C13\nclient interfaces {a:?}\nserver interfaces {b:?}\n{e}\n")); results.push(vec![]); }
		}
	} }
	r.count_n("sweep_pairs_with_duplicates", (dl.len() * dl.len()) as u64);
	r.case("mpo-sweep-dup", format!("CMpoSweepDup {} 3 {}", gnums(alpha3.iter().map(|&x| x as u64)), glist(results.iter().map(|m| gnums(m.iter().map(|&x| x as u64))))));

	// 2. random list pairs
	let n = if ctx.thorough { 20000 } else { 2100 };
	for i in 0..n {
		let (mode, a, b) = if i % 400 == 399 { gen::long_list_pair(&mut rng) } else { gen::list_pair(&mut rng) };
		let kind = i % 3;
		match mpo_via_merge(kind, &a, &b) {
			Ok(m) => {
				mpo_oracle(&mut r, kind, &a, &b, &m);
				if kind == 0 { any_lists_oracle(&mut r, &a, &b, &m); }
				let term = format!("CMpo {} {} {}", gnums(a.iter().map(|&x| x as u64)), gnums(b.iter().map(|&x| x as u64)), gnums(m.iter().map(|&x| x as u64)));
				r.eval(&format!("{kind} {term}"), !(a.is_empty() && b.is_empty()));
				r.count(&format!("lists:{mode}"));
				r.count(if !nodup(&a) || !nodup(&b) { "lists:with-duplicates" } else if compatible(&a, &b) { "lists:compatible" } else { "lists:incompatible" });
				r.case(&format!("mpo-{}", ["interfaces", "fields", "methods"][kind]), term);
			}
			Err(e) => r.violation(format!("merge of two classes differing only in {} failed: {e}", ["interfaces", "fields", "methods"][kind]), format!("property C13\nclient {a:?}\nserver {b:?}\n{e}\n")),
		}
	}

	// 3./4. jars
	let tmp = ctx.out.join("jars");
	let n = if ctx.thorough { 6000 } else { 600 };
	for i in 0..n {
		let twist = if i % 4 == 3 { gen::Twist::pick(&mut rng) } else { gen::Twist::None };
		let route = gen::gen_route(&mut rng);
		let (client, server) = gen::jar_pair(&mut rng, twist, route);
		let stream = format!("jar-{}-{}", route.name(), twist.name());
		jar_case(&mut r, &stream, twist.name(), twist == gen::Twist::None, &client, &server, route, i % 2 == 0, &tmp);
	}
	// 3b. multi-release entries: classes below META-INF/versions/<n>/ of every kind, next to the same classes outside, in all
	// four placements (client only, server only, both equal, both differing), through zip archives and ParsedJars; some of the
	// classes carry side marks of either side already (an input that was merged before)
	for n in [9u32, 17, 21] {
		for placement in 0..4 {
			for (ri, route) in [Route { c: JarKind::Unnamed, s: JarKind::Unnamed }, Route { c: JarKind::Parsed, s: JarKind::Parsed }, Route { c: JarKind::File, s: JarKind::Named }, Route { c: JarKind::Unnamed, s: JarKind::Parsed }].into_iter().enumerate() {
				if !ctx.thorough && (n as usize + placement + ri) % 2 == 1 { continue; }
				let (client, server) = gen::versions_pair(n, placement, ri == 1 && placement % 2 == 0);
				r.count(&format!("versions:{}", ["client only", "server only", "both equal", "both differing"][placement]));
				jar_case(&mut r, &format!("versions-{}", route.name()), "versions", true, &client, &server, route, true, &tmp);
			}
		}
	}
	// 3c. two-step sequences: the result of one merge is an input of the next — merge(merge(c, s), t) and merge(t, merge(c, s)) —
	// handed on as the ParsedJar it is or written (to_mem) and re-opened as a zip archive; t is the server or client jar again or
	// a later build of one of them.  Every class, member and interface of the first result carries the marks of the first merge.
	let n = if ctx.thorough { 1200 } else { 140 };
	for i in 0..n {
		let route = gen::gen_route(&mut rng);
		let (client, server) = gen::jar_pair(&mut rng, gen::Twist::None, route);
		two_step_case(&mut r, &mut rng, i, &client, &server, route, &tmp);
	}
	// 5. zip archives with large entries (every merged jar written and re-opened)
	let n = if ctx.thorough { 60 } else { 10 };
	for i in 0..n {
		let route = if i % 5 == 4 { gen::gen_route(&mut rng) } else { gen::gen_zip_route(&mut rng) };
		let (client, server) = gen::big_jar_pair(&mut rng);
		for e in client.iter().chain(server.iter()) {
			let len = match &e.content { AContent::Other(d) => d.len(), AContent::Class(c) => c.attrs.iter().map(|a| a.2).sum(), _ => 0 };
			let zip_side = |k| k != JarKind::Parsed;
			if zip_side(route.c) || zip_side(route.s) { r.count(&format!("big entries:{} {}", if e.deflate { "deflated" } else { "stored" }, if len > 32768 { "> 32 KiB" } else if len >= 8192 { "8..32 KiB" } else { "small" })); }
		}
		jar_case(&mut r, &format!("bigjar-{}", route.name()), "big", true, &client, &server, route, true, &tmp);
	}
	// 6. real classes in two builds (every merged jar written and re-opened)
	let corpus = real::load_corpus();
	r.count_n("real:corpus classes usable (duke reads them, <= 6000 bytes)", corpus.all.len() as u64);
	r.count_n("real:of these records / sealed classes", corpus.featured.len() as u64); r.count_n("real:of these with type annotations or module data", corpus.typed.len() as u64);
	let n = if ctx.thorough { 900 } else { 110 };
	for _ in 0..n {
		let route = gen::gen_route(&mut rng);
		let mut kinds = vec![];
		let (client, server) = gen::real_jar_pair(&mut rng, &corpus, &mut kinds);
		for k in kinds { r.count(&format!("real:{k}")); }
		jar_case(&mut r, &format!("realjar-{}", route.name()), "real", true, &client, &server, route, true, &tmp);
	}
	// 8. (round 7) the side marks as whole annotation trees
	anntree::run(&mut r, &mut rng.fork(0xA77), ctx.thorough);

	let _ = std::fs::remove_dir_all(&tmp);
	r.count_n("class pairs generated without opaque-field variants (duke does not round-trip the combination)", gen::PLAINER.load(std::sync::atomic::Ordering::Relaxed) as u64);
	let ext = EXT_SEEN.load(std::sync::atomic::Ordering::Relaxed);
	r.count_n("zip entries with an extended timestamp extra field: mtime read by the implementation", ext & 0xffff_ffff);
	r.count_n("zip entries with an extended timestamp extra field: NOT seen by the implementation", ext >> 32);
	let panics: u64 = r.dist.iter().filter(|(k, _)| k.starts_with("outcome:") && k.ends_with(":panic")).map(|(_, v)| *v).sum();
	let errs: u64 = r.dist.iter().filter(|(k, _)| k.starts_with("outcome:") && k.ends_with(":err")).map(|(_, v)| *v).sum();
	r.notes.push(format!("observed outside the hypotheses (not violations of C13): {panics} merges panicked (assert_eq!/panic! on differing version, access, deprecated/synthetic flags, inner-class records), {errs} returned Err (differing super class or class name, unreadable class bytes, entry kind mismatch); the model predicts each of these outcomes (Panic/Fail) and is compared on them"));
	r.notes.push("observed, outside the property text (counted under observed:* in the distribution; the model follows the code here, but neither the oracle nor the comparison with the model demands it): Err vs panic for a merge that yields no jar; entry order of the merged jar (client's entries, then server-only ones); entry attributes (the client's); a resource differing between the sides is taken from the client with a warning on stderr; META-INF/*.SF, *.RSA, *.DSA and *.EC are dropped (fix 39805d3; before it *.DSA and *.EC stayed in the merged jar)".to_owned());
	r.notes.push("a merged class keeps the client's record components and the union of both sides' permitted subclasses (fix: merging two versions of a class keeps its record components and permitted subclasses); before that repair Records$Point merged with its own duke re-write lost its Record attribute".to_owned());
	Ok(r)
}

/// The skip rules and the zip reader's kind test, observed on the implementation name by name: a jar
/// holding every name of gen::rule_names() as a resource is merged once as the client (with an empty
/// server) and once as the server (with an empty client) — a name missing from the first result is
/// skipped for every side (signature file), one missing only from the second is skipped as a bundled
/// server library; the kind is what `impl JarEntry for ZipFile` says for a zip entry of that name.
fn rule_sweep(r: &mut Report) {
	let names = gen::rule_names();
	let mk = || -> ParsedJar<ClassRepr, Vec<u8>> {
		let mut j = ParsedJar { entries: indexmap::IndexMap::new() };
		for n in &names { j.entries.insert(n.clone(), ParsedJarEntry { attr: BasicFileAttributes::default(), content: JarEntryEnum::Other(b"x".to_vec()) }); }
		j
	};
	let empty = || -> ParsedJar<ClassRepr, Vec<u8>> { ParsedJar { entries: indexmap::IndexMap::new() } };
	crumb("property C13\ndukebox::merge::merge did not return (harness killed): the rule sweep, a ParsedJar with one resource per name of harness/src/bin/c13/gen.rs rule_names() against an empty jar\n");
	let as_client = guarded(AssertUnwindSafe(|| dukebox::merge::merge(mk(), empty()))).ok().and_then(|x| x.ok());
	let as_server = guarded(AssertUnwindSafe(|| dukebox::merge::merge(empty(), mk()))).ok().and_then(|x| x.ok());
	let (Some(ac), Some(asv)) = (as_client, as_server) else {
		r.violation("merge of a jar of resources with an empty jar did not return a jar".into(), format!("property C13\nclient: one resource b\"x\" per name of {names:?}\nserver: empty (and the other way round)\n"));
		return;
	};
	// kinds: one zip archive with all names (a name the zip writer refuses is left out)
	let mut kinds: HashMap<String, u64> = HashMap::new();
	{
		let mut w = ZipWriter::new(Cursor::new(Vec::new()));
		for n in &names { let _ = w.start_file(n.as_str(), FileOptions::<()>::default().compression_method(CompressionMethod::Stored)); }
		if let Ok(c) = w.finish() {
			let mem = UnnamedMemJar { data: c.into_inner() };
			if let Ok(mut z) = mem.open() {
				let keys: Vec<_> = z.entry_keys().collect();
				for k in keys {
					if let Ok(e) = z.by_entry_key(k) {
						let n = JarEntry::name(&e).to_owned();
						let kind = match e.to_jar_entry_enum() { Ok(JarEntryEnum::Dir) => 0, Ok(JarEntryEnum::Class(_)) => 1, Ok(JarEntryEnum::Other(_)) => 2, Err(_) => 3 };
						kinds.insert(n, kind);
					}
				}
			}
		}
	}
	let mut rows = vec![];
	for n in &names {
		let sig = !ac.entries.contains_key(n);
		let lib = !sig && !asv.entries.contains_key(n);
		let Some(&kind) = kinds.get(n) else { r.count("names:not storable in a zip archive"); continue };
		r.eval(&format!("name {n:?}"), true);
		r.count(&format!("names:{}{}", if sig { "signature file" } else if lib { "bundled library" } else { "kept" }, ["/dir", "/class", "/other", "/unreadable"][kind as usize]));
		// the property oracle: the harness' own reading of "signature files and bundled server libraries"
		let own_kind = if n.ends_with('/') || n.ends_with('\\') { 0 } else if n.ends_with(".class") { 1 } else { 2 };
		if sig != is_signature(n) || lib != is_server_library(n) || (sig && asv.entries.contains_key(n)) || kind != own_kind {
			r.violation(format!("entry name {n:?}: dukebox::merge::merge {} it, the rules (signature files META-INF/*.SF|*.RSA|*.DSA|*.EC; bundled libraries = server-only *.class in a package outside net/minecraft/) say {}; zip entry kind {} (expected {})",
					if sig { "drops" } else if lib { "drops (server side only)" } else { "keeps" }, if is_signature(n) { "signature file" } else if is_server_library(n) { "bundled library" } else { "keep" }, ["dir", "class", "other", "unreadable"][kind as usize], ["dir", "class", "other"][own_kind as usize]),
				format!("property C13\nclient jar (ParsedJar): one resource {n:?} with the bytes b\"x\"; server jar: empty -> merged jar {} the entry\nclient jar: empty; server jar: the same resource -> merged jar {} the entry\na zip archive with a stored entry of that name: read as {}\n",
					if ac.entries.contains_key(n) { "has" } else { "does not have" }, if asv.entries.contains_key(n) { "has" } else { "does not have" }, ["Dir", "Class", "Other", "an error"][kind as usize]));
		}
		rows.push(format!("({}, ({}, {}, {}))", gstr(&cps_str(n)), gbool(sig), gbool(lib), kind));
	}
	for chunk in rows.chunks(60) { r.case("names", format!("CNames {}", glist(chunk.iter().cloned()))); }
}

/// A zip archive with an intact central directory and a damaged local header: look-ups by name and the
/// merge must report it (observed and counted; a zip container is not modelled)
fn damaged_zip_probe(r: &mut Report) {
	let mut w = ZipWriter::new(Cursor::new(Vec::new()));
	let ok = w.start_file("a.txt", FileOptions::<()>::default().compression_method(CompressionMethod::Stored)).is_ok() && w.write_all(b"hello").is_ok();
	let Ok(c) = w.finish() else { return };
	if !ok { return; }
	let mut z = c.into_inner();
	z[0] ^= 0xff; // the local file header's signature
	let mem = UnnamedMemJar { data: z.clone() };
	crumb("property C13\na zip archive with one stored entry a.txt = b\"hello\" whose first byte (local header signature) is inverted: by_name / merge did not return\n");
	match mem.open() {
		Err(_) => r.count("damaged zip:open fails"),
		Ok(mut o) => {
			match guarded(AssertUnwindSafe(|| OpenedJar::by_name(&mut o, "a.txt").map(|x| x.is_some()))) { Ok(Err(_)) => r.count("damaged zip:by_name of the damaged entry is Err"), Ok(Ok(true)) => r.count("damaged zip:by_name finds the damaged entry"), Ok(Ok(false)) => r.count("damaged zip:by_name does not find the damaged entry"), Err(_) => r.count("damaged zip:by_name panics") }
			match guarded(AssertUnwindSafe(|| OpenedJar::by_name(&mut o, "b.txt").map(|x| x.is_some()))) { Ok(Ok(false)) => r.count("damaged zip:by_name of an absent name is None"), _ => r.count("damaged zip:by_name of an absent name is not None") }
		}
	}
	let empty: ParsedJar<ClassRepr, Vec<u8>> = ParsedJar { entries: indexmap::IndexMap::new() };
	match guarded(AssertUnwindSafe(|| dukebox::merge::merge(UnnamedMemJar { data: z }, empty))) { Ok(Err(_)) => r.count("damaged zip:merge returns Err"), Ok(Ok(_)) => r.count("damaged zip:merge returns a jar"), Err(_) => r.count("damaged zip:merge panics") }
}

/// merge(merge(client, server), t) or merge(t, merge(client, server)): both steps judged by the oracle and compared with the model
fn two_step_case(r: &mut Report, rng: &mut Rng, i: usize, client: &AJar, server: &AJar, route: Route, tmp: &Path) {
	let (m1, j1) = match run_merge_keep(client, server, route, false, true, tmp) { Ok(x) => x, Err(e) => { r.count(&format!("skipped:{}", e.split(':').next().unwrap_or("?"))); return; } };
	let step1 = describe(client, server, route);
	oracle(r, &format!("step 1 of 2\n{step1}"), &format!("{route:?}"), &m1);
	let Some(j1) = j1 else { r.count("two-step:first merge gave no jar"); return; };
	let (tdesc, t) = gen::third_jar(rng, client, server);
	let first_is_client = i % 2 == 0;
	let as_zip = i % 4 >= 2;
	let tkind = *rng.pick(&[JarKind::Unnamed, JarKind::Parsed, JarKind::File]);
	let e2s = |e: anyhow::Error| format!("{e:#}");
	let mut it = Interner::default();
	let first: BuiltJar = if as_zip {
		match guarded(AssertUnwindSafe(|| j1.to_mem())) { Ok(Ok(mem)) => BuiltJar::Unnamed(mem), _ => { r.count("two-step:first result could not be written"); return; } }
	} else { BuiltJar::Parsed(j1) };
	let pf = match prepare_built(&first, &mut it) { Ok(x) => x, Err(e) => { r.count(&format!("skipped:{}", e.split(':').next().unwrap_or("?"))); return; } };
	let tj = match build(&t, tkind, tmp, "third").map_err(e2s) { Ok(x) => x, Err(e) => { r.count(&format!("skipped:{}", e.split(':').next().unwrap_or("?"))); return; } };
	let ta = match with_jar!(&tj, j => read_attrs(j)) { Ok(x) => x, Err(_) => { r.count("skipped:attrs"); return; } };
	let pt = match prepare(&t, tkind, &ta, &mut it) { Ok(x) => x, Err(e) => { r.count(&format!("skipped:{}", e.split(':').next().unwrap_or("?"))); return; } };
	let inputs = format!("step 2 of 2: dukebox::merge::merge({}) where FIRST = the jar dukebox::merge::merge returned in step 1, handed on {} and THIRD = {tdesc} ({tkind:?})\nstep 1:\n{step1}third jar:\n{}\n",
		if first_is_client { "FIRST, THIRD" } else { "THIRD, FIRST" }, if as_zip { "written by ParsedJar::to_mem and re-opened as an UnnamedMemJar" } else { "as the ParsedJar it is" },
		t.iter().map(|e| format!("  {e:?}")).collect::<Vec<_>>().join("\n"));
	let crumb_text = format!("property C13\n{REPLAY_NOTE}\ndukebox::merge::merge did not return (harness killed) on\n{inputs}");
	let (m2, _) = if first_is_client { run_built(first, tj, pf, pt, &crumb_text, i % 3 == 0, false, tmp, &mut it) } else { run_built(tj, first, pt, pf, &crumb_text, i % 3 == 0, false, tmp, &mut it) };
	let term = g_case(&m2);
	let ok = matches!(m2.outcome, Outcome::Ok(_));
	r.eval(&term, ok);
	r.count(&format!("outcome:two-step:{}", match m2.outcome { Outcome::Ok(_) => "ok", Outcome::Fail => "err", Outcome::Panic => "panic" }));
	r.count(&format!("two-step:first result as {} / {}; third = {tdesc}", if first_is_client { "client" } else { "server" }, if as_zip { "zip" } else { "ParsedJar" }));
	// how many inputs of the second step carry a side mark already
	let marked = m2.client.iter().chain(m2.server.iter()).filter(|e| matches!(&e.content, PContent::Class { parsed: Some(p), .. } if p.vis.iter().any(|a| matches!(a, PAnn::Env(_))) || p.fields.iter().chain(p.methods.iter()).any(|x| x.inv.iter().any(|a| matches!(a, PAnn::Env(_)))))).count();
	r.count_n("two-step:input classes of the second merge that carry a side mark", marked as u64);
	if !ok {
		r.violation(format!("second merge of a two-step sequence did not return a jar: {:?}", m2.outcome), format!("property C13\n{REPLAY_NOTE}\n{inputs}"));
	}
	let stream = format!("twostep-{}-{}", if first_is_client { "first" } else { "third" }, if as_zip { "zip" } else { "parsed" });
	oracle(r, &inputs, &format!("two-step, {}", stream), &m2);
	stats(r, &m2);
	r.case(&stream, term);
}

#[allow(clippy::too_many_arguments)]
fn jar_case(r: &mut Report, stream: &str, label: &str, inside: bool, client: &AJar, server: &AJar, route: Route, reopen: bool, tmp: &Path) {
	match run_merge(client, server, route, reopen, tmp) {
		Err(e) => { r.count(&format!("skipped:{}", e.split(':').next().unwrap_or("?"))); }
		Ok(m) => {
			let term = g_case(&m);
			let ok = matches!(m.outcome, Outcome::Ok(_));
			r.eval(&term, ok && !(client.is_empty() && server.is_empty()));
			r.count(&format!("outcome:{label}:{}", match m.outcome { Outcome::Ok(_) => "ok", Outcome::Fail => "err", Outcome::Panic => "panic" }));
			r.count(&format!("jar kinds:{}", route.name()));
			// inside the hypotheses the merge must return a jar
			if inside && !ok {
				r.violation(format!("merge of well-formed jars did not return a jar: {:?}", m.outcome),
					format!("property C13\n{REPLAY_NOTE}\nroute {route:?}\nclient jar:\n{}\nserver jar:\n{}\n", client.iter().map(|e| format!("  {e:?}")).collect::<Vec<_>>().join("\n"), server.iter().map(|e| format!("  {e:?}")).collect::<Vec<_>>().join("\n")));
			}
			oracle(r, &describe(client, server, route), &format!("{route:?}"), &m);
			stats(r, &m);
			r.case(stream, term);
		}
	}
}

fn stats(r: &mut Report, m: &Merged) {
	let names: HashSet<&str> = m.client.iter().map(|e| e.name.as_str()).collect();
	let both = m.server.iter().filter(|e| names.contains(e.name.as_str())).count();
	r.count(&format!("entries_both:{}", both.min(6)));
	r.count(&format!("entries_total:{}", ((m.client.len() + m.server.len() - both) / 4) * 4));
	let by: HashMap<&str, &PEntry> = m.client.iter().map(|e| (e.name.as_str(), e)).collect();
	for s in &m.server {
		if let (Some(c), PContent::Class { bytes: b2, .. }) = (by.get(s.name.as_str()), &s.content) {
			if let PContent::Class { bytes: b1, .. } = &c.content { r.count(if b1 == b2 { "class_pairs:identical" } else { "class_pairs:differing" }); }
			// which rows of the regenerated tables the pair exercises: opaque fields in which the two versions differ
			if let (PContent::Class { parsed: Some(pc), .. }, PContent::Class { parsed: Some(ps), .. }) = (&c.content, &s.content) {
				for (i, n) in REST_CLASS.iter().enumerate() { if pc.rest.get(i) != ps.rest.get(i) { r.count(&format!("versions differ in opaque field:class {n}")); } }
				for (what, names, lc, ls) in [("field", &REST_FIELD[..], &pc.fields, &ps.fields), ("method", &REST_METHOD[..], &pc.methods, &ps.methods)] {
					for mc in lc.iter() { if let Some(ms) = ls.iter().find(|x| x.key() == mc.key()) {
						for (i, n) in names.iter().enumerate() { if mc.rest.get(i) != ms.rest.get(i) { r.count(&format!("versions differ in opaque field:{what} {n}")); } }
					} }
				}
			}
		}
	}
	if let Outcome::Ok(o) = &m.outcome {
		let kept = o.len(); let total = m.client.len() + m.server.len() - both;
		if kept < total { r.count_n("entries_skipped", (total - kept) as u64); }
		// behaviour outside the property text, recorded as observed (the model follows the code in these
		// respects; neither the oracle nor the comparison with the model demands them)
		let cn: Vec<&str> = m.client.iter().map(|e| e.name.as_str()).collect();
		let mut order: Vec<&str> = cn.iter().copied().filter(|n| !is_signature(n)).collect();
		order.extend(m.server.iter().map(|e| e.name.as_str()).filter(|n| !cn.contains(n) && !is_signature(n) && !is_server_library(n)));
		r.count(if o.iter().map(|e| e.name.as_str()).eq(order.iter().copied()) { "observed:entry order = the client's entries, then the server-only ones" } else { "observed:entry order differs from client-then-server" });
		for e in o {
			let (ic, is) = (by.get(e.name.as_str()), m.server.iter().find(|x| x.name == e.name));
			if let Some(src) = ic.copied().or(is) { r.count(if src.attr == e.attr { "observed:entry attributes = the client's (the server's for a server-only entry)" } else { "observed:entry attributes differ from the client's" }); }
			if let (Some(PEntry { content: PContent::Other(dc), .. }), Some(PEntry { content: PContent::Other(ds), .. }), OContent::Other(d)) = (ic.copied(), is, &e.content) {
				if dc != ds && e.name != MANIFEST_NAME { r.count(if d == dc { "observed:resource differing between the sides: the client's bytes" } else if d == ds { "observed:resource differing between the sides: the server's bytes" } else { "observed:resource differing between the sides: other bytes" }); }
			}
			if let (OContent::Parsed(mc), Some(c)) = (&e.content, by.get(e.name.as_str())) {
				if let PContent::Class { parsed: Some(pc), .. } = &c.content {
					if m.server.iter().any(|x| x.name == e.name) {
						if pc.perm.is_some() { r.count(if mc.perm.is_some() { "observed:sealed class merged, PermittedSubclasses kept" } else { "observed:merged class drops PermittedSubclasses" }); }
						if pc.rec != 0 { r.count(if mc.rec != 0 { "observed:record class merged, record components kept" } else { "observed:merged class drops record components" }); }
					}
				}
			}
		}
	}
}

fn main() -> anyhow::Result<()> { fbh::main_with(run) }
