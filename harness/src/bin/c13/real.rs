//! Real classes for the merge: javac-compiled corpus classes, their duke re-writes, assembled
//! generated classes (fbh::classfile::{gen, asm}) in different constant-pool / attribute / encoding
//! layouts, and versions of each with some members and interfaces left out — two builds of one
//! source.  Both sides are handed to the merge as bytes; bytes differ, trees are equal or overlap.
//!
//! Plus the whole-class part of the property oracle: a merged class, compared as `ClassFacts`
//! (everything a class says, constant-pool independent) with both inputs.
use std::collections::BTreeSet;
use std::io::Cursor;
use std::panic::AssertUnwindSafe;
use duke::tree::class::ClassFile;
use fbh::classfile::asm::{try_assemble, ClassSpec, Knobs};
use fbh::classfile::facts::{AnnotationFacts, ClassFacts, ClassG, ElementValueFacts, FactGroup, FieldFacts, MethodFacts};
use fbh::classfile::gen::{gen_class, GenCfg};
use fbh::classfile::jstr::JStr;
use fbh::prng::Rng;
use fbh::report::{guarded, Report};
use crate::classes::{Side, ENVIRONMENT, ENV_ITFS, ENV_TYPE};

// ---------------------------------------------------------------- inputs
pub struct Corpus { pub all: Vec<(String, Vec<u8>)>, /** indices of records and sealed classes */ pub featured: Vec<usize>, /** indices of classes with type annotations or module data */ pub typed: Vec<usize> }

fn read(b: &[u8]) -> Option<ClassFile> {
	let b = b.to_vec();
	guarded(move || duke::read_class(&mut Cursor::new(b)).ok()).ok().flatten()
}
fn write(k: &ClassFile) -> Option<Vec<u8>> {
	guarded(AssertUnwindSafe(|| { let mut b = Vec::new(); duke::write_class(&mut b, k).ok().map(|()| b) })).ok().flatten()
}
fn nodup<T: PartialEq>(a: &[T]) -> bool { a.iter().enumerate().all(|(i, x)| !a[..i].contains(x)) }
fn keys_nodup(k: &ClassFile) -> bool {
	nodup(&k.fields.iter().map(|f| (f.name.clone(), f.descriptor.clone())).collect::<Vec<_>>())
		&& nodup(&k.methods.iter().map(|f| (f.name.clone(), f.descriptor.clone())).collect::<Vec<_>>())
		&& nodup(&k.interfaces)
		&& nodup(&k.inner_classes.as_ref().map(|l| l.iter().map(|i| i.inner_class.clone()).collect::<Vec<_>>()).unwrap_or_default())
}

/// the corpus classes duke reads (an unreadable one is C01's finding), small enough to print
pub fn load_corpus() -> Corpus {
	let mut all = vec![]; let mut featured = vec![]; let mut typed = vec![];
	for (name, bytes) in fbh::classfile::corpus::corpus_classes() {
		if bytes.len() > 6000 { continue; }
		let Some(k) = read(&bytes) else { continue };
		if !keys_nodup(&k) || k.methods.len() > 24 || k.fields.len() > 24 { continue; }
		let type_annotated = !k.runtime_visible_type_annotations.is_empty() || !k.runtime_invisible_type_annotations.is_empty()
			|| k.fields.iter().any(|f| !f.runtime_visible_type_annotations.is_empty() || !f.runtime_invisible_type_annotations.is_empty())
			|| k.methods.iter().any(|m| !m.runtime_visible_type_annotations.is_empty() || !m.runtime_invisible_type_annotations.is_empty());
		if k.permitted_subclasses.is_some() || !k.record_components.is_empty() { featured.push(all.len()); }
		if type_annotated || k.module.is_some() { typed.push(all.len()); }
		all.push((name, bytes));
	}
	Corpus { all, featured, typed }
}

/// which members / interfaces of a class a build keeps (indices into the original lists), in which order
#[derive(Clone, Debug)]
pub struct Keep { pub fields: Vec<usize>, pub methods: Vec<usize>, pub itfs: Vec<usize>, /** which of the fields the merge only copies this build lacks (bit mask, see trim_tree); tree builds only */ pub blank: u32 }
fn keep_some(rng: &mut Rng, n: usize, all: bool, reorder: bool) -> Vec<usize> {
	let mut v: Vec<usize> = (0..n).filter(|_| all || rng.chance(2, 3)).collect();
	if reorder && v.len() >= 2 { let i = rng.below(v.len() - 1); v.swap(i, i + 1); }
	v
}
fn gen_keep(rng: &mut Rng, nf: usize, nm: usize, ni: usize) -> Keep {
	let all = rng.chance(1, 5); let reorder = rng.chance(1, 8); let all_itfs = all || rng.chance(1, 2);
	Keep { fields: keep_some(rng, nf, all, reorder), methods: keep_some(rng, nm, all, reorder), itfs: keep_some(rng, ni, all_itfs, false), blank: if rng.chance(1, 2) { rng.next() as u32 & rng.next() as u32 } else { 0 } }
}
fn trim_tree(k: &ClassFile, keep: &Keep) -> ClassFile {
	let mut t = k.clone();
	t.fields = keep.fields.iter().map(|&i| k.fields[i].clone()).collect();
	t.methods = keep.methods.iter().map(|&i| k.methods[i].clone()).collect();
	t.interfaces = keep.itfs.iter().map(|&i| k.interfaces[i].clone()).collect();
	// a build that lacks some of what the merge only copies (signatures, type annotations, nest and module data,
	// debug info): the two versions then differ in these fields of the tree
	let b = |i: u32| keep.blank & (1 << i) != 0;
	if b(0) { t.signature = None; }
	if b(1) { t.source_file = None; }
	if b(2) { t.enclosing_method = None; }
	if b(3) { t.runtime_visible_type_annotations.clear(); }
	if b(4) { t.runtime_invisible_type_annotations.clear(); }
	if b(5) { t.nest_host_class = None; }
	if b(6) { t.nest_members = None; }
	if b(7) { t.module = None; t.module_packages = None; t.module_main_class = None; }
	if b(8) { t.source_debug_extension = None; }
	for (j, m) in t.methods.iter_mut().enumerate() {
		let b = |i: u32| keep.blank & (1 << ((i + j as u32) % 32)) != 0 && keep.blank & (1 << 9) != 0;
		if b(10) { m.signature = None; }
		if b(11) { m.exceptions = None; }
		if b(12) { m.runtime_visible_annotations.clear(); }
		if b(13) { m.runtime_visible_type_annotations.clear(); }
		if b(14) { m.runtime_invisible_type_annotations.clear(); }
		if b(15) { m.annotation_default = None; }
		if b(16) { m.method_parameters = None; }
	}
	for (j, f) in t.fields.iter_mut().enumerate() {
		let b = |i: u32| keep.blank & (1 << ((i + j as u32) % 32)) != 0 && keep.blank & (1 << 9) != 0;
		if b(17) { f.signature = None; }
		if b(18) { f.runtime_visible_annotations.clear(); }
		if b(19) { f.runtime_visible_type_annotations.clear(); }
		if b(20) { f.runtime_invisible_type_annotations.clear(); }
		if b(21) { f.constant_value = None; }
	}
	t
}
fn trim_spec(k: &ClassSpec, keep: &Keep) -> ClassSpec {
	let mut t = k.clone();
	t.fields = keep.fields.iter().map(|&i| k.fields[i].clone()).collect();
	t.methods = keep.methods.iter().map(|&i| k.methods[i].clone()).collect();
	t.interfaces = keep.itfs.iter().map(|&i| k.interfaces[i].clone()).collect();
	t
}

pub struct RealPair { pub kind: &'static str, pub client: Vec<u8>, pub server: Vec<u8>, pub origin_c: String, pub origin_s: String }

/// One class in two builds.  None when a step outside C13 fails (duke cannot read or write it).
pub fn real_pair(rng: &mut Rng, corpus: &Corpus) -> Option<RealPair> {
	let swap = rng.chance(1, 2);
	let mut p = match rng.below(6) {
		0 | 1 if !corpus.all.is_empty() => {
			// a javac class against duke's re-write of it: other bytes, the same tree
			let i = if !corpus.featured.is_empty() && rng.chance(1, 2) { *rng.pick(&corpus.featured) } else { rng.below(corpus.all.len()) };
			let (name, bytes) = &corpus.all[i];
			if rng.chance(1, 4) {
				// the very same javac bytes on both sides: to be passed through as they are
				return Some(RealPair { kind: "corpus-same-bytes", client: bytes.clone(), server: bytes.clone(), origin_c: format!("corpus class {name}"), origin_s: format!("corpus class {name}") });
			}
			let re = write(&read(bytes)?)?;
			RealPair { kind: "corpus-vs-rewrite", client: bytes.clone(), server: re, origin_c: format!("corpus class {name}"), origin_s: format!("duke::write_class(duke::read_class(corpus class {name}))") }
		}
		2 | 3 if !corpus.all.is_empty() => {
			// a javac class against a build that lacks some members (written by duke); or two such builds
			let i = if !corpus.typed.is_empty() && rng.chance(1, 3) { *rng.pick(&corpus.typed) } else if !corpus.featured.is_empty() && rng.chance(1, 3) { *rng.pick(&corpus.featured) } else { rng.below(corpus.all.len()) };
			let (name, bytes) = &corpus.all[i];
			let k = read(bytes)?;
			let mut ks = gen_keep(rng, k.fields.len(), k.methods.len(), k.interfaces.len());
			if corpus.typed.contains(&i) { ks.blank = rng.next() as u32 | (1 << 9); } // this build lacks about half of the copied-only data
			let server = write(&trim_tree(&k, &ks))?;
			let origin_s = format!("duke::write_class of corpus class {name} keeping {ks:?}");
			if rng.chance(1, 2) {
				RealPair { kind: "corpus-vs-trimmed", client: bytes.clone(), server, origin_c: format!("corpus class {name}"), origin_s }
			} else {
				let kc = gen_keep(rng, k.fields.len(), k.methods.len(), k.interfaces.len());
				RealPair { kind: "corpus-two-trimmed", client: write(&trim_tree(&k, &kc))?, server, origin_c: format!("duke::write_class of corpus class {name} keeping {kc:?}"), origin_s }
			}
		}
		n => {
			// a generated class assembled in two layouts (constant pool order and padding, attribute order,
			// instruction encodings), whole or with some members left out on either side
			let seed = rng.next();
			let cfg = GenCfg { max_fields: 4, max_methods: 5, exotic_strings: false, ..GenCfg::default() };
			let spec = gen_class(&mut Rng::new(seed), &cfg);
			let fam = Knobs::family(seed ^ 0x5a5a);
			let (k1, k2) = (rng.below(fam.len()), rng.below(fam.len()));
			let trimmed = n == 5;
			let (kc, ks) = if trimmed {
				(gen_keep(rng, spec.fields.len(), spec.methods.len(), spec.interfaces.len()), gen_keep(rng, spec.fields.len(), spec.methods.len(), spec.interfaces.len()))
			} else {
				let all = Keep { fields: (0..spec.fields.len()).collect(), methods: (0..spec.methods.len()).collect(), itfs: (0..spec.interfaces.len()).collect(), blank: 0 };
				(all.clone(), all)
			};
			let client = try_assemble(&trim_spec(&spec, &kc), &fam[k1]).ok()?;
			let server = try_assemble(&trim_spec(&spec, &ks), &fam[k2]).ok()?;
			let o = |k: usize, keep: &Keep| format!("assemble(gen_class(Rng::new({seed}), max_fields 4, max_methods 5, no exotic strings){}, Knobs::family({})[{k}])", if trimmed { format!(" keeping {keep:?}") } else { String::new() }, seed ^ 0x5a5a);
			RealPair { kind: if trimmed { "generated-two-layouts-trimmed" } else { "generated-two-layouts" }, client, server, origin_c: o(k1, &kc), origin_s: o(k2, &ks) }
		}
	};
	// inside the hypotheses: both readable, keys duplicate-free (a generated class may repeat a key)
	let (a, b) = (read(&p.client)?, read(&p.server)?);
	if !keys_nodup(&a) || !keys_nodup(&b) { return None; }
	if swap { std::mem::swap(&mut p.client, &mut p.server); std::mem::swap(&mut p.origin_c, &mut p.origin_s); }
	Some(p)
}

// ---------------------------------------------------------------- whole-class oracle
fn env_ann(side: Side) -> AnnotationFacts {
	AnnotationFacts { type_desc: JStr::new(ENVIRONMENT), pairs: vec![(JStr::new("value"), ElementValueFacts::Enum { type_desc: JStr::new(ENV_TYPE), const_name: JStr::new(match side { Side::Client => "CLIENT", Side::Server => "SERVER" }) })] }
}
fn shell() -> ClassFacts { ClassG::new(52, 0x0021, "W", None) }
fn of_method(m: &MethodFacts) -> ClassFacts { let mut c = shell(); c.methods.push(m.clone()); c }
fn of_field(m: &FieldFacts) -> ClassFacts { let mut c = shell(); c.fields.push(m.clone()); c }
/// the class without what the merge combines list-wise and the projection oracle checks (members, interfaces, permitted subclasses)
fn frame_of(f: &ClassFacts) -> ClassFacts {
	let mut c = f.clone();
	c.fields.clear(); c.methods.clear(); c.interfaces.clear(); c.permitted_subclasses = None;
	// an InnerClasses attribute without entries says nothing; the merge leaves it out
	if c.inner_classes.as_ref().map_or(false, |l| l.is_empty()) { c.inner_classes = None; }
	c
}

/// `m` may differ from `c` only where `c` and `s` differ: every line of diff(c, m) must lie in a fact
/// group in which diff(c, s) is non-empty
fn confined(what: &str, c: &ClassFacts, s: &ClassFacts, m: &ClassFacts, bad: &mut Vec<String>) {
	if c == m { return; }
	let allowed: BTreeSet<FactGroup> = c.differing_groups(s);
	for line in c.diff(m) {
		let g = FactGroup::of_diff_line(&line);
		if !allowed.contains(&g) { bad.push(format!("{what}: both sides agree in {g:?}, the merged class differs from them (client != merged): {line}")); return; }
	}
}

/// A class both sides have with different bytes.  What the property text says about members and
/// interfaces is checked on the projections (check_merged_class); here: a member both sides have in
/// the same form stays as it is, a one-sided member is that member plus exactly the side mark, and
/// whatever else the two versions agree on (a fact group of the class or of a shared member) is
/// what the merged class says as well — nothing is lost from a class by merging it with itself.
pub fn check_faithful(name: &str, c: &ClassFacts, s: &ClassFacts, m: &ClassFacts, bad: &mut Vec<String>) {
	let n0 = bad.len();
	// class level; the interface marks (one @EnvironmentInterfaces appended) are checked on the projection
	let (fc, fs, mut fm) = (frame_of(c), frame_of(s), frame_of(m));
	if fm.invisible_annotations.len() == fc.invisible_annotations.len() + 1 && fm.invisible_annotations.last().map_or(false, |a| a.type_desc.to_string_lossy() == ENV_ITFS) { fm.invisible_annotations.pop(); }
	confined(name, &fc, &fs, &fm, bad);
	if bad.len() > n0 { return; }
	// methods
	let mkey = |x: &MethodFacts| (x.name.clone(), x.desc.clone());
	if nodup(&c.methods.iter().map(mkey).collect::<Vec<_>>()) && nodup(&s.methods.iter().map(mkey).collect::<Vec<_>>()) {
		for x in &m.methods {
			let k = mkey(x);
			let what = format!("{name} method {}{}", k.0.to_string_lossy(), k.1.to_string_lossy());
			match (c.methods.iter().find(|y| mkey(y) == k), s.methods.iter().find(|y| mkey(y) == k)) {
				(Some(a), Some(b)) => confined(&what, &of_method(a), &of_method(b), &of_method(x), bad),
				(Some(a), None) => { let mut w = a.clone(); w.invisible_annotations.push(env_ann(Side::Client)); if w != *x { bad.push(format!("{what}: client-only method is not the client's method plus the CLIENT mark: {}", of_method(&w).diff(&of_method(x)).join("; "))); } }
				(None, Some(b)) => { let mut w = b.clone(); w.invisible_annotations.push(env_ann(Side::Server)); if w != *x { bad.push(format!("{what}: server-only method is not the server's method plus the SERVER mark: {}", of_method(&w).diff(&of_method(x)).join("; "))); } }
				(None, None) => {}
			}
			if bad.len() > n0 { return; }
		}
	}
	let fkey = |x: &FieldFacts| (x.name.clone(), x.desc.clone());
	if nodup(&c.fields.iter().map(fkey).collect::<Vec<_>>()) && nodup(&s.fields.iter().map(fkey).collect::<Vec<_>>()) {
		for x in &m.fields {
			let k = fkey(x);
			let what = format!("{name} field {}:{}", k.0.to_string_lossy(), k.1.to_string_lossy());
			match (c.fields.iter().find(|y| fkey(y) == k), s.fields.iter().find(|y| fkey(y) == k)) {
				(Some(a), Some(b)) => confined(&what, &of_field(a), &of_field(b), &of_field(x), bad),
				(Some(a), None) => { let mut w = a.clone(); w.invisible_annotations.push(env_ann(Side::Client)); if w != *x { bad.push(format!("{what}: client-only field is not the client's field plus the CLIENT mark")); } }
				(None, Some(b)) => { let mut w = b.clone(); w.invisible_annotations.push(env_ann(Side::Server)); if w != *x { bad.push(format!("{what}: server-only field is not the server's field plus the SERVER mark")); } }
				(None, None) => {}
			}
			if bad.len() > n0 { return; }
		}
	}
	// the two versions say the same: so does the merged class, member for member, in the same order
	let norm = |f: &ClassFacts| { let mut f = f.clone(); if f.inner_classes.as_ref().map_or(false, |l| l.is_empty()) { f.inner_classes = None; } f };
	if c == s && norm(m) != norm(c) { bad.push(format!("{name}: the two versions differ in their bytes only, the merged class is another class: {}", c.diff(m).join("; "))); }
}

/// a class one side has: that class plus the class-level side mark, nothing else changed
pub fn check_one_sided(name: &str, f: &ClassFacts, side: Side, m: &ClassFacts, bad: &mut Vec<String>) {
	let mut w = f.clone();
	w.visible_annotations.push(env_ann(side));
	if w != *m { bad.push(format!("{name}: one-sided class is not the input class plus the class-level {side:?} mark: {}", w.diff(m).join("; "))); }
}

/// The merged class as it is in the written jar (read by the independent strict parser) against the
/// merged tree.  What duke's writer is known not to carry over is C02's finding, not C13's: those
/// groups are left out when, and only when, the difference is confined to them.
pub fn check_written(r: &mut Report, name: &str, tree: &ClassFacts, written: &ClassFacts, bad: &mut Vec<String>) {
	if tree == written { r.count("reopened:written merged class says exactly what the merged tree says"); return; }
	// max_stack / max_locals are Option in the tree (None = let the writer compute); parameter annotations have no place in the tree
	let soft = [FactGroup::MaxStackLocals, FactGroup::ParameterAnnotations];
	let (a, b) = (tree.without(&soft), written.without(&soft));
	if a == b { r.count("reopened:written merged class agrees with the merged tree up to max_stack/max_locals"); return; }
	bad.push(format!("{name}: merged class in the written jar, read by the independent parser, does not say what the merged tree says: {}", a.diff(&b).into_iter().take(4).collect::<Vec<_>>().join("; ")));
}
