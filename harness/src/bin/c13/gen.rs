//! Generators: list pairs for merge_preserve_order, class pairs, jar pairs.
use crate::classes::*;
use crate::{AContent, AEntry, AJar, JarKind, Route};
use crate::real::{real_pair, Corpus};
use fbh::prng::Rng;

pub fn plain_member(name: &str, desc: &str) -> AMember {
	AMember { name: name.to_owned(), desc: desc.to_owned(), access: 0x0001, depr: false, synth: false, inv: vec![], vis: vec![], payload: None, opq: [0; 5] }
}
pub fn plain_class(name: &str) -> AClass {
	AClass { version: 4, access: 0x0021, name: name.to_owned(), sup: Some("j/Object".to_owned()), itfs: vec![], fields: vec![], methods: vec![],
		depr: false, synth: false, inner: None, vis: vec![], inv: vec![], perm: None, records: vec![], source_file: None, attrs: vec![], opq: [0; 7] }
}

fn subseq_of(rng: &mut Rng, s: &[u32], keep_num: usize, keep_den: usize) -> Vec<u32> { s.iter().copied().filter(|_| rng.chance(keep_num, keep_den)).collect() }

/// (mode, a, b) over the symbols 1..=12
pub fn list_pair(rng: &mut Rng) -> (&'static str, Vec<u32>, Vec<u32>) { list_pair_n(rng, 12) }
/// (mode, a, b) over the symbols 1..=n
pub fn list_pair_n(rng: &mut Rng, n: usize) -> (&'static str, Vec<u32>, Vec<u32>) {
	let mut universe: Vec<u32> = (1..=n as u32).collect();
	rng.shuffle(&mut universe);
	let len = rng.range(0, n);
	let s: Vec<u32> = universe[..len].to_vec();
	match rng.below(12) {
		0 | 1 | 2 => { // both are subsequences of one common order: compatible
			let a = subseq_of(rng, &s, 2, 3); let b = subseq_of(rng, &s, 2, 3); ("interleaving", a, b)
		}
		3 => { let k = rng.range(0, s.len()); if rng.chance(1, 2) { ("prefix", s.clone(), s[..k].to_vec()) } else { ("prefix", s[..k].to_vec(), s.clone()) } }
		4 => { let k = rng.range(0, s.len()); if rng.chance(1, 2) { ("suffix", s.clone(), s[k..].to_vec()) } else { ("suffix", s[k..].to_vec(), s.clone()) } }
		5 | 6 => { // a permutation of the other, possibly with a few extras on either side
			let mut b = s.clone(); rng.shuffle(&mut b);
			let mut a = s.clone();
			for &x in &universe[len..] { match rng.below(6) { 0 => { let p = rng.range(0, a.len()); a.insert(p, x); } 1 => { let p = rng.range(0, b.len()); b.insert(p, x); } _ => {} } }
			("permutation", a, b)
		}
		7 => { let k = rng.range(0, s.len()); ("disjoint", s[..k].to_vec(), s[k..].to_vec()) }
		8 => ("equal", s.clone(), s.clone()),
		9 => { // one swap in an otherwise compatible pair
			let a = subseq_of(rng, &s, 3, 4); let mut b = subseq_of(rng, &s, 3, 4);
			if b.len() >= 2 { let i = rng.below(b.len() - 1); b.swap(i, i + 1); }
			("one-swap", a, b)
		}
		10 => { // arbitrary duplicate-free lists
			let mut u2 = universe.clone(); rng.shuffle(&mut u2);
			let (la, lb) = (rng.range(0, n * 2 / 3), rng.range(0, n * 2 / 3));
			("arbitrary", universe[..la].to_vec(), u2[..lb].to_vec())
		}
		_ => { // with duplicates: outside the theorems' hypothesis, still compared with the model
			let la = rng.range(0, 7); let lb = rng.range(0, 7);
			let a = (0..la).map(|_| rng.range(1, 5) as u32).collect(); let b = (0..lb).map(|_| rng.range(1, 5) as u32).collect();
			("duplicates", a, b)
		}
	}
}

/// long lists (around 255/256 elements): interleavings of a common order, or the same scrambled by a few swaps
pub fn long_list_pair(rng: &mut Rng) -> (&'static str, Vec<u32>, Vec<u32>) {
	let n = *rng.pick(&[254usize, 255, 256, 257, 300]);
	let mut s: Vec<u32> = (1..=n as u32 + 40).collect();
	rng.shuffle(&mut s);
	let a: Vec<u32> = s.iter().copied().filter(|_| rng.chance(9, 10)).take(n).collect();
	let mut b: Vec<u32> = s.iter().copied().filter(|_| rng.chance(9, 10)).take(n).collect();
	if rng.chance(1, 2) { for _ in 0..3 { if b.len() >= 2 { let i = rng.below(b.len() - 1); b.swap(i, i + 1); } } ("long-scrambled", a, b) } else { ("long-interleaving", a, b) }
}

/// class pairs whose opaque fields had to be dropped because duke does not round-trip them
pub static PLAINER: std::sync::atomic::AtomicUsize = std::sync::atomic::AtomicUsize::new(0);

#[derive(Clone, Copy, Debug, PartialEq)]
pub enum Twist { None, Version, Access, ClassDepr, ClassSynth, MemberDepr, MemberSynth, Super, Name, Inner, DupKeys, BadBytes, KindMismatch }
impl Twist {
	pub fn pick(rng: &mut Rng) -> Twist {
		*rng.pick(&[Twist::Version, Twist::Access, Twist::ClassDepr, Twist::ClassSynth, Twist::MemberDepr, Twist::MemberSynth, Twist::Super, Twist::Name, Twist::Inner, Twist::DupKeys, Twist::BadBytes, Twist::KindMismatch])
	}
	pub fn name(self) -> &'static str {
		match self { Twist::None => "main", Twist::Version => "version-differs", Twist::Access => "access-differs", Twist::ClassDepr => "class-deprecated-differs", Twist::ClassSynth => "class-synthetic-differs",
			Twist::MemberDepr => "member-deprecated-differs", Twist::MemberSynth => "member-synthetic-differs", Twist::Super => "super-differs", Twist::Name => "name-differs", Twist::Inner => "inner-class-differs",
			Twist::DupKeys => "duplicate-keys", Twist::BadBytes => "unreadable-class", Twist::KindMismatch => "kind-mismatch" }
	}
}

fn gen_anns(rng: &mut Rng) -> Vec<AAnn> {
	let mut v = vec![];
	for _ in 0..rng.below(3) {
		v.push(match rng.below(8) {
			0 => AAnn::Env(if rng.chance(1, 2) { Side::Client } else { Side::Server }), // already marked by an earlier merge
			1 => AAnn::Itfs(vec![(Side::Server, "I7".to_owned())]),
			_ => AAnn::Other(format!("ann/A{}", rng.below(3))),
		});
	}
	v
}

fn gen_member(rng: &mut Rng, method: bool, id: u32) -> AMember {
	let descs_f = ["I", "J", "Ljava/lang/String;", "[I"];
	let descs_m = ["()V", "(I)I", "(Ljava/lang/Object;)Z"];
	// few names, several descriptors: the key is the pair
	let name = format!("{}{}", if method { "m" } else { "f" }, id / 2);
	let desc = if method { descs_m[(id % 2) as usize + rng.below(2)] } else { descs_f[(id % 2) as usize * 2 + rng.below(2)] };
	let payload = if rng.chance(1, 2) { Some(rng.below(100) as i8) } else { None };
	// a method without Code is abstract or native, one with Code is neither
	let access = if method && payload.is_none() { *rng.pick(&[0x0401u16, 0x0101, 0x0404, 0x0109]) } else { *rng.pick(&[0x0001u16, 0x0002, 0x0009, 0x0010, 0x0019]) };
	AMember { name, desc: desc.to_owned(), access, depr: rng.chance(1, 8), synth: rng.chance(1, 8),
		inv: gen_anns(rng), vis: if rng.chance(1, 5) { gen_anns(rng) } else { vec![] }, payload, opq: gen_opq5(rng, method) }
}
/// the fields the merge only copies: mostly absent, sometimes one of two values
fn gen_opq5(rng: &mut Rng, method: bool) -> [u8; 5] {
	let mut o = [0u8; 5];
	if rng.chance(1, 3) { for (i, x) in o.iter_mut().enumerate() { if (method || i == 1 || i == 4) && rng.chance(1, 2) { *x = rng.range(1, 2) as u8; } } }
	o
}
fn gen_opq7(rng: &mut Rng) -> [u8; 7] {
	let mut o = [0u8; 7];
	if rng.chance(1, 2) { for x in o.iter_mut() { if rng.chance(1, 3) { *x = rng.range(1, 2) as u8; } } }
	o
}

/// two member lists whose key orders are related as list_pair says; shared keys carry equal or differing bodies
fn member_lists(rng: &mut Rng, method: bool, twist: Twist) -> (Vec<AMember>, Vec<AMember>) {
	let (_, mut a, mut b) = list_pair_n(rng, 5);
	if twist != Twist::DupKeys { dedup(&mut a); dedup(&mut b); } else { force_dup(rng, &mut a); force_dup(rng, &mut b); }
	let mut proto: Vec<AMember> = (0..=12).map(|i| gen_member(rng, method, i)).collect();
	// distinct keys per id: make sure (name, desc) differ between ids
	for (i, p) in proto.iter_mut().enumerate() { p.name = format!("{}{}", if method { "m" } else { "f" }, i / 2); if i % 2 == 1 { p.desc = if method { "(J)V".into() } else { "Z".into() }; } else { p.desc = if method { "()V".into() } else { "I".into() }; } }
	let ca: Vec<AMember> = a.iter().map(|&i| proto[i as usize].clone()).collect();
	let mut cb: Vec<AMember> = b.iter().map(|&i| proto[i as usize].clone()).collect();
	let mut twisted = false;
	for m in cb.iter_mut() {
		if !a.iter().any(|&i| proto[i as usize].name == m.name && proto[i as usize].desc == m.desc) { continue; }
		match rng.below(7) {
			0 => m.access ^= if method && m.payload.is_none() { 0x0004 } else { 0x0010 },
			1 => if m.payload.is_some() || !method { m.payload = Some(rng.below(50) as i8 - 100) },
			2 => m.inv.push(AAnn::Other("ann/S".into())),
			3 => m.vis.push(AAnn::Other("ann/V".into())),
			4 => m.opq = gen_opq5(rng, method),
			_ => {}
		}
		if !twisted && twist == Twist::MemberDepr { m.depr = !m.depr; twisted = true; }
		if !twisted && twist == Twist::MemberSynth { m.synth = !m.synth; twisted = true; }
	}
	(ca, cb)
}
fn force_dup(rng: &mut Rng, v: &mut Vec<u32>) { if !v.is_empty() && rng.chance(2, 3) { let x = v[rng.below(v.len())]; let p = rng.range(0, v.len()); v.insert(p, x); } }
fn dedup(v: &mut Vec<u32>) { let mut seen = vec![]; v.retain(|x| if seen.contains(x) { false } else { seen.push(*x); true }); }

/// (client version, server version) of the class stored under `name`
fn class_pair(rng: &mut Rng, name: &str, twist: Twist) -> (AClass, AClass) {
	let mut c = plain_class(name);
	c.version = rng.below(VERSIONS.len());
	c.access = *rng.pick(&[0x0021u16, 0x0020, 0x0421, 0x0601, 0x0031]);
	if rng.chance(1, 6) { c.sup = Some("net/minecraft/Base".into()); }
	c.depr = rng.chance(1, 8); c.synth = rng.chance(1, 10);
	c.vis = gen_anns(rng); c.inv = gen_anns(rng);
	if rng.chance(1, 4) { c.source_file = Some("A.java".into()); }
	if rng.chance(1, 5) { c.perm = Some(vec!["net/minecraft/P".into(), "net/minecraft/Q".into()]); }
	if rng.chance(1, 5) { c.records = vec!["r".into()]; }
	if rng.chance(1, 12) { c.attrs = vec![("Payload".into(), rng.next(), rng.range(0, 40))]; }
	c.opq = gen_opq7(rng);
	let mut s = c.clone();
	match rng.below(5) {
		0 => {} // identical
		1 => { s.source_file = Some("B.java".into()); } // differ only in a part the merge copies from the client
		_ => {
			let (fa, fb) = member_lists(rng, false, twist); c.fields = fa; s.fields = fb;
			let (ma, mb) = member_lists(rng, true, twist); c.methods = ma; s.methods = mb;
			let (_, mut ia, mut ib) = list_pair_n(rng, 5);
			if twist != Twist::DupKeys { dedup(&mut ia); dedup(&mut ib); } else { force_dup(rng, &mut ia); force_dup(rng, &mut ib); }
			c.itfs = ia.iter().map(|n| format!("I{n}")).collect(); s.itfs = ib.iter().map(|n| format!("I{n}")).collect();
			if rng.chance(1, 3) {
				let (_, mut na, mut nb) = list_pair_n(rng, 3); dedup(&mut na); dedup(&mut nb);
				let mk = |l: &[u32]| -> Option<Vec<(String, u16)>> { if l.is_empty() && l.len() % 2 == 0 { None } else { Some(l.iter().map(|n| (format!("{name}$N{n}"), 0x0009u16)).collect()) } };
				c.inner = mk(&na); s.inner = mk(&nb);
				if rng.chance(1, 8) { s.inner = Some(vec![]); }
			}
			if rng.chance(1, 4) { s.vis.push(AAnn::Other("ann/SV".into())); }
			if rng.chance(1, 4) { s.inv.push(AAnn::Other("ann/SI".into())); }
			if rng.chance(1, 6) { s.perm = None; s.records = vec![]; }
			// permitted subclasses that differ between the versions in every way two lists can (round 5): one side without the
			// attribute, sub- and super-lists, other orders, disjoint lists, an empty list
			if rng.chance(1, 3) {
				const POOL: [&str; 4] = ["net/minecraft/P", "net/minecraft/Q", "net/minecraft/R", "net/minecraft/S"];
				let (_, mut pa, mut pb) = list_pair_n(rng, 4); dedup(&mut pa); dedup(&mut pb);
				let mk = |l: &[u32], absent: bool| -> Option<Vec<String>> { if l.is_empty() && absent { None } else { Some(l.iter().map(|n| POOL[(*n as usize - 1) % 4].to_owned()).collect()) } };
				let (a1, a2) = (rng.chance(1, 2), rng.chance(1, 2));
				c.perm = mk(&pa, a1); s.perm = mk(&pb, a2);
			}
			// the two versions say different things in fields the merge only copies
			if rng.chance(1, 2) { s.opq = gen_opq7(rng); }
			if rng.chance(1, 8) { s.attrs = vec![("Payload".into(), rng.next(), rng.range(0, 40))]; }
		}
	}
	if !roundtrips(&c) || !roundtrips(&s) {
		// duke cannot carry this combination through its writer and reader: plainer classes
		c.opq = [0; 7]; s.opq = [0; 7];
		for m in c.fields.iter_mut().chain(c.methods.iter_mut()).chain(s.fields.iter_mut()).chain(s.methods.iter_mut()) { m.opq = [0; 5]; }
		PLAINER.fetch_add(1, std::sync::atomic::Ordering::Relaxed);
	}
	match twist {
		Twist::Version => s.version = (c.version + 1) % VERSIONS.len(),
		Twist::Access => s.access ^= 0x0010,
		Twist::ClassDepr => s.depr = !c.depr,
		Twist::ClassSynth => s.synth = !c.synth,
		Twist::Super => s.sup = Some("net/minecraft/Other".into()),
		Twist::Name => s.name = format!("{name}X"),
		Twist::Inner => { c.inner = Some(vec![(format!("{name}$N1"), 0x0009)]); s.inner = Some(vec![(format!("{name}$N1"), 0x0001)]); }
		_ => {}
	}
	(c, s)
}

// classes directly in net/minecraft, in sub packages, in the default package, under look-alike prefixes
// (net/minecraftx/, net/minecraft.class, net/Minecraft/), in library packages, multi-release
const CLASS_NAMES: [&str; 14] = ["net/minecraft/A.class", "net/minecraft/util/B.class", "net/minecraft/C$D.class", "Top.class", "com/google/Lib.class", "net/minecraftx/E.class", "org/x/Y.class", "META-INF/versions/9/Z.class", "net/minecraft/server/S.class",
	"net/minecraft/Bootstrap.class", "net/minecraft.class", "net/Minecraft/M.class", "Default.class", "net/ü/𝒜.class"];
const RES_NAMES: [&str; 12] = ["pack.png", "assets/lang/en.json", "data/x.txt", "log4j2.xml", "lib/x.class.txt", "X.SF", "version.json", "assets/ü.txt", "net/minecraft/data.bin",
	"net/minecraft", "com/x.class/y", "com/google/Lib.CLASS"];
const META_NAMES: [&str; 18] = ["META-INF/MANIFEST.MF", "META-INF/MOJANGCS.SF", "META-INF/MOJANGCS.RSA", "META-INF/X.DSA", "META-INF/services/x", "META-INF/sub/Y.SF", "meta-inf/Z.SF", "META-INF/.SF", "META-INF/a.RSA.txt", "META-INF/MANIFEST.MF.SF",
	"META-INF/X.EC", "META-INF/x.sf", "META-INF/SIG.RSA/keep", "META-INF", "META-INF/sub/k.EC", "META-INF/SIG-X", "META-INF/x.ec", "META-INF/KEY.DSA.bak"];
const DIR_NAMES: [&str; 6] = ["net/", "net/minecraft/", "assets/", "META-INF/", "com/x.class/", "META-INF/D.SF/"];

/// entry names for the rule sweep: every prefix x stem x suffix that touches one of the string tests of the
/// entry loop (starts_with "META-INF/", "net/minecraft/"; ends_with ".SF", ".RSA", ".class"; contains '/';
/// the zip reader's kind test: trailing '/' or '\\', ".class"), plus the generators' fixed names
pub fn rule_names() -> Vec<String> {
	let prefixes = ["", "net/", "net/minecraft/", "net/minecraftx/", "net/minecraft", "net/minecraft/sub/", "META-INF/", "meta-inf/", "META-INF", "com/x/", "/", "net\\minecraft\\"];
	let stems = ["A", "", "Bootstrap", "ü𝒜"];
	let suffixes = [".class", ".SF", ".RSA", ".DSA", ".EC", ".class/", ".CLASS", ".class.txt", "", "/", ".sf", ".dsa", ".DSA.txt", ".class\\", ".classs"];
	let mut v: Vec<String> = vec![];
	let mut add = |n: String| { if !n.is_empty() && n != "META-INF/MANIFEST.MF" && !v.contains(&n) { v.push(n); } };
	for n in CLASS_NAMES.iter().chain(RES_NAMES.iter()).chain(META_NAMES.iter()).chain(DIR_NAMES.iter()) { add((*n).to_owned()); }
	for p in prefixes { for s in stems { for x in suffixes { add(format!("{p}{s}{x}")); } } }
	v
}

fn gen_time(rng: &mut Rng) -> (u16, u8, u8, u8, u8, u8) { (rng.range(1980, 2030) as u16, rng.range(1, 12) as u8, rng.range(1, 28) as u8, rng.below(24) as u8, rng.below(60) as u8, (rng.below(30) * 2) as u8) }
/// an Info-ZIP extended timestamp on every sixth zip entry: mtime alone, mtime+atime, all three, mtime+ctime
fn gen_ext(rng: &mut Rng) -> Option<(u8, [u32; 3])> {
	if !rng.chance(1, 6) { return None; }
	Some((*rng.pick(&[1u8, 3, 7, 5]), [rng.range(0, 2_000_000_000) as u32, rng.range(0, 2_000_000_000) as u32, rng.range(0, 2_000_000_000) as u32]))
}
fn gen_bytes(rng: &mut Rng) -> Vec<u8> { (0..rng.below(4)).map(|_| rng.below(256) as u8).collect() }

pub fn jar_pair(rng: &mut Rng, twist: Twist, route: Route) -> (AJar, AJar) {
	let mut client: AJar = vec![]; let mut server: AJar = vec![];
	// 0 client only, 1 server only, 2 both; the mix decides disjoint / identical / overlapping
	let mix = rng.below(4);
	let place = |rng: &mut Rng| -> usize { match mix { 0 => rng.below(2), 1 => 2, _ => rng.below(3) } };
	let mut names: Vec<(&str, usize)> = vec![]; // (name, kind 0 class 1 resource 2 meta 3 dir)
	for n in CLASS_NAMES { if rng.chance(1, 4) { names.push((n, 0)); } }
	for n in RES_NAMES { if rng.chance(1, 6) { names.push((n, 1)); } }
	for n in META_NAMES { if rng.chance(1, 5) { names.push((n, 2)); } }
	for n in DIR_NAMES { if rng.chance(1, 5) { names.push((n, 3)); } }
	if rng.chance(1, 30) { names.clear(); }
	rng.shuffle(&mut names);
	let mut twisted = false;
	for (n, kind) in names {
		let mut p = place(rng);
		let tw = if !twisted && kind == 0 && twist != Twist::None && twist != Twist::KindMismatch && twist != Twist::BadBytes { twisted = true; p = 2; twist }
			else if !twisted && kind == 0 && twist == Twist::BadBytes { twisted = true; twist }
			else if !twisted && kind == 1 && twist == Twist::KindMismatch && route.s == JarKind::Parsed { twisted = true; p = 2; twist }
			else { Twist::None };
		let (cc, sc) = match kind {
			0 => {
				// the class's own name is the last segment: the merge never relates it to the entry name
				let cname = n.strip_suffix(".class").unwrap_or(n).rsplit('/').next().unwrap_or("A");
				let (c, s) = class_pair(rng, cname, if tw == Twist::BadBytes { Twist::None } else { tw });
				if tw == Twist::BadBytes {
					let bad = || AContent::RawClass(vec![0xCA, 0xFE, 0xBA, 0xBE, 0, 0]);
					match rng.below(3) { 0 => (bad(), AContent::Class(s)), 1 => (AContent::Class(c), AContent::RawClass(vec![1, 2, 3])), _ => (bad(), bad()) }
				} else { (AContent::Class(c), AContent::Class(s)) }
			}
			1 | 2 => {
				let d = gen_bytes(rng);
				let d2 = if rng.chance(1, 2) { d.clone() } else { gen_bytes(rng) };
				if tw == Twist::KindMismatch { (AContent::Other(d), AContent::Dir) } else { (AContent::Other(d), AContent::Other(d2)) }
			}
			_ => (AContent::Dir, AContent::Dir),
		};
		let pr = rng.chance(1, 2);
		if p == 0 || p == 2 { client.push(AEntry { parsed_repr: pr, deflate: rng.chance(1, 2), ext: gen_ext(rng), ..AEntry::new(n, gen_time(rng), cc) }); }
		if p == 1 || p == 2 { server.push(AEntry { parsed_repr: if rng.chance(3, 4) { pr } else { !pr }, deflate: rng.chance(1, 2), ext: gen_ext(rng), ..AEntry::new(n, gen_time(rng), sc) }); }
	}
	// the two jars list their entries in independent orders
	if rng.chance(1, 2) { rng.shuffle(&mut server); }
	(client, server)
}

/// which implementations of `Jar` the two sides are
pub fn gen_route(rng: &mut Rng) -> Route {
	let zip = |rng: &mut Rng| *rng.pick(&[JarKind::Unnamed, JarKind::Unnamed, JarKind::Named, JarKind::File]);
	match rng.below(10) {
		0..=4 => Route { c: zip(rng), s: zip(rng) },
		5..=7 => Route { c: JarKind::Parsed, s: JarKind::Parsed },
		8 => Route { c: zip(rng), s: JarKind::Parsed },
		_ => Route { c: JarKind::Parsed, s: zip(rng) },
	}
}
pub fn gen_zip_route(rng: &mut Rng) -> Route {
	let zip = |rng: &mut Rng| *rng.pick(&[JarKind::Unnamed, JarKind::Named, JarKind::File]);
	Route { c: zip(rng), s: zip(rng) }
}

/// sizes around the buffers of a zip reader / inflater: a few bytes (control), below and above 32 KiB, 64 KiB, large
const SIZES: [usize; 9] = [5, 100, 8192, 20000, 32768, 33000, 65537, 100000, 200000];

/// Jars of real zip entries: large incompressible contents (DEFLATE cannot shrink `noise`), large
/// compressible ones and small controls, compressed or stored; as a resource both sides have (equal /
/// different), a resource one side has, a class identical on both sides, a class one side has and a
/// class that differs between the sides — the latter three carry the bytes in an attribute unknown to
/// the JVMS, which the merge has to hand through.
pub fn big_jar_pair(rng: &mut Rng) -> (AJar, AJar) {
	let mut client: AJar = vec![]; let mut server: AJar = vec![];
	let size = |rng: &mut Rng| *rng.pick(&SIZES);
	let defl = |rng: &mut Rng| rng.chance(4, 5);
	let mut res = |rng: &mut Rng, name: &str, to_c: bool, to_s: bool, same: bool| {
		let len = size(rng);
		let mk = |rng: &mut Rng| -> (Vec<u8>, String) {
			if rng.chance(1, 6) { let b = rng.below(256) as u8; (vec![b; len], format!("{len} times the byte {b}")) } else { let sd = rng.next(); (noise(sd, len), format!("noise({sd}, {len})")) }
		};
		let (d, o) = mk(rng);
		let (d2, o2) = if same { (d.clone(), o.clone()) } else { mk(rng) };
		if to_c { client.push(AEntry { deflate: defl(rng), origin: o, ..AEntry::new(name, gen_time(rng), AContent::Other(d)) }); }
		if to_s { server.push(AEntry { deflate: defl(rng), origin: o2, ..AEntry::new(name, gen_time(rng), AContent::Other(d2)) }); }
	};
	if rng.chance(3, 4) { res(rng, "assets/shared.bin", true, true, true); }
	if rng.chance(1, 2) { res(rng, "assets/differs.bin", true, true, false); }
	if rng.chance(3, 4) { res(rng, "assets/client_only.bin", true, false, true); }
	if rng.chance(3, 4) { res(rng, "data/server_only.bin", false, true, true); }
	if rng.chance(1, 2) { res(rng, "META-INF/services/big", true, true, true); }
	let mut class = |rng: &mut Rng, entry: &str, cname: &str, to_c: bool, to_s: bool, differ: bool| {
		let mut c = plain_class(cname);
		c.version = rng.below(VERSIONS.len());
		c.attrs = vec![("Payload".to_owned(), rng.next(), size(rng))];
		if rng.chance(1, 3) { c.attrs.push(("Extra".to_owned(), rng.next(), size(rng) / 4)); }
		let method = |n: &str| AMember { payload: Some(7), ..plain_member(n, "()V") };
		c.methods = vec![method("m0")];
		let mut s = c.clone();
		if differ {
			c.methods.push(method("onlyClient")); s.fields.push(plain_member("onlyServer", "I"));
			c.itfs.push("I1".into());
			if rng.chance(1, 2) { s.attrs[0].1 ^= 1; } // the server's attribute has other bytes: the client's are kept
		}
		if to_c { client.push(AEntry { deflate: defl(rng), ..AEntry::new(entry, gen_time(rng), AContent::Class(c)) }); }
		if to_s { server.push(AEntry { deflate: defl(rng), ..AEntry::new(entry, gen_time(rng), AContent::Class(s)) }); }
	};
	if rng.chance(3, 4) { class(rng, "net/minecraft/Big.class", "net/minecraft/Big", true, true, false); }
	if rng.chance(1, 2) { class(rng, "net/minecraft/BigClient.class", "net/minecraft/BigClient", true, false, false); }
	if rng.chance(1, 2) { class(rng, "net/minecraft/BigServer.class", "net/minecraft/BigServer", false, true, false); }
	if rng.chance(1, 2) { class(rng, "net/minecraft/BigMerged.class", "net/minecraft/BigMerged", true, true, true); }
	client.push(AEntry::new("assets/small.txt", gen_time(rng), AContent::Other(b"hello".to_vec())));
	server.push(AEntry { deflate: true, ..AEntry::new("assets/small.txt", gen_time(rng), AContent::Other(b"hello".to_vec())) });
	rng.shuffle(&mut client); rng.shuffle(&mut server);
	(client, server)
}

/// Jars of real classes (real.rs): each class in two builds, some classes on one side only, a resource
pub fn real_jar_pair(rng: &mut Rng, corpus: &Corpus, kinds: &mut Vec<&'static str>) -> (AJar, AJar) {
	let mut client: AJar = vec![]; let mut server: AJar = vec![];
	let n = rng.range(1, 3);
	for i in 0..n {
		let Some(p) = real_pair(rng, corpus) else { kinds.push("skipped (duke cannot read or write a build, or a generated class repeats a key)"); continue };
		let name = format!("net/minecraft/k/C{i}.class");
		let place = rng.below(8); // mostly on both sides
		kinds.push(p.kind);
		if place != 0 { client.push(AEntry { deflate: rng.chance(1, 2), origin: p.origin_c, ..AEntry::new(&name, gen_time(rng), AContent::RawClass(p.client)) }); }
		if place != 1 { server.push(AEntry { deflate: rng.chance(1, 2), origin: p.origin_s, ..AEntry::new(&name, gen_time(rng), AContent::RawClass(p.server)) }); }
	}
	if rng.chance(1, 2) { let d = gen_bytes(rng); client.push(AEntry::new("pack.png", gen_time(rng), AContent::Other(d.clone()))); server.push(AEntry::new("pack.png", gen_time(rng), AContent::Other(d))); }
	if rng.chance(1, 2) { rng.shuffle(&mut server); }
	(client, server)
}


/// Multi-release entries (round 5): the same class under META-INF/versions/<n>/ and outside, entries of every kind
/// below META-INF/versions/<n>/ (class in net/minecraft, class in the default package, class of a library package,
/// resource, directory), in one of the four placements: 0 client only, 1 server only, 2 both equal, 3 both differing
pub fn versions_pair(n: u32, placement: usize, parsed_repr: bool) -> (AJar, AJar) {
	let mut client: AJar = vec![]; let mut server: AJar = vec![];
	let t = (2020, 1, 2, 3, 4, 6);
	let base = format!("META-INF/versions/{n}/");
	let mut put = |name: String, c: AContent, s: AContent| {
		if placement != 1 { client.push(AEntry { parsed_repr, ..AEntry::new(&name, t, c) }); }
		if placement != 0 { server.push(AEntry { parsed_repr, deflate: true, ..AEntry::new(&name, t, s) }); }
	};
	for (i, (entry, cname)) in [("net/minecraft/V.class", "net/minecraft/V"), ("Top.class", "Top"), ("com/lib/L.class", "com/lib/L"), ("net/minecraft/sub/W$1.class", "net/minecraft/sub/W$1")].iter().enumerate() {
		for prefix in [base.as_str(), ""] {
			let mut c = plain_class(cname);
			c.version = 5 + (n as usize % 3);
			c.fields = vec![plain_member("shared", "I")];
			c.methods = vec![AMember { payload: Some(i as i8), ..plain_member("run", "()V") }];
			// an input that was merged before: marks of either side are there already
			if i == 1 { c.vis = vec![AAnn::Env(Side::Server)]; c.methods[0].inv = vec![AAnn::Env(Side::Client)]; }
			let mut s = c.clone();
			if placement == 3 {
				c.methods.push(AMember { payload: Some(1), ..plain_member("onlyClient", "()V") }); c.itfs.push("IC".into());
				s.fields.push(plain_member("onlyServer", "J")); s.itfs.push("IS".into());
				if i == 1 { c.methods[1].inv = vec![AAnn::Env(Side::Server)]; s.fields[1].inv = vec![AAnn::Env(Side::Server), AAnn::Other("ann/A0".into())]; }
			}
			put(format!("{prefix}{entry}"), AContent::Class(c), AContent::Class(s));
		}
	}
	put(format!("{base}data.txt"), AContent::Other(b"v".to_vec()), AContent::Other(if placement == 3 { b"w".to_vec() } else { b"v".to_vec() }));
	put(format!("{base}x.class.txt"), AContent::Other(b"t".to_vec()), AContent::Other(b"t".to_vec()));
	put(base.clone(), AContent::Dir, AContent::Dir);
	put("META-INF/versions/".to_owned(), AContent::Dir, AContent::Dir);
	(client, server)
}

/// The third jar of a two-step merge merge(merge(c, s), t) / merge(t, merge(c, s)): the server again, the client again, or a
/// later build of one of them (entries dropped and added, members and interfaces added or removed, resources changed) —
/// headers, flags of shared members and inner-class records stay as they are, so the second merge is inside the hypotheses
pub fn third_jar(rng: &mut Rng, client: &AJar, server: &AJar) -> (&'static str, AJar) {
	let mode = rng.below(4);
	let src = if mode % 2 == 0 { server } else { client };
	if mode < 2 { return (if mode == 0 { "the server jar again" } else { "the client jar again" }, src.clone()); }
	let mut t: AJar = vec![];
	for e in src {
		if rng.chance(1, 5) { continue; }
		let mut e = e.clone();
		match &mut e.content {
			AContent::Class(c) => match rng.below(5) {
				0 => c.methods.push(AMember { payload: Some(9), ..plain_member("later", "()V") }),
				1 => { if !c.fields.is_empty() { c.fields.remove(0); } }
				2 => c.itfs.push("ILater".into()),
				3 => { if !c.methods.is_empty() { let k = rng.below(c.methods.len()); c.methods[k].payload = c.methods[k].payload.map(|v| v.wrapping_add(1)); } }
				_ => {}
			},
			AContent::Other(d) => { if rng.chance(1, 3) { d.push(7); } }
			_ => {}
		}
		t.push(e);
	}
	if rng.chance(1, 2) { let mut c = plain_class("Later"); c.methods = vec![AMember { payload: Some(3), ..plain_member("m", "()V") }]; t.push(AEntry::new("net/minecraft/Later.class", gen_time(rng), AContent::Class(c))); }
	if rng.chance(1, 2) { t.push(AEntry::new("assets/later.txt", gen_time(rng), AContent::Other(b"later".to_vec()))); }
	if rng.chance(1, 2) { rng.shuffle(&mut t); }
	(if mode == 2 { "a later build of the server jar" } else { "a later build of the client jar" }, t)
}
