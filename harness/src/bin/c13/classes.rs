//! Abstract class descriptions (the generator's ground truth), their conversion into duke trees,
//! and the projection of a duke tree onto the components the Coq model (C13/Model.v) has.
use std::collections::HashMap;
use duke::tree::annotation::{Annotation, ElementValue, ElementValuePair};
use duke::tree::class::{ClassAccess, ClassFile, ClassName, InnerClass, InnerClassFlags, ObjClassName};
use duke::tree::descriptor::ReturnDescriptor;
use duke::tree::field::{ConstantValue, Field, FieldAccess, FieldDescriptor, FieldName};
use duke::tree::method::code::{Code, Instruction, InstructionListEntry};
use duke::tree::method::{Method, MethodAccess, MethodDescriptor, MethodName};
use duke::tree::record::{RecordComponent, RecordName};
use duke::tree::version::Version;
use fbh::gal::*;
use java_string::JavaString;

#[derive(Clone, Copy, Debug, PartialEq, Eq, Hash)]
pub enum Side { Client, Server }
impl Side { pub fn g(self) -> &'static str { match self { Side::Client => "Client", Side::Server => "Server" } } }

pub const ENVIRONMENT: &str = "Lnet/fabricmc/api/Environment;";
pub const ENV_TYPE: &str = "Lnet/fabricmc/api/EnvType;";
pub const ENV_ITF: &str = "Lnet/fabricmc/api/EnvironmentInterface;";
pub const ENV_ITFS: &str = "Lnet/fabricmc/api/EnvironmentInterfaces;";

pub const VERSIONS: [Version; 8] = [Version::V1_1, Version::V1_5, Version::V1_6, Version::V1_7, Version::V1_8, Version::V11, Version::V17, Version::V21];

// ---------------------------------------------------------------- abstract descriptions
#[derive(Clone, Debug, PartialEq)]
pub enum AAnn { Env(Side), Itfs(Vec<(Side, String)>), Other(String) }

#[derive(Clone, Debug, PartialEq)]
pub struct AMember {
	pub name: String, pub desc: String, pub access: u16, pub depr: bool, pub synth: bool,
	pub inv: Vec<AAnn>, pub vis: Vec<AAnn>,
	/// fields: ConstantValue; methods: a body `bipush n; return`-ish (None = no Code)
	pub payload: Option<i8>,
	/// fields the merge only copies, 0 = absent, 1 / 2 = two different values: [exceptions, signature,
	/// annotation_default, method_parameters, unknown attribute] (fields use signature and attribute only)
	pub opq: [u8; 5],
}

#[derive(Clone, Debug, PartialEq)]
pub struct AClass {
	pub version: usize, pub access: u16, pub name: String, pub sup: Option<String>,
	pub itfs: Vec<String>, pub fields: Vec<AMember>, pub methods: Vec<AMember>,
	pub depr: bool, pub synth: bool,
	pub inner: Option<Vec<(String, u16)>>,
	pub vis: Vec<AAnn>, pub inv: Vec<AAnn>,
	pub perm: Option<Vec<String>>, pub records: Vec<String>,
	pub source_file: Option<String>,
	/// attributes unknown to the JVMS: (name, seed, length) — the content is `noise(seed, length)`
	pub attrs: Vec<(String, u64, usize)>,
	/// fields the merge only copies, 0 = absent, 1 / 2 = two different values: [enclosing_method, signature,
	/// source_debug_extension, module_packages, module_main_class, nest_host_class, nest_members]
	pub opq: [u8; 7],
}
fn pick2(k: u8, a: &str, b: &str) -> Option<String> { match k { 1 => Some(a.to_owned()), 2 => Some(b.to_owned()), _ => None } }

/// xorshift64*: bytes DEFLATE cannot compress; a deterministic function of (seed, len)
pub fn noise(seed: u64, len: usize) -> Vec<u8> {
	let mut x = seed.wrapping_mul(0x9E37_79B9_7F4A_7C15) | 1;
	let mut v = Vec::with_capacity(len + 8);
	while v.len() < len {
		x ^= x >> 12; x ^= x << 25; x ^= x >> 27;
		v.extend_from_slice(&x.wrapping_mul(0x2545_F491_4F6C_DD1D).to_be_bytes());
	}
	v.truncate(len);
	v
}

fn js(s: &str) -> JavaString { JavaString::from(s.to_owned()) }
pub fn ocn(s: &str) -> ObjClassName { ObjClassName::try_from(js(s)).expect("object class name") }
fn cn(s: &str) -> ClassName { ClassName::try_from(js(s)).expect("class name") }
fn fd(s: &str) -> FieldDescriptor { FieldDescriptor::try_from(js(s)).expect("field descriptor") }

fn side_const(s: Side) -> JavaString { js(match s { Side::Client => "CLIENT", Side::Server => "SERVER" }) }

pub fn ann_to_duke(a: &AAnn) -> Annotation {
	match a {
		AAnn::Env(s) => Annotation { annotation_type: fd(ENVIRONMENT), element_value_pairs: vec![
			ElementValuePair { name: js("value"), value: ElementValue::Enum { type_name: fd(ENV_TYPE), const_name: side_const(*s) } }] },
		AAnn::Itfs(l) => Annotation { annotation_type: fd(ENV_ITFS), element_value_pairs: vec![
			ElementValuePair { name: js("value"), value: ElementValue::ArrayType(l.iter().map(|(s, i)| ElementValue::AnnotationInterface(Annotation {
				annotation_type: fd(ENV_ITF),
				element_value_pairs: vec![
					ElementValuePair { name: js("value"), value: ElementValue::Enum { type_name: fd(ENV_TYPE), const_name: side_const(*s) } },
					ElementValuePair { name: js("itf"), value: ElementValue::Class(ReturnDescriptor::try_from(js(&format!("L{i};"))).expect("return descriptor")) },
				] })).collect()) }] },
		AAnn::Other(n) => Annotation { annotation_type: fd(&format!("L{n};")), element_value_pairs: vec![] },
	}
}

pub fn field_to_duke(m: &AMember) -> Field {
	let mut f = Field::new(FieldAccess::from(m.access), FieldName::try_from(js(&m.name)).expect("field name"), fd(&m.desc));
	f.has_deprecated_attribute = m.depr;
	f.has_synthetic_attribute = m.synth;
	f.constant_value = m.payload.map(|v| ConstantValue::Integer(v as i32));
	f.runtime_invisible_annotations = m.inv.iter().map(ann_to_duke).collect();
	f.runtime_visible_annotations = m.vis.iter().map(ann_to_duke).collect();
	f.signature = pick2(m.opq[1], "TT;", "Ljava/util/List<TT;>;").map(|s| duke::tree::field::FieldSignature::try_from(js(&s)).expect("field signature"));
	if let Some(n) = pick2(m.opq[4], "FA", "FB") { f.attributes.push(duke::tree::attribute::Attribute { name: js(&n), bytes: vec![1, 2, 3] }); }
	f
}
pub fn method_to_duke(m: &AMember) -> Method {
	let mut f = Method::new(MethodAccess::from(m.access), MethodName::try_from(js(&m.name)).expect("method name"), MethodDescriptor::try_from(js(&m.desc)).expect("method descriptor"));
	f.has_deprecated_attribute = m.depr;
	f.has_synthetic_attribute = m.synth;
	f.code = m.payload.map(|v| Code {
		max_stack: Some(1), max_locals: Some(4),
		instructions: vec![
			InstructionListEntry { label: None, frame: None, instruction: Instruction::BiPush(v) },
			InstructionListEntry { label: None, frame: None, instruction: Instruction::Pop },
			InstructionListEntry { label: None, frame: None, instruction: Instruction::Return },
		],
		..Code::default()
	});
	f.runtime_invisible_annotations = m.inv.iter().map(ann_to_duke).collect();
	f.runtime_visible_annotations = m.vis.iter().map(ann_to_duke).collect();
	f.exceptions = pick2(m.opq[0], "java/lang/Exception", "java/io/IOException").map(|s| vec![cn(&s)]);
	f.signature = pick2(m.opq[1], "<T:Ljava/lang/Object;>()V", "<U:Ljava/lang/Object;>()V").map(|s| duke::tree::method::MethodSignature::try_from(js(&s)).expect("method signature"));
	f.annotation_default = pick2(m.opq[2], "a", "b").map(|s| ElementValue::Enum { type_name: fd("Lann/E;"), const_name: js(&s) });
	f.method_parameters = pick2(m.opq[3], "p", "q").map(|s| vec![duke::tree::method::MethodParameter { name: Some(duke::tree::method::ParameterName::try_from(js(&s)).expect("parameter name")), flags: duke::tree::method::ParameterFlags::from(0x0010) }]);
	if let Some(n) = pick2(m.opq[4], "MA", "MB") { f.attributes.push(duke::tree::attribute::Attribute { name: js(&n), bytes: vec![4, 5] }); }
	f
}

pub fn to_duke(c: &AClass) -> ClassFile {
	let mut k = ClassFile::new(VERSIONS[c.version], ClassAccess::from(c.access), ocn(&c.name), c.sup.as_deref().map(ocn), c.itfs.iter().map(|s| ocn(s)).collect());
	k.fields = c.fields.iter().map(field_to_duke).collect();
	k.methods = c.methods.iter().map(method_to_duke).collect();
	k.has_deprecated_attribute = c.depr;
	k.has_synthetic_attribute = c.synth;
	k.inner_classes = c.inner.as_ref().map(|l| l.iter().map(|(n, fl)| InnerClass {
		inner_class: cn(n), outer_class: Some(cn(&c.name)), inner_name: Some(js("In")), flags: InnerClassFlags::from(*fl) }).collect());
	k.runtime_visible_annotations = c.vis.iter().map(ann_to_duke).collect();
	k.runtime_invisible_annotations = c.inv.iter().map(ann_to_duke).collect();
	k.permitted_subclasses = c.perm.as_ref().map(|l| l.iter().map(|s| cn(s)).collect());
	k.record_components = c.records.iter().map(|n| RecordComponent::new(RecordName::try_from(js(n)).expect("record name"), fd("I"))).collect();
	k.source_file = c.source_file.as_deref().map(js);
	k.attributes = c.attrs.iter().map(|(n, seed, len)| duke::tree::attribute::Attribute { name: js(n), bytes: noise(*seed, *len) }).collect();
	k.enclosing_method = pick2(c.opq[0], "net/minecraft/Outer", "net/minecraft/Other").map(|n| duke::tree::class::EnclosingMethod { class: cn(&n), method: None });
	k.signature = pick2(c.opq[1], "Ljava/lang/Object;", "<T:Ljava/lang/Object;>Ljava/lang/Object;").map(|s| duke::tree::class::ClassSignature::try_from(js(&s)).expect("class signature"));
	k.source_debug_extension = pick2(c.opq[2], "SMAP a", "SMAP b").map(|s| js(&s));
	k.module_packages = pick2(c.opq[3], "p/a", "p/b").map(|s| vec![duke::tree::module::PackageName::try_from(js(&s)).expect("package name")]);
	k.module_main_class = pick2(c.opq[4], "p/Main", "p/Main2").map(|s| cn(&s));
	k.nest_host_class = pick2(c.opq[5], "net/minecraft/Host", "net/minecraft/Host2").map(|s| cn(&s));
	k.nest_members = pick2(c.opq[6], "net/minecraft/M1", "net/minecraft/M2").map(|s| vec![cn(&s)]);
	k
}

/// duke writes the class and reads the very same tree back (a class it cannot carry through its own writer
/// and reader is C01/C02's business: the generators fall back to a plainer class)
pub fn roundtrips(c: &AClass) -> bool {
	let k = to_duke(c);
	let r = fbh::report::guarded(std::panic::AssertUnwindSafe(|| {
		let mut b = Vec::new();
		duke::write_class(&mut b, &k).ok()?;
		duke::read_class(&mut std::io::Cursor::new(b)).ok()
	}));
	matches!(r, Ok(Some(t)) if t == k)
}

// ---------------------------------------------------------------- projection onto the model
pub struct Interner { map: HashMap<Vec<u8>, u64> }
/// "None" is always 1 and "[]" always 2, so that the opaque components of a plain member / class are the
/// same lists in every case (printed by name: dF, dM, dC of coq/C13/Run.v — numerals are what coqc spends
/// its time on)
impl Default for Interner {
	fn default() -> Interner { let mut it = Interner { map: HashMap::new() }; it.id(b"None"); it.id(b"[]"); it }
}
const D_FIELD: [u64; 6] = [1, 1, 2, 2, 2, 2];
const D_METHOD: [u64; 9] = [1, 1, 1, 2, 2, 2, 1, 1, 2];
const D_CLASS: [u64; 12] = [1, 1, 1, 1, 2, 2, 1, 1, 1, 1, 1, 2];
fn g_rest(r: &[u64]) -> String {
	if r == D_FIELD { "dF".to_owned() } else if r == D_METHOD { "dM".to_owned() } else if r == D_CLASS { "dC".to_owned() } else { gnums(r.iter().copied()) }
}
impl Interner {
	/// identity of a byte string / text: equal ids iff equal contents; ids start at 1
	pub fn id(&mut self, b: &[u8]) -> u64 { let n = self.map.len() as u64 + 1; *self.map.entry(b.to_vec()).or_insert(n) }
	pub fn text(&mut self, s: String) -> u64 { self.id(s.as_bytes()) }
}

#[derive(Clone, Debug, PartialEq)]
pub enum PAnn { Env(Side), Itfs(Vec<(Side, Vec<u32>)>), Other(u64) }
#[derive(Clone, Debug, PartialEq)]
pub struct PMember { pub name: Vec<u32>, pub desc: Vec<u32>, pub access: u64, pub depr: bool, pub synth: bool, pub inv: Vec<PAnn>, /** one interned identity per field of REST_FIELD / REST_METHOD */ pub rest: Vec<u64> }
#[derive(Clone, Debug, PartialEq)]
pub struct PClass {
	pub version: u64, pub access: u64, pub name: Vec<u32>, pub sup: Option<Vec<u32>>, pub itfs: Vec<Vec<u32>>,
	pub fields: Vec<PMember>, pub methods: Vec<PMember>, pub depr: bool, pub synth: bool,
	pub inner: Option<Vec<(Vec<u32>, u64)>>, pub vis: Vec<PAnn>, pub inv: Vec<PAnn>, pub perm: Option<Vec<Vec<u32>>>, pub rec: u64, /** one interned identity per field of REST_CLASS */ pub rest: Vec<u64>,
}
impl PMember { pub fn key(&self) -> (Vec<u32>, Vec<u32>) { (self.name.clone(), self.desc.clone()) } }

fn side_of(c: &JavaString) -> Option<Side> { if c == "CLIENT" { Some(Side::Client) } else if c == "SERVER" { Some(Side::Server) } else { None } }
fn env_value(p: &ElementValuePair) -> Option<Side> {
	if p.name != "value" { return None; }
	match &p.value { ElementValue::Enum { type_name, const_name } if type_name.as_inner() == ENV_TYPE => side_of(const_name), _ => None }
}

pub fn proj_ann(a: &Annotation, it: &mut Interner) -> PAnn {
	let ty = a.annotation_type.as_inner();
	if ty == ENVIRONMENT && a.element_value_pairs.len() == 1 {
		if let Some(s) = env_value(&a.element_value_pairs[0]) { return PAnn::Env(s); }
	}
	if ty == ENV_ITFS && a.element_value_pairs.len() == 1 && a.element_value_pairs[0].name == "value" {
		if let ElementValue::ArrayType(arr) = &a.element_value_pairs[0].value {
			let mut out = vec![];
			for e in arr {
				let ok = match e {
					ElementValue::AnnotationInterface(x) if x.annotation_type.as_inner() == ENV_ITF && x.element_value_pairs.len() == 2 && x.element_value_pairs[1].name == "itf" => {
						match (env_value(&x.element_value_pairs[0]), &x.element_value_pairs[1].value) {
							(Some(s), ElementValue::Class(d)) => {
								let d = cps(d.as_inner());
								if d.len() >= 2 && d[0] == 'L' as u32 && d[d.len() - 1] == ';' as u32 { out.push((s, d[1..d.len() - 1].to_vec())); true } else { false }
							}
							_ => false,
						}
					}
					_ => false,
				};
				if !ok { return PAnn::Other(it.text(format!("{a:?}"))); }
			}
			return PAnn::Itfs(out);
		}
	}
	PAnn::Other(it.text(format!("{a:?}")))
}

/// The fields of duke's Field / Method / ClassFile that the model keeps opaque, in the order the model's
/// tables list them (coq/C13/Model.v field_rest_table …, regenerated from merge.rs; the CLayout case
/// compares these names with the tables).  The projections below destructure the structs WITHOUT `..`:
/// a field added to duke's tree does not compile here until it is given a place.
pub const REST_FIELD: [&str; 6] = ["constant_value", "signature", "runtime_visible_annotations", "runtime_visible_type_annotations", "runtime_invisible_type_annotations", "attributes"];
pub const REST_METHOD: [&str; 9] = ["code", "exceptions", "signature", "runtime_visible_annotations", "runtime_visible_type_annotations", "runtime_invisible_type_annotations", "annotation_default", "method_parameters", "attributes"];
pub const REST_CLASS: [&str; 12] = ["enclosing_method", "signature", "source_file", "source_debug_extension", "runtime_visible_type_annotations", "runtime_invisible_type_annotations",
	"module", "module_packages", "module_main_class", "nest_host_class", "nest_members", "attributes"];

pub fn proj_field(f: &Field, it: &mut Interner) -> PMember {
	let Field { access, name, descriptor, has_deprecated_attribute, has_synthetic_attribute, constant_value, signature, runtime_visible_annotations, runtime_invisible_annotations,
		runtime_visible_type_annotations, runtime_invisible_type_annotations, attributes } = f;
	let rest = vec![it.text(format!("{constant_value:?}")), it.text(format!("{signature:?}")), it.text(format!("{runtime_visible_annotations:?}")),
		it.text(format!("{runtime_visible_type_annotations:?}")), it.text(format!("{runtime_invisible_type_annotations:?}")), it.text(format!("{attributes:?}"))];
	PMember { name: cps(name.as_inner()), desc: cps(descriptor.as_inner()), access: u16::from(*access) as u64, depr: *has_deprecated_attribute, synth: *has_synthetic_attribute,
		inv: runtime_invisible_annotations.iter().map(|a| proj_ann(a, it)).collect(), rest }
}
pub fn proj_method(f: &Method, it: &mut Interner) -> PMember {
	let Method { access, name, descriptor, has_deprecated_attribute, has_synthetic_attribute, code, exceptions, signature, runtime_visible_annotations, runtime_invisible_annotations,
		runtime_visible_type_annotations, runtime_invisible_type_annotations, annotation_default, method_parameters, attributes } = f;
	let rest = vec![it.text(format!("{code:?}")), it.text(format!("{exceptions:?}")), it.text(format!("{signature:?}")), it.text(format!("{runtime_visible_annotations:?}")),
		it.text(format!("{runtime_visible_type_annotations:?}")), it.text(format!("{runtime_invisible_type_annotations:?}")), it.text(format!("{annotation_default:?}")),
		it.text(format!("{method_parameters:?}")), it.text(format!("{attributes:?}"))];
	PMember { name: cps(name.as_inner()), desc: cps(descriptor.as_inner()), access: u16::from(*access) as u64, depr: *has_deprecated_attribute, synth: *has_synthetic_attribute,
		inv: runtime_invisible_annotations.iter().map(|a| proj_ann(a, it)).collect(), rest }
}

/// major * 65536 + minor.  Version's numbers are crate-private: they are read off the header of a
/// class file duke writes for an otherwise empty class of that version (bytes 4..8), not off `{:?}`.
fn version_number(v: &Version) -> u64 {
	thread_local! { static CACHE: std::cell::RefCell<Vec<(Version, u64)>> = const { std::cell::RefCell::new(Vec::new()) }; }
	if let Some(n) = CACHE.with(|c| c.borrow().iter().find(|(w, _)| w == v).map(|x| x.1)) { return n; }
	let k = ClassFile::new(*v, ClassAccess::from(0x0021), ocn("V"), Some(ocn("java/lang/Object")), vec![]);
	let mut b = Vec::new();
	let n = match duke::write_class(&mut b, &k) {
		Ok(()) if b.len() >= 8 => ((b[6] as u64) << 8 | b[7] as u64) * 65536 + ((b[4] as u64) << 8 | b[5] as u64),
		_ => u64::MAX, // never equal to a number of the other side: shows up as a disagreement
	};
	CACHE.with(|c| c.borrow_mut().push((*v, n)));
	n
}

pub fn project(c: &ClassFile, it: &mut Interner) -> PClass {
	let ClassFile { version, access, name, super_class, interfaces, fields, methods, has_deprecated_attribute, has_synthetic_attribute, inner_classes,
		enclosing_method, signature, source_file, source_debug_extension, runtime_visible_annotations, runtime_invisible_annotations,
		runtime_visible_type_annotations, runtime_invisible_type_annotations, module, module_packages, module_main_class, nest_host_class, nest_members,
		permitted_subclasses, record_components, attributes } = c;
	let rest = vec![it.text(format!("{enclosing_method:?}")), it.text(format!("{signature:?}")), it.text(format!("{source_file:?}")), it.text(format!("{source_debug_extension:?}")),
		it.text(format!("{runtime_visible_type_annotations:?}")), it.text(format!("{runtime_invisible_type_annotations:?}")),
		it.text(format!("{module:?}")), it.text(format!("{module_packages:?}")), it.text(format!("{module_main_class:?}")),
		it.text(format!("{nest_host_class:?}")), it.text(format!("{nest_members:?}")), it.text(format!("{attributes:?}"))];
	PClass {
		version: version_number(version), access: u16::from(*access) as u64, name: cps(name.as_inner()), sup: super_class.as_ref().map(|s| cps(s.as_inner())),
		itfs: interfaces.iter().map(|i| cps(i.as_inner())).collect(),
		fields: fields.iter().map(|f| proj_field(f, it)).collect(), methods: methods.iter().map(|m| proj_method(m, it)).collect(),
		depr: *has_deprecated_attribute, synth: *has_synthetic_attribute,
		inner: inner_classes.as_ref().map(|l| l.iter().map(|i| {
			let mut r = i.clone(); r.inner_class = cn("X");
			(cps(i.inner_class.as_inner()), it.text(format!("{r:?}")))
		}).collect()),
		vis: runtime_visible_annotations.iter().map(|a| proj_ann(a, it)).collect(),
		inv: runtime_invisible_annotations.iter().map(|a| proj_ann(a, it)).collect(),
		perm: permitted_subclasses.as_ref().map(|p| p.iter().map(|n| cps(n.as_inner())).collect()),
		rec: if record_components.is_empty() { 0 } else { it.text(format!("{record_components:?}")) },
		rest,
	}
}

// ---------------------------------------------------------------- Gallina printers
pub fn g_ann(a: &PAnn) -> String {
	match a {
		PAnn::Env(s) => format!("AEnv {}", s.g()),
		PAnn::Itfs(l) => format!("AItfs {}", glist(l.iter().map(|(s, i)| gpair(s.g().to_owned(), gstr(i))))),
		PAnn::Other(i) => format!("AOther {i}"),
	}
}
pub fn g_member(m: &PMember) -> String {
	format!("mkMember {} {} {} {} {} {} {}", gstr(&m.name), gstr(&m.desc), m.access, gbool(m.depr), gbool(m.synth), glist(m.inv.iter().map(g_ann)), g_rest(&m.rest))
}
pub fn g_class(c: &PClass) -> String {
	format!("(mkClass {} {} {} {} {} {} {} {} {} {} {} {} {} {} {})", c.version, c.access, gstr(&c.name), gopt(c.sup.as_ref().map(|s| gstr(s))),
		glist(c.itfs.iter().map(|i| gstr(i))), glist(c.fields.iter().map(g_member)), glist(c.methods.iter().map(g_member)), gbool(c.depr), gbool(c.synth),
		gopt(c.inner.as_ref().map(|l| glist(l.iter().map(|(n, r)| gpair(gstr(n), r.to_string()))))),
		glist(c.vis.iter().map(g_ann)), glist(c.inv.iter().map(g_ann)), gopt(c.perm.as_ref().map(|l| glist(l.iter().map(|n| gstr(n))))), c.rec, g_rest(&c.rest))
}
