//! Round 7: the side marks as the annotation TREES the real merge pushes (merge.rs sided_annotation,
//! make_annotation and the EnvironmentInterfaces literal), printed whole — not through proj_ann — for
//! the model's sided_annotation / pushed_itfs_tree (coq/C13/ModelAnn.v); and proj_ann itself (the
//! harness' reading of a tree) against the model's reader read_ann on real trees and near misses.
use std::panic::AssertUnwindSafe;
use duke::tree::annotation::{Annotation, ElementValue, ElementValuePair};
use duke::tree::class::ClassFile;
use dukebox::storage::{BasicFileAttributes, ClassRepr, JarEntryEnum, ParsedJar, ParsedJarEntry};
use fbh::gal::*;
use fbh::prng::Rng;
use fbh::report::{crumb, guarded, Report};
use java_string::JavaString;
use crate::classes::*;
use crate::gen;

fn g_ev(v: &ElementValue, it: &mut Interner) -> String {
	match v {
		ElementValue::Enum { type_name, const_name } => format!("(VEnum {} {})", gstr(&cps(type_name.as_inner())), gstr(&cps(const_name))),
		ElementValue::Class(d) => format!("(VClass {})", gstr(&cps(d.as_inner()))),
		ElementValue::AnnotationInterface(a) => format!("(VAnn {} {})", gstr(&cps(a.annotation_type.as_inner())), g_pairs(&a.element_value_pairs, it)),
		ElementValue::ArrayType(l) => format!("(VArr {})", glist(l.iter().map(|e| g_ev(e, it)).collect::<Vec<_>>())),
		other => format!("(VObject {})", it.text(format!("{other:?}"))),
	}
}
fn g_pairs(p: &[ElementValuePair], it: &mut Interner) -> String {
	glist(p.iter().map(|p| gpair(gstr(&cps(&p.name)), g_ev(&p.value, it))).collect::<Vec<_>>())
}
/// the whole tree as a Gallina `atree`
pub fn g_tree(a: &Annotation, it: &mut Interner) -> String {
	format!("({}, {})", gstr(&cps(a.annotation_type.as_inner())), g_pairs(&a.element_value_pairs, it))
}

/// interface number n as a class name: several alphabets and depths
pub fn itf_name(n: u32) -> String {
	match n % 5 { 0 => format!("I{n}"), 1 => format!("pkg/sub/I{n}"), 2 => format!("I$\u{e9}{n}"), 3 => format!("\u{65e5}\u{672c}/I{n}"), _ => format!("L{n}L") }
}

fn jar_of(classes: Vec<AClass>) -> ParsedJar<ClassRepr, Vec<u8>> {
	let mut j: ParsedJar<ClassRepr, Vec<u8>> = ParsedJar { entries: indexmap::IndexMap::new() };
	for c in classes {
		j.entries.insert(format!("{}.class", c.name), ParsedJarEntry { attr: BasicFileAttributes::default(), content: JarEntryEnum::Class(ClassRepr::Parsed { class: to_duke(&c) }) });
	}
	j
}
fn class_of<'a>(m: &'a ParsedJar<ClassRepr, Vec<u8>>, name: &str) -> Option<&'a ClassFile> {
	match m.entries.get(&format!("{name}.class")) { Some(ParsedJarEntry { content: JarEntryEnum::Class(ClassRepr::Parsed { class }), .. }) => Some(class), _ => None }
}

fn js(s: &str) -> JavaString { JavaString::from(s.to_owned()) }

/// near misses of a tree: one detail changed — none of them is a side mark any more (or it is another one)
fn near_misses(a: &Annotation, rng: &mut Rng) -> Vec<Annotation> {
	let mut out = vec![];
	for _ in 0..2 {
		let mut x = a.clone();
		match rng.below(7) {
			0 => { x.element_value_pairs.clear(); }
			1 => { if let Some(p) = x.element_value_pairs.first().cloned() { x.element_value_pairs.push(p); } }
			2 => { if let Some(p) = x.element_value_pairs.first_mut() { p.name = js("Value"); } }
			3 => { if let Some(p) = x.element_value_pairs.first_mut() { if let ElementValue::Enum { const_name, .. } = &mut p.value { *const_name = js(*rng.pick(&["client", "Client", "CLIENT ", "SERVER", "CLIENT", "", "BOTH"])); } } }
			4 => { x.annotation_type = ann_to_duke(&AAnn::Other((*rng.pick(&["net/fabricmc/api/Environmen", "net/fabricmc/api/EnvironmentInterface", "net/fabricmc/api/EnvironmentInterfaces", "net/fabricmc/api/Environment", "net/fabricmc/api/EnvType"])).to_owned())).annotation_type; }
			5 => {
				if let Some(ElementValuePair { value: ElementValue::ArrayType(l), .. }) = x.element_value_pairs.first_mut() {
					if let Some(ElementValue::AnnotationInterface(inner)) = l.first_mut() {
						match rng.below(4) {
							0 => { inner.element_value_pairs.swap(0, 1); }
							1 => { inner.element_value_pairs.pop(); }
							2 => { inner.annotation_type = ann_to_duke(&AAnn::Env(Side::Client)).annotation_type; }
							_ => { inner.element_value_pairs[1].name = js("value"); }
						}
					}
				}
			}
			_ => {
				if let Some(ElementValuePair { value: ElementValue::ArrayType(l), .. }) = x.element_value_pairs.first_mut() {
					match rng.below(3) { 0 => { l.clear(); } 1 => { if let Some(e) = l.first().cloned() { l.push(e); } } _ => { l.reverse(); } }
				}
			}
		}
		out.push(x);
	}
	out
}

pub fn run(r: &mut Report, rng: &mut Rng, thorough: bool) {
	let n = if thorough { 600 } else { 120 };
	for i in 0..n {
		let (mode, a, b) = if i % 7 == 6 { gen::list_pair_n(rng, 5) } else { gen::list_pair(rng) };
		let (an, bn): (Vec<String>, Vec<String>) = (a.iter().map(|&x| itf_name(x)).collect(), b.iter().map(|&x| itf_name(x)).collect());
		// A: both sides, different bytes; C / S: one side only; members fc / fs / mc / ms one-sided, f0 / m0 shared
		let mut ca = gen::plain_class("net/minecraft/A"); ca.source_file = Some("c".into()); ca.itfs = an.clone();
		let mut sa = gen::plain_class("net/minecraft/A"); sa.source_file = Some("s".into()); sa.itfs = bn.clone();
		ca.fields = vec![gen::plain_member("f0", "I"), gen::plain_member("fc", "I")]; sa.fields = vec![gen::plain_member("fs", "I"), gen::plain_member("f0", "I")];
		ca.methods = vec![gen::plain_member("mc", "()V"), gen::plain_member("m0", "()V")]; sa.methods = vec![gen::plain_member("m0", "()V"), gen::plain_member("ms", "()V")];
		// annotations already there must stay in front of the mark
		let pre = if i % 3 == 0 { vec![AAnn::Other("q/Pre".into())] } else if i % 3 == 1 { vec![AAnn::Env(Side::Server)] } else { vec![] };
		ca.inv = pre.clone();
		let mut cc = gen::plain_class("net/minecraft/C"); cc.vis = pre.clone();
		let mut ss = gen::plain_class("net/minecraft/S"); ss.vis = pre.clone();
		let input = format!("property C13\nclasses built by harness/src/bin/c13/classes.rs to_duke and merged as ParsedJars (stream ann-trees)\nclient jar: net/minecraft/A with interfaces {an:?}, fields f0 fc, methods mc m0, source file \"c\", invisible annotations {pre:?}; net/minecraft/C with visible annotations {pre:?}\nserver jar: net/minecraft/A with interfaces {bn:?}, fields fs f0, methods m0 ms, source file \"s\"; net/minecraft/S with visible annotations {pre:?}\n");
		crumb(&format!("{input}dukebox::merge::merge did not return (harness killed)\n"));
		let (jc, jsv) = (jar_of(vec![ca, cc]), jar_of(vec![sa, ss]));
		let m = match guarded(AssertUnwindSafe(|| dukebox::merge::merge(jc, jsv))) {
			Ok(Ok(m)) => m,
			Ok(Err(e)) => { r.violation("merge of classes that differ in interfaces, members and source file failed".into(), format!("{input}Err: {e:#}\n")); continue; }
			Err(p) => { r.violation("merge of classes that differ in interfaces, members and source file panicked".into(), format!("{input}panic: {p}\n")); continue; }
		};
		r.eval(&format!("ann {an:?} {bn:?} {}", i % 3), true);
		r.count(&format!("ann-trees:lists:{mode}"));
		let mut it = Interner::default();
		let mut real_trees: Vec<Annotation> = vec![];
		// one-sided classes and members: the last annotation of the list the mark goes to
		let (Some(ka), Some(kc), Some(ks)) = (class_of(&m, "net/minecraft/A"), class_of(&m, "net/minecraft/C"), class_of(&m, "net/minecraft/S")) else {
			r.violation("a class of the inputs is missing from the merged jar (or is not a parsed class)".into(), format!("{input}merged entries: {:?}\n", m.entries.keys().collect::<Vec<_>>()));
			continue;
		};
		let mut sided: Vec<(&str, Side, Option<&Annotation>, usize)> = vec![
			("class net/minecraft/C (RuntimeVisibleAnnotations)", Side::Client, kc.runtime_visible_annotations.last(), kc.runtime_visible_annotations.len()),
			("class net/minecraft/S (RuntimeVisibleAnnotations)", Side::Server, ks.runtime_visible_annotations.last(), ks.runtime_visible_annotations.len()),
		];
		for (nm, sd) in [("fc", Side::Client), ("fs", Side::Server)] {
			let f = ka.fields.iter().find(|f| f.name.as_inner() == nm);
			sided.push((if sd == Side::Client { "field fc of A (RuntimeInvisibleAnnotations)" } else { "field fs of A (RuntimeInvisibleAnnotations)" }, sd, f.and_then(|f| f.runtime_invisible_annotations.last()), f.map_or(0, |f| f.runtime_invisible_annotations.len())));
		}
		for (nm, sd) in [("mc", Side::Client), ("ms", Side::Server)] {
			let f = ka.methods.iter().find(|f| f.name.as_inner() == nm);
			sided.push((if sd == Side::Client { "method mc of A (RuntimeInvisibleAnnotations)" } else { "method ms of A (RuntimeInvisibleAnnotations)" }, sd, f.and_then(|f| f.runtime_invisible_annotations.last()), f.map_or(0, |f| f.runtime_invisible_annotations.len())));
		}
		for (k, (what, sd, t, len)) in sided.into_iter().enumerate() {
			let want = ann_to_duke(&AAnn::Env(sd));
			let want_len = if k < 2 { pre.len() + 1 } else { 1 };
			match t {
				Some(t) if *t == want && len == want_len => {
					r.case("ann-side", format!("CAnnSide {} {}", sd.g(), g_tree(t, &mut it)));
					if k < 2 || i % 4 == 0 { real_trees.push(t.clone()); }
				}
				other => r.violation(format!("one-sided {what}: the last annotation is not @Environment(EnvType.{}) of that side, or the list has not exactly one annotation more", if sd == Side::Client { "CLIENT" } else { "SERVER" }),
					format!("{input}{what}: {len} annotations (expected {want_len}), last: {other:?}\nexpected last: {want:?}\n")),
			}
		}
		// shared members carry no mark
		for (what, anns) in [("field f0", ka.fields.iter().find(|f| f.name.as_inner() == "f0").map(|f| f.runtime_invisible_annotations.len())), ("method m0", ka.methods.iter().find(|f| f.name.as_inner() == "m0").map(|f| f.runtime_invisible_annotations.len()))] {
			if anns != Some(0) { r.violation(format!("shared, identical {what} of a differing class is missing or carries an annotation"), format!("{input}{what}: {anns:?} invisible annotations\n")); }
		}
		// the interface marks: ground truth from the merged interface list (judged elsewhere) and the two inputs
		let merged: Vec<String> = ka.interfaces.iter().map(|x| x.as_inner().to_string()).collect();
		let mut marks: Vec<(Side, String)> = merged.iter().filter(|x| an.contains(x) && !bn.contains(x)).map(|x| (Side::Client, x.clone())).collect();
		marks.extend(merged.iter().filter(|x| bn.contains(x) && !an.contains(x)).map(|x| (Side::Server, x.clone())));
		let mut want: Vec<Annotation> = pre.iter().map(ann_to_duke).collect();
		if !marks.is_empty() { want.push(ann_to_duke(&AAnn::Itfs(marks.clone()))); }
		r.count(if marks.is_empty() { "ann-trees:no one-sided interface" } else { "ann-trees:one-sided interfaces" });
		if ka.runtime_invisible_annotations != want {
			r.violation("differing class: the invisible annotations are not the client's followed by one @EnvironmentInterfaces naming exactly the one-sided interfaces (client's first, each in merged order) with their sides".into(),
				format!("{input}merged interfaces: {merged:?}\nmerged invisible annotations: {:?}\nexpected: {want:?}\n", ka.runtime_invisible_annotations));
		} else {
			let pushed = if marks.is_empty() { None } else { ka.runtime_invisible_annotations.last() };
			let gl = |l: &[String]| glist(l.iter().map(|s| gstr(&cps_str(s))).collect::<Vec<_>>());
			r.case("ann-itfs", format!("CAnnItfs {} {} {}", gl(&an), gl(&bn), gopt(pushed.map(|t| g_tree(t, &mut it)))));
			if let Some(t) = pushed { real_trees.push(t.clone()); }
		}
		// the harness' reading of trees (proj_ann) against the model's reader, on real trees and near misses
		for t in real_trees {
			let mut all = vec![t.clone()];
			if i % 2 == 0 { all.extend(near_misses(&t, rng)); }
			for x in all {
				let p = proj_ann(&x, &mut it);
				r.count(match p { PAnn::Env(_) => "ann-read:Env", PAnn::Itfs(_) => "ann-read:Itfs", PAnn::Other(_) => "ann-read:Other" });
				r.case("ann-read", format!("CAnnRead {} ({})", g_tree(&x, &mut it), g_ann(&p)));
			}
		}
	}
}
