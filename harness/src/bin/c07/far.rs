//! Classes whose method bodies exceed 32 KiB with FAR jumps in both directions (C07: "instruction
//! stream shape … unchanged", "classes are well-formed").  Every remapped class is written again by
//! duke's writer, which lays such a method out in several attempts (a forward goto/jsr whose target
//! turns out to be more than 32767 bytes away is widened and the code written again): every jump,
//! switch target, exception range, line number and local-variable range must arrive at the same
//! instruction as before.  Built with `classfile::asm` (the assembler widens far goto/jsr itself).
use fbh::classfile::asm::*;
use fbh::classfile::facts::*;
use fbh::classfile::jstr::JStr;
use fbh::prng::Rng;

fn l(n: u32) -> LabelId { LabelId(n) }

/// `bytes` bytes of filler (at least; at most 2 more), instruction lengths 1, 2 and 3 mixed so that
/// instruction indices and byte offsets differ from class to class
fn filler(c: &mut CodeSpec, rng: &mut Rng, bytes: usize, this: &str) {
	let mut n = 0;
	while n < bytes {
		match rng.below(12) {
			0..=5 => { c.op(None, "nop"); n += 1; }
			6 | 7 => { c.op(None, "iconst_0"); c.op(None, "pop"); n += 2; }
			8 => { c.insn(None, "bipush", OperandG::Int(rng.range(0, 100) as i32 - 50)); c.op(None, "pop"); n += 3; }
			9 => { c.insn(None, "sipush", OperandG::Int(rng.range(0, 60000) as i32 - 30000)); c.op(None, "pop"); n += 4; }
			10 => { c.insn(None, "iinc", OperandG::Iinc { local: 1, delta: 1 }); n += 3; }
			// a reference to the class itself now and then: the rename must reach it
			_ => { if rng.chance(1, 40) { c.insn(None, "getstatic", OperandG::Field(MemberRef { owner: JStr::new(this), name: JStr::new("f"), desc: JStr::new("I") })); c.op(None, "pop"); n += 4; } else { c.op(None, "nop"); n += 1; } }
		}
	}
}

/// One class `name` with a method `far()V` of 33..=62 KiB: `k` forward gotos (and a forward jsr) over more than
/// 32767 bytes each (cumulative widening), near conditionals in between, a tableswitch and a lookupswitch behind
/// the widened instructions (their padding depends on the final layout) with far targets, far backward goto /
/// jsr / conditional-with-near-target, an exception table, line numbers and a local variable whose labels lie
/// on both sides of the far region.  Returns the spec and a one-line description.
pub fn far_jump_class(rng: &mut Rng, name: &str) -> (ClassSpec, String) {
	let mut c = CodeSpec::new(2, 3);
	let k = rng.range(1, 4);                     // forward far gotos
	let with_jsr = rng.chance(1, 2);
	let far = rng.range(32768, 36000);           // bytes between the head and the first far target
	let tail = rng.range(0, 20000);
	// head
	c.op(Some(l(0)), "iconst_0");
	c.insn(None, "istore", OperandG::Local(1));
	for i in 0..k {
		c.insn(Some(l(10 + i as u32)), "goto", OperandG::Branch(l(100 + i as u32)));
		c.insn(None, "iload", OperandG::Local(1));
		c.insn(None, if i % 2 == 0 { "ifeq" } else { "ifne" }, OperandG::Branch(l(50)));      // near, forward
	}
	if with_jsr { c.insn(None, "jsr", OperandG::Branch(l(130))); }
	c.op(None, "iconst_1");
	c.insn(None, "tableswitch", OperandG::TableSwitch { default: l(120), low: 0, high: 2, targets: vec![l(50), l(100), l(0)] });
	c.op(Some(l(50)), "iconst_2");
	c.insn(None, "lookupswitch", OperandG::LookupSwitch { default: l(0), pairs: vec![(-7, l(120)), (0, l(50)), (1 << 20, l(100))] });
	c.op(Some(l(60)), "nop");
	filler(&mut c, rng, far, name);
	// far targets
	for i in 0..k {
		c.op(Some(l(100 + i as u32)), if i % 2 == 0 { "iconst_0" } else { "iconst_1" });
		c.op(None, "pop");
	}
	c.insn(Some(l(120)), "goto", OperandG::Branch(l(0)));                  // far, backward
	c.insn(None, "iload", OperandG::Local(1));
	c.insn(None, "ifne", OperandG::Branch(l(121)));                        // near, forward, behind the far region
	c.insn(None, "jsr", OperandG::Branch(l(60)));                          // far, backward
	c.op(Some(l(121)), "nop");
	filler(&mut c, rng, tail, name);
	c.insn(Some(l(130)), "astore", OperandG::Local(2));
	c.insn(None, "goto", OperandG::Branch(l(121)));                        // backward, near or far depending on `tail`
	c.op(Some(l(140)), "return");
	c.end_label = Some(l(199));
	c.exception_table.push(ExceptionG { start: l(0), end: l(100), handler: l(120), catch_type: Some(JStr::new("java/lang/Exception")) });
	c.exception_table.push(ExceptionG { start: l(60), end: l(199), handler: l(140), catch_type: None });
	c.exception_table.push(ExceptionG { start: l(121), end: l(130), handler: l(50), catch_type: Some(JStr::new(name)) });
	for (i, lab) in [0u32, 10, 50, 60, 100, 120, 121, 130, 140].into_iter().enumerate() { c.line_numbers.push((l(lab), 10 + i as u16)); }
	c.local_variables.push(LocalVarG { start: l(50), end: l(199), index: 1, name: JStr::new("i"), desc: JStr::new("I") });
	c.local_variables.push(LocalVarG { start: l(100), end: l(140), index: 2, name: JStr::new("self"), desc: JStr::new(&format!("L{name};")) });

	let mut cl: ClassSpec = ClassG::new(49, 0x0021, name, Some("java/lang/Object"));
	cl.fields.push(FieldFacts::new(0x0009, "f", "I"));
	let mut m: MethodSpec = MethodG::new(0x0009, "far", "()V");
	m.code = Some(c);
	cl.methods.push(m);
	// a small second method after the big one: a writer that loses track inside `far` shifts everything behind it
	let mut c2 = CodeSpec::new(1, 1);
	c2.op(Some(l(0)), "iconst_0"); c2.insn(None, "ifeq", OperandG::Branch(l(1))); c2.op(None, "nop"); c2.op(Some(l(1)), "return");
	let mut m2: MethodSpec = MethodG::new(0x0009, "near", "()V");
	m2.code = Some(c2);
	cl.methods.push(m2);
	(cl, format!("far-jump class {name}: {k} forward goto(s) over {far}+ bytes{}, far backward goto/jsr, switches with far targets, tail filler {tail} bytes", if with_jsr { ", forward jsr" } else { "" }))
}
