//! Generated classes for C07: duke trees that put a reference at every position the tree has
//! (labels cannot be constructed outside duke, so generated code is straight-line; branches,
//! exception tables and local-variable tables come from the corpus).
use fbh::prng::Rng;
use duke::tree::annotation::{Annotation, ElementValue, ElementValuePair, Object};
use duke::tree::attribute::Attribute;
use duke::tree::class::{ClassAccess, ClassFile, ClassName, ClassSignature, EnclosingMethod, InnerClass, InnerClassFlags, ObjClassName};
use duke::tree::descriptor::ReturnDescriptor;
use duke::tree::field::{ConstantValue, Field, FieldAccess, FieldDescriptor, FieldName, FieldRef, FieldSignature};
use duke::tree::method::code::{ArrayType, Code, ConstantDynamic, Handle, Instruction, InstructionListEntry, InvokeDynamic, Loadable, LvIndex};
use duke::tree::method::{Method, MethodAccess, MethodDescriptor, MethodName, MethodNameAndDesc, MethodParameter, MethodRef, MethodSignature, ParameterFlags, ParameterName};
use duke::tree::record::{RecordComponent, RecordName};
use duke::tree::version::Version;
use duke::visitor::method::code::{StackMapData, VerificationTypeInfo};
use java_string::JavaString;

fn pk(rng: &mut Rng, xs: &[&'static str]) -> &'static str { xs[rng.below(xs.len())] }
fn js(s: &str) -> JavaString { JavaString::from(s) }
fn obj(s: &str) -> ObjClassName { ObjClassName::try_from(js(s)).expect("class name") }
fn cls(s: &str) -> ClassName { ClassName::try_from(js(s)).expect("class name") }
fn fdesc(s: &str) -> FieldDescriptor { FieldDescriptor::try_from(js(s)).expect("descriptor") }
fn mdesc(s: &str) -> MethodDescriptor { MethodDescriptor::try_from(js(s)).expect("descriptor") }
fn fname(s: &str) -> FieldName { FieldName::try_from(js(s)).expect("name") }
fn mname(s: &str) -> MethodName { MethodName::try_from(js(s)).expect("name") }

pub struct U { pub classes: Vec<String> }

const PKGS: [&str; 4] = ["", "a/", "a/b/", "net/minecraft/"];
// (names outside ASCII: two-, three- and four-byte UTF-8 — the last one a surrogate pair in a class file)
const SIMPLE: [&str; 12] = ["A", "B", "Foo", "Bar", "L", "I", "Ü", "C_1", "Outer", "E", "\u{6587}\u{4ef6}", "\u{1d49c}x"];
const FIELDS: [&str; 7] = ["a", "b", "f", "value", "RED", "L", "\u{3b1}\u{1d4b3}"];
const METHODS: [&str; 7] = ["a", "m", "run", "get", "clone", "<init>", "values"];
const OUTSIDE: [&str; 4] = ["java/lang/Object", "java/lang/String", "java/util/function/Supplier", "java/lang/Enum"];

fn universe(rng: &mut Rng, n: usize) -> U {
	let mut v: Vec<String> = vec![];
	while v.len() < n + 2 {
		let name = if !v.is_empty() && rng.chance(1, 3) { format!("{}${}", rng.pick(&v[..]), if rng.chance(1, 3) { "1".to_owned() } else { pk(rng, &SIMPLE[..]).to_string() }) }
			else { format!("{}{}", pk(rng, &PKGS[..]), pk(rng, &SIMPLE[..])) };
		if !v.contains(&name) { v.push(name); }
	}
	U { classes: v }
}
impl U {
	fn any_class(&self, rng: &mut Rng) -> String { if rng.chance(1, 4) { pk(rng, &OUTSIDE[..]).to_string() } else { rng.pick(&self.classes[..]).clone() } }
	fn field_desc(&self, rng: &mut Rng) -> String {
		let dims = if rng.chance(1, 4) { rng.range(1, 2) } else { 0 };
		let base = if rng.chance(1, 3) { pk(rng, &["I", "J", "Z", "D", "B"]).to_string() } else { format!("L{};", self.any_class(rng)) };
		format!("{}{}", "[".repeat(dims), base)
	}
	fn method_desc(&self, rng: &mut Rng) -> String {
		let ps: String = (0..rng.below(3)).map(|_| self.field_desc(rng)).collect();
		format!("({ps}){}", if rng.chance(1, 3) { "V".to_owned() } else { self.field_desc(rng) })
	}
	/// a CONSTANT_Class: mostly a class, sometimes an array type
	fn class_any(&self, rng: &mut Rng) -> ClassName {
		if rng.chance(1, 4) { cls(&format!("[{}", self.field_desc(rng))) } else { cls(&self.any_class(rng)) }
	}
	fn field_ref(&self, rng: &mut Rng) -> FieldRef { FieldRef { class: obj(&self.any_class(rng)), name: fname(pk(rng, &FIELDS[..])), desc: fdesc(&self.field_desc(rng)) } }
	fn method_ref(&self, rng: &mut Rng) -> MethodRef {
		if rng.chance(1, 10) { return MethodRef { class: cls(&format!("[{}", self.field_desc(rng))), name: mname("clone"), desc: mdesc("()Ljava/lang/Object;") }; }
		MethodRef { class: cls(&self.any_class(rng)), name: mname(pk(rng, &METHODS[..])), desc: mdesc(&self.method_desc(rng)) }
	}
	fn handle(&self, rng: &mut Rng) -> Handle {
		match rng.below(9) {
			0 => Handle::GetField(self.field_ref(rng)), 1 => Handle::GetStatic(self.field_ref(rng)), 2 => Handle::PutField(self.field_ref(rng)), 3 => Handle::PutStatic(self.field_ref(rng)),
			4 => Handle::InvokeVirtual(self.method_ref(rng)), 5 => Handle::InvokeStatic(self.method_ref(rng), rng.chance(1, 3)), 6 => Handle::InvokeSpecial(self.method_ref(rng), rng.chance(1, 3)),
			7 => Handle::NewInvokeSpecial(MethodRef { class: cls(&self.any_class(rng)), name: mname("<init>"), desc: mdesc("()V") }), _ => Handle::InvokeInterface(self.method_ref(rng)),
		}
	}
	fn loadable(&self, rng: &mut Rng, depth: usize) -> Loadable {
		match rng.below(if depth == 0 { 8 } else { 9 }) {
			0 => Loadable::Integer(rng.next() as i32), 1 => Loadable::Float(f32::from_bits(rng.next() as u32)), 2 => Loadable::Long(rng.next() as i64), 3 => Loadable::Double(f64::from_bits(rng.next())),
			4 => Loadable::Class(self.class_any(rng)),
			// a string that looks like a class name or descriptor must stay as it is
			5 => Loadable::String(js(&if rng.chance(1, 2) { self.any_class(rng) } else { self.field_desc(rng) })),
			6 => Loadable::MethodHandle(self.handle(rng)), 7 => Loadable::MethodType(mdesc(&self.method_desc(rng))),
			_ => Loadable::Dynamic(self.condy(rng, depth - 1)),
		}
	}
	fn condy(&self, rng: &mut Rng, depth: usize) -> ConstantDynamic {
		ConstantDynamic { name: fname(pk(rng, &FIELDS[..])), descriptor: fdesc(&self.field_desc(rng)), handle: self.handle(rng), arguments: (0..rng.below(3)).map(|_| self.loadable(rng, depth)).collect() }
	}
	fn indy(&self, rng: &mut Rng) -> InvokeDynamic {
		InvokeDynamic { name: mname(pk(rng, &METHODS[..5])), descriptor: mdesc(&self.method_desc(rng)), handle: self.handle(rng), arguments: (0..rng.below(4)).map(|_| self.loadable(rng, 2)).collect() }
	}
	fn element(&self, rng: &mut Rng, depth: usize) -> ElementValue {
		match rng.below(if depth == 0 { 5 } else { 7 }) {
			0 => ElementValue::Object(Object::Integer(rng.next() as i32)),
			1 => ElementValue::Object(Object::String(js(&self.any_class(rng)))),
			2 | 3 => {
				// the enum class is named by the type; sometimes a type that names no class, or a name that is no field name
				let t = match rng.below(8) { 0 => "I".to_owned(), 1 => format!("[L{};", self.any_class(rng)), _ => format!("L{};", self.any_class(rng)) };
				ElementValue::Enum { type_name: fdesc(&t), const_name: js(if rng.chance(1, 12) { "not/a;name" } else { pk(rng, &FIELDS[..]) }) }
			}
			4 => ElementValue::Class(ReturnDescriptor::try_from(js(&if rng.chance(1, 5) { "V".to_owned() } else { self.field_desc(rng) })).expect("descriptor")),
			5 => ElementValue::AnnotationInterface(self.annotation(rng, depth - 1)),
			_ => ElementValue::ArrayType((0..rng.below(3)).map(|_| self.element(rng, depth - 1)).collect()),
		}
	}
	fn annotation(&self, rng: &mut Rng, depth: usize) -> Annotation {
		Annotation { annotation_type: fdesc(&format!("L{};", self.any_class(rng))), element_value_pairs: (0..rng.below(3)).map(|_| ElementValuePair { name: js(pk(rng, &["value", "a", "kind"])), value: self.element(rng, depth) }).collect() }
	}
	fn annotations(&self, rng: &mut Rng) -> Vec<Annotation> { (0..if rng.chance(1, 2) { rng.below(3) } else { 0 }).map(|_| self.annotation(rng, 2)).collect() }
	fn vtype(&self, rng: &mut Rng) -> VerificationTypeInfo {
		match rng.below(6) { 0 => VerificationTypeInfo::Integer, 1 => VerificationTypeInfo::Top, 2 => VerificationTypeInfo::Null, 3 => VerificationTypeInfo::UninitializedThis, _ => VerificationTypeInfo::Object(self.class_any(rng)) }
	}
	fn frame(&self, rng: &mut Rng) -> StackMapData {
		match rng.below(5) {
			0 => StackMapData::Same, 1 => StackMapData::SameLocals1StackItem { stack: self.vtype(rng) }, 2 => StackMapData::Chop { k: rng.range(1, 3) as u8 },
			3 => StackMapData::Append { locals: (0..rng.range(1, 3)).map(|_| self.vtype(rng)).collect() },
			_ => StackMapData::Full { locals: (0..rng.below(3)).map(|_| self.vtype(rng)).collect(), stack: (0..rng.below(3)).map(|_| self.vtype(rng)).collect() },
		}
	}
	fn insn(&self, rng: &mut Rng) -> Instruction {
		match rng.below(20) {
			0 => Instruction::GetStatic(self.field_ref(rng)), 1 => Instruction::PutStatic(self.field_ref(rng)), 2 => Instruction::GetField(self.field_ref(rng)), 3 => Instruction::PutField(self.field_ref(rng)),
			4 => Instruction::InvokeVirtual(self.method_ref(rng)), 5 => Instruction::InvokeSpecial(self.method_ref(rng), rng.chance(1, 4)), 6 => Instruction::InvokeStatic(self.method_ref(rng), rng.chance(1, 4)),
			7 => Instruction::InvokeInterface(MethodRef { class: cls(&self.any_class(rng)), name: mname(pk(rng, &METHODS[..5])), desc: mdesc(&self.method_desc(rng)) }),
			8 | 9 => Instruction::InvokeDynamic(self.indy(rng)),
			10 => Instruction::New(cls(&self.any_class(rng))), 11 => Instruction::ANewArray(self.class_any(rng)), 12 => Instruction::CheckCast(self.class_any(rng)), 13 => Instruction::InstanceOf(self.class_any(rng)),
			14 => Instruction::MultiANewArray(cls(&format!("[[{}", self.field_desc(rng))), 2),
			15 | 16 => Instruction::Ldc(self.loadable(rng, 2)),
			17 => Instruction::ALoad(LvIndex { index: rng.below(4) as u16 }), 18 => Instruction::BiPush(rng.next() as i8), _ => Instruction::Dup,
		}
	}
	fn code(&self, rng: &mut Rng) -> Code {
		let mut c = Code::default();
		c.max_stack = Some(rng.below(10) as u16); c.max_locals = Some(rng.range(4, 9) as u16);
		for _ in 0..rng.range(1, 12) {
			c.instructions.push(InstructionListEntry { label: None, frame: if rng.chance(1, 5) { Some(self.frame(rng)) } else { None }, instruction: self.insn(rng) });
		}
		c.instructions.push(InstructionListEntry { label: None, frame: None, instruction: Instruction::Return });
		if rng.chance(1, 4) { c.attributes.push(Attribute { name: js("CodeLevelUnknown"), bytes: vec![1, 2, 3] }); }
		c
	}
	fn unknown(&self, rng: &mut Rng) -> Vec<Attribute> {
		(0..if rng.chance(1, 3) { rng.range(1, 2) } else { 0 }).map(|i| Attribute { name: js(&format!("org.example.Unknown{i}")), bytes: (0..rng.below(12)).map(|_| rng.below(256) as u8).collect() }).collect()
	}
}

/// super types are taken from the classes generated before this one or from outside: the hierarchy
/// is acyclic (quill's super-type search does not terminate on a cycle — C06/C16, not C07)
fn super_type(rng: &mut Rng, u: &U, index: usize, n: usize) -> String {
	let mut cands: Vec<&str> = OUTSIDE.to_vec();
	for (j, c) in u.classes.iter().enumerate() { if j < index || j >= n { cands.push(c); } }
	cands[rng.below(cands.len())].to_owned()
}

fn class(rng: &mut Rng, u: &U, name: &str, index: usize, n: usize) -> ClassFile {
	let version = *rng.pick(&[Version::V1_8, Version::V11, Version::V17, Version::V9][..]);
	let mut access = ClassAccess::default();
	access.is_public = rng.chance(1, 2); access.is_super = true; access.is_final = rng.chance(1, 4);
	let sup = super_type(rng, u, index, n);
	let mut c = ClassFile::new(version, access, obj(name), Some(obj(&sup)), (0..rng.below(3)).map(|_| obj(&super_type(rng, u, index, n))).collect());
	let mut seen = vec![];
	for _ in 0..rng.below(4) {
		let (n, d) = (pk(rng, &FIELDS[..]).to_string(), u.field_desc(rng));
		if seen.contains(&(n.clone(), d.clone())) { continue; }
		// a ConstantValue string needs a field of type String (JVMS 4.7.2); its text looks like a class name and must stay
		let with_const = rng.chance(1, 4);
		let d = if with_const { "Ljava/lang/String;".to_owned() } else { d };
		let mut f = Field::new(FieldAccess::from(rng.pick(&[0x0001u16, 0x0019, 0x4019, 0x0002][..]).clone()), fname(&n), fdesc(&d));
		if seen.contains(&(n.clone(), d.clone())) { continue; }
		seen.push((n.clone(), d.clone()));
		if with_const { f.access.is_static = true; f.constant_value = Some(ConstantValue::String(js(&u.any_class(rng)))); }
		if rng.chance(1, 4) { f.signature = Some(FieldSignature::try_from(js(&format!("L{}<TT;>;", u.any_class(rng)))).expect("signature")); }
		f.runtime_visible_annotations = u.annotations(rng);
		f.runtime_invisible_annotations = u.annotations(rng);
		f.has_deprecated_attribute = rng.chance(1, 6);
		f.attributes = u.unknown(rng);
		c.fields.push(f);
	}
	let mut seen = vec![];
	for _ in 0..rng.range(1, 4) {
		let (n, d) = (pk(rng, &METHODS[..]).to_string(), u.method_desc(rng));
		if seen.contains(&(n.clone(), d.clone())) { continue; }
		seen.push((n.clone(), d.clone()));
		let mut m = Method::new(MethodAccess::from(rng.pick(&[0x0001u16, 0x0009, 0x0401, 0x1041][..]).clone()), mname(&n), mdesc(&d));
		if !m.access.is_abstract { m.code = Some(u.code(rng)); }
		if rng.chance(1, 3) { m.exceptions = Some((0..rng.range(1, 2)).map(|_| cls(&u.any_class(rng))).collect()); }
		if rng.chance(1, 5) { m.signature = Some(MethodSignature::try_from(js(&format!("<T:L{};>()TT;", u.any_class(rng)))).expect("signature")); }
		m.runtime_visible_annotations = u.annotations(rng);
		m.runtime_invisible_annotations = u.annotations(rng);
		if rng.chance(1, 5) { m.annotation_default = Some(u.element(rng, 2)); }
		if rng.chance(1, 4) { m.method_parameters = Some((0..rng.range(1, 2)).map(|i| MethodParameter { name: if rng.chance(3, 4) { Some(ParameterName::try_from(js(&format!("p{i}"))).expect("name")) } else { None }, flags: ParameterFlags::from(if rng.chance(1, 3) { 0x0010u16 } else { 0 }) }).collect()); }
		m.has_synthetic_attribute = rng.chance(1, 8);
		m.attributes = u.unknown(rng);
		c.methods.push(m);
	}
	if rng.chance(1, 2) {
		c.inner_classes = Some((0..rng.range(1, 3)).map(|_| {
			let inner = rng.pick(&u.classes[..]).clone();
			let (outer, simple) = match inner.rfind('$') { Some(p) => (Some(inner[..p].to_owned()), Some(inner[p + 1..].to_owned())), None => (None, None) };
			InnerClass { inner_class: cls(&inner), outer_class: if rng.chance(3, 4) { outer.map(|o| cls(&o)) } else { None }, inner_name: if rng.chance(3, 4) { simple.map(|s| js(&s)) } else { None }, flags: InnerClassFlags::from(rng.pick(&[0x0009u16, 0x0008, 0x4018, 0x0608][..]).clone()) }
		}).collect());
	}
	if rng.chance(1, 3) {
		c.enclosing_method = Some(EnclosingMethod { class: cls(&u.any_class(rng)), method: if rng.chance(2, 3) { Some(MethodNameAndDesc { name: mname(pk(rng, &METHODS[..])), desc: mdesc(&u.method_desc(rng)) }) } else { None } });
	}
	if rng.chance(1, 4) { c.signature = Some(ClassSignature::try_from(js(&format!("<T:Ljava/lang/Object;>L{};", u.any_class(rng)))).expect("signature")); }
	if rng.chance(1, 2) { c.source_file = Some(js(&format!("{}.java", name.rsplit('/').next().unwrap_or(name)))); }
	if rng.chance(1, 8) { c.source_debug_extension = Some(js("SMAP\nA.java\n")); }
	c.runtime_visible_annotations = u.annotations(rng);
	c.runtime_invisible_annotations = u.annotations(rng);
	if rng.chance(1, 4) { c.nest_host_class = Some(cls(&u.any_class(rng))); }
	else if rng.chance(1, 4) { c.nest_members = Some((0..rng.range(1, 3)).map(|_| cls(&u.any_class(rng))).collect()); }
	if rng.chance(1, 5) { c.permitted_subclasses = Some((0..rng.range(1, 3)).map(|_| cls(&u.any_class(rng))).collect()); }
	if rng.chance(1, 5) {
		// as in a real record, a component usually is a declared field too (same name and descriptor); everything a
		// component can carry: signature, both kinds of annotations, unknown attributes
		let declared: Vec<(String, String)> = c.fields.iter().map(|f| (f.name.to_string(), f.descriptor.to_string())).collect();
		let mut seen: Vec<String> = vec![];
		for i in 0..rng.range(1, 3) {
			let (n, d) = if !declared.is_empty() && rng.chance(2, 3) { declared[rng.below(declared.len())].clone() } else { (format!("c{i}"), u.field_desc(rng)) };
			if seen.contains(&n) { continue; }
			seen.push(n.clone());
			let mut rc = RecordComponent::new(RecordName::try_from(js(&n)).expect("name"), fdesc(&d));
			if rng.chance(1, 4) { rc.signature = Some(FieldSignature::try_from(js(&format!("L{}<TT;>;", u.any_class(rng)))).expect("signature")); }
			rc.runtime_visible_annotations = u.annotations(rng);
			rc.runtime_invisible_annotations = u.annotations(rng);
			rc.attributes = u.unknown(rng);
			c.record_components.push(rc);
		}
	}
	c.has_deprecated_attribute = rng.chance(1, 8);
	c.attributes = u.unknown(rng);
	c
}

/// `n` classes with distinct names over a common universe of names (so that they refer to each other)
pub fn gen_trees(rng: &mut Rng, n: usize) -> Vec<ClassFile> {
	let u = universe(rng, n);
	let names: Vec<String> = u.classes[..n].to_vec();
	names.iter().enumerate().map(|(i, name)| class(rng, &u, name, i, n)).collect()
}

/// a loadable constant and everything below it is no Float / Double
fn no_float(l: &Loadable) -> bool {
	match l {
		Loadable::Float(_) | Loadable::Double(_) => false,
		Loadable::Dynamic(d) => d.arguments.iter().all(no_float),
		_ => true,
	}
}
fn frag_loadable(rng: &mut Rng, u: &U) -> Loadable {
	for _ in 0..8 { let l = u.loadable(rng, 3); if no_float(&l) { return l; } }
	Loadable::Integer(match rng.below(4) { 0 => i32::MIN, 1 => i32::MAX, 2 => -1, _ => rng.next() as i32 })
}

/// classes inside the part of the tree that the Coq translation X27.Tr.tr covers (class skeleton, fields, methods, Code with
/// reference-carrying and operand-free instructions, ldc of non-float constants, invokedynamic; no frames, annotations, ConstantValue, unknown attributes): for these the
/// model side also checks that C02's writer model applied to tr(tree) yields duke's bytes
pub fn gen_fragment_trees(rng: &mut Rng, n: usize) -> Vec<ClassFile> {
	let u = universe(rng, n);
	let names: Vec<String> = u.classes[..n].to_vec();
	names.iter().enumerate().map(|(i, name)| {
		let version = *rng.pick(&[Version::V1_8, Version::V11, Version::V17][..]);
		let mut access = ClassAccess::default();
		access.is_public = rng.chance(1, 2); access.is_super = true; access.is_final = rng.chance(1, 4);
		let sup = super_type(rng, &u, i, n);
		let mut c = ClassFile::new(version, access, obj(name), Some(obj(&sup)), (0..rng.below(3)).map(|_| obj(&super_type(rng, &u, i, n))).collect());
		let mut seen = vec![];
		for _ in 0..rng.below(3) {
			let (fnm, d) = (pk(rng, &FIELDS[..]).to_string(), u.field_desc(rng));
			if seen.contains(&(fnm.clone(), d.clone())) { continue; }
			seen.push((fnm.clone(), d.clone()));
			let mut f = Field::new(FieldAccess::from(rng.pick(&[0x0001u16, 0x0019, 0x4019, 0x0002][..]).clone()), fname(&fnm), fdesc(&d));
			f.has_deprecated_attribute = rng.chance(1, 6);
			if rng.chance(1, 4) { f.signature = Some(FieldSignature::try_from(js(&format!("L{}<TT;>;", u.any_class(rng)))).expect("signature")); }
			c.fields.push(f);
		}
		let mut seen = vec![];
		for _ in 0..rng.range(1, 3) {
			let (mn, d) = (pk(rng, &METHODS[..]).to_string(), u.method_desc(rng));
			if seen.contains(&(mn.clone(), d.clone())) { continue; }
			seen.push((mn.clone(), d.clone()));
			let mut m = Method::new(MethodAccess::from(rng.pick(&[0x0001u16, 0x0009, 0x0401, 0x1041][..]).clone()), mname(&mn), mdesc(&d));
			if !m.access.is_abstract {
				let mut code = Code::default();
				code.max_stack = Some(rng.below(10) as u16); code.max_locals = Some(rng.range(1, 9) as u16);
				for _ in 0..rng.range(1, 10) {
					let lv = |rng: &mut Rng| LvIndex { index: match rng.below(6) { 0 | 1 => rng.below(4) as u16, 2 => rng.range(4, 255) as u16, 3 => *rng.pick(&[3u16, 4, 255, 256, 65535][..]), _ => rng.range(256, 65535) as u16 } };
					let insn = match rng.below(30) {
						// the local-variable family in its one-byte, plain and wide forms, bipush / sipush, newarray
						22 => match rng.below(5) { 0 => Instruction::ILoad(lv(rng)), 1 => Instruction::LLoad(lv(rng)), 2 => Instruction::FLoad(lv(rng)), 3 => Instruction::DLoad(lv(rng)), _ => Instruction::ALoad(lv(rng)) },
						23 => match rng.below(5) { 0 => Instruction::IStore(lv(rng)), 1 => Instruction::LStore(lv(rng)), 2 => Instruction::FStore(lv(rng)), 3 => Instruction::DStore(lv(rng)), _ => Instruction::AStore(lv(rng)) },
						24 => Instruction::IInc(lv(rng), *rng.pick(&[0i16, 1, -1, 127, 128, -128, -129, i16::MAX, i16::MIN][..])),
						25 => Instruction::Ret(lv(rng)),
						26 => Instruction::BiPush(*rng.pick(&[0i8, -1, 1, i8::MIN, i8::MAX, 42][..])),
						27 => Instruction::SiPush(*rng.pick(&[0i16, -1, 255, 256, i16::MIN, i16::MAX, -129][..])),
						28 | 29 => Instruction::NewArray(*rng.pick(&[ArrayType::Boolean, ArrayType::Char, ArrayType::Float, ArrayType::Double, ArrayType::Byte, ArrayType::Short, ArrayType::Int, ArrayType::Long][..])),
						// ldc of a constant without Float / Double (their Debug text is not their bit pattern: outside tr) and invokedynamic,
						// bootstrap arguments nested up to three levels
						18 | 19 => Instruction::Ldc(frag_loadable(rng, &u)),
						20 | 21 => { let mut d = u.indy(rng); let mut tries = 0; while !d.arguments.iter().all(no_float) && tries < 8 { d = u.indy(rng); tries += 1; } if !d.arguments.iter().all(no_float) { d.arguments.clear(); } Instruction::InvokeDynamic(d) },
						0 => Instruction::GetStatic(u.field_ref(rng)), 1 => Instruction::PutStatic(u.field_ref(rng)), 2 => Instruction::GetField(u.field_ref(rng)), 3 => Instruction::PutField(u.field_ref(rng)),
						4 => Instruction::InvokeVirtual(u.method_ref(rng)), 5 => Instruction::InvokeSpecial(u.method_ref(rng), rng.chance(1, 4)), 6 => Instruction::InvokeStatic(u.method_ref(rng), rng.chance(1, 4)),
						7 => Instruction::InvokeInterface(MethodRef { class: cls(&u.any_class(rng)), name: mname(pk(rng, &METHODS[..5])), desc: mdesc(&u.method_desc(rng)) }),
						8 => Instruction::New(cls(&u.any_class(rng))), 9 => Instruction::ANewArray(u.class_any(rng)), 10 => Instruction::CheckCast(u.class_any(rng)), 11 => Instruction::InstanceOf(u.class_any(rng)),
						12 => Instruction::MultiANewArray(cls(&format!("[[{}", u.field_desc(rng))), rng.range(1, 2) as u8),
						13 => Instruction::Dup, 14 => Instruction::Pop, 15 => Instruction::AConstNull, 16 => Instruction::ArrayLength, _ => Instruction::LAdd,
					};
					code.instructions.push(InstructionListEntry { label: None, frame: None, instruction: insn });
				}
				code.instructions.push(InstructionListEntry { label: None, frame: None, instruction: Instruction::Return });
				m.code = Some(code);
			}
			if rng.chance(1, 3) { m.exceptions = Some((0..rng.range(1, 2)).map(|_| cls(&u.any_class(rng))).collect()); }
			m.has_synthetic_attribute = rng.chance(1, 8);
			c.methods.push(m);
		}
		if rng.chance(1, 2) { c.source_file = Some(js(&format!("{}.java", name.rsplit('/').next().unwrap_or(name)))); }
		c.has_deprecated_attribute = rng.chance(1, 8);
		c
	}).collect()
}

/// classes whose names are proper prefixes of one another (`a`, `ab`, `abc`, `a/b`, `a/bc`) with fields and methods whose names
/// complete each other, so that owner + name (+ descriptor) written one after the other is the same string for different members
/// (a+bc = ab+c, a+bcd = ab+cd = abc+d, a/b+cd = a/bc+d; name / descriptor boundary: xL + Lfoo; = x + LLfoo;), and two classes
/// that refer to all of them, one in each order
pub fn gen_prefix_trees(rng: &mut Rng) -> Vec<ClassFile> {
	let decls: [(&str, &[&str]); 5] = [("a", &["bc", "bcd", "xL", "x"]), ("ab", &["c", "cd"]), ("abc", &["d"]), ("a/b", &["cd", "c"]), ("a/bc", &["d"])];
	let fd = |owner: &str, n: &str| -> String { if owner == "a" && n == "xL" { "Lfoo;".to_owned() } else if owner == "a" && n == "x" { "LLfoo;".to_owned() } else { "I".to_owned() } };
	let mut out = vec![];
	let mut frefs: Vec<FieldRef> = vec![];
	let mut mrefs: Vec<MethodRef> = vec![];
	for (owner, names) in decls.iter() {
		let mut access = ClassAccess::default(); access.is_public = true; access.is_super = true;
		let mut c = ClassFile::new(Version::V1_8, access, obj(owner), Some(obj("java/lang/Object")), vec![]);
		for n in names.iter() {
			let d = fd(owner, n);
			c.fields.push(Field::new(FieldAccess::from(0x0009u16), fname(n), fdesc(&d)));
			frefs.push(FieldRef { class: obj(owner), name: fname(n), desc: fdesc(&d) });
			if d == "I" {
				let mut m = Method::new(MethodAccess::from(0x0009u16), mname(n), mdesc("()V"));
				let mut code = Code::default(); code.max_stack = Some(0); code.max_locals = Some(0);
				code.instructions.push(InstructionListEntry { label: None, frame: None, instruction: Instruction::Return });
				m.code = Some(code);
				c.methods.push(m);
				mrefs.push(MethodRef { class: cls(owner), name: mname(n), desc: mdesc("()V") });
			}
		}
		out.push(c);
	}
	for (k, name) in ["u/User1", "u/User2"].iter().enumerate() {
		let mut access = ClassAccess::default(); access.is_public = true; access.is_super = true;
		let mut c = ClassFile::new(Version::V1_8, access, obj(name), Some(obj("java/lang/Object")), vec![]);
		let mut m = Method::new(MethodAccess::from(0x0009u16), mname("run"), mdesc("()V"));
		let mut code = Code::default(); code.max_stack = Some(2); code.max_locals = Some(0);
		let (mut fr, mut mr) = (frefs.clone(), mrefs.clone());
		if k == 1 { fr.reverse(); mr.reverse(); } else if rng.chance(1, 2) { rng.shuffle(&mut fr); }
		for r in fr { code.instructions.push(InstructionListEntry { label: None, frame: None, instruction: Instruction::GetStatic(r) }); code.instructions.push(InstructionListEntry { label: None, frame: None, instruction: Instruction::Pop }); }
		for r in mr { code.instructions.push(InstructionListEntry { label: None, frame: None, instruction: Instruction::InvokeStatic(r, false) }); }
		code.instructions.push(InstructionListEntry { label: None, frame: None, instruction: Instruction::Return });
		m.code = Some(code);
		c.methods.push(m);
		out.push(c);
	}
	out
}
