//! The property oracle of C07, written from the SPECIFICATION of which positions of a class are
//! class / field / method references (JVMS 4; mirrors coq/C07/Spec.v `carries_ref` /
//! `appropriate`), NOT from dukebox/src/remap.rs.
//!
//! `visit_refs` walks a `ClassFacts` and hands every reference position to a callback as a mutable
//! view.  It is used three ways: to list the references of a class (`collect_refs`), to rewrite
//! them with the remapper's own answers (`spec_remap`), and to find the names a remapper has to be
//! asked about.  The rewriting of one reference (`Answers::apply`) re-implements the meaning of a
//! remapper — "found => that name, not found => the old name, descriptors class by class" — on top
//! of the three questions a remapper answers (`map_class_fail`, `map_field_fail`,
//! `map_method_fail`), which are put to the REAL remapper and recorded.
//!
//! Excluded, as in Spec.v: generic signatures, the names of invokedynamic / dynamic constants,
//! local-variable and parameter names, InnerClass.inner_name, module and package names,
//! source-file names, unknown attributes.
use fbh::classfile::facts::*;
use std::collections::BTreeMap;

pub type S = Vec<u32>;
pub fn s_of(j: &JStr) -> S { j.code_points() }
pub fn j_of(s: &[u32]) -> JStr { JStr::from_code_points(s) }

/// one reference position (mutable view)
pub enum RefMut<'a> {
	/// 0 ObjClassName (this, super, interfaces) 1 ClassName (may be an array type)
	/// 2 field descriptor 3 method descriptor 4 return descriptor
	Name(u8, &'a mut JStr),
	/// 0 field reference 1 method reference: owner, name, descriptor
	Member(u8, &'a mut JStr, &'a mut JStr, &'a mut JStr),
	/// 0 declared field 1 declared method 2 record component (the field of that name; a name that is no
	/// field name is an error: JVMS 4.7.30 wants an unqualified name): name, descriptor
	Decl(u8, &'a mut JStr, &'a mut JStr),
	Encl(&'a mut JStr, &'a mut Option<(JStr, JStr)>),
	/// enum element value: type descriptor, constant name
	EnumConst(&'a mut JStr, &'a mut JStr),
}

/// the same, by value (what `collect_refs` returns)
#[derive(Debug, Clone, PartialEq, Eq, PartialOrd, Ord, Hash)]
pub enum RefVal {
	Name(u8, S),
	Member(u8, S, S, S),
	Decl(u8, S, S),
	Encl(S, Option<(S, S)>),
	EnumConst(S, S),
}
impl RefVal {
	pub fn kind(&self) -> (u8, u8) {
		match self { RefVal::Name(k, _) => (0, *k), RefVal::Member(k, ..) => (1, *k), RefVal::Decl(k, ..) => (2, *k), RefVal::Encl(..) => (3, 0), RefVal::EnumConst(..) => (4, 0) }
	}
}
fn val_of(r: &RefMut) -> RefVal {
	match r {
		RefMut::Name(k, a) => RefVal::Name(*k, s_of(a)),
		RefMut::Member(k, o, n, d) => RefVal::Member(*k, s_of(o), s_of(n), s_of(d)),
		RefMut::Decl(k, n, d) => RefVal::Decl(*k, s_of(n), s_of(d)),
		RefMut::Encl(c, m) => RefVal::Encl(s_of(c), m.as_ref().map(|(n, d)| (s_of(n), s_of(d)))),
		RefMut::EnumConst(t, c) => RefVal::EnumConst(s_of(t), s_of(c)),
	}
}

type F<'f> = dyn FnMut(RefMut) + 'f;

fn v_annotation(a: &mut AnnotationFacts, f: &mut F) {
	f(RefMut::Name(2, &mut a.type_desc));                       // 4.7.16 annotation.type_index: a field descriptor
	for (_, v) in &mut a.pairs { v_element(v, f); }
}
fn v_element(v: &mut ElementValueFacts, f: &mut F) {
	match v {
		ElementValueFacts::Enum { type_desc, const_name } => f(RefMut::EnumConst(type_desc, const_name)),   // 4.7.16.1 enum_const_value
		ElementValueFacts::Class(d) => f(RefMut::Name(4, d)),   // class_info_index: a return descriptor
		ElementValueFacts::Annotation(a) => v_annotation(a, f),
		ElementValueFacts::Array(vs) => for x in vs { v_element(x, f); },
		_ => {}
	}
}
fn v_annotations(v: &mut Vec<AnnotationFacts>, f: &mut F) { for a in v { v_annotation(a, f); } }
fn v_type_annotations(v: &mut Vec<TypeAnnotationFacts>, f: &mut F) { for a in v { v_annotation(&mut a.annotation, f); } }

fn v_handle(h: &mut HandleFacts, f: &mut F) {
	// 4.4.8: reference_kind 1..4 name a Fieldref, 5..9 a Methodref / InterfaceMethodref
	let k = if h.kind <= 4 { 0 } else { 1 };
	f(RefMut::Member(k, &mut h.owner, &mut h.name, &mut h.desc));
}
fn v_dynamic(d: &mut DynamicFacts, desc_kind: u8, f: &mut F) {
	// 4.4.10: the name is handed to the bootstrap method, it is not an owner-qualified reference (excluded)
	f(RefMut::Name(desc_kind, &mut d.desc));
	v_handle(&mut d.bootstrap, f);                              // 4.7.23 bootstrap_method_ref
	for a in &mut d.args { v_loadable(a, f); }                  // 4.7.23 bootstrap_arguments
}
fn v_loadable(l: &mut Loadable, f: &mut F) {
	match l {
		Loadable::Class(c) => f(RefMut::Name(1, c)),
		Loadable::MethodHandle(h) => v_handle(h, f),
		Loadable::MethodType(d) => f(RefMut::Name(3, d)),
		Loadable::Dynamic(d) => v_dynamic(d, 2, f),             // CONSTANT_Dynamic: a field descriptor
		_ => {}
	}
}
fn v_vtype(t: &mut VTypeG<usize>, f: &mut F) { if let VTypeG::Object(c) = t { f(RefMut::Name(1, c)); } }   // 4.7.4 Object_variable_info
fn v_code(c: &mut CodeFacts, f: &mut F) {
	for i in &mut c.insns {
		match &mut i.arg {
			OperandG::Const(l) => v_loadable(l, f),
			OperandG::Field(m) => f(RefMut::Member(0, &mut m.owner, &mut m.name, &mut m.desc)),
			OperandG::Method(m) => f(RefMut::Member(1, &mut m.owner, &mut m.name, &mut m.desc)),
			OperandG::InvokeDynamic(d) => v_dynamic(d, 3, f),   // CONSTANT_InvokeDynamic: a method descriptor
			OperandG::Class(c) => f(RefMut::Name(1, c)),
			OperandG::MultiANewArray { class, .. } => f(RefMut::Name(1, class)),
			_ => {}
		}
	}
	for e in &mut c.exception_table { if let Some(c) = &mut e.catch_type { f(RefMut::Name(1, c)); } }
	for v in &mut c.local_variables { f(RefMut::Name(2, &mut v.desc)); }    // 4.7.13 descriptor_index
	// 4.7.14 LocalVariableTypeTable holds signatures: excluded
	if let Some(frames) = &mut c.frames {
		for fr in frames {
			match &mut fr.kind {
				FrameKindG::SameLocals1(t) => v_vtype(t, f),
				FrameKindG::Append(v) => for t in v { v_vtype(t, f); },
				FrameKindG::Full { locals, stack } => { for t in locals { v_vtype(t, f); } for t in stack { v_vtype(t, f); } }
				_ => {}
			}
		}
	}
	for a in &mut c.visible_type_annotations { v_annotation(&mut a.annotation, f); }
	for a in &mut c.invisible_type_annotations { v_annotation(&mut a.annotation, f); }
}

/// every reference position of the class, in a fixed order
pub fn visit_refs(c: &mut ClassFacts, f: &mut F) {
	f(RefMut::Name(0, &mut c.name));
	if let Some(s) = &mut c.super_class { f(RefMut::Name(0, s)); }
	for i in &mut c.interfaces { f(RefMut::Name(0, i)); }
	for fd in &mut c.fields {
		f(RefMut::Decl(0, &mut fd.name, &mut fd.desc));
		v_annotations(&mut fd.visible_annotations, f); v_annotations(&mut fd.invisible_annotations, f);
		v_type_annotations(&mut fd.visible_type_annotations, f); v_type_annotations(&mut fd.invisible_type_annotations, f);
	}
	for m in &mut c.methods {
		f(RefMut::Decl(1, &mut m.name, &mut m.desc));
		if let Some(code) = &mut m.code { v_code(code, f); }
		for e in m.exceptions.iter_mut().flatten() { f(RefMut::Name(1, e)); }     // 4.7.5
		v_annotations(&mut m.visible_annotations, f); v_annotations(&mut m.invisible_annotations, f);
		v_type_annotations(&mut m.visible_type_annotations, f); v_type_annotations(&mut m.invisible_type_annotations, f);
		for p in m.visible_parameter_annotations.iter_mut().flatten() { v_annotations(p, f); }
		for p in m.invisible_parameter_annotations.iter_mut().flatten() { v_annotations(p, f); }
		if let Some(d) = &mut m.annotation_default { v_element(d, f); }
	}
	for i in c.inner_classes.iter_mut().flatten() {               // 4.7.6
		f(RefMut::Name(1, &mut i.inner));
		if let Some(o) = &mut i.outer { f(RefMut::Name(1, o)); }
	}
	if let Some(e) = &mut c.enclosing_method { f(RefMut::Encl(&mut e.class, &mut e.method)); }   // 4.7.7
	v_annotations(&mut c.visible_annotations, f); v_annotations(&mut c.invisible_annotations, f);
	v_type_annotations(&mut c.visible_type_annotations, f); v_type_annotations(&mut c.invisible_type_annotations, f);
	if let Some(m) = &mut c.module {                              // 4.7.25
		for u in &mut m.uses { f(RefMut::Name(1, u)); }
		for p in &mut m.provides { f(RefMut::Name(1, &mut p.service)); for w in &mut p.with { f(RefMut::Name(1, w)); } }
	}
	if let Some(mc) = &mut c.module_main_class { f(RefMut::Name(1, mc)); }           // 4.7.27
	if let Some(h) = &mut c.nest_host { f(RefMut::Name(1, h)); }                     // 4.7.28
	for n in c.nest_members.iter_mut().flatten() { f(RefMut::Name(1, n)); }          // 4.7.29
	for n in c.permitted_subclasses.iter_mut().flatten() { f(RefMut::Name(1, n)); }  // 4.7.31
	for r in c.record.iter_mut().flatten() {                                         // 4.7.30
		f(RefMut::Decl(2, &mut r.name, &mut r.desc));
		v_annotations(&mut r.visible_annotations, f); v_annotations(&mut r.invisible_annotations, f);
		v_type_annotations(&mut r.visible_type_annotations, f); v_type_annotations(&mut r.invisible_type_annotations, f);
	}
}

pub fn collect_refs(c: &ClassFacts) -> Vec<RefVal> {
	let mut c = c.clone();
	let mut out = vec![];
	visit_refs(&mut c, &mut |r| out.push(val_of(&r)));
	out
}

// ---------------------------------------------------------------------------------------------
// the remapper's answers

/// the three questions a remapper answers
pub trait Ask {
	fn class(&self, c: &[u32]) -> Result<Option<S>, String>;
	fn field(&self, owner: &[u32], name: &[u32], desc: &[u32]) -> Result<Option<(S, S)>, String>;
	fn method(&self, owner: &[u32], name: &[u32], desc: &[u32]) -> Result<Option<(S, S)>, String>;
}

/// asks the real remapper and records every question with its answer (for the Coq case)
pub struct Answers<'a> {
	pub ask: &'a dyn Ask,
	pub classes: BTreeMap<S, Option<S>>,
	pub fields: BTreeMap<(S, S, S), Option<(S, S)>>,
	pub methods: BTreeMap<(S, S, S), Option<(S, S)>>,
}
const L: u32 = 'L' as u32;
const SEMI: u32 = ';' as u32;
const LBRACK: u32 = '[' as u32;

impl<'a> Answers<'a> {
	pub fn new(ask: &'a dyn Ask) -> Answers<'a> { Answers { ask, classes: BTreeMap::new(), fields: BTreeMap::new(), methods: BTreeMap::new() } }

	pub fn class_fail(&mut self, c: &[u32]) -> Result<Option<S>, String> {
		if let Some(a) = self.classes.get(c) { return Ok(a.clone()); }
		let a = self.ask.class(c)?;
		self.classes.insert(c.to_vec(), a.clone());
		Ok(a)
	}
	fn member_fail(&mut self, k: u8, o: &[u32], n: &[u32], d: &[u32]) -> Result<Option<(S, S)>, String> {
		let key = (o.to_vec(), n.to_vec(), d.to_vec());
		let tab = if k == 0 { &self.fields } else { &self.methods };
		if let Some(a) = tab.get(&key) { return Ok(a.clone()); }
		let a = if k == 0 { self.ask.field(o, n, d)? } else { self.ask.method(o, n, d)? };
		if k == 0 { self.fields.insert(key, a.clone()); } else { self.methods.insert(key, a.clone()); }
		Ok(a)
	}
	/// the answer for a class or interface name: the new name, or the old one
	pub fn class(&mut self, c: &[u32]) -> Result<S, String> { Ok(self.class_fail(c)?.unwrap_or_else(|| c.to_vec())) }
	/// a descriptor with every `L<name>;` answered (JVMS 4.3: that is the only place a class name occurs)
	pub fn desc(&mut self, d: &[u32]) -> Result<S, String> {
		let mut out = Vec::with_capacity(d.len());
		let mut i = 0;
		while i < d.len() {
			out.push(d[i]);
			if d[i] == L {
				let end = d[i + 1..].iter().position(|&c| c == SEMI).map(|p| i + 1 + p).ok_or("descriptor: missing `;`")?;
				if end == i + 1 { return Err("descriptor: empty class name".into()); }
				out.extend(self.class(&d[i + 1..end])?);
				out.push(SEMI);
				i = end + 1;
			} else { i += 1; }
		}
		Ok(out)
	}
	/// a CONSTANT_Class: an array type is a descriptor, anything else a class name
	pub fn class_any(&mut self, c: &[u32]) -> Result<S, String> { if c.first() == Some(&LBRACK) { self.desc(c) } else { self.class(c) } }
	/// a member asked with its owner: the found (name, descriptor), or the old name with the descriptor answered
	pub fn member(&mut self, k: u8, o: &[u32], n: &[u32], d: &[u32]) -> Result<(S, S), String> {
		match self.member_fail(k, o, n, d)? { Some(p) => Ok(p), None => Ok((n.to_vec(), self.desc(d)?)) }
	}
	/// owner-qualified reference; a method of an array type (clone) belongs to no class of the jar
	pub fn member_ref(&mut self, k: u8, o: &[u32], n: &[u32], d: &[u32]) -> Result<(S, S, S), String> {
		let (n2, d2) = if k == 1 && o.first() == Some(&LBRACK) { (n.to_vec(), d.to_vec()) } else { self.member(k, o, n, d)? };
		let o2 = if k == 1 { self.class_any(o)? } else { self.class(o)? };
		Ok((o2, n2, d2))
	}

	/// the specification's answer for one reference position; `this` = the ORIGINAL name of the class
	pub fn apply(&mut self, this: &[u32], r: &RefVal) -> Result<RefVal, String> {
		Ok(match r {
			RefVal::Name(0, c) => RefVal::Name(0, self.class(c)?),
			RefVal::Name(1, c) => RefVal::Name(1, self.class_any(c)?),
			RefVal::Name(k, d) => RefVal::Name(*k, self.desc(d)?),
			RefVal::Member(k, o, n, d) => { let (o2, n2, d2) = self.member_ref(*k, o, n, d)?; RefVal::Member(*k, o2, n2, d2) }
			RefVal::Decl(2, n, d) => {
				if !unqualified(n) { return Err("record component name is no field name".into()); }
				let (n2, d2) = self.member(0, this, n, d)?; RefVal::Decl(2, n2, d2)
			}
			RefVal::Decl(k, n, d) => { let (n2, d2) = self.member(*k, this, n, d)?; RefVal::Decl(*k, n2, d2) }
			RefVal::Encl(c, Some((n, d))) => { let (c2, n2, d2) = self.member_ref(1, c, n, d)?; RefVal::Encl(c2, Some((n2, d2))) }
			RefVal::Encl(c, None) => RefVal::Encl(self.class_any(c)?, None),
			RefVal::EnumConst(t, c) => {
				// the constant is the field `c` : `t` of the enum class named by `t` (when `t` is `L<class>;`
				// and `c` can be a field name at all)
				let c2 = match enum_class_of(t) {
					Some(cls) if unqualified(c) => self.member(0, &cls, c, t)?.0,
					_ => c.clone(),
				};
				RefVal::EnumConst(self.desc(t)?, c2)
			}
		})
	}
}
fn unqualified(s: &[u32]) -> bool { !s.is_empty() && s.iter().all(|&c| c != '.' as u32 && c != ';' as u32 && c != '[' as u32 && c != '/' as u32) }
/// `L<binary class name>;` -> the class name
fn enum_class_of(t: &[u32]) -> Option<S> {
	if t.len() < 3 || t[0] != L || *t.last().unwrap() != SEMI { return None; }
	let name = &t[1..t.len() - 1];
	if name.contains(&SEMI) || !name.split(|&c| c == '/' as u32).all(unqualified) { return None; }
	Some(name.to_vec())
}

fn store(r: RefMut, v: &RefVal) {
	match (r, v) {
		(RefMut::Name(_, a), RefVal::Name(_, x)) => *a = j_of(x),
		(RefMut::Member(_, o, n, d), RefVal::Member(_, o2, n2, d2)) => { *o = j_of(o2); *n = j_of(n2); *d = j_of(d2); }
		(RefMut::Decl(_, n, d), RefVal::Decl(_, n2, d2)) => { *n = j_of(n2); *d = j_of(d2); }
		(RefMut::Encl(c, m), RefVal::Encl(c2, m2)) => { *c = j_of(c2); *m = m2.as_ref().map(|(n, d)| (j_of(n), j_of(d))); }
		(RefMut::EnumConst(t, c), RefVal::EnumConst(t2, c2)) => { *t = j_of(t2); *c = j_of(c2); }
		_ => unreachable!("kinds are preserved by apply"),
	}
}

/// The class the property demands: every reference position holds the remapper's answer for the
/// original reference, everything else is untouched.
pub fn spec_remap(ans: &mut Answers, input: &ClassFacts) -> Result<ClassFacts, String> {
	let mut out = input.clone();
	let this = s_of(&input.name);
	let mut err: Option<String> = None;
	visit_refs(&mut out, &mut |r| {
		if err.is_some() { return; }
		match ans.apply(&this, &val_of(&r)) { Ok(v) => store(r, &v), Err(e) => err = Some(e) }
	});
	match err { Some(e) => Err(e), None => Ok(out) }
}

/// every class name a class mentions (object class names, also inside descriptors and array types)
pub fn mentioned_classes(c: &ClassFacts) -> Vec<S> {
	fn in_desc(d: &[u32], out: &mut Vec<S>) {
		let mut i = 0;
		while i < d.len() {
			if d[i] == L { if let Some(p) = d[i + 1..].iter().position(|&c| c == SEMI) { out.push(d[i + 1..i + 1 + p].to_vec()); i += p + 2; continue; } }
			i += 1;
		}
	}
	fn any(c: &[u32], out: &mut Vec<S>) { if c.first() == Some(&LBRACK) { in_desc(c, out); } else { out.push(c.to_vec()); } }
	let mut out = vec![];
	for r in collect_refs(c) {
		match r {
			RefVal::Name(0, c) => out.push(c),
			RefVal::Name(1, c) => any(&c, &mut out),
			RefVal::Name(_, d) => in_desc(&d, &mut out),
			RefVal::Member(_, o, _, d) => { any(&o, &mut out); in_desc(&d, &mut out); }
			RefVal::Decl(_, _, d) => in_desc(&d, &mut out),
			RefVal::Encl(c, m) => { any(&c, &mut out); if let Some((_, d)) = m { in_desc(&d, &mut out); } }
			RefVal::EnumConst(t, _) => in_desc(&t, &mut out),
		}
	}
	out.sort(); out.dedup();
	out
}
