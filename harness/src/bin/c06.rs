//! C06 — remappers: map_desc, remapper_a / remapper_b, super-class search, fall-backs, *_ref.
use fbh::gal::*;
use fbh::mapmodel::*;
use fbh::prng::Rng;
use fbh::report::{guarded, Report};
use fbh::Ctx;
use std::panic::AssertUnwindSafe;
use indexmap::{IndexMap, IndexSet};
use duke::tree::class::{ClassName, ClassNameSlice, ObjClassName, ObjClassNameSlice};
use duke::tree::descriptor::{ArrayType, ParsedFieldDescriptor, ParsedMethodDescriptor, ParsedReturnDescriptor, ReturnDescriptor, ReturnDescriptorSlice, Type};
use duke::tree::field::FieldDescriptor;
use duke::tree::field::{FieldDescriptorSlice, FieldNameSlice, FieldRef};
use duke::tree::method::{MethodDescriptorSlice, MethodNameAndDesc, MethodNameSlice, MethodRef, MethodRefObj};
use quill::remapper::{ARemapper, BRemapper, JarSuperProv, NoSuperClassProvider};
use quill::tree::mappings::Mappings;
use quill::tree::names::Namespace;

type Key = (S, S);

fn s(x: &str) -> S { cps_str(x) }

// =====================================================================================
// queries and answers
// =====================================================================================
#[derive(Clone, Debug, PartialEq, Eq, Hash)]
enum Q {
	Class(S), ClassFail(S), ClassAny(S),
	Desc(u8, S), // 0 field 1 method 2 return: all three are map_desc
	FieldFail(S, Key), MethodFail(S, Key), Field(S, Key), Method(S, Key),
	FieldRef(S, Key), MethodRef(S, Key), MethodRefObj(S, Key),
}
#[derive(Clone, Debug, PartialEq, Eq)]
enum Ans {
	Str(S), Opt(Option<S>), RStr(Option<S>),
	ROptKey(Option<Option<Key>>), RKey(Option<Key>), RKey3(Option<(S, Key)>),
}

fn g_key(k: &Key) -> String { gpair(gstr(&k.0), gstr(&k.1)) }
fn g_ans(a: &Ans) -> String {
	match a {
		Ans::Str(x) => gstr(x),
		Ans::Opt(x) => gopt(x.as_ref().map(|x| gstr(x))),
		Ans::RStr(x) => gres(x.as_ref().map(|x| gstr(x))),
		Ans::ROptKey(x) => gres(x.as_ref().map(|o| gopt(o.as_ref().map(g_key)))),
		Ans::RKey(x) => gres(x.as_ref().map(g_key)),
		Ans::RKey3(x) => gres(x.as_ref().map(|(c, k)| gpair(gstr(c), g_key(k)))),
	}
}
fn g_query(q: &Q, a: &Ans) -> String {
	let a = g_ans(a);
	match q {
		Q::Class(c) => format!("QClass {} {a}", gstr(c)),
		Q::ClassFail(c) => format!("QClassFail {} {a}", gstr(c)),
		Q::ClassAny(c) => format!("QClassAny {} {a}", gstr(c)),
		Q::Desc(_, d) => format!("QDesc {} {a}", gstr(d)),
		Q::FieldFail(o, k) => format!("QFieldFail {} {} {a}", gstr(o), g_key(k)),
		Q::MethodFail(o, k) => format!("QMethodFail {} {} {a}", gstr(o), g_key(k)),
		Q::Field(o, k) => format!("QField {} {} {a}", gstr(o), g_key(k)),
		Q::Method(o, k) => format!("QMethod {} {} {a}", gstr(o), g_key(k)),
		Q::FieldRef(o, k) => format!("QFieldRef {} {} {a}", gstr(o), g_key(k)),
		Q::MethodRef(o, k) => format!("QMethodRef {} {} {a}", gstr(o), g_key(k)),
		Q::MethodRefObj(o, k) => format!("QMethodRefObj {} {} {a}", gstr(o), g_key(k)),
	}
}
fn show_key(k: &Key) -> String { format!("{} {}", show(&k.0), show(&k.1)) }
fn show_q(q: &Q) -> String {
	match q {
		Q::Class(c) => format!("map_class({})", show(c)),
		Q::ClassFail(c) => format!("map_class_fail({})", show(c)),
		Q::ClassAny(c) => format!("map_class_any({})", show(c)),
		Q::Desc(k, d) => format!("{}({})", ["map_field_desc", "map_method_desc", "map_return_desc"][*k as usize], show(d)),
		Q::FieldFail(o, k) => format!("map_field_fail({}, {})", show(o), show_key(k)),
		Q::MethodFail(o, k) => format!("map_method_fail({}, {})", show(o), show_key(k)),
		Q::Field(o, k) => format!("map_field({}, {})", show(o), show_key(k)),
		Q::Method(o, k) => format!("map_method({}, {})", show(o), show_key(k)),
		Q::FieldRef(o, k) => format!("map_field_ref({}.{})", show(o), show_key(k)),
		Q::MethodRef(o, k) => format!("map_method_ref({}.{})", show(o), show_key(k)),
		Q::MethodRefObj(o, k) => format!("map_method_ref_obj({}.{})", show(o), show_key(k)),
	}
}
fn show_ans(a: &Ans) -> String {
	let k = |k: &Key| show_key(k);
	match a {
		Ans::Str(x) => show(x),
		Ans::Opt(x) => x.as_ref().map(|x| format!("Some({})", show(x))).unwrap_or("None".into()),
		Ans::RStr(x) => x.as_ref().map(|x| format!("Ok({})", show(x))).unwrap_or("Err".into()),
		Ans::ROptKey(x) => match x { None => "Err".into(), Some(None) => "Ok(None)".into(), Some(Some(v)) => format!("Ok(Some({}))", k(v)) },
		Ans::RKey(x) => x.as_ref().map(|v| format!("Ok({})", k(v))).unwrap_or("Err".into()),
		Ans::RKey3(x) => x.as_ref().map(|(c, v)| format!("Ok({}.{})", show(c), k(v))).unwrap_or("Err".into()),
	}
}

// ---------- calling the implementation ----------
fn obj(js: &java_string::JavaStr) -> &ObjClassNameSlice { unsafe { ObjClassNameSlice::from_inner_unchecked(js) } }

/// queries every ARemapper answers; Err(msg) = panic or an `Err` where the API promises none
fn eval_a<R: ARemapper + ?Sized>(rm: &R, q: &Q) -> Option<Result<Ans, String>> {
	Some(match q {
		Q::Class(c) => { let js = jstring(c); guarded(AssertUnwindSafe(|| rm.map_class(obj(&js)).map(|x| cps(x.as_inner())).map_err(|e| format!("Err: {e}")))).and_then(|x| x).map(Ans::Str) }
		Q::ClassFail(c) => { let js = jstring(c); guarded(AssertUnwindSafe(|| rm.map_class_fail(obj(&js)).map(|x| x.map(|x| cps(x.as_inner()))).map_err(|e| format!("Err: {e}")))).and_then(|x| x).map(Ans::Opt) }
		Q::ClassAny(c) => { let js = jstring(c); let sl = unsafe { ClassNameSlice::from_inner_unchecked(&js) }; guarded(AssertUnwindSafe(|| rm.map_class_any(sl).ok().map(|x| cps(x.as_inner())))).map(Ans::RStr) }
		Q::Desc(0, d) => { let js = jstring(d); let sl = unsafe { FieldDescriptorSlice::from_inner_unchecked(&js) }; guarded(AssertUnwindSafe(|| rm.map_field_desc(sl).ok().map(|x| cps(x.as_inner())))).map(Ans::RStr) }
		Q::Desc(1, d) => { let js = jstring(d); let sl = unsafe { MethodDescriptorSlice::from_inner_unchecked(&js) }; guarded(AssertUnwindSafe(|| rm.map_method_desc(sl).ok().map(|x| cps(x.as_inner())))).map(Ans::RStr) }
		Q::Desc(_, d) => { let js = jstring(d); let sl = unsafe { ReturnDescriptorSlice::from_inner_unchecked(&js) }; guarded(AssertUnwindSafe(|| rm.map_return_desc(sl).ok().map(|x| cps(x.as_inner())))).map(Ans::RStr) }
		_ => return None,
	})
}
fn eval_b<R: BRemapper>(rm: &R, q: &Q) -> Result<Ans, String> {
	if let Some(a) = eval_a(rm, q) { return a; }
	let fk = |x: duke::tree::field::FieldNameAndDesc| (cps(x.name.as_inner()), cps(x.desc.as_inner()));
	let mk = |x: MethodNameAndDesc| (cps(x.name.as_inner()), cps(x.desc.as_inner()));
	match q {
		Q::FieldFail(o, k) | Q::Field(o, k) => {
			let (jo, jn, jd) = (jstring(o), jstring(&k.0), jstring(&k.1));
			let (n, d) = unsafe { (FieldNameSlice::from_inner_unchecked(&jn), FieldDescriptorSlice::from_inner_unchecked(&jd)) };
			if matches!(q, Q::FieldFail(..)) { guarded(AssertUnwindSafe(|| rm.map_field_fail(obj(&jo), n, d).ok().map(|x| x.map(fk)))).map(Ans::ROptKey) }
			else { guarded(AssertUnwindSafe(|| rm.map_field(obj(&jo), n, d).ok().map(fk))).map(Ans::RKey) }
		}
		Q::MethodFail(o, k) | Q::Method(o, k) => {
			let (jo, jn, jd) = (jstring(o), jstring(&k.0), jstring(&k.1));
			let (n, d) = unsafe { (MethodNameSlice::from_inner_unchecked(&jn), MethodDescriptorSlice::from_inner_unchecked(&jd)) };
			if matches!(q, Q::MethodFail(..)) { guarded(AssertUnwindSafe(|| rm.map_method_fail(obj(&jo), n, d).ok().map(|x| x.map(mk)))).map(Ans::ROptKey) }
			else {
				let a = guarded(AssertUnwindSafe(|| rm.map_method(obj(&jo), n, d).ok().map(mk)))?;
				// map_method_name_and_desc is documented as "essentially just a call to map_method"
				let nd = MethodNameAndDesc { name: method_name(&k.0), desc: method_desc(&k.1) };
				let b = guarded(AssertUnwindSafe(|| rm.map_method_name_and_desc(obj(&jo), &nd).ok().map(mk)))?;
				if a != b { return Err(format!("map_method_name_and_desc {:?} differs from map_method {:?}", b, a)); }
				Ok(Ans::RKey(a))
			}
		}
		Q::FieldRef(o, k) => {
			let fr = FieldRef { class: class_name(o), name: field_name(&k.0), desc: field_desc(&k.1) };
			guarded(AssertUnwindSafe(|| rm.map_field_ref(&fr).ok().map(|x| (cps(x.class.as_inner()), (cps(x.name.as_inner()), cps(x.desc.as_inner())))))).map(Ans::RKey3)
		}
		Q::MethodRef(o, k) => {
			let mr = MethodRef { class: unsafe { ClassName::from_inner_unchecked(jstring(o)) }, name: method_name(&k.0), desc: method_desc(&k.1) };
			guarded(AssertUnwindSafe(|| rm.map_method_ref(&mr).ok().map(|x| (cps(x.class.as_inner()), (cps(x.name.as_inner()), cps(x.desc.as_inner())))))).map(Ans::RKey3)
		}
		Q::MethodRefObj(o, k) => {
			let mr = MethodRefObj { class: class_name(o), name: method_name(&k.0), desc: method_desc(&k.1) };
			guarded(AssertUnwindSafe(|| rm.map_method_ref_obj(&mr).ok().map(|x| (cps(x.class.as_inner()), (cps(x.name.as_inner()), cps(x.desc.as_inner())))))).map(Ans::RKey3)
		}
		_ => unreachable!(),
	}
}

/// a hand-written ARemapper: linear search in a table (used to drive map_desc with arbitrary class maps)
struct TableRemapper(Vec<(S, S)>);
impl ARemapper for TableRemapper {
	fn map_class_fail(&self, class: &ObjClassNameSlice) -> anyhow::Result<Option<ObjClassName>> {
		let c = cps(class.as_inner());
		Ok(self.0.iter().find(|(k, _)| *k == c).map(|(_, v)| class_name(v)))
	}
}

// =====================================================================================
// the independent reference (property oracle): JVMS descriptor grammar, parse -> map -> print,
// own depth-first search.  Nothing here calls quill.
// =====================================================================================
#[derive(Debug, Clone, PartialEq)]
enum OTy { Prim(u32), Obj(S), Arr(u32, Box<OTy>) }

fn o_unq(x: &[u32]) -> bool { !x.is_empty() && x.iter().all(|&c| c != '.' as u32 && c != ';' as u32 && c != '[' as u32 && c != '/' as u32) }
fn o_class_name(x: &[u32]) -> bool { x.split(|&c| c == '/' as u32).all(o_unq) }
fn o_field_type(x: &[u32]) -> Option<(OTy, &[u32])> {
	let c = *x.first()?;
	match char::from_u32(c)? {
		'B' | 'C' | 'D' | 'F' | 'I' | 'J' | 'S' | 'Z' => Some((OTy::Prim(c), &x[1..])),
		'L' => {
			let end = x.iter().position(|&c| c == ';' as u32)?;
			let name = &x[1..end];
			if o_class_name(name) { Some((OTy::Obj(name.to_vec()), &x[end + 1..])) } else { None }
		}
		'[' => {
			let (inner, rest) = o_field_type(&x[1..])?;
			let t = match inner { OTy::Arr(d, b) => OTy::Arr(d + 1, b), b => OTy::Arr(1, Box::new(b)) };
			if let OTy::Arr(d, _) = &t { if *d > 255 { return None; } }
			Some((t, rest))
		}
		_ => None,
	}
}
fn o_field(x: &[u32]) -> Option<OTy> { match o_field_type(x)? { (t, []) => Some(t), _ => None } }
fn o_return(x: &[u32]) -> Option<Option<OTy>> { if x == ['V' as u32] { Some(None) } else { o_field(x).map(Some) } }
fn o_method(x: &[u32]) -> Option<(Vec<OTy>, Option<OTy>)> {
	if x.first() != Some(&('(' as u32)) { return None; }
	let mut x = &x[1..];
	let mut ps = vec![];
	loop {
		if x.first() == Some(&(')' as u32)) { x = &x[1..]; break; }
		let (t, r) = o_field_type(x)?; ps.push(t); x = r;
	}
	Some((ps, o_return(x)?))
}
fn o_print(t: &OTy, out: &mut S) {
	match t {
		OTy::Prim(c) => out.push(*c),
		OTy::Obj(n) => { out.push('L' as u32); out.extend(n); out.push(';' as u32); }
		OTy::Arr(d, b) => { for _ in 0..*d { out.push('[' as u32); } o_print(b, out); }
	}
}
fn o_map(t: &OTy, f: &dyn Fn(&S) -> S) -> OTy {
	match t { OTy::Prim(c) => OTy::Prim(*c), OTy::Obj(n) => OTy::Obj(f(n)), OTy::Arr(d, b) => OTy::Arr(*d, Box::new(o_map(b, f))) }
}
fn o_names(t: &OTy, out: &mut Vec<S>) { match t { OTy::Prim(_) => {}, OTy::Obj(n) => out.push(n.clone()), OTy::Arr(_, b) => o_names(b, out) } }

/// any descriptor (field, method or return) of the grammar: its class names, and the rewrite
/// parse -> map -> print; None when the string is outside the grammar
fn ref_desc_names(d: &[u32]) -> Option<Vec<S>> {
	let mut v = vec![];
	if let Some((ps, r)) = o_method(d) { for p in &ps { o_names(p, &mut v); } if let Some(t) = &r { o_names(t, &mut v); } return Some(v); }
	if let Some(r) = o_return(d) { if let Some(t) = &r { o_names(t, &mut v); } return Some(v); }
	None
}
fn ref_desc(d: &[u32], f: &dyn Fn(&S) -> S) -> Option<S> {
	let mut out = vec![];
	if let Some((ps, r)) = o_method(d) {
		out.push('(' as u32);
		for p in &ps { o_print(&o_map(p, f), &mut out); }
		out.push(')' as u32);
		match &r { None => out.push('V' as u32), Some(t) => o_print(&o_map(t, f), &mut out) }
		return Some(out);
	}
	match o_return(d)? { None => out.push('V' as u32), Some(t) => o_print(&o_map(&t, f), &mut out) }
	Some(out)
}

struct Ref<'a> { m: &'a MMappings, from: usize, to: usize, inh: &'a [(S, Vec<S>)] }
#[derive(Debug, PartialEq)]
enum Want { Exactly(Ans), OneOf(Vec<Ans>), Unspecified }

impl<'a> Ref<'a> {
	/// target names of the rows carrying `c` in namespace a and some name in namespace b
	fn class_cands(&self, a: usize, b: usize, c: &S) -> Vec<S> {
		let mut v: Vec<S> = vec![];
		for row in &self.m.classes { if row.names[a].as_ref() == Some(c) { if let Some(t) = &row.names[b] { if !v.contains(t) { v.push(t.clone()); } } } }
		v
	}
	/// Some(f) when every class name of `names` has at most one counterpart
	fn class_fn(&self, a: usize, b: usize, names: &[S]) -> Option<impl Fn(&S) -> S + '_> {
		for n in names { if self.class_cands(a, b, n).len() > 1 { return None; } }
		Some(move |n: &S| self.class_cands(a, b, n).into_iter().next().unwrap_or_else(|| n.clone()))
	}
	fn desc(&self, a: usize, b: usize, d: &S) -> Option<Option<S>> {
		// outer None: outside the grammar; inner None: some class name is ambiguous
		let names = ref_desc_names(d)?;
		Some(self.class_fn(a, b, &names).and_then(|f| ref_desc(d, &f)))
	}
	/// the documented scanner on ANY string with the row-level class map; outer None: some scanned name has several counterparts
	fn scan(&self, a: usize, b: usize, d: &S) -> Option<Option<S>> {
		let ambiguous = std::cell::Cell::new(false);
		let f = |n: &S| { let v = self.class_cands(a, b, n); if v.len() > 1 { ambiguous.set(true); } Some(v.into_iter().next().unwrap_or_else(|| n.clone())) };
		let out = ref_scan(d, &f);
		if ambiguous.get() { None } else { Some(out) }
	}
	/// what the rows of class `c` (name in `from`) declare for the key; Err(()) = cannot tell (ambiguous / malformed row)
	fn declared(&self, method: bool, c: &S, k: &Key) -> Result<Vec<Key>, ()> {
		let rows: Vec<&MClass> = self.m.classes.iter().filter(|r| r.names[self.from].as_ref() == Some(c) && r.names[self.to].is_some()).collect();
		if rows.len() > 1 { return Err(()); }
		let mut v: Vec<Key> = vec![];
		for row in rows {
			let members: Vec<(&S, &NamesRow)> = if method { row.methods.iter().map(|m| (&m.desc, &m.names)).collect() } else { row.fields.iter().map(|f| (&f.desc, &f.names)).collect() };
			for (d0, names) in members {
				let (Some(nf), Some(nt)) = (&names[self.from], &names[self.to]) else { continue };
				if *nf != k.0 { continue; }
				let df = self.desc(0, self.from, d0).ok_or(())?.ok_or(())?;
				if df != k.1 { continue; }
				let dt = self.desc(0, self.to, d0).ok_or(())?.ok_or(())?;
				let val = (nt.clone(), dt);
				if !v.contains(&val) { v.push(val); }
			}
		}
		Ok(v)
	}
	fn supers(&self, c: &S) -> Option<&'a Vec<S>> { self.inh.iter().find(|(k, _)| k == c).map(|(_, v)| v) }
	/// pre-order, declaration order, repeats kept; own iterative DFS with an explicit stack
	fn preorder(&self, c: &S) -> Vec<S> {
		let mut out = vec![];
		let mut stack = vec![c.clone()];
		while let Some(x) = stack.pop() {
			if out.len() > 20_000 { break; }
			if let Some(ss) = self.supers(&x) { for y in ss.iter().rev() { stack.push(y.clone()); } }
			out.push(x);
		}
		out
	}
	/// Ok(None): the search meets a class that is already on its current path before it finds the key
	/// (cyclic inheritance: the implementation must answer Err).  Own recursive search that carries the path;
	/// its depth is bounded by the number of distinct classes.
	fn search(&self, method: bool, c: &S, k: &Key, path: &mut Vec<S>) -> Result<Option<Vec<Key>>, ()> {
		if path.contains(c) { return Ok(None); }
		let d = self.declared(method, c, k)?;
		if !d.is_empty() { return Ok(Some(d)); }
		if let Some(ss) = self.supers(c) {
			path.push(c.clone());
			for x in ss {
				match self.search(method, x, k, path)? { None => return Ok(None), Some(v) if !v.is_empty() => return Ok(Some(v)), Some(_) => {} }
			}
			path.pop();
		}
		Ok(Some(vec![]))
	}
	/// Err(()): cannot tell (ambiguous / malformed row); Ok(None): cyclic inheritance met; Ok(Some(v)): the candidates (empty = declared nowhere)
	/// Acyclic providers (any size: towers of diamonds have exponentially many paths) are answered by a different,
	/// two-phase algorithm: bottom-up "does anything below declare the key" with a table, then one walk along the
	/// first promising super type; cyclic providers (small) by the path-carrying recursion above.
	fn member_fail(&self, method: bool, c: &S, k: &Key) -> Result<Option<Vec<Key>>, ()> {
		if !acyclic(self.inh) { return self.search(method, c, k, &mut vec![]); }
		let mut below: std::collections::HashMap<S, bool> = std::collections::HashMap::new();
		// Some(declares or cannot tell) per class, children first (explicit stack)
		let mut stack: Vec<(S, bool)> = vec![(c.clone(), false)];
		while let Some((x, expanded)) = stack.pop() {
			if below.contains_key(&x) { continue; }
			let kids: Vec<S> = self.supers(&x).cloned().unwrap_or_default();
			if !expanded {
				stack.push((x.clone(), true));
				for y in kids { if !below.contains_key(&y) { stack.push((y, false)); } }
			} else {
				let own = match self.declared(method, &x, k) { Ok(v) => !v.is_empty(), Err(()) => true };
				let b = own || kids.iter().any(|y| below[y]);
				below.insert(x, b);
			}
		}
		let mut x = c.clone();
		loop {
			let d = self.declared(method, &x, k)?;
			if !d.is_empty() { return Ok(Some(d)); }
			match self.supers(&x).and_then(|ss| ss.iter().find(|y| below[*y])) { Some(y) => x = y.clone(), None => return Ok(Some(vec![])) }
		}
	}
	fn class(&self, c: &S) -> Vec<S> { let v = self.class_cands(self.from, self.to, c); if v.is_empty() { vec![c.clone()] } else { v } }

	fn want(&self, q: &Q) -> Want {
		let one = |v: Vec<Ans>| if v.len() == 1 { Want::Exactly(v.into_iter().next().unwrap()) } else { Want::OneOf(v) };
		match q {
			Q::Class(c) => one(self.class(c).into_iter().map(Ans::Str).collect()),
			Q::ClassFail(c) => { let v = self.class_cands(self.from, self.to, c); if v.is_empty() { Want::Exactly(Ans::Opt(None)) } else { one(v.into_iter().map(|x| Ans::Opt(Some(x))).collect()) } }
			Q::ClassAny(c) => {
				if c.first() == Some(&('[' as u32)) {
					// array class names are array field descriptors
					// outside the grammar: the documented scanner (copy, `L` name `;`, Err on `L;` / missing `;`)
					if o_field(c).is_none() { return match self.scan(self.from, self.to, c) { Some(x) => Want::Exactly(Ans::RStr(x)), None => Want::Unspecified }; }
					match self.desc(self.from, self.to, c) { Some(Some(d)) => Want::Exactly(Ans::RStr(Some(d))), _ => Want::Unspecified }
				} else { one(self.class(c).into_iter().map(|x| Ans::RStr(Some(x))).collect()) }
			}
			Q::Desc(kind, d) => {
				let in_grammar = match kind { 0 => o_field(d).is_some(), 1 => o_method(d).is_some(), _ => o_return(d).is_some() };
				if !in_grammar { return match self.scan(self.from, self.to, d) { Some(x) => Want::Exactly(Ans::RStr(x)), None => Want::Unspecified }; }
				match self.desc(self.from, self.to, d) { Some(Some(x)) => Want::Exactly(Ans::RStr(Some(x))), _ => Want::Unspecified }
			}
			Q::FieldFail(o, k) | Q::MethodFail(o, k) => {
				match self.member_fail(matches!(q, Q::MethodFail(..)), o, k) {
					Err(()) => Want::Unspecified,
					Ok(None) => Want::Exactly(Ans::ROptKey(None)),
					Ok(Some(v)) if v.is_empty() => Want::Exactly(Ans::ROptKey(Some(None))),
					Ok(Some(v)) => one(v.into_iter().map(|x| Ans::ROptKey(Some(Some(x)))).collect()),
				}
			}
			Q::Field(o, k) | Q::Method(o, k) => match self.member(matches!(q, Q::Method(..)), o, k) { None => Want::Unspecified, Some(None) => Want::Exactly(Ans::RKey(None)), Some(Some(v)) => one(v.into_iter().map(|x| Ans::RKey(Some(x))).collect()) },
			Q::FieldRef(o, k) | Q::MethodRefObj(o, k) => {
				let cs = self.class(o);
				match self.member(matches!(q, Q::MethodRefObj(..)), o, k) { None => Want::Unspecified, Some(None) => Want::Exactly(Ans::RKey3(None)), Some(Some(v)) => one(v.into_iter().flat_map(|x| cs.iter().map(move |c| Ans::RKey3(Some((c.clone(), x.clone()))))).collect()) }
			}
			Q::MethodRef(o, k) => {
				if o.first() == Some(&('[' as u32)) {
					if o_field(o).is_none() { return Want::Unspecified; }
					match self.desc(self.from, self.to, o) { Some(Some(c)) => Want::Exactly(Ans::RKey3(Some((c, k.clone())))), _ => Want::Unspecified }
				} else {
					let cs = self.class(o);
					match self.member(true, o, k) { None => Want::Unspecified, Some(None) => Want::Exactly(Ans::RKey3(None)), Some(Some(v)) => one(v.into_iter().flat_map(|x| cs.iter().map(move |c| Ans::RKey3(Some((c.clone(), x.clone()))))).collect()) }
				}
			}
		}
	}
	/// map_field / map_method: found, else unchanged name with rewritten descriptor (only specified for grammar descriptors)
	/// None: unspecified; Some(None): cyclic inheritance met (Err); Some(Some(candidates))
	fn member(&self, method: bool, o: &S, k: &Key) -> Option<Option<Vec<Key>>> {
		let Some(v) = self.member_fail(method, o, k).ok()? else { return Some(None) };
		if !v.is_empty() { return Some(Some(v)); }
		let in_grammar = if method { o_method(&k.1).is_some() } else { o_field(&k.1).is_some() };
		// outside the grammar the fall-back is the documented scanner's answer (Err on `L;` / a missing `;`)
		if !in_grammar { return match self.scan(self.from, self.to, &k.1)? { Some(d) => Some(Some(vec![(k.0.clone(), d)])), None => Some(None) }; }
		let d = self.desc(self.from, self.to, &k.1)??;
		Some(Some(vec![(k.0.clone(), d)]))
	}
}


// =====================================================================================
// round 5: the scanner on ALL strings, the traits as such (a hand-written implementor whose
// map_class_fail may fail, wrapped in ARemapperAsBRemapper), JarSuperProv::remap by itself
// =====================================================================================

/// Independent reference for `map_desc` on ANY string (the documented behaviour: every `L` starts a class name that
/// runs up to the next `;`, must not be empty; a missing `;` or an `L;` is an error; everything else is copied).
/// Position/slice based; `f` = None means the class map fails on that name.
fn ref_scan(d: &[u32], f: &dyn Fn(&S) -> Option<S>) -> Option<S> {
	let mut out: S = vec![];
	let mut rest = d;
	loop {
		let Some(i) = rest.iter().position(|&c| c == 'L' as u32) else { out.extend_from_slice(rest); return Some(out); };
		out.extend_from_slice(&rest[..=i]);
		let after = &rest[i + 1..];
		let j = after.iter().position(|&c| c == ';' as u32)?;
		if j == 0 { return None; }
		out.extend(f(&after[..j].to_vec())?);
		out.push(';' as u32);
		rest = &after[j + 1..];
	}
}

/// Independent reference for JarSuperProv::remap: per provider, entries in order; the key and every super type through
/// the class map; a key that is already there keeps its place and takes the new super types; a super type that is
/// already listed is not listed again.  None = the class map fails on some name.
fn ref_remap(provs: &[Vec<(S, Vec<S>)>], f: &dyn Fn(&S) -> Option<S>) -> Option<Vec<Vec<(S, Vec<S>)>>> {
	let mut out = vec![];
	for p in provs {
		let mut q: Vec<(S, Vec<S>)> = vec![];
		for (k, ss) in p {
			let mut set: Vec<S> = vec![];
			for x in ss { let y = f(x)?; if !set.contains(&y) { set.push(y); } }
			let k2 = f(k)?;
			match q.iter().position(|(a, _)| *a == k2) { Some(i) => q[i].1 = set, None => q.push((k2, set)) }
		}
		out.push(q);
	}
	Some(out)
}

/// a hand-written ARemapper whose map_class_fail fails on the names of `bad` (like the implementor in the crate's
/// own test module, which fails on names that are not UTF-8), else answers with the first pair of the table
struct FailingRemapper { tbl: Vec<(S, S)>, bad: Vec<S> }
impl ARemapper for FailingRemapper {
	fn map_class_fail(&self, class: &ObjClassNameSlice) -> anyhow::Result<Option<ObjClassName>> {
		let c = cps(class.as_inner());
		if self.bad.contains(&c) { anyhow::bail!("this remapper does not like {:?}", class); }
		Ok(self.tbl.iter().find(|(k, _)| *k == c).map(|(_, v)| class_name(v)))
	}
}

fn trait_stream(r: &mut Report, rng: &mut Rng, n: usize) {
	let mut names: Vec<S> = ["A", "B", "A$1", "A$B", "p/A", "L", "LL", "Ü", "bad", "bad$1", "x/bad", "U", "java/lang/Object"].iter().map(|x| s(x)).collect();
	names.push(vec![0xD83D]); names.push(vec![0x10400, '$' as u32, 0xDC00]);
	for _ in 0..n {
		let mut tbl: Vec<(S, S)> = vec![];
		for _ in 0..rng.below(5) { tbl.push((rng.pick(&names[..]).clone(), s(*rng.pick(&["X", "q/Y", "A", "L", "名/π", "A$1", "Z$L"][..])))); }
		let mut bad: Vec<S> = vec![];
		for _ in 0..rng.below(3) { bad.push(rng.pick(&names[..]).clone()); }
		let fmap = |c: &S| -> Option<S> { if bad.contains(c) { None } else { Some(tbl.iter().find(|(k, _)| k == c).map(|(_, v)| v.clone()).unwrap_or_else(|| c.clone())) } };
		let ffail = |c: &S| -> Option<Option<S>> { if bad.contains(c) { None } else { Some(tbl.iter().find(|(k, _)| k == c).map(|(_, v)| v.clone())) } };
		let inner = FailingRemapper { tbl: tbl.clone(), bad: bad.clone() };
		let provs: Vec<Vec<(S, Vec<S>)>> = (0..rng.range(1, 2)).map(|_| {
			let mut p: Vec<(S, Vec<S>)> = vec![];
			for _ in 0..rng.below(4) { let k = rng.pick(&names[..]).clone(); if p.iter().all(|(a, _)| *a != k) { let mut ss: Vec<S> = vec![]; for _ in 0..rng.below(4) { let x = rng.pick(&names[..]).clone(); if !ss.contains(&x) { ss.push(x); } } p.push((k, ss)); } }
			p }).collect();
		let replay = |what: &str| format!("property C06\nwhat: {what}\nhand-written ARemapper: map_class_fail fails on {:?}, else first pair of {:?}; wrapped in ARemapperAsBRemapper\nproviders: {:?}\n",
			bad.iter().map(|x| show(x)).collect::<Vec<_>>(), tbl.iter().map(|(k, v)| (show(k), show(v))).collect::<Vec<_>>(),
			provs.iter().map(|p| p.iter().map(|(k, ss)| (show(k), ss.iter().map(|x| show(x)).collect::<Vec<_>>())).collect::<Vec<_>>()).collect::<Vec<_>>());
		fbh::report::crumb(&replay("the process died inside a default method of ARemapper / BRemapper"));
		// ---- JarSuperProv::remap through the failing remapper ----
		let jp = build_provs(&provs);
		let got = match guarded(AssertUnwindSafe(|| JarSuperProv::remap(&inner, &jp).ok().map(|v| prov_lists(&v)))) {
			Ok(x) => x, Err(p) => { r.violation(format!("JarSuperProv::remap panicked: {p}"), replay("JarSuperProv::remap panicked")); continue; } };
		let want = ref_remap(&prov_lists(&jp), &fmap);
		r.count(if got.is_some() { "trait_stream_remap_ok" } else { "trait_stream_remap_err" });
		if got != want {
			let sh = |x: &Option<Vec<Vec<(S, Vec<S>)>>>| match x { None => "Err".to_string(), Some(v) => format!("{:?}", v.iter().map(|p| p.iter().map(|(k, ss)| (show(k), ss.iter().map(|x| show(x)).collect::<Vec<_>>())).collect::<Vec<_>>()).collect::<Vec<_>>()) };
			let what = format!("JarSuperProv::remap = {}, but sending every key and every super type through map_class gives {}", sh(&got), sh(&want));
			r.violation(what.clone(), replay(&what));
		}
		let g_ps = g_provs(&prov_lists(&jp));
		let g_got = gres(got.as_ref().map(|v| g_provs(v)));
		// ---- every default method, through ARemapperAsBRemapper ----
		let wrapped = quill::remapper::ARemapperAsBRemapper(inner);
		let mut out: Vec<String> = vec![];
		let desc = |rng: &mut Rng| -> S { match rng.below(5) { 0 => s(*rng.pick(&BAD_DESCS[..])), 1 => gen_mdesc(rng, &names), 2 => { let mut d = gen_mdesc(rng, &names); if !d.is_empty() { let j = rng.below(d.len()); d.remove(j); } d } _ => gen_fdesc(rng, &names) } };
		for _ in 0..rng.range(6, 14) {
			let c = if rng.chance(1, 5) { let mut a = vec!['[' as u32; rng.range(1, 2)]; a.push('L' as u32); a.extend(rng.pick(&names[..]).clone()); a.push(';' as u32); a } else { rng.pick(&names[..]).clone() };
			let is_arr = c.first() == Some(&('[' as u32));
			let k: Key = (s(*rng.pick(&MNAMES[..])), desc(rng));
			let member = |k: &Key| -> Option<Key> { ref_scan(&k.1, &fmap).map(|d| (k.0.clone(), d)) };
			match rng.below(9) {
				0 if !is_arr => {
					let js = jstring(&c);
					let got = match guarded(AssertUnwindSafe(|| wrapped.map_class(obj(&js)).ok().map(|x| cps(x.as_inner())))) { Ok(x) => x, Err(p) => { r.violation(format!("map_class panicked: {p}"), replay("map_class panicked")); continue; } };
					if got != fmap(&c) { let what = format!("hand-written remapper: map_class({}) = {:?}, its map_class_fail says {:?}", show(&c), got.as_ref().map(|x| show(x)), ffail(&c).map(|o| o.map(|x| show(&x)))); r.violation(what.clone(), replay(&what)); }
					out.push(format!("QClassR {} {}", gstr(&c), gres(got.as_ref().map(|x| gstr(x)))));
				}
				1 if !is_arr => {
					let js = jstring(&c);
					let got = match guarded(AssertUnwindSafe(|| wrapped.map_class_fail(obj(&js)).ok().map(|x| x.map(|x| cps(x.as_inner()))))) { Ok(x) => x, Err(p) => { r.violation(format!("map_class_fail panicked: {p}"), replay("map_class_fail panicked")); continue; } };
					if got != ffail(&c) { let what = format!("ARemapperAsBRemapper::map_class_fail({}) = {:?}, the wrapped remapper's map_class_fail says {:?}", show(&c), got.as_ref().map(|o| o.as_ref().map(|x| show(x))), ffail(&c).map(|o| o.map(|x| show(&x)))); r.violation(what.clone(), replay(&what)); }
					out.push(format!("QClassFailR {} {}", gstr(&c), gres(got.as_ref().map(|o| gopt(o.as_ref().map(|x| gstr(x)))))));
				}
				q => {
					let q = match q {
						0 | 1 | 2 => Q::ClassAny(c.clone()),
						3 => Q::Desc(rng.below(3) as u8, k.1.clone()),
						4 => if rng.chance(1, 2) { Q::FieldFail(c.clone(), k.clone()) } else { Q::MethodFail(c.clone(), k.clone()) },
						5 => if rng.chance(1, 2) { Q::Field(c.clone(), k.clone()) } else { Q::Method(c.clone(), k.clone()) },
						6 => Q::FieldRef(c.clone(), k.clone()),
						7 => Q::MethodRef(c.clone(), k.clone()),
						_ => Q::MethodRefObj(c.clone(), k.clone()),
					};
					// the other methods take an object class name
					if is_arr && !matches!(q, Q::ClassAny(_) | Q::MethodRef(..) | Q::Desc(..)) { continue; }
					let a = match eval_b(&wrapped, &q) { Ok(a) => a, Err(p) => { r.violation(format!("{} failed: {p}", show_q(&q)), replay(&show_q(&q))); continue; } };
					let want: Ans = match &q {
						Q::ClassAny(c) => Ans::RStr(if is_arr { ref_scan(c, &fmap) } else { fmap(c) }),
						Q::Desc(_, d) => Ans::RStr(ref_scan(d, &fmap)),
						Q::FieldFail(..) | Q::MethodFail(..) => Ans::ROptKey(Some(None)),
						Q::Field(_, k) | Q::Method(_, k) => Ans::RKey(member(k)),
						Q::FieldRef(o, k) | Q::MethodRefObj(o, k) => Ans::RKey3(member(k).and_then(|k2| fmap(o).map(|c2| (c2, k2)))),
						Q::MethodRef(o, k) => Ans::RKey3(if is_arr { ref_scan(o, &fmap).map(|c2| (c2, k.clone())) } else { member(k).and_then(|k2| fmap(o).map(|c2| (c2, k2))) }),
						_ => unreachable!(),
					};
					r.count("trait_stream_query");
					if matches!(a, Ans::RStr(None) | Ans::RKey(None) | Ans::RKey3(None)) { r.count("trait_stream_answer_err"); }
					if a != want { let what = format!("hand-written remapper in ARemapperAsBRemapper: {} = {}, the default methods over its map_class_fail give {}", show_q(&q), show_ans(&a), show_ans(&want)); r.violation(what.clone(), replay(&what)); }
					out.push(g_query(&q, &a));
				}
			}
		}
		r.eval(&format!("T{:?}|{:?}|{}", tbl, bad, out.join(";")), !tbl.is_empty());
		r.case("traits", format!("CT {} {} {} {g_ps} {g_got}", glist(tbl.iter().map(|(k, v)| gpair(gstr(k), gstr(v)))), glist(bad.iter().map(|x| gstr(x))), glist(out)));
	}
}

// =====================================================================================
// generators
// =====================================================================================
#[derive(Clone)]
struct World { m: MMappings, from: usize, to: usize, provs: Vec<Vec<(S, Vec<S>)>>, queries: Vec<Q>, kind: &'static str,
	/// a hierarchy with exponentially many paths: nothing that enumerates the pre-order is evaluated (statistics, the hypotheses of the inherited round trip)
	big: bool }

const CLS0: [&str; 18] = ["A", "B", "C", "D", "E", "L", "LL", "a/B", "p/q/L", "A$B", "A$1", "Ü", "名/π", "x", "I", "La", "net/minecraft/C_12", "\u{10400}"];
const UNMAPPED: [&str; 4] = ["U", "V$1", "java/lang/Object", "L"];
const SMALLPOOL: [&str; 7] = ["X", "Y", "Z", "A", "B", "L", "p/X"];
const FNAMES: [&str; 5] = ["f", "g", "h", "L", "value"];
const MNAMES: [&str; 5] = ["m", "n", "<init>", "get", "L"];
const BAD_DESCS: [&str; 12] = ["L;", "LA", "(L;)V", "[L", "(LA;LB)V", "L;A;", "IL", "(I)L", "[[L;", "LA;L", "L", "(L"];
const ODD_DESCS: [&str; 8] = ["", "X", "LA;LB;", ")(", "[", "(I", "V", "LA;;"];

fn gen_fdesc(rng: &mut Rng, classes: &[S]) -> S {
	let mut d = vec![];
	let dims = match rng.below(8) { 0 => rng.range(1, 3), 1 => 1, _ => 0 };
	for _ in 0..dims { d.push('[' as u32); }
	if rng.chance(2, 5) || classes.is_empty() { d.push(*rng.pick(&s("BCDFIJSZ")[..])); }
	else {
		d.push('L' as u32);
		if rng.chance(1, 6) { d.extend(s(*rng.pick(&UNMAPPED[..]))); } else { d.extend(rng.pick(classes).clone()); }
		d.push(';' as u32);
	}
	d
}
fn gen_mdesc(rng: &mut Rng, classes: &[S]) -> S {
	let mut d = vec!['(' as u32];
	for _ in 0..rng.below(4) { d.extend(gen_fdesc(rng, classes)); }
	d.push(')' as u32);
	if rng.chance(1, 3) { d.push('V' as u32); } else { d.extend(gen_fdesc(rng, classes)); }
	d
}

struct WCfg { n: usize, injective: bool, malformed: bool, overlap: bool, cyclic: bool, kind: &'static str }

fn gen_world(rng: &mut Rng, cfg: &WCfg) -> World {
	let n = cfg.n;
	let from = rng.below(n);
	let to = if rng.chance(1, 12) { from } else { let mut t = rng.below(n); if t == from { t = (t + 1) % n; } t };
	// ---- class rows ----
	let ncls = rng.range(1, 7);
	let mut names0: Vec<S> = vec![];
	while names0.len() < ncls { let c = s(*rng.pick(&CLS0[..])); if !names0.contains(&c) { names0.push(c); } }
	let absent = if cfg.overlap { 10 } else if cfg.injective { 6 } else { 4 }; // one in `absent` non-first cells is missing
	// overlapping stream: every namespace draws its class names from the SAME pool, injectively per
	// namespace (a name of one namespace is usually some other class's name in another namespace:
	// A -> B, B -> C, C -> A), half of the worlds with complete class rows
	let pools: Vec<Vec<S>> = if cfg.overlap { (0..n).map(|_| { let mut p: Vec<S> = CLS0.iter().map(|x| s(x)).collect(); rng.shuffle(&mut p); p }).collect() } else { vec![] };
	let complete = cfg.overlap && rng.chance(1, 2);
	let mut classes: Vec<MClass> = vec![];
	for (ci, c0) in names0.iter().enumerate() {
		let mut row: NamesRow = vec![Some(c0.clone())];
		for j in 1..n {
			if !complete && rng.chance(1, absent) { row.push(None); continue; }
			let nm = if cfg.overlap { pools[j][ci].clone() } else if cfg.injective {
				let mut x = if rng.chance(1, 3) { s(&format!("ns{j}/")) } else { vec![] };
				x.extend(c0.iter().map(|&c| if c == '/' as u32 { '_' as u32 } else { c })); x.extend(s(&format!("_{j}")));
				if rng.chance(1, 6) { x.extend(s("$L")); }
				x
			} else { s(*rng.pick(&SMALLPOOL[..])) };
			row.push(Some(nm));
		}
		let _ = ci;
		classes.push(MClass { names: row, doc: None, fields: vec![], methods: vec![] });
	}
	// ---- member keys (namespace 0), declared by several classes: shadowing ----
	let nfk = rng.range(1, 4); let nmk = rng.range(1, 4);
	let mut fkeys: Vec<Key> = vec![]; let mut mkeys: Vec<Key> = vec![];
	for _ in 0..nfk { let k = (s(*rng.pick(&FNAMES[..])), gen_fdesc(rng, &names0)); if !fkeys.contains(&k) { fkeys.push(k); } }
	for _ in 0..nmk { let k = (s(*rng.pick(&MNAMES[..])), gen_mdesc(rng, &names0)); if !mkeys.contains(&k) { mkeys.push(k); } }
	if cfg.malformed {
		for _ in 0..rng.range(1, 2) {
			let bad = if rng.chance(1, 2) { s(*rng.pick(&BAD_DESCS[..])) } else { s(*rng.pick(&ODD_DESCS[..])) };
			if rng.chance(1, 2) { let k = (s(*rng.pick(&FNAMES[..])), bad); if !fkeys.contains(&k) { fkeys.push(k); } } else { let k = (s(*rng.pick(&MNAMES[..])), bad); if !mkeys.contains(&k) { mkeys.push(k); } }
		}
	}
	let member_row = |rng: &mut Rng, ci: usize, ki: usize, name0: &S| -> NamesRow {
		let mut row: NamesRow = vec![Some(name0.clone())];
		for j in 1..n {
			if rng.chance(1, absent + 1) { row.push(None); continue; }
			let nm = if cfg.overlap {
				// the same small name set in every namespace, rotated: injective per class table, overlapping across namespaces
				if ki >= 10 { s(MNAMES[(ki - 10 + j) % MNAMES.len()]) } else { s(FNAMES[(ki + j) % FNAMES.len()]) }
			} else if cfg.injective {
				let mut x = name0.iter().map(|&c| if c == '<' as u32 || c == '>' as u32 { '_' as u32 } else { c }).collect::<S>();
				x.extend(s(&format!("_{j}k{ki}"))); if rng.chance(1, 3) { x.extend(s(&format!("c{ci}"))); }
				x
			} else { s(*rng.pick(&["a", "b", "f", "m", "L"][..])) };
			row.push(Some(nm));
		}
		row
	};
	for (ci, c) in classes.iter_mut().enumerate() {
		for (ki, k) in fkeys.iter().enumerate() { if rng.chance(1, 2) { c.fields.push(MField { desc: k.1.clone(), names: member_row(rng, ci, ki, &k.0), doc: None }); } }
		for (ki, k) in mkeys.iter().enumerate() { if rng.chance(1, 2) { c.methods.push(MMeth { desc: k.1.clone(), names: member_row(rng, ci, ki + 10, &k.0), doc: None, params: vec![] }); } }
	}
	let m = MMappings { ns: ["official", "intermediary", "named", "extra"][..n].iter().map(|x| s(x)).collect(), doc: None, classes };

	// ---- the class universe as seen from `from` ----
	let mut nodes: Vec<S> = m.classes.iter().map(|r| r.names[from].clone().unwrap_or_else(|| r.names[0].clone().unwrap())).collect();
	for u in UNMAPPED.iter().take(rng.range(1, 3)) { nodes.push(s(u)); }
	{ let mut d: Vec<S> = vec![]; for x in nodes { if !d.contains(&x) { d.push(x); } } nodes = d; }
	let mut order: Vec<usize> = (0..nodes.len()).collect(); rng.shuffle(&mut order);
	// edges only from earlier to later positions of `order`: acyclic by construction
	let mut inh: Vec<(S, Vec<S>)> = vec![];
	let shape = rng.below(4);
	for (pos, &i) in order.iter().enumerate() {
		let later: Vec<usize> = order[pos + 1..].to_vec();
		let mut sup: Vec<S> = vec![];
		match shape {
			0 => { if let Some(&j) = later.first() { sup.push(nodes[j].clone()); } }                    // chain
			1 => { if pos == 0 { for &j in later.iter().take(3) { sup.push(nodes[j].clone()); } }       // diamond: top -> up to 3 -> bottom
			       else if pos <= 3 { if let Some(&j) = later.get(3 - pos) { sup.push(nodes[j].clone()); } }
			       else if let Some(&j) = later.first() { sup.push(nodes[j].clone()); } }
			_ => { for &j in &later { if rng.chance(2, 5) && sup.len() < 3 { sup.push(nodes[j].clone()); } } }
		}
		if rng.chance(1, 4) { sup.push(s("ext/Root")); }
		if rng.chance(1, 10) { sup.insert(0, s("not/in/Provider")); }
		let mut ded: Vec<S> = vec![]; for x in sup { if !ded.contains(&x) && x != nodes[i] { ded.push(x); } }
		// the last node of the order is "java/lang/Object"-like: sometimes without an entry at all
		if ded.is_empty() && rng.chance(1, 2) { continue; }
		inh.push((nodes[i].clone(), ded));
	}
	// cyclic stream: one or two extra edges to an arbitrary entry (a self loop, a back edge closing a cycle of
	// any length, or a harmless forward edge), at an arbitrary position of the declaration order
	if cfg.cyclic && !inh.is_empty() {
		for _ in 0..rng.range(1, 2) {
			let (i, j) = (rng.below(inh.len()), rng.below(inh.len()));
			let tgt = inh[j].0.clone();
			let pos = rng.below(inh[i].1.len() + 1);
			if !inh[i].1.contains(&tgt) { inh[i].1.insert(pos, tgt); }
		}
	}
	rng.shuffle(&mut inh);
	let provs: Vec<Vec<(S, Vec<S>)>> = if rng.chance(1, 3) && inh.len() >= 2 {
		let cut = rng.range(1, inh.len() - 1);
		let (a, b) = inh.split_at(cut);
		let mut b = b.to_vec();
		// the second provider also knows a class of the first, with other super types: the first provider wins
		if rng.chance(1, 2) { b.push((a[0].0.clone(), vec![])); }
		vec![a.to_vec(), b]
	} else { vec![inh] };

	// ---- queries ----
	let mut queries: Vec<Q> = vec![];
	let rf = Ref { m: &m, from, to, inh: &[] };
	let mut member_qs: Vec<Q> = vec![];
	for (method, keys) in [(false, &fkeys), (true, &mkeys)] {
		for k0 in keys.iter() {
			// the names this key carries in `from` across rows, and its descriptor re-expressed in `from`
			let mut fnames: Vec<S> = vec![k0.0.clone()];
			for r in &m.classes {
				if method { for me in &r.methods { if me.names[0].as_ref() == Some(&k0.0) && me.desc == k0.1 { if let Some(x) = &me.names[from] { if !fnames.contains(x) { fnames.push(x.clone()); } } } } }
				else { for f in &r.fields { if f.names[0].as_ref() == Some(&k0.0) && f.desc == k0.1 { if let Some(x) = &f.names[from] { if !fnames.contains(x) { fnames.push(x.clone()); } } } } }
			}
			let dfrom = rf.desc(0, from, &k0.1).flatten().unwrap_or_else(|| k0.1.clone());
			for nm in &fnames {
				for c in &nodes {
					let k = (nm.clone(), dfrom.clone());
					let q = match (method, rng.below(8)) {
						(false, 0) => Q::FieldFail(c.clone(), k), (false, 1) => Q::FieldRef(c.clone(), k), (false, _) => Q::Field(c.clone(), k),
						(true, 0) => Q::MethodFail(c.clone(), k), (true, 1) => Q::MethodRef(c.clone(), k), (true, 2) => Q::MethodRefObj(c.clone(), k), (true, _) => Q::Method(c.clone(), k),
					};
					member_qs.push(q);
				}
			}
			// near misses: the descriptor as written in namespace 0, an unknown name, a malformed descriptor
			let c = rng.pick(&nodes[..]).clone();
			if method {
				member_qs.push(Q::Method(c.clone(), (k0.0.clone(), k0.1.clone())));
				member_qs.push(Q::Method(c.clone(), (s("nope"), dfrom.clone())));
				member_qs.push(Q::Method(c.clone(), (k0.0.clone(), s(*rng.pick(&BAD_DESCS[..])))));
				let mut arr = s("[L"); arr.extend(c.clone()); arr.push(';' as u32);
				member_qs.push(Q::MethodRef(arr, (s("clone"), s("()Ljava/lang/Object;"))));
			} else {
				member_qs.push(Q::Field(c.clone(), (k0.0.clone(), k0.1.clone())));
				member_qs.push(Q::FieldFail(c.clone(), (s("nope"), dfrom.clone())));
				member_qs.push(Q::Field(c.clone(), (k0.0.clone(), s(*rng.pick(&BAD_DESCS[..])))));
			}
		}
	}
	rng.shuffle(&mut member_qs);
	member_qs.truncate(36);
	queries.extend(member_qs);
	let mut cls: Vec<S> = nodes.clone();
	for r in &m.classes { for x in r.names.iter().flatten() { if !cls.contains(x) { cls.push(x.clone()); } } }
	cls.push(s("not/Mapped"));
	for c in &cls {
		queries.push(match rng.below(3) { 0 => Q::Class(c.clone()), 1 => Q::ClassFail(c.clone()), _ => Q::ClassAny(c.clone()) });
		if rng.chance(1, 3) { let mut a = vec!['[' as u32; rng.range(1, 3)]; a.push('L' as u32); a.extend(c.clone()); a.push(';' as u32); queries.push(Q::ClassAny(a)); }
	}
	for a in ["[I", "[[[D", "[", "[L;", "[LA", "[[LA;"] { if rng.chance(1, 4) { queries.push(Q::ClassAny(s(a))); } }
	// array dimensions at the limit of the grammar: 255 is a descriptor, 256 is not (the scanner copies the brackets either way)
	if rng.chance(1, 6) {
		let dims = if rng.chance(1, 2) { 255 } else { 256 };
		let mut a = vec!['[' as u32; dims];
		if rng.chance(1, 2) { a.push('L' as u32); a.extend(rng.pick(&cls[..]).clone()); a.push(';' as u32); } else { a.push('J' as u32); }
		queries.push(match rng.below(3) { 0 => Q::ClassAny(a), 1 => Q::Desc(0, a), _ => { let mut m = s("("); m.extend(a); m.extend(s(")V")); Q::Desc(1, m) } });
	}
	for _ in 0..4 {
		queries.push(Q::Desc(0, gen_fdesc(rng, &cls)));
		queries.push(Q::Desc(1, gen_mdesc(rng, &cls)));
		let r = if rng.chance(1, 3) { s("V") } else { gen_fdesc(rng, &cls) };
		queries.push(Q::Desc(2, r));
	}
	queries.push(Q::Desc(rng.below(3) as u8, s(*rng.pick(&BAD_DESCS[..]))));
	queries.push(Q::Desc(rng.below(3) as u8, s(*rng.pick(&ODD_DESCS[..]))));
	World { m, from, to, provs, queries, kind: cfg.kind, big: false }
}

fn build_provs(provs: &[Vec<(S, Vec<S>)>]) -> Vec<JarSuperProv> {
	provs.iter().map(|p| {
		let mut super_classes: IndexMap<ObjClassName, IndexSet<ObjClassName>> = IndexMap::new();
		for (c, ss) in p { super_classes.insert(class_name(c), ss.iter().map(class_name).collect()); }
		JarSuperProv { super_classes }
	}).collect()
}
/// the entry lists as the providers iterate them (IndexMap/IndexSet order), concatenated
fn flat_inh(provs: &[JarSuperProv]) -> Vec<(S, Vec<S>)> {
	provs.iter().flat_map(|p| p.super_classes.iter().map(|(c, ss)| (cps(c.as_inner()), ss.iter().map(|x| cps(x.as_inner())).collect()))).collect()
}
/// the entry lists per provider, as each IndexMap / IndexSet iterates
fn prov_lists(provs: &[JarSuperProv]) -> Vec<Vec<(S, Vec<S>)>> {
	provs.iter().map(|p| p.super_classes.iter().map(|(c, ss)| (cps(c.as_inner()), ss.iter().map(|x| cps(x.as_inner())).collect())).collect()).collect()
}
fn g_provs(ps: &[Vec<(S, Vec<S>)>]) -> String { glist(ps.iter().map(|p| g_inh(p))) }
fn g_inh(inh: &[(S, Vec<S>)]) -> String { glist(inh.iter().map(|(c, ss)| gpair(gstr(c), glist(ss.iter().map(|x| gstr(x)))))) }

fn replay_text(w: &World, inh: &[(S, Vec<S>)], what: &str) -> String {
	let mut t = format!("property C06\nwhat: {what}\nnamespaces: {} (from = {}, to = {})\nmapping rows (names per namespace, '-' = absent):\n", w.m.ns.len(), w.from, w.to);
	let row = |r: &NamesRow| r.iter().map(|o| o.as_ref().map(|x| show(x)).unwrap_or("-".into())).collect::<Vec<_>>().join(" | ");
	for c in &w.m.classes {
		t += &format!("  class {}\n", row(&c.names));
		for f in &c.fields { t += &format!("    field {} : {}\n", row(&f.names), show(&f.desc)); }
		for me in &c.methods { t += &format!("    method {} : {}\n", row(&me.names), show(&me.desc)); }
	}
	t += "super types (class -> declaration order):\n";
	for (c, ss) in inh { t += &format!("  {} -> [{}]\n", show(c), ss.iter().map(|x| show(x)).collect::<Vec<_>>().join(", ")); }
	t += &format!("gallina: {} / inh {}\n", g_mappings(&w.m), g_inh(inh));
	t
}

// =====================================================================================
// one world through the implementation, the oracle, and into a correspondence case
// =====================================================================================
fn run_world<const N: usize>(r: &mut Report, w: &World) -> anyhow::Result<()> {
	let qm: Mappings<N, NsAny> = match to_quill(&w.m) { Ok(q) => q, Err(_) => { r.count("world_rejected_by_to_quill"); return Ok(()); } };
	let from = Namespace::<N>::new(w.from)?; let to = Namespace::<N>::new(w.to)?;
	let provs = build_provs(&w.provs);
	let inh = flat_inh(&provs);
	let rf = Ref { m: &w.m, from: w.from, to: w.to, inh: &inh };
	let stream = w.kind;
	// worlds of these streams are generated inside the decidable hypotheses of the theorems; the model re-checks that
	let hyp = w.kind == "injective" || w.kind == "overlapping" || w.kind == "fixed";
	if hyp { r.count("worlds_inside_theorem_hypotheses"); }
	let canon = format!("{}|{}|{}|{}", g_mappings(&w.m), w.from, w.to, g_inh(&inh));
	let acyc = acyclic(&inh);
	r.count(if acyc { "provider_acyclic" } else { "provider_cyclic" });
	fbh::report::crumb(&replay_text(w, &inh, "the process died (stack overflow / abort / endless loop) while the remappers of this world were built or queried"));
	r.count(&format!("namespaces_{N}"));
	r.count(&format!("from_{}", if w.from == 0 { "first" } else { "not_first" }));
	if w.from == w.to { r.count("from_equals_to"); }
	r.count(&format!("providers_{}", provs.len()));

	// ---- A remapper ----
	let mut qa = String::from("[]");
	match guarded(AssertUnwindSafe(|| qm.remapper_a(from, to))) {
		Err(p) => r.violation(format!("remapper_a panicked: {p}"), replay_text(w, &inh, "remapper_a panicked")),
		Ok(Err(e)) => r.violation(format!("remapper_a returned Err: {e}"), replay_text(w, &inh, "remapper_a returned Err")),
		Ok(Ok(ra)) => {
			let mut out = vec![];
			for q in w.queries.iter().filter(|q| matches!(q, Q::Class(_) | Q::ClassFail(_) | Q::ClassAny(_) | Q::Desc(..))) {
				match eval_a(&ra, q).unwrap() {
					Err(p) => r.violation(format!("ARemapperImpl::{} failed: {p}", show_q(q)), replay_text(w, &inh, &show_q(q))),
					Ok(a) => { judge(r, w, &inh, &rf, q, &a, "ARemapperImpl"); shape_law(r, &ra, q, "ARemapperImpl", &|what| replay_text(w, &inh, what)); out.push(g_query(q, &a)); }
				}
			}
			// the same table as a BRemapper without member tables
			let wrapped = quill::remapper::ARemapperAsBRemapper(ra);
			for q in w.queries.iter().filter(|q| matches!(q, Q::Field(..) | Q::Method(..) | Q::FieldFail(..) | Q::MethodFail(..) | Q::FieldRef(..) | Q::MethodRef(..) | Q::MethodRefObj(..))).take(8) {
				match eval_b(&wrapped, q) {
					Err(p) => r.violation(format!("ARemapperAsBRemapper::{} failed: {p}", show_q(q)), replay_text(w, &inh, &show_q(q))),
					Ok(a) => {
						r.count("queries_against_ARemapperAsBRemapper");
						// no member tables: unchanged name, descriptor rewritten (checked against parse-map-print on grammar descriptors)
						if let (Q::Field(_, k) | Q::Method(_, k), Ans::RKey(got)) = (q, &a) {
							let in_grammar = if matches!(q, Q::Method(..)) { o_method(&k.1).is_some() } else { o_field(&k.1).is_some() };
							if in_grammar { if let Some(Some(d)) = rf.desc(w.from, w.to, &k.1) { if *got != Some((k.0.clone(), d.clone())) {
								let what = format!("ARemapperAsBRemapper::{} = {}, expected the unchanged name with descriptor {}", show_q(q), show_ans(&a), show(&d));
								r.violation(what.clone(), replay_text(w, &inh, &what)); } } }
						}
						// the *_ref methods: the class through map_class / map_class_any, the member as above
						if let (Q::FieldRef(o, k) | Q::MethodRef(o, k) | Q::MethodRefObj(o, k), Ans::RKey3(got)) = (q, &a) {
							let is_arr = o.first() == Some(&('[' as u32));
							let in_grammar = if matches!(q, Q::FieldRef(..)) { o_field(&k.1).is_some() } else { o_method(&k.1).is_some() };
							let want = if is_arr { if o_field(o).is_some() { rf.desc(w.from, w.to, o).flatten().map(|c| (c, k.clone())) } else { None } }
								else if in_grammar { let cs = rf.class(o); match (cs.len(), rf.desc(w.from, w.to, &k.1).flatten()) { (1, Some(d)) => Some((cs[0].clone(), (k.0.clone(), d))), _ => None } } else { None };
							if let Some(want) = want { if *got != Some(want.clone()) {
								let what = format!("ARemapperAsBRemapper::{} = {}, expected {} (class mapped, name kept, descriptor rewritten)", show_q(q), show_ans(&a), show_ans(&Ans::RKey3(Some(want))));
								r.violation(what.clone(), replay_text(w, &inh, &what)); } }
						}
						if let (Q::FieldFail(..) | Q::MethodFail(..), Ans::ROptKey(got)) = (q, &a) { if *got != Some(None) {
							let what = format!("ARemapperAsBRemapper::{} = {}, expected Ok(None)", show_q(q), show_ans(&a)); r.violation(what.clone(), replay_text(w, &inh, &what)); } }
						out.push(g_query(q, &a));
					}
				}
			}
			qa = glist(out);
		}
	}

	// ---- B remapper ----
	let built = guarded(AssertUnwindSafe(|| qm.remapper_b(from, to, &provs)));
	let rb = match built {
		Err(p) => { r.violation(format!("remapper_b panicked: {p}"), replay_text(w, &inh, "remapper_b panicked")); return Ok(()); }
		Ok(Err(_)) => {
			r.count("remapper_b_err");
			r.eval(&canon, false);
			// remapper_b may only fail when some descriptor of a row is outside the grammar
			let all_ok = w.m.classes.iter().all(|c| c.fields.iter().all(|f| o_field(&f.desc).is_some()) && c.methods.iter().all(|me| o_method(&me.desc).is_some()));
			if all_ok { r.violation("remapper_b returned Err although every descriptor of the mappings is a valid descriptor".into(), replay_text(w, &inh, "remapper_b returned Err")); }
			r.case(stream, format!("CB {} false {} {} {} {} {qa} false [] [] []", gbool(hyp), g_mappings(&w.m), w.from, w.to, g_provs(&prov_lists(&provs))));
			return Ok(());
		}
		Ok(Ok(rb)) => rb,
	};
	let mut out = vec![];
	let mut hits = 0;
	for q in &w.queries {
		match eval_b(&rb, q) {
			Err(p) => r.violation(format!("BRemapperImpl::{} failed: {p}", show_q(q)), replay_text(w, &inh, &show_q(q))),
			Ok(a) => {
				let verdict = judge(r, w, &inh, &rf, q, &a, "BRemapperImpl");
				shape_law(r, &rb, q, "BRemapperImpl", &|what| replay_text(w, &inh, what));
				match (&a, q) {
					(Ans::ROptKey(Some(Some(_))), _) => { hits += 1; r.count("member_found"); }
					(Ans::RKey(Some(k2)), Q::Field(_, k) | Q::Method(_, k)) if k2.0 != k.0 => { hits += 1; r.count("member_found"); }
					(Ans::RKey(Some(_)), _) => r.count("member_fallback"),
					(Ans::RKey(None) | Ans::RKey3(None) | Ans::ROptKey(None), Q::Field(o, k) | Q::Method(o, k) | Q::FieldFail(o, k) | Q::MethodFail(o, k) | Q::FieldRef(o, k) | Q::MethodRefObj(o, k))
						if rf.member_fail(matches!(q, Q::Method(..) | Q::MethodFail(..) | Q::MethodRefObj(..)), o, k) == Ok(None) => r.count("answer_err_cyclic_inheritance"),
					(Ans::RKey(None) | Ans::RKey3(None) | Ans::RStr(None) | Ans::ROptKey(None), _) => r.count("answer_err"),
					_ => {}
				}
				let _ = verdict;
				if let (true, Q::Field(o, k) | Q::Method(o, k) | Q::FieldFail(o, k) | Q::MethodFail(o, k)) = (acyc && !w.big, q) {
					let method = matches!(q, Q::Method(..) | Q::MethodFail(..));
					let pre = rf.preorder(o);
					let decl: Vec<usize> = pre.iter().enumerate().filter(|(_, x)| rf.declared(method, x, k).map(|v| !v.is_empty()).unwrap_or(false)).map(|(i, _)| i).collect();
					let has_entry = |c: &S| w.m.classes.iter().any(|row| row.names[w.from].as_ref() == Some(c) && row.names[w.to].is_some());
					if let Some(&first) = decl.first() {
						if first == 0 { r.count("hit_declared_by_owner"); } else { r.count("hit_inherited"); }
						if first > 0 && !has_entry(o) { r.count("hit_inherited_owner_without_entry"); }
						// the owner's own row carries the key with a source name but WITHOUT a target name: it must not hide the inherited name
						if first > 0 && w.m.classes.iter().any(|row| row.names[w.from].as_ref() == Some(o) && row.names[w.to].is_some() && {
							let members: Vec<(&S, &NamesRow)> = if method { row.methods.iter().map(|m| (&m.desc, &m.names)).collect() } else { row.fields.iter().map(|f| (&f.desc, &f.names)).collect() };
							members.iter().any(|(d0, names)| names[w.from].as_ref() == Some(&k.0) && names[w.to].is_none() && rf.desc(0, w.from, d0).flatten().as_ref() == Some(&k.1)) }) {
							r.count("hit_inherited_past_owner_row_without_target_name");
						}
						if first > 1 && pre[1..first].iter().any(|c| !has_entry(c)) { r.count("hit_inherited_through_class_without_entry"); }
						if decl.iter().any(|&i| pre[i] != pre[first]) { r.count("hit_shadowing_other_declaring_types_later_in_preorder"); }
						if pre.len() > pre.iter().collect::<std::collections::HashSet<_>>().len() { r.count("hit_in_diamond_preorder_with_repeats"); }
					}
					r.count(&format!("preorder_len_{}", match pre.len() { 1 => "1", 2..=3 => "2-3", 4..=7 => "4-7", _ => "8+" }));
				}
				out.push(g_query(q, &a));
			}
		}
	}
	r.eval(&canon, hits > 0);
	r.count(&format!("queries_per_world_{}", (w.queries.len() / 10) * 10));
	// ---- the same tables with NoSuperClassProvider: only the owner's own table answers ----
	if w.queries.len() % 3 == 0 && !w.big {
		match guarded(AssertUnwindSafe(|| qm.remapper_b(from, to, NoSuperClassProvider::new()))) {
			Ok(Ok(rb_ns)) => {
				let rf_ns = Ref { m: &w.m, from: w.from, to: w.to, inh: &[] };
				let mut out_ns = vec![];
				for q in w.queries.iter().filter(|q| !matches!(q, Q::Class(_) | Q::ClassFail(_) | Q::ClassAny(_) | Q::Desc(..))).take(10) {
					match eval_b(&rb_ns, q) {
						Err(p) => r.violation(format!("BRemapperImpl over NoSuperClassProvider::{} failed: {p}", show_q(q)), replay_text(w, &[], &show_q(q))),
						Ok(a) => { judge(r, w, &[], &rf_ns, q, &a, "BRemapperImpl over NoSuperClassProvider"); r.count("queries_against_NoSuperClassProvider"); out_ns.push(g_query(q, &a)); }
					}
				}
				r.case(stream, format!("CN {} {} {} {}", g_mappings(&w.m), w.from, w.to, glist(out_ns)));
			}
			_ => r.violation("remapper_b(from, to, NoSuperClassProvider) failed although remapper_b(from, to, providers) succeeded".into(), replay_text(w, &inh, "remapper_b(.., NoSuperClassProvider) failed")),
		}
	}
	// ---- X -> Y -> X on the implementation ----
	let coh = member_desc_law(r, w, &inh, &rf, &rb);
	fbh::report::crumb(&replay_text(w, &inh, "the process died (stack overflow / abort / endless loop) on the way back: JarSuperProv::remap through the forward remapper, remapper_b(to, from) on the remapped providers, or a query against it"));
	let (psy, rts) = roundtrip::<N>(r, w, &qm, &rb, &provs, &inh, acyc);
	r.case(stream, format!("CB {} {} {} {} {} {} {qa} true {} {psy} {rts}", gbool(hyp), gbool(coh), g_mappings(&w.m), w.from, w.to, g_provs(&prov_lists(&provs)), glist(out)));
	Ok(())
}

/// compares one implementation answer with the independent reference
fn judge(r: &mut Report, w: &World, inh: &[(S, Vec<S>)], rf: &Ref, q: &Q, a: &Ans, who: &str) -> bool {
	let want = rf.want(q);
	let ok = match &want { Want::Exactly(x) => x == a, Want::OneOf(v) => v.contains(a), Want::Unspecified => true };
	match &want { Want::Exactly(_) => r.count("oracle_exact"), Want::OneOf(_) => r.count("oracle_one_of_ambiguous"), Want::Unspecified => r.count("oracle_unspecified") }
	if !ok {
		let what = format!("{who}::{} = {}, reference lookup (own DFS / parse-map-print) says {}", show_q(q), show_ans(a),
			match &want { Want::Exactly(x) => show_ans(x), Want::OneOf(v) => v.iter().map(show_ans).collect::<Vec<_>>().join(" or "), Want::Unspecified => "?".into() });
		if let Some(id) = classify_known(rf, q, a) { r.known(id); } else { r.violation(what.clone(), replay_text(w, inh, &what)); }
	}
	ok
}

/// The shape law with duke's OWN descriptor parser and printer (duke/src/tree/descriptor.rs), on the implementation
/// alone: a descriptor the parser accepts is rewritten to exactly what one gets by parsing it, sending the class
/// names of the parsed type through `map_class` of the same remapper, and writing the type again; and the parser
/// accepts exactly the strings of the reference grammar.  Also FieldDescriptor::from_class commutes with
/// map_class_any, and ReturnDescriptor::from(FieldDescriptor) with the rewrite.
fn shape_law<R: ARemapper + ?Sized>(r: &mut Report, rm: &R, q: &Q, who: &str, replay: &dyn Fn(&str) -> String) {
	fn map_ty<R: ARemapper + ?Sized>(rm: &R, t: &Type) -> anyhow::Result<Type> {
		Ok(match t {
			Type::Object(n) => Type::Object(rm.map_class(n)?),
			Type::Array(d, ArrayType::Object(n)) => match n.as_obj() { Some(o) => Type::Array(*d, ArrayType::Object(rm.map_class(o)?.into())), None => t.clone() },
			other => other.clone(),
		})
	}
	match q {
		Q::Desc(kind, d) => {
			let js = jstring(d);
			let parsed = std::cell::Cell::new(false);
			let (accepted, via_tree): (bool, Option<S>) = match guarded(AssertUnwindSafe(|| -> anyhow::Result<S> {
				Ok(match kind {
					0 => { let p = unsafe { FieldDescriptorSlice::from_inner_unchecked(&js) }.parse()?; parsed.set(true); cps(ParsedFieldDescriptor(map_ty(rm, &p.0)?).write().as_inner()) }
					1 => { let p = unsafe { MethodDescriptorSlice::from_inner_unchecked(&js) }.parse()?; parsed.set(true);
						let ps = p.parameter_descriptors.iter().map(|t| map_ty(rm, t)).collect::<anyhow::Result<Vec<_>>>()?;
						let rt = p.return_descriptor.as_ref().map(|t| map_ty(rm, t)).transpose()?;
						cps(ParsedMethodDescriptor { parameter_descriptors: ps, return_descriptor: rt }.write().as_inner()) }
					_ => { let p = unsafe { ReturnDescriptorSlice::from_inner_unchecked(&js) }.parse()?; parsed.set(true);
						cps(ParsedReturnDescriptor(p.0.as_ref().map(|t| map_ty(rm, t)).transpose()?).write().as_inner()) }
				})
			})) {
				Ok(Ok(x)) => (true, Some(x)),
				Ok(Err(_)) => (parsed.get(), None),
				Err(p) => { r.count("shape_law_parse_or_write_panicked"); let what = format!("duke's parse / write panicked on {}: {p}", show(d)); r.violation(what.clone(), replay(&what)); return; }
			};
			let in_grammar = match kind { 0 => o_field(d).is_some(), 1 => o_method(d).is_some(), _ => o_return(d).is_some() };
			if accepted != in_grammar {
				let what = format!("duke's {} descriptor parser {} {}, the JVMS grammar (reference recogniser) says the opposite", ["field", "method", "return"][*kind as usize], if accepted { "accepts" } else { "rejects" }, show(d));
				r.violation(what.clone(), replay(&what));
			}
			let Some(want) = via_tree else { return };
			r.count("shape_law_parse_map_write");
			if let Some(Ok(Ans::RStr(got))) = eval_a(rm, q) {
				if got.as_ref() != Some(&want) {
					let what = format!("{who}::{} = {}, but parse -> map_class on the parsed type -> write (duke's own parser and printer) gives {}", show_q(q), show_ans(&Ans::RStr(got.clone())), show(&want));
					r.violation(what.clone(), replay(&what));
				}
			}
			// a field descriptor is a return descriptor: the conversion commutes with the rewrite
			if *kind == 0 {
				let fd = field_desc(d);
				let a = guarded(AssertUnwindSafe(|| rm.map_field_desc(&fd).ok().map(|x| cps(ReturnDescriptor::from(x).as_inner()))));
				let b = guarded(AssertUnwindSafe(|| rm.map_return_desc(&ReturnDescriptor::from(fd.clone())).ok().map(|x| cps(x.as_inner()))));
				r.count("shape_law_field_as_return");
				if a != b { let what = format!("{who}: map_return_desc(ReturnDescriptor::from({})) = {:?} but ReturnDescriptor::from(map_field_desc(..)) = {:?}", show(d), b.as_ref().map(|x| x.as_ref().map(|x| show(x))), a.as_ref().map(|x| x.as_ref().map(|x| show(x)))); r.violation(what.clone(), replay(&what)); }
			}
		}
		Q::ClassAny(c) => {
			// class name -> field descriptor commutes with the remapper (object and array class names of the grammar)
			let is_arr = c.first() == Some(&('[' as u32));
			if (is_arr && o_field(c).is_none()) || (!is_arr && !o_class_name(c)) { return; }
			let js = jstring(c);
			let sl = unsafe { ClassNameSlice::from_inner_unchecked(&js) };
			let a = guarded(AssertUnwindSafe(|| rm.map_field_desc(&FieldDescriptor::from_class(sl)).ok().map(|x| cps(x.as_inner()))));
			let b = guarded(AssertUnwindSafe(|| rm.map_class_any(sl).ok().map(|x| cps(FieldDescriptor::from_class(&x).as_inner()))));
			r.count("shape_law_from_class");
			if a != b || !matches!(a, Ok(Some(_))) {
				let what = format!("{who}: map_field_desc(FieldDescriptor::from_class({})) = {:?} but FieldDescriptor::from_class(map_class_any(..)) = {:?}", show(c), a.as_ref().map(|x| x.as_ref().map(|x| show(x))), b.as_ref().map(|x| x.as_ref().map(|x| show(x))));
				r.violation(what.clone(), replay(&what));
			}
		}
		_ => {}
	}
}

/// A law on the implementation alone: when a member is found, the descriptor of the answer is the descriptor of the
/// query sent through map_field_desc / map_method_desc of the SAME remapper (what dukebox relies on when it remaps a
/// reference and a descriptor side by side).  It holds when every class row is complete in the three namespaces
/// involved (first, from, to), the names of the first and of the `from` namespace are pairwise distinct, and every
/// class name a row descriptor mentions is a first-namespace name or is not some class's `from` name
/// (C06_member_desc_coherent; a partial row breaks it: C06_member_desc_needs_complete).
fn member_desc_law(r: &mut Report, w: &World, inh: &[(S, Vec<S>)], _rf: &Ref, rb: &impl BRemapper) -> bool {
	let (f, t) = (w.from, w.to);
	let col = |j: usize| -> Vec<&S> { w.m.classes.iter().filter_map(|c| c.names[j].as_ref()).collect() };
	let distinct = |v: &Vec<&S>| v.iter().enumerate().all(|(i, a)| v[..i].iter().all(|b| a != b));
	let complete = w.m.classes.iter().all(|c| c.names[0].is_some() && c.names[f].is_some() && c.names[t].is_some());
	let (c0, cf) = (col(0), col(f));
	let rows_ok = w.m.classes.iter().all(|c| c.fields.iter().map(|x| (false, &x.desc)).chain(c.methods.iter().map(|x| (true, &x.desc))).all(|(method, d)| {
		let in_grammar = if method { o_method(d).is_some() } else { o_field(d).is_some() };
		match ref_desc_names(d) { Some(ns) if in_grammar => ns.iter().all(|n| c0.contains(&n) || !cf.contains(&n)), _ => false } }));
	let scannable = cf.iter().all(|n| !n.is_empty() && !n.contains(&(';' as u32)));
	if !(complete && distinct(&c0) && distinct(&cf) && rows_ok && scannable) { r.count("desc_law_world_outside_hypotheses"); return false; }
	r.count("desc_law_world_inside_hypotheses");
	let mut seen: Vec<(bool, &S, &Key)> = vec![];
	for q in &w.queries {
		let (method, o, k) = match q {
			Q::Field(o, k) | Q::FieldFail(o, k) | Q::FieldRef(o, k) => (false, o, k),
			Q::Method(o, k) | Q::MethodFail(o, k) | Q::MethodRefObj(o, k) => (true, o, k),
			_ => continue,
		};
		if seen.contains(&(method, o, k)) { continue; }
		seen.push((method, o, k));
		let qf = if method { Q::MethodFail(o.clone(), k.clone()) } else { Q::FieldFail(o.clone(), k.clone()) };
		let Ok(Ans::ROptKey(Some(Some(found)))) = eval_b(rb, &qf) else { continue };
		let Some(Ok(Ans::RStr(d))) = eval_a(rb, &Q::Desc(if method { 1 } else { 0 }, k.1.clone())) else { continue };
		r.count("desc_law_checked");
		if d.as_ref() != Some(&found.1) {
			let what = format!("{} = Ok(Some({})), but {} of the same remapper = {}", show_q(&qf), show_key(&found),
				show_q(&Q::Desc(if method { 1 } else { 0 }, k.1.clone())), show_ans(&Ans::RStr(d.clone())));
			r.violation(what.clone(), replay_text(w, inh, &what));
		}
	}
	true
}

/// known-finding classifier (none recorded: F5 was repaired by a fix: commit)
fn classify_known(_rf: &Ref, _q: &Q, _a: &Ans) -> Option<String> { None }

/// returns the Gallina text of the remapped providers and of the inherited round-trip queries
fn roundtrip<const N: usize>(r: &mut Report, w: &World, qm: &Mappings<N, NsAny>, rb: &impl BRemapper, provs: &Vec<JarSuperProv>, inh: &[(S, Vec<S>)], acyc: bool) -> (String, String) {
	let none = ("[]".to_string(), "[]".to_string());
	let (x, y) = (w.from, w.to);
	let Ok(Ok(provs_y)) = guarded(AssertUnwindSafe(|| JarSuperProv::remap(rb, provs))) else { r.violation("JarSuperProv::remap failed".into(), replay_text(w, inh, "JarSuperProv::remap failed")); return none; };
	// JarSuperProv::remap by itself: every key and every listed super type is map_class of the original one, whether
	// or not the key has a mapping (judged when the reference knows the counterpart of every name involved)
	{
		let rfc = Ref { m: &w.m, from: x, to: y, inh: &[] };
		let lists = prov_lists(provs);
		if lists.iter().all(|p| p.iter().all(|(k, ss)| rfc.class(k).len() == 1 && ss.iter().all(|c| rfc.class(c).len() == 1))) {
			let f = |c: &S| Some(rfc.class(c)[0].clone());
			let want = ref_remap(&lists, &f).unwrap();
			let got = prov_lists(&provs_y);
			r.count("remap_provs_oracle");
			if got != want {
				let sh = |v: &Vec<Vec<(S, Vec<S>)>>| format!("{:?}", v.iter().map(|p| p.iter().map(|(k, ss)| (show(k), ss.iter().map(|x| show(x)).collect::<Vec<_>>())).collect::<Vec<_>>()).collect::<Vec<_>>());
				let what = format!("JarSuperProv::remap(remapper {x} -> {y}) = {}, but the key and every super type of every entry sent through the class map give {}", sh(&got), sh(&want));
				r.violation(what.clone(), replay_text(w, inh, &what));
			}
		} else { r.count("remap_provs_oracle_skipped_ambiguous_names"); }
	}
	let (Ok(nx), Ok(ny)) = (Namespace::<N>::new(x), Namespace::<N>::new(y)) else { return none };
	let back = match guarded(AssertUnwindSafe(|| qm.remapper_b(ny, nx, &provs_y))) { Ok(Ok(b)) => b, _ => { r.violation("remapper_b(to, from) failed although remapper_b(from, to) succeeded".into(), replay_text(w, inh, "remapper_b(to, from) failed")); return none; } };
	// the same tables without any inheritance information (C06_roundtrip: directly declared members come back whatever the providers are)
	let back_ns = match guarded(AssertUnwindSafe(|| qm.remapper_b(ny, nx, NoSuperClassProvider::new()))) { Ok(Ok(b)) => b, _ => { r.violation("remapper_b(to, from, NoSuperClassProvider) failed although remapper_b(from, to) succeeded".into(), replay_text(w, inh, "remapper_b(to, from, NoSuperClassProvider) failed")); return none; } };
	let both: Vec<&MClass> = w.m.classes.iter().filter(|c| c.names[x].is_some() && c.names[y].is_some()).collect();
	let count = |ns: usize, n: &S| both.iter().filter(|c| c.names[ns].as_ref() == Some(n)).count();
	// a class name the mappings name injectively, or that they do not touch at all
	let good = |c: &S| -> bool {
		match count(x, c) {
			0 => count(y, c) == 0,
			1 => { let row = both.iter().find(|r| r.names[x].as_ref() == Some(c)).unwrap(); count(y, row.names[y].as_ref().unwrap()) == 1 }
			_ => false,
		}
	};
	let rfx = Ref { m: &w.m, from: x, to: y, inh: &[] };
	let mut universe: Vec<S> = vec![];
	for q in &w.queries { if let Q::Class(c) | Q::ClassFail(c) = q { if !universe.contains(c) { universe.push(c.clone()); } } }
	for c in &w.m.classes { if let Some(n) = &c.names[x] { if !universe.contains(n) { universe.push(n.clone()); } } }
	for c in &universe {
		if !good(c) { r.count("roundtrip_class_skipped_not_injective"); continue; }
		let there = eval_a(rb, &Q::Class(c.clone())).unwrap();
		let Ok(Ans::Str(cy)) = there else { continue };
		let backa = eval_a(&back, &Q::Class(cy.clone())).unwrap();
		r.count("roundtrip_class");
		if backa != Ok(Ans::Str(c.clone())) {
			let what = format!("round trip: class {} -> {} -> {:?}", show(c), show(&cy), backa.as_ref().map(show_ans));
			r.violation(what.clone(), replay_text(w, inh, &what));
		}
	}
	for q in &w.queries {
		if let Q::Desc(k, d) = q {
			let Some(names) = ref_desc_names(d) else { continue };
			let in_grammar = match k { 0 => o_field(d).is_some(), 1 => o_method(d).is_some(), _ => o_return(d).is_some() };
			if !in_grammar || !names.iter().all(|n| good(n)) { r.count("roundtrip_desc_skipped"); continue; }
			let Ok(Ans::RStr(Some(dy))) = eval_a(rb, q).unwrap() else { continue };
			let backa = eval_a(&back, &Q::Desc(*k, dy.clone())).unwrap();
			r.count("roundtrip_desc");
			if backa != Ok(Ans::RStr(Some(d.clone()))) {
				let what = format!("round trip: descriptor {} -> {} -> {:?}", show(d), show(&dy), backa.as_ref().map(show_ans));
				r.violation(what.clone(), replay_text(w, inh, &what));
			}
		}
	}
	// directly declared members whose keys are unique in their class on both sides
	for row in &both {
		let cx = row.names[x].as_ref().unwrap();
		if !good(cx) { continue; }
		for method in [false, true] {
			let members: Vec<(&S, &NamesRow)> = if method { row.methods.iter().map(|m| (&m.desc, &m.names)).collect() } else { row.fields.iter().map(|f| (&f.desc, &f.names)).collect() };
			let mut keys: Vec<(Key, Key)> = vec![];
			let mut usable = true;
			for (d0, names) in &members {
				let (Some(nfx), Some(nty)) = (&names[x], &names[y]) else { continue };
				match (rfx.desc(0, x, d0).flatten(), rfx.desc(0, y, d0).flatten()) { (Some(dx), Some(dy)) => keys.push(((nfx.clone(), dx), (nty.clone(), dy))), _ => usable = false }
			}
			if !usable { continue; }
			for (kx, ky) in &keys {
				if keys.iter().filter(|(a, _)| a == kx).count() != 1 || keys.iter().filter(|(_, b)| b == ky).count() != 1 { r.count("roundtrip_member_skipped_not_injective"); continue; }
				let q1 = if method { Q::MethodRefObj(cx.clone(), kx.clone()) } else { Q::FieldRef(cx.clone(), kx.clone()) };
				let Ok(Ans::RKey3(Some((cy, k2)))) = eval_b(rb, &q1) else { continue };
				let q2 = if method { Q::MethodRefObj(cy.clone(), k2.clone()) } else { Q::FieldRef(cy.clone(), k2.clone()) };
				let b = eval_b(&back, &q2);
				let b_ns = eval_b(&back_ns, &q2);
				r.count("roundtrip_member");
				if k2 != *ky || b != Ok(Ans::RKey3(Some((cx.clone(), kx.clone())))) {
					let what = format!("round trip: {} = {}.{}, and back {:?}; the mappings say {}", show_q(&q1), show(&cy), show_key(&k2), b.as_ref().map(show_ans), show_key(ky));
					r.violation(what.clone(), replay_text(w, inh, &what));
				} else if b_ns != b {
					let what = format!("round trip: {} = {}.{}, and back without inheritance information (NoSuperClassProvider) {:?}", show_q(&q1), show(&cy), show_key(&k2), b_ns.as_ref().map(show_ans));
					r.violation(what.clone(), replay_text(w, inh, &what));
				}
				// a member nobody declares, asked without inheritance information: the fall-back (class and descriptor rewritten, name kept)
				let nope = (s("\u{1F980}nope"), k2.1.clone());
				let q3 = if method { Q::MethodRefObj(cy.clone(), nope.clone()) } else { Q::FieldRef(cy.clone(), nope.clone()) };
				let fb = eval_b(&back_ns, &q3);
				let want_fb = match (eval_a(&back_ns, &Q::Class(cy.clone())), eval_a(&back_ns, &Q::Desc(if method { 1 } else { 0 }, k2.1.clone()))) {
					(Some(Ok(Ans::Str(c))), Some(Ok(Ans::RStr(d)))) => Some(Ans::RKey3(d.map(|d| (c, (nope.0.clone(), d))))), _ => None };
				r.count("fallback_without_inheritance_information");
				if let Some(want_fb) = want_fb { if fb != Ok(want_fb.clone()) {
					let what = format!("{} against remapper_b(.., NoSuperClassProvider) = {:?}, expected the fall-back {}", show_q(&q3), fb.as_ref().map(show_ans), show_ans(&want_fb));
					r.violation(what.clone(), replay_text(w, inh, &what));
				} }
			}
		}
	}
	// ---- members reached through inheritance (and fall-back keys), for every owner of the queries ----
	// a class map that is not injective can make the remapped provider cyclic (A -> X, B -> X, A extends B):
	// the search then recurses without bound (outside the acyclicity hypothesis, see cycle_probe)
	// (a class map that is not injective can make the remapped provider cyclic — A -> X, B -> X, A extends B —
	// the way back then answers Err where the search meets the cycle; the model follows)
	let inh_y = flat_inh(&provs_y);
	if !acyclic(&inh_y) { r.count("rt_remapped_provider_cyclic"); }
	let rt = RtRef { rf: Ref { m: &w.m, from: x, to: y, inh }, both: both.clone() };
	let world_ok = acyc && !w.big && rt.world_ok();
	if world_ok { r.count("rt_world_inside_hypotheses"); } else { r.count("rt_world_outside_hypotheses"); }
	let mut seen: Vec<(bool, S, Key)> = vec![];
	let mut rts: Vec<String> = vec![];
	for q in &w.queries {
		let (method, o, k) = match q {
			Q::Field(o, k) | Q::FieldFail(o, k) | Q::FieldRef(o, k) => (false, o, k),
			Q::Method(o, k) | Q::MethodFail(o, k) | Q::MethodRefObj(o, k) => (true, o, k),
			_ => continue,
		};
		if seen.contains(&(method, o.clone(), k.clone())) || seen.len() >= 24 { continue; }
		seen.push((method, o.clone(), k.clone()));
		let q1 = if method { Q::MethodRefObj(o.clone(), k.clone()) } else { Q::FieldRef(o.clone(), k.clone()) };
		let Ok(Ans::RKey3(a1)) = eval_b(rb, &q1) else { continue };
		let a2 = match &a1 {
			None => None,
			Some((cy, k2)) => {
				let q2 = if method { Q::MethodRefObj(cy.clone(), k2.clone()) } else { Q::FieldRef(cy.clone(), k2.clone()) };
				match eval_b(&back, &q2) { Ok(Ans::RKey3(b)) => b, _ => { r.violation(format!("round trip: {} panicked on the way back", show_q(&q2)), replay_text(w, inh, "panic on the way back")); continue; } }
			}
		};
		let inside = world_ok && rt.owner_ok(method, o) && rt.query_ok(method, o, k);
		let returned = a2 == Some((o.clone(), k.clone()));
		let kind = if w.big { "tower of diamonds" } else if acyc { rt.kind(method, o, k) } else { "cyclic provider" };
		if inside {
			r.count(&format!("rt_inside:{kind}"));
			if !returned {
				let what = format!("inherited round trip inside the hypotheses: {} = {:?}, and back {:?}", show_q(&q1), a1.as_ref().map(|(c, k)| format!("{}.{}", show(c), show_key(k))), a2.as_ref().map(|(c, k)| format!("{}.{}", show(c), show_key(k))));
				r.violation(what.clone(), replay_text(w, inh, &what));
			}
		} else {
			r.count(&format!("rt_outside:{}", if returned { "returned anyway" } else if a1.is_none() { "forward Err" } else { "did not return" }));
		}
		let g3 = |a: &Option<(S, Key)>| gres(a.as_ref().map(|(c, k)| gpair(gstr(c), g_key(k))));
		rts.push(format!("RT {} {} {} {} {} {}", gbool(method), gbool(inside), gstr(o), g_key(k), g3(&a1), g3(&a2)));
	}
	(g_provs(&prov_lists(&provs_y)), glist(rts))
}

/// first-match provider lists: no class reaches itself
fn acyclic(inh: &[(S, Vec<S>)]) -> bool {
	fn visit(inh: &[(S, Vec<S>)], c: &S, path: &mut Vec<S>, done: &mut Vec<S>) -> bool {
		if done.contains(c) { return true; }
		if path.contains(c) { return false; }
		path.push(c.clone());
		if let Some((_, ss)) = inh.iter().find(|(k, _)| k == c) { for x in ss { if !visit(inh, x, path, done) { return false; } } }
		path.pop();
		done.push(c.clone());
		true
	}
	let mut done = vec![];
	inh.iter().all(|(c, _)| visit(inh, c, &mut vec![], &mut done))
}

/// the decidable hypotheses of the inherited round trip (coq/C06/Theory4.v: rt_world, rt_owner,
/// field_query_ok / method_query_ok), evaluated on the mapping rows and the provider.  Nothing here calls quill.
struct RtRef<'a> { rf: Ref<'a>, both: Vec<&'a MClass> }
impl<'a> RtRef<'a> {
	fn keys(&self) -> Vec<&S> { self.both.iter().map(|c| c.names[self.rf.from].as_ref().unwrap()).collect() }
	fn targets(&self) -> Vec<&S> { self.both.iter().map(|c| c.names[self.rf.to].as_ref().unwrap()).collect() }
	/// mapped, or not some class's target name
	fn closed(&self, c: &S) -> bool { self.keys().contains(&c) || !self.targets().contains(&c) }
	fn world_ok(&self) -> bool {
		let (ks, ts) = (self.keys(), self.targets());
		let distinct = |v: &Vec<&S>| v.iter().enumerate().all(|(i, a)| v[..i].iter().all(|b| a != b));
		// (source names distinct is more than the theorem asks: the reference lookup is only defined then)
		// tables_inj (swap_b R): inside every class the target keys of the fields / of the methods are pairwise distinct
		let members_inj = |method: bool| ks.iter().all(|c| match self.table(method, c) {
			Some(t) => t.iter().enumerate().all(|(i, (_, a))| t[..i].iter().all(|(_, b)| a != b)),
			None => false,
		});
		distinct(&ks) && distinct(&ts) && ts.iter().all(|t| o_class_name(t)) && members_inj(false) && members_inj(true)
			&& self.rf.inh.iter().all(|(c, ss)| self.closed(c) && ss.iter().all(|x| self.closed(x)))
	}
	/// the entries of the class row named `c` in `from` (None: a descriptor of the row cannot be re-expressed)
	fn table(&self, method: bool, c: &S) -> Option<Vec<(Key, Key)>> {
		let mut v = vec![];
		for row in self.both.iter().filter(|r| r.names[self.rf.from].as_ref() == Some(c)) {
			let members: Vec<(&S, &NamesRow)> = if method { row.methods.iter().map(|m| (&m.desc, &m.names)).collect() } else { row.fields.iter().map(|f| (&f.desc, &f.names)).collect() };
			for (d0, names) in members {
				let (Some(nf), Some(nt)) = (&names[self.rf.from], &names[self.rf.to]) else { continue };
				let df = self.rf.desc(0, self.rf.from, d0)??; let dt = self.rf.desc(0, self.rf.to, d0)??;
				v.push(((nf.clone(), df), (nt.clone(), dt)));
			}
		}
		Some(v)
	}
	fn visible(&self, method: bool, o: &S) -> Option<Vec<(Key, Key)>> {
		let mut v = vec![];
		for x in self.rf.preorder(o) { v.extend(self.table(method, &x)?); }
		Some(v)
	}
	fn owner_ok(&self, method: bool, o: &S) -> bool {
		if !self.closed(o) { return false; }
		let Some(v) = self.visible(method, o) else { return false };
		v.iter().all(|(k1, t1)| v.iter().all(|(k2, t2)| t1 != t2 || k1 == k2))
	}
	fn found(&self, method: bool, o: &S, k: &Key) -> Option<usize> {
		self.rf.preorder(o).iter().position(|x| self.table(method, x).map(|t| t.iter().any(|(a, _)| a == k)).unwrap_or(false))
	}
	fn query_ok(&self, method: bool, o: &S, k: &Key) -> bool {
		if self.found(method, o, k).is_some() { return true; }
		let in_grammar = if method { o_method(&k.1).is_some() } else { o_field(&k.1).is_some() };
		if !in_grammar { return false; }
		let Some(names) = ref_desc_names(&k.1) else { return false };
		if !names.iter().all(|n| self.closed(n)) { return false; }
		let Some(Some(d)) = self.rf.desc(self.rf.from, self.rf.to, &k.1) else { return false };
		let fb = (k.0.clone(), d);
		match self.visible(method, o) { Some(v) => !v.iter().any(|(_, t)| *t == fb), None => false }
	}
	fn kind(&self, method: bool, o: &S, k: &Key) -> &'static str {
		let has_entry = self.keys().contains(&o);
		match self.found(method, o, k) {
			Some(0) => "declared by the owner",
			Some(_) if has_entry => "inherited, owner has an entry",
			Some(_) => "inherited, owner without entry",
			None => "fall-back (declared nowhere)",
		}
	}
}


fn run_any(r: &mut Report, w: &World) -> anyhow::Result<()> {
	match w.m.ns.len() { 2 => run_world::<2>(r, w), 3 => run_world::<3>(r, w), _ => run_world::<4>(r, w) }
}

// ---------- fixed worlds ----------
fn names_row(v: &[&str]) -> NamesRow { v.iter().map(|x| if x.is_empty() { None } else { Some(s(x)) }).collect() }
/// F5: the owner `Sub` has no row at all, `Base.m` is renamed to `n`, Sub extends Base
fn world_f5() -> World {
	let base = MClass { names: names_row(&["Base", "Base_"]), doc: None,
		fields: vec![MField { desc: s("I"), names: names_row(&["f", "g"]), doc: None }],
		methods: vec![MMeth { desc: s("()V"), names: names_row(&["m", "n"]), doc: None, params: vec![] }] };
	let m = MMappings { ns: vec![s("official"), s("named")], doc: None, classes: vec![base] };
	let queries = vec![
		Q::Method(s("Sub"), (s("m"), s("()V"))), Q::MethodFail(s("Sub"), (s("m"), s("()V"))), Q::Field(s("Sub"), (s("f"), s("I"))),
		Q::MethodRef(s("Sub"), (s("m"), s("()V"))), Q::FieldRef(s("Sub"), (s("f"), s("I"))), Q::Method(s("Base"), (s("m"), s("()V"))),
		Q::Method(s("SubSub"), (s("m"), s("()V"))),
	];
	World { m, from: 0, to: 1, provs: vec![vec![(s("SubSub"), vec![s("Sub")]), (s("Sub"), vec![s("Base")]), (s("Base"), vec![s("java/lang/Object")])]], queries, kind: "fixed", big: false }
}

/// The demo inputs of the two repairs of the super-type search (classS4 / classS5 rows of quill/tests/remap_input.tiny):
/// (a) classS4 and classS5 are super types of each other: methodFromS5 asked on classS4 is found before the cycle
/// closes, a member nobody declares is an Err (it used to overflow the stack);
/// (b) a tower of 64 diamonds t0 -> (l0, r0) -> t1 -> ... -> classS5: methodFromS5 is found at the very top of the
/// recursion, a member nobody declares falls back (it used to take 2^64 steps).
fn world_repo_demo(tower: bool) -> World {
	let cls = |n: &str| MClass { names: names_row(&[&format!("classS{n}"), &format!("classS{n}_")]), doc: None,
		fields: vec![MField { desc: s("I"), names: names_row(&[&format!("fieldFromS{n}"), &format!("fieldFromS{n}_")]), doc: None }],
		methods: vec![MMeth { desc: s("(I)I"), names: names_row(&[&format!("methodFromS{n}"), &format!("methodFromS{n}_")]), doc: None, params: vec![] }] };
	let m = MMappings { ns: vec![s("namespaceA"), s("namespaceB")], doc: None, classes: vec![cls("4"), cls("5")] };
	let (owner, inh) = if tower {
		let mut inh = vec![];
		for i in 0..64 {
			let next = if i + 1 == 64 { s("classS5") } else { s(&format!("t{}", i + 1)) };
			inh.push((s(&format!("t{i}")), vec![s(&format!("l{i}")), s(&format!("r{i}"))]));
			inh.push((s(&format!("l{i}")), vec![next.clone()]));
			inh.push((s(&format!("r{i}")), vec![next]));
		}
		(s("t0"), inh)
	} else { (s("classS4"), vec![(s("classS4"), vec![s("classS5")]), (s("classS5"), vec![s("classS4")])]) };
	let queries = vec![
		Q::Method(owner.clone(), (s("methodFromS5"), s("(I)I"))), Q::MethodRefObj(owner.clone(), (s("methodFromS5"), s("(I)I"))),
		Q::Method(owner.clone(), (s("doesNotExist"), s("(I)I"))), Q::MethodFail(s("classS5"), (s("doesNotExist"), s("(I)I"))),
		Q::Field(owner.clone(), (s("doesNotExist"), s("I"))), Q::FieldFail(owner.clone(), (s("doesNotExist"), s("I"))), Q::FieldRef(owner.clone(), (s("fieldFromS5"), s("I"))),
	];
	World { m, from: 0, to: 1, provs: vec![inh], queries, kind: "repair-demos", big: tower }
}

/// three namespaces, every query with from = intermediary (not the first namespace): the stored descriptors are
/// written in the first namespace, keys must be asked in `from`, answers come in `to`; Sub declares nothing
fn world_three_ns(from: usize, to: usize) -> World {
	let a = MClass { names: names_row(&["A", "b/A1", "n/AN"]), doc: None,
		fields: vec![MField { desc: s("LB;"), names: names_row(&["f", "f1", "fN"]), doc: None }, MField { desc: s("[[LA;"), names: names_row(&["g", "g1", "gN"]), doc: None }],
		methods: vec![MMeth { desc: s("(LA;[LB;I)LB;"), names: names_row(&["m", "m1", "mN"]), doc: None, params: vec![] }, MMeth { desc: s("(LU;)V"), names: names_row(&["<init>", "<init>", "<init>"]), doc: None, params: vec![] }] };
	let b = MClass { names: names_row(&["B", "b/B1", "n/BN"]), doc: None, fields: vec![], methods: vec![MMeth { desc: s("()LA;"), names: names_row(&["get", "get1", "getN"]), doc: None, params: vec![] }] };
	let sub = MClass { names: names_row(&["S", "b/S1", "n/SN"]), doc: None, fields: vec![], methods: vec![] };
	let m = MMappings { ns: vec![s("official"), s("intermediary"), s("named")], doc: None, classes: vec![a, b, sub] };
	let col = |c: &str| -> S { let i = ["A", "B", "S"].iter().position(|x| *x == c).unwrap(); m.classes[i].names[from].clone().unwrap() };
	let d = |x: &str| -> S { let rf = Ref { m: &m, from, to, inh: &[] }; rf.desc(0, from, &s(x)).flatten().unwrap() };
	let nm = |row: &NamesRow| row[from].clone().unwrap();
	let (ca, cb, cs) = (col("A"), col("B"), col("S"));
	let a_ = &m.classes[0]; let b_ = &m.classes[1];
	let queries = vec![
		Q::Field(cs.clone(), (nm(&a_.fields[0].names), d("LB;"))), Q::FieldRef(cs.clone(), (nm(&a_.fields[1].names), d("[[LA;"))), Q::FieldFail(ca.clone(), (nm(&a_.fields[0].names), d("LB;"))),
		Q::Method(cs.clone(), (nm(&a_.methods[0].names), d("(LA;[LB;I)LB;"))), Q::MethodRefObj(ca.clone(), (nm(&a_.methods[0].names), d("(LA;[LB;I)LB;"))), Q::MethodRef(cs.clone(), (nm(&a_.methods[1].names), d("(LU;)V"))),
		Q::MethodFail(cb.clone(), (nm(&b_.methods[0].names), d("()LA;"))), Q::Method(cs.clone(), (nm(&b_.methods[0].names), d("()LA;"))),
		// the descriptor as stored (first namespace) is a different key unless from is the first namespace
		Q::Field(cs.clone(), (nm(&a_.fields[0].names), s("LB;"))), Q::Method(ca.clone(), (nm(&a_.methods[0].names), s("(LA;[LB;I)LB;"))),
		Q::Class(ca.clone()), Q::ClassFail(cb.clone()), Q::ClassAny({ let mut x = s("[[L"); x.extend(cs.clone()); x.push(';' as u32); x }),
		Q::Desc(0, d("[LB;")), Q::Desc(1, d("(LA;[LB;I)LB;")), Q::Desc(2, d("LA;")), Q::Desc(2, s("V")),
	];
	World { m, from, to, provs: vec![vec![(cs.clone(), vec![s("java/lang/Object"), ca.clone()]), (ca, vec![s("java/lang/Object")])]], queries, kind: "fixed", big: false }
}
/// two namespaces whose class names are a permutation of one another (A -> B, B -> C, C -> A), members named by a
/// rotation as well: injective in both directions, every name of one namespace is another class's name in the other
fn world_permutation(from: usize, to: usize) -> World {
	let mk = |x: &str, y: &str, fd: &str, fx: &str, fy: &str, md: &str, mx: &str, my: &str| MClass { names: names_row(&[x, y]), doc: None,
		fields: vec![MField { desc: s(fd), names: names_row(&[fx, fy]), doc: None }], methods: vec![MMeth { desc: s(md), names: names_row(&[mx, my]), doc: None, params: vec![] }] };
	let m = MMappings { ns: vec![s("official"), s("named")], doc: None, classes: vec![
		mk("A", "B", "LB;", "f", "g", "(LA;)LC;", "m", "n"), mk("B", "C", "[LC;", "g", "h", "(LB;LB;)V", "n", "m"), mk("C", "A", "LA;", "h", "f", "()[LA;", "m", "m")] };
	let rf = Ref { m: &m, from, to, inh: &[] };
	let mut queries = vec![];
	for c in &m.classes {
		let cn = c.names[from].clone().unwrap();
		for owner in [cn.clone(), s("Sub")] {
			for f in &c.fields { queries.push(Q::FieldRef(owner.clone(), (f.names[from].clone().unwrap(), rf.desc(0, from, &f.desc).flatten().unwrap()))); }
			for me in &c.methods { let k = (me.names[from].clone().unwrap(), rf.desc(0, from, &me.desc).flatten().unwrap()); queries.push(Q::MethodRefObj(owner.clone(), k.clone())); queries.push(Q::MethodFail(owner.clone(), k)); }
		}
		queries.push(Q::Class(cn.clone())); queries.push(Q::Desc(0, { let mut x = s("[L"); x.extend(cn); x.push(';' as u32); x }));
	}
	queries.push(Q::Desc(1, s("(LA;LB;)LC;")));
	let n = |x: &str| -> S { m.classes.iter().find(|c| c.names[0] == Some(s(x))).unwrap().names[from].clone().unwrap() };
	World { provs: vec![vec![(s("Sub"), vec![n("A"), n("C")]), (n("A"), vec![n("B")])]], m, from, to, queries, kind: "fixed", big: false }
}

/// A tower of `k` diamonds: T_i has the super types L_i and R_i (plus, sometimes, a shortcut further down), both have
/// T_{i+1}; the number of paths from T_0 doubles with every level, the number of classes is 3k + 1.  A key is declared
/// by the class at the very bottom, by one R_j only (everything below it is searched first, through L_j, and found
/// empty), by nobody, or by T_0 itself; sometimes the bottom closes a cycle back to the top.
fn world_tower(rng: &mut Rng, k: usize, cyclic: bool) -> World {
	let n = 2 + rng.below(2);
	let from = rng.below(n); let to = (from + 1 + rng.below(n - 1)) % n;
	let nm = |p: &str, i: usize| s(&format!("{p}{i}"));
	let bottom = nm("t", k);
	let j = rng.below(k);
	let row = |c: &S, tag: &str| -> NamesRow { (0..n).map(|ns| { let mut x = c.clone(); if ns > 0 { x.extend(s(&format!("_{tag}{ns}"))); } Some(x) }).collect() };
	let member = |name: &str, tag: &str| -> NamesRow { (0..n).map(|ns| Some(s(&format!("{name}{}", if ns > 0 { format!("_{tag}{ns}") } else { String::new() })))).collect() };
	// class rows: bottom (declares `deep`), R_j (declares `right`), T_0 (declares `top`), and L_0 without members
	let mk = |c: &S, fields: Vec<MField>, methods: Vec<MMeth>| MClass { names: row(c, "c"), doc: None, fields, methods };
	let t0 = nm("t", 0); let rj = nm("r", j); let l0 = nm("l", 0);
	let classes = vec![
		mk(&bottom, vec![MField { desc: s("I"), names: member("deep", "f"), doc: None }], vec![MMeth { desc: { let mut d = s("(L"); d.extend(t0.clone()); d.extend(s(";)V")); d }, names: member("deep", "m"), doc: None, params: vec![] }]),
		mk(&rj, vec![], vec![MMeth { desc: s("()I"), names: member("right", "m"), doc: None, params: vec![] }]),
		mk(&t0, vec![MField { desc: s("J"), names: member("top", "f"), doc: None }], vec![]),
		mk(&l0, vec![], vec![]),
	];
	let m = MMappings { ns: ["official", "intermediary", "named"][..n].iter().map(|x| s(x)).collect(), doc: None, classes };
	let rf = Ref { m: &m, from, to, inh: &[] };
	let inn = |c: &S| -> S { m.classes.iter().find(|r| r.names[0].as_ref() == Some(c)).map(|r| r.names[from].clone().unwrap()).unwrap_or_else(|| c.clone()) };
	let mut inh: Vec<(S, Vec<S>)> = vec![];
	for i in 0..k {
		let mut sup = vec![inn(&nm("l", i)), inn(&nm("r", i))];
		if rng.chance(1, 5) && i + 2 <= k { sup.insert(rng.below(3), inn(&nm("t", i + 2))); }
		inh.push((inn(&nm("t", i)), sup));
		inh.push((inn(&nm("l", i)), vec![inn(&nm("t", i + 1))]));
		inh.push((inn(&nm("r", i)), vec![inn(&nm("t", i + 1))]));
	}
	if cyclic { inh.push((inn(&bottom), vec![inn(&nm("t", rng.below(k)))])); }
	rng.shuffle(&mut inh);
	let key = |method: bool, ci: usize, mi: usize| -> Key { let c = &m.classes[ci]; if method { let x = &c.methods[mi]; (x.names[from].clone().unwrap(), rf.desc(0, from, &x.desc).flatten().unwrap()) } else { let x = &c.fields[mi]; (x.names[from].clone().unwrap(), rf.desc(0, from, &x.desc).flatten().unwrap()) } };
	let top = inn(&t0);
	let mut queries = vec![];
	for owner in [top.clone(), inn(&nm("l", k / 2)), inn(&nm("t", k - 1)), s("NotInTheTower")] {
		queries.push(Q::MethodFail(owner.clone(), key(true, 0, 0)));
		queries.push(Q::Field(owner.clone(), key(false, 0, 0)));
		queries.push(Q::MethodRefObj(owner.clone(), key(true, 1, 0)));
		queries.push(Q::FieldRef(owner.clone(), key(false, 2, 0)));
		queries.push(Q::Method(owner.clone(), (s("declaredNowhere"), s("()V"))));
		queries.push(Q::FieldFail(owner.clone(), (s("declaredNowhere"), s("I"))));
	}
	queries.push(Q::Class(top.clone())); queries.push(Q::Desc(1, key(true, 0, 0).1));
	World { m, from, to, provs: vec![inh], queries, kind: "towers", big: true }
}

/// deal the cases into `k` shards of about the same number of bytes (coqc's time is dominated by reading the terms)
fn balance(r: &mut Report, k: usize) {
	let mut idx: Vec<usize> = (0..r.cases.len()).collect();
	idx.sort_by_key(|&i| std::cmp::Reverse(r.cases[i].len()));
	let per = (r.cases.len() + k - 1) / k;
	let mut buckets: Vec<Vec<usize>> = vec![vec![]; k];
	let mut bytes = vec![0usize; k];
	for i in idx {
		let j = (0..k).filter(|&j| buckets[j].len() < per).min_by_key(|&j| bytes[j]).unwrap();
		buckets[j].push(i); bytes[j] += r.cases[i].len();
	}
	let old = std::mem::take(&mut r.cases);
	buckets.sort_by_key(|b| std::cmp::Reverse(b.len()));
	for b in buckets { for i in b { r.cases.push(old[i].clone()); } }
	r.shard_size = per.max(1);
}

pub fn run(ctx: &Ctx) -> anyhow::Result<Report> {
	let mut r = Report::new("C06", "C06.Run");
	r.shard_size = 300;
	let mut rng = Rng::new(ctx.seed);
	r.rule = "worlds = (mapping set with 2-4 namespaces and partial rows, from/to in all positions incl. from = to, one or two JarSuperProv providers: chains, diamonds, random DAGs, classes without rows, super types without entries) x up to ~60 queries (every member key under every name it carries in `from` against every class, near misses, class / array / descriptor queries). Streams: injective names; overlapping (every namespace draws its class and member names from the same pool, injectively per namespace: A -> B, B -> C, half with complete rows, >= 3 namespaces in half of them); colliding names (violates the round-trip hypotheses); cyclic (one or two extra edges: self loops, back edges, cycles behind a declaring class); towers of 2..64 diamonds (2^k paths) with keys declared at the bottom, in one right branch, at the top, nowhere, a quarter with a cycle from the bottom; malformed row descriptors (remapper_b must fail); generic mapmodel mappings; fixed worlds (unmapped owner; three namespaces in four from/to combinations; names that are a permutation of one another, both directions); map_desc through a hand-written table remapper with arbitrary class maps (judged on ALL strings by a reference scanner); traits: a hand-written ARemapper whose map_class_fail fails on some names, wrapped in ARemapperAsBRemapper, every default method of both traits and JarSuperProv::remap through it; a third of the worlds also through remapper_b(.., NoSuperClassProvider). A world is non-trivial when at least one member query was answered from a table; distinct by (mappings, from, to, providers).".into();

	run_any(&mut r, &world_f5())?;
	for (from, to) in [(1, 2), (2, 1), (1, 0), (0, 2)] { run_any(&mut r, &world_three_ns(from, to))?; }
	for (from, to) in [(0, 1), (1, 0)] { run_any(&mut r, &world_permutation(from, to))?; }
	run_any(&mut r, &world_repo_demo(false))?;
	cycle_probe(&mut r);
	// towers of diamonds: 2^k paths, 3k + 1 classes
	// smallest first, and a tower that takes seconds instead of microseconds is reported (with the tower) and ends the
	// stream: a search that walks every path again would otherwise keep the process busy for 2^64 steps
	let mut ks: Vec<(usize, bool)> = (0..(if ctx.thorough { 120 } else { 24 })).map(|i| (match i % 8 { 0 => 2, 1 => 9, 2 => 17, 3 => 19, 4 => 21, 5 => 33, 6 => 64, _ => 3 + rng.below(60) }, i % 3 == 2)).collect();
	ks.sort();
	let mut scales = true;
	for (k, cyclic) in ks {
		let w = world_tower(&mut rng, k, cyclic);
		r.count(&format!("tower_diamonds_{}", match k { 0..=9 => "2-9", 10..=31 => "10-31", _ => "32-64" }));
		let t0 = std::time::Instant::now();
		run_any(&mut r, &w)?;
		let dt = t0.elapsed();
		if dt.as_secs() >= 8 {
			let inh: Vec<(S, Vec<S>)> = w.provs.concat();
			let what = format!("the queries against a tower of {k} diamonds ({} classes, 2^{k} paths from the top) took {:.1} s: the search does not look at every class once", 3 * k + 1, dt.as_secs_f64());
			r.violation(what.clone(), replay_text(&w, &inh, &what));
			scales = false;
			break;
		}
	}
	if scales { run_any(&mut r, &world_repo_demo(true))?; }

	let nworlds = if ctx.thorough { 6000 } else { 500 };
	for i in 0..nworlds {
		let n = 2 + rng.below(3);
		let cfg = match i % 10 {
			0..=3 => WCfg { n, injective: true, malformed: false, overlap: false, cyclic: false, kind: "injective" },
			4 | 5 => WCfg { n: if i % 20 < 10 { n.max(3) } else { n }, injective: true, malformed: false, overlap: true, cyclic: false, kind: "overlapping" },
			6 | 7 => WCfg { n, injective: false, malformed: false, overlap: false, cyclic: false, kind: "colliding" },
			8 => WCfg { n, injective: true, malformed: false, overlap: i % 20 < 10, cyclic: true, kind: "cyclic" },
			_ => WCfg { n, injective: rng.chance(1, 2), malformed: true, overlap: false, cyclic: false, kind: "malformed-rows" } };
		let w = gen_world(&mut rng, &cfg);
		run_any(&mut r, &w)?;
	}
	// generic mappings of the shared generator (nested names, unicode, arbitrary member rows), no hierarchy
	for _ in 0..(if ctx.thorough { 600 } else { 80 }) {
		let n = 2 + rng.below(3);
		let mut cfg = GenCfg::new(n); cfg.docs = false;
		let m = gen_mappings(&mut rng, &cfg);
		let from = rng.below(n); let to = rng.below(n);
		let mut queries = vec![];
		let rf = Ref { m: &m, from, to, inh: &[] };
		for c in &m.classes {
			let cn = c.names[from].clone().unwrap_or_else(|| c.names[0].clone().unwrap());
			queries.push(Q::Class(cn.clone()));
			for f in &c.fields { let d = rf.desc(0, from, &f.desc).flatten().unwrap_or_else(|| f.desc.clone()); queries.push(Q::FieldRef(cn.clone(), (f.names[from].clone().unwrap_or_else(|| f.names[0].clone().unwrap()), d))); }
			for me in &c.methods { let d = rf.desc(0, from, &me.desc).flatten().unwrap_or_else(|| me.desc.clone()); queries.push(Q::MethodRef(cn.clone(), (me.names[from].clone().unwrap_or_else(|| me.names[0].clone().unwrap()), d.clone()))); queries.push(Q::Desc(1, d)); }
		}
		queries.truncate(60);
		run_any(&mut r, &World { m, from, to, provs: vec![vec![]], queries, kind: "generic", big: false })?;
	}
	// map_desc with arbitrary class maps (targets may be empty, contain `;` or `L`)
	let alpha = s("LL;;[()IVa/$");
	for i in 0..(if ctx.thorough { 20000 } else { 2000 }) {
		let mut keys: Vec<S> = ["a", "L", "La", "a/b", "LL", "A$B", "I", "Ü"].iter().map(|x| s(x)).collect();
		// JavaString holds unpaired surrogates: a lone high surrogate, a low surrogate before a letter, a non-BMP letter
		keys.push(vec![0xD83D]); keys.push(vec![0xDC00, 'a' as u32]); keys.push(vec![0x10400, 'L' as u32]);
		let mut tbl: Vec<(S, S)> = vec![];
		for _ in 0..rng.below(4) { tbl.push((rng.pick(&keys[..]).clone(), s(*rng.pick(&["b", "L", "x/y", "LL", "", ";", "a;L", "Lb;", "名"][..])))); }
		let d: S = if i % 2 == 0 {
			let mut d = if rng.chance(1, 2) { gen_mdesc(&mut rng, &keys) } else { gen_fdesc(&mut rng, &keys) };
			if rng.chance(1, 3) { let j = rng.below(d.len() + 1); if rng.chance(1, 2) && j < d.len() { d.remove(j); } else { d.insert(j, *rng.pick(&alpha[..])); } }
			d
		} else { (0..rng.below(9)).map(|_| *rng.pick(&alpha[..])).collect() };
		let rm = TableRemapper(tbl.clone());
		fbh::report::crumb(&format!("property C06\nwhat: the process died (abort / endless loop) inside map_desc\ndescriptor {}\nclass map {:?}\n", show(&d), tbl.iter().map(|(k, v)| (show(k), show(v))).collect::<Vec<_>>()));
		match eval_a(&rm, &Q::Desc((i % 3) as u8, d.clone())).unwrap() {
			Err(p) => r.violation(format!("map_desc({}) panicked: {p}", show(&d)), format!("property C06\nmap_desc panicked: {p}\ndescriptor {}\ntable {:?}\n", show(&d), tbl)),
			Ok(a) => {
				let Ans::RStr(res) = &a else { unreachable!() };
				r.eval(&format!("D{}|{:?}", gstr(&d), tbl), res.is_some() && d.contains(&('L' as u32)));
				r.count(if res.is_some() { "map_desc_ok" } else { "map_desc_err" });
				// oracle on ALL strings: the documented scanner (reference written over positions and slices)
				{
					let f = |n: &S| Some(tbl.iter().find(|(k, _)| k == n).map(|(_, v)| v.clone()).unwrap_or_else(|| n.clone()));
					let want = ref_scan(&d, &f);
					r.count("map_desc_all_strings_oracle");
					if *res != want { let what = format!("map_desc({}) = {:?}, the documented scanner (every `L` starts a name that ends at the next `;`, `L;` and a missing `;` are errors) gives {:?}", show(&d), res.as_ref().map(|x| show(x)), want.as_ref().map(|x| show(x))); r.violation(what.clone(), format!("property C06\n{what}\ntable {:?}\n", tbl)); }
				}
				// oracle: on descriptors of the grammar the rewrite is parse -> map -> print, for any class map
				if ref_desc_names(&d).is_some() {
					let f = |n: &S| tbl.iter().find(|(k, _)| k == n).map(|(_, v)| v.clone()).unwrap_or_else(|| n.clone());
					let want = ref_desc(&d, &f);
					if *res != want { let what = format!("map_desc({}) = {:?}, parse-map-print gives {:?}", show(&d), res.as_ref().map(|x| show(x)), want.as_ref().map(|x| show(x))); r.violation(what.clone(), format!("property C06\n{what}\ntable {:?}\n", tbl)); }
				}
				shape_law(&mut r, &rm, &Q::Desc((i % 3) as u8, d.clone()), "hand-written table remapper", &|what| format!("property C06\n{what}\ntable {:?}\n", tbl));
				r.case("map-desc", format!("CDesc {} {} {}", glist(tbl.iter().map(|(k, v)| gpair(gstr(k), gstr(v)))), gstr(&d), g_ans(&a)));
			}
		}
	}
	trait_stream(&mut r, &mut rng, if ctx.thorough { 3000 } else { 300 });
	balance(&mut r, if ctx.thorough { 64 } else { 16 });
	Ok(r)
}

/// What the real code does on a cyclic provider, in a child process: before "fix: cyclic inheritance information is
/// an error for the remapper" the recursion was unbounded and ended in a stack overflow that cannot be caught;
/// now the call returns Err (and a change that brings the recursion back kills only the child).
fn cycle_probe_child() -> ! {
	let m = MMappings { ns: vec![s("a"), s("b")], doc: None, classes: vec![MClass { names: names_row(&["A", "A_"]), doc: None, fields: vec![], methods: vec![] }] };
	let qm: Mappings<2, NsAny> = to_quill(&m).unwrap();
	let provs = build_provs(&[vec![(s("A"), vec![s("B")]), (s("B"), vec![s("A")])]]);
	let rb = qm.remapper_b(Namespace::new(0).unwrap(), Namespace::new(1).unwrap(), &provs).unwrap();
	let a = eval_b(&rb, &Q::Method(s("A"), (s("m"), s("()V"))));
	println!("returned {:?}", a.as_ref().map(show_ans));
	std::process::exit(0)
}
fn cycle_probe(r: &mut Report) {
	let Ok(exe) = std::env::current_exe() else { return };
	match std::process::Command::new(exe).env("C06_CYCLE_PROBE", "1").stdout(std::process::Stdio::piped()).stderr(std::process::Stdio::null()).output() {
		Ok(o) if o.status.success() => { r.count("cycle_probe_returned"); r.notes.push(format!("cyclic provider A -> B -> A, member declared nowhere: the call {}", String::from_utf8_lossy(&o.stdout).trim())); }
		Ok(o) => { r.count("cycle_probe_child_died"); r.notes.push(format!("cyclic provider A -> B -> A, member declared nowhere: child process ended with {} (unbounded recursion)", o.status));
			r.violation(format!("a query against a cyclic provider killed the process ({})", o.status), "property C06\nwhat: the process died on a cyclic provider\nmapping rows: class A | A_\nsuper types: A -> [B], B -> [A]\nquery: map_method(A, m ()V)\n".into()); }
		Err(_) => {}
	}
}

fn main() -> anyhow::Result<()> {
	if std::env::var_os("C06_CYCLE_PROBE").is_some() { cycle_probe_child(); }
	fbh::main_with(run)
}
