//! C08 — `Mappings::reorder`: the real code on generated mapping sets x every permutation of the
//! namespaces, an independent reference reorder, the identity / inverse / failure laws on the
//! implementation's own outputs, and the correspondence cases for the Coq model (C08/Run.v).
use fbh::gal::*;
use fbh::mapmodel::*;
use fbh::prng::Rng;
use fbh::report::{crumb, guarded, Report};
use fbh::Ctx;
use quill::remapper::ARemapper;
use quill::tree::mappings::Mappings;
use quill::tree::names::Namespace;
use std::collections::{HashMap, HashSet};
use std::panic::AssertUnwindSafe;

const L: u32 = 'L' as u32;
const SEMI: u32 = ';' as u32;

/// Err(panic message) | Ok(None) = the call returned Err | Ok(Some(result in IndexMap order))
type Outcome = Result<Option<MMappings>, String>;

fn ns_string(s: &S) -> String { s.iter().map(|&c| char::from_u32(c).unwrap_or('?')).collect() }

// ---------- the implementation ----------
fn impl_reorder_n<const N: usize>(m: &MMappings, names: &[S]) -> anyhow::Result<(Outcome, Vec<String>)> {
	let q: Mappings<N, NsAny> = to_quill(m)?;
	let strs: Vec<String> = names.iter().map(ns_string).collect();
	let refs: Vec<&str> = strs.iter().map(|s| s.as_str()).collect();
	let arr: [&str; N] = refs.try_into().map_err(|_| anyhow::anyhow!("{} names for N={N}", names.len()))?;
	let res = guarded(AssertUnwindSafe(|| q.reorder::<NsAny>(arr).ok()));
	let mut desync = vec![];
	let out = res.map(|o| o.map(|out| from_quill(&out, &mut desync)));
	Ok((out, desync))
}
/// `Mappings::<N, _>::reorder(names)` for N = number of namespaces of `m`
fn impl_reorder(m: &MMappings, names: &[S]) -> anyhow::Result<(Outcome, Vec<String>)> {
	match m.ns.len() {
		2 => impl_reorder_n::<2>(m, names),
		3 => impl_reorder_n::<3>(m, names),
		4 => impl_reorder_n::<4>(m, names),
		n => Err(anyhow::anyhow!("unsupported number of namespaces {n}")),
	}
}
fn impl_map_desc_n<const N: usize>(m: &MMappings, from: usize, to: usize, d: &S) -> anyhow::Result<Result<Option<S>, String>> {
	let q: Mappings<N, NsAny> = to_quill(m)?;
	let desc = field_desc(d);
	Ok(guarded(AssertUnwindSafe(|| {
		let re = q.remapper_a(Namespace::new(from).ok()?, Namespace::new(to).ok()?).ok()?;
		re.map_field_desc(&desc).ok().map(|x| cps(x.as_inner()))
	})))
}
fn impl_map_desc(m: &MMappings, from: usize, to: usize, d: &S) -> anyhow::Result<Result<Option<S>, String>> {
	match m.ns.len() {
		2 => impl_map_desc_n::<2>(m, from, to, d),
		3 => impl_map_desc_n::<3>(m, from, to, d),
		4 => impl_map_desc_n::<4>(m, from, to, d),
		n => Err(anyhow::anyhow!("unsupported number of namespaces {n}")),
	}
}

// ---------- the independent reference ----------
/// descriptor rewrite by index arithmetic; None = the descriptor has an `L` that is not followed
/// by a non-empty name and a semicolon
fn ref_map_desc(d: &[u32], map: &HashMap<S, S>) -> Option<S> {
	let mut out = vec![];
	let mut i = 0;
	while i < d.len() {
		let c = d[i];
		out.push(c);
		i += 1;
		if c == L {
			let j = d[i..].iter().position(|&x| x == SEMI)?;
			if j == 0 { return None; }
			let name = &d[i..i + j];
			match map.get(name) { Some(t) => out.extend(t), None => out.extend(name) }
			out.push(SEMI);
			i += j + 1;
		}
	}
	Some(out)
}
fn ref_desc_classes(d: &[u32]) -> Vec<S> {
	let mut out = vec![];
	let mut i = 0;
	while i < d.len() {
		let c = d[i];
		i += 1;
		if c == L {
			match d[i..].iter().position(|&x| x == SEMI) {
				Some(j) if j > 0 => { out.push(d[i..i + j].to_vec()); i += j + 1; }
				_ => return out,
			}
		}
	}
	out
}
fn ref_table(m: &MMappings, names: &[S]) -> Option<Vec<usize>> {
	names.iter().map(|n| m.ns.iter().position(|x| x == n)).collect()
}
fn prow(row: &NamesRow, table: &[usize]) -> NamesRow { table.iter().map(|&i| row[i].clone()).collect() }
/// What reorder has to return: None when a class/field/method has no name in the new first
/// namespace, when two entries of one level get the same key, or a descriptor is malformed.
fn ref_reorder(m: &MMappings, names: &[S]) -> Option<MMappings> {
	let table = ref_table(m, names)?;
	let t0 = *table.first()?;
	let mut cmap: HashMap<S, S> = HashMap::new();
	for c in &m.classes {
		if let (Some(a), Some(b)) = (&c.names[0], &c.names[t0]) { cmap.insert(a.clone(), b.clone()); }
	}
	let mut out = MMappings { ns: table.iter().map(|&i| m.ns[i].clone()).collect(), doc: m.doc.clone(), classes: vec![] };
	let mut ckeys = HashSet::new();
	for c in &m.classes {
		let mut nc = MClass { names: prow(&c.names, &table), doc: c.doc.clone(), fields: vec![], methods: vec![] };
		let mut fkeys = HashSet::new();
		for f in &c.fields {
			let nf = MField { desc: ref_map_desc(&f.desc, &cmap)?, names: prow(&f.names, &table), doc: f.doc.clone() };
			if !fkeys.insert((nf.names[0].clone()?, nf.desc.clone())) { return None; }
			nc.fields.push(nf);
		}
		let mut mkeys = HashSet::new();
		for me in &c.methods {
			let mut nm = MMeth { desc: ref_map_desc(&me.desc, &cmap)?, names: prow(&me.names, &table), doc: me.doc.clone(), params: vec![] };
			let mut pkeys = HashSet::new();
			for p in &me.params {
				if !pkeys.insert(p.index) { return None; }
				nm.params.push(MParam { index: p.index, names: prow(&p.names, &table), doc: p.doc.clone() });
			}
			if !mkeys.insert((nm.names[0].clone()?, nm.desc.clone())) { return None; }
			nc.methods.push(nm);
		}
		if !ckeys.insert(nc.names[0].clone()?) { return None; }
		out.classes.push(nc);
	}
	Some(out)
}

// ---------- hypotheses of the inverse law, evaluated by the harness ----------
fn all_descs(m: &MMappings) -> Vec<&S> {
	m.classes.iter().flat_map(|c| c.fields.iter().map(|f| &f.desc).chain(c.methods.iter().map(|me| &me.desc))).collect()
}
/// no class name occurring in a descriptor without being a key of `m` equals the t0-name of a class of `m`
fn no_collision(m: &MMappings, t0: usize) -> bool {
	let keys: HashSet<&S> = m.classes.iter().filter_map(|c| c.names[0].as_ref()).collect();
	let targets: HashSet<&S> = m.classes.iter().filter_map(|c| c.names[t0].as_ref()).collect();
	// a descriptor that does not scan mentions no class (as in the model: desc_classes d = [] then)
	let classes_of = |d: &S| if ref_map_desc(d, &HashMap::new()).is_some() { ref_desc_classes(d) } else { vec![] };
	all_descs(m).iter().all(|d| classes_of(d).iter().all(|x| keys.contains(x) || !targets.contains(x)))
}
/// two entries that get the same key in the new first namespace `t0`: two classes with the same name there, or two
/// fields (two methods) of one class with the same name there and the same rewritten descriptor (C08_reorder_collision_err)
fn key_collision(m: &MMappings, t0: usize) -> bool {
	let mut cmap: HashMap<S, S> = HashMap::new();
	for c in &m.classes { if let (Some(a), Some(b)) = (&c.names[0], &c.names[t0]) { cmap.insert(a.clone(), b.clone()); } }
	fn dup<K: std::hash::Hash + Eq>(keys: Vec<Option<K>>) -> bool { let mut s = HashSet::new(); keys.into_iter().flatten().any(|k| !s.insert(k)) }
	let key2 = |names: &NamesRow, desc: &S| match (&names[t0], ref_map_desc(desc, &cmap)) { (Some(n), Some(d)) => Some((n.clone(), d)), _ => None };
	dup(m.classes.iter().map(|c| c.names[t0].clone()).collect())
		|| m.classes.iter().any(|c| dup(c.fields.iter().map(|f| key2(&f.names, &f.desc)).collect()) || dup(c.methods.iter().map(|f| key2(&f.names, &f.desc)).collect()))
}
/// the model's `wf` (coq/Quill/Mappings.v), evaluated by the harness
fn wf(m: &MMappings) -> bool {
	let n = m.ns.len();
	let row_ok = |r: &NamesRow| r.len() == n && r.iter().all(|o| o.as_ref().map_or(true, |s| !s.is_empty()));
	fn uniq<K: std::hash::Hash + Eq>(keys: Vec<K>) -> bool { let mut s = HashSet::new(); keys.into_iter().all(|k| s.insert(k)) }
	n >= 2 && m.ns.iter().all(|s| !s.is_empty())
		&& m.classes.iter().all(|c| row_ok(&c.names) && c.names[0].is_some()
			&& c.fields.iter().all(|f| row_ok(&f.names) && f.names[0].is_some())
			&& uniq(c.fields.iter().map(|f| (f.names[0].clone(), f.desc.clone())).collect())
			&& c.methods.iter().all(|me| row_ok(&me.names) && me.names[0].is_some() && me.params.iter().all(|p| row_ok(&p.names)) && uniq(me.params.iter().map(|p| p.index).collect()))
			&& uniq(c.methods.iter().map(|me| (me.names[0].clone(), me.desc.clone())).collect()))
		&& uniq(m.classes.iter().map(|c| c.names[0].clone()).collect())
}
/// a correspondence case that ties the harness' evaluation of the theorems' hypotheses / failure causes to the Coq definitions
fn hyp_case(r: &mut Report, m: &MMappings, t0: usize, stream: &str) {
	r.case(stream, format!("CHyp {} {} {} {} {} {} {}", g_mappings(m), t0, gbool(wf(m)), gbool(no_collision(m, t0)), gbool(clean(m)), gbool(entry_without_name(m, t0)), gbool(key_collision(m, t0))));
}
fn clean(m: &MMappings) -> bool { m.classes.iter().all(|c| c.names.iter().flatten().all(|s| !s.contains(&SEMI))) }
fn entry_without_name(m: &MMappings, t0: usize) -> bool {
	m.classes.iter().any(|c| c.names[t0].is_none() || c.fields.iter().any(|f| f.names[t0].is_none()) || c.methods.iter().any(|me| me.names[t0].is_none()))
}
fn distinct_ns(m: &MMappings) -> bool { let s: HashSet<&S> = m.ns.iter().collect(); s.len() == m.ns.len() }

// ---------- printing ----------
fn show_row(r: &NamesRow) -> String { r.iter().map(|o| match o { Some(s) => show(s), None => "<none>".into() }).collect::<Vec<_>>().join("\t") }
fn show_mappings(m: &MMappings) -> String {
	let mut t = format!("tiny\t2\t0\t{}\n", m.ns.iter().map(|s| show(s)).collect::<Vec<_>>().join("\t"));
	if let Some(d) = &m.doc { t += &format!("(comment of the mapping set)\t{:?}\n", show(d)); }
	for c in &m.classes {
		t += &format!("c\t{}\n", show_row(&c.names));
		if let Some(d) = &c.doc { t += &format!("\tc\t{:?}\n", show(d)); }
		for f in &c.fields {
			t += &format!("\tf\t{}\t{}\n", show(&f.desc), show_row(&f.names));
			if let Some(d) = &f.doc { t += &format!("\t\tc\t{:?}\n", show(d)); }
		}
		for me in &c.methods {
			t += &format!("\tm\t{}\t{}\n", show(&me.desc), show_row(&me.names));
			if let Some(d) = &me.doc { t += &format!("\t\tc\t{:?}\n", show(d)); }
			for p in &me.params {
				t += &format!("\t\tp\t{}\t{}\n", p.index, show_row(&p.names));
				if let Some(d) = &p.doc { t += &format!("\t\t\tc\t{:?}\n", show(d)); }
			}
		}
	}
	t
}
fn show_outcome(o: &Outcome) -> String {
	match o { Err(p) => format!("PANIC {p}"), Ok(None) => "Err".into(), Ok(Some(m)) => format!("Ok\n{}", show_mappings(m)) }
}
fn g_names_list(names: &[S]) -> String { glist(names.iter().map(|s| gstr(s))) }
fn g_outcome(o: &Outcome) -> Option<String> {
	match o { Err(_) => None, Ok(x) => Some(gres(x.as_ref().map(g_mappings))) }
}
fn vio(r: &mut Report, what: String, m: &MMappings, names: &[S], extra: &str) {
	let text = format!("property C08\nwhat: {what}\ncall: mappings.reorder({:?})\nmappings (tiny-like, <none> = absent name):\n{}\n{extra}\nmappings (Gallina): {}\n",
		names.iter().map(|s| show(s)).collect::<Vec<_>>(), show_mappings(m), g_mappings(m));
	r.violation(what, text);
}

// ---------- permutations in the order of the Coq model's [perms] ----------
fn insert_all<T: Clone>(x: &T, l: &[T]) -> Vec<Vec<T>> {
	if l.is_empty() { return vec![vec![x.clone()]]; }
	let mut out = vec![];
	let mut first = vec![x.clone()]; first.extend_from_slice(l); out.push(first);
	for r in insert_all(x, &l[1..]) { let mut v = vec![l[0].clone()]; v.extend(r); out.push(v); }
	out
}
fn perms<T: Clone>(l: &[T]) -> Vec<Vec<T>> {
	if l.is_empty() { return vec![vec![]]; }
	perms(&l[1..]).iter().flat_map(|p| insert_all(&l[0], p)).collect()
}

// ---------- one call through implementation, reference and laws ----------
/// Returns the implementation's outcome.  `laws`: also check identity/inverse/failure laws.
fn through(r: &mut Report, m: &MMappings, names: &[S], stream: &str) -> anyhow::Result<Outcome> {
	crumb(&format!("property C08\nthe harness process died inside (or right after) this call\ncall: mappings.reorder({:?})\nmappings (tiny-like, <none> = absent name):\n{}\nmappings (Gallina): {}\n",
		names.iter().map(|s| show(s)).collect::<Vec<_>>(), show_mappings(m), g_mappings(m)));
	let (out, desync) = impl_reorder(m, names)?;
	let want = ref_reorder(m, names);
	let ok = matches!(out, Ok(Some(_)));
	r.eval(&format!("{}|{}", g_mappings(m), g_names_list(names)), ok && !m.classes.is_empty());
	r.count(&format!("{stream}:{}", match &out { Err(_) => "panic", Ok(None) => "Err", Ok(Some(_)) => "Ok" }));
	for d in &desync { vio(r, format!("result is mis-keyed: {d}"), m, names, ""); }
	match &out {
		Err(p) => vio(r, format!("reorder panicked: {p}"), m, names, ""),
		Ok(got) => {
			let same = match (got, &want) { (None, None) => true, (Some(a), Some(b)) => a.equiv(b), _ => false };
			if !same {
				let what = match (got, &want) {
					(Some(_), None) => "reorder returned Ok although a requested namespace does not exist / an entry has no name in the new first namespace / two entries get the same key / a descriptor is malformed",
					(None, Some(_)) => "reorder failed although every entry has a unique key in the new first namespace",
					_ => "reorder's result differs from the reference (rows permuted, descriptors re-expressed, comments and indices untouched)",
				};
				vio(r, what.into(), m, names, &format!("implementation: {}\nreference: {}", show_outcome(&out), show_outcome(&Ok(want.clone()))));
			}
			if let Some(table) = ref_table(m, names) {
				// failure law: an entry without a name in the new first namespace => Err
				if !table.is_empty() && entry_without_name(m, table[0]) {
					r.count(&format!("{stream}:entry-without-name"));
					if got.is_some() { vio(r, "an entry without a name in the new first namespace was not rejected".into(), m, names, &show_outcome(&out)); }
				}
				// collision law (C08_reorder_collision_err): two entries that get the same key in the new first namespace => Err
				if !table.is_empty() && key_collision(m, table[0]) {
					r.count(&format!("{stream}:key-collision"));
					if got.is_some() { vio(r, "two entries that get the same key in the new first namespace were not rejected (one of them was dropped or overwritten)".into(), m, names, &show_outcome(&out)); }
				}
				// the four causes (C08_reorder_err_iff): without any of them reorder must succeed
				if !table.is_empty() && wf(m) && !entry_without_name(m, table[0]) && !key_collision(m, table[0]) && all_descs(m).iter().all(|d| ref_map_desc(d, &HashMap::new()).is_some()) {
					r.count(&format!("{stream}:no-cause-of-failure"));
					if got.is_none() { vio(r, "reorder failed although every class, field and method has a name in the new first namespace, no two entries get the same key there and every descriptor is well-formed".into(), m, names, &show_outcome(&out)); }
				}
				if let Some(m2) = got {
					if m2.size() != m.size() { vio(r, "entries were dropped or added".into(), m, names, &show_outcome(&out)); }
					let is_perm = { let mut t = table.clone(); t.sort(); t == (0..m.ns.len()).collect::<Vec<_>>() };
					if is_perm && distinct_ns(m) {
						// identity law
						if table.iter().enumerate().all(|(i, &j)| i == j) && !m2.equiv(m) {
							vio(r, "reordering to the same namespace order changed the mappings".into(), m, names, &show_outcome(&out));
						}
						// inverse law: back to the original order
						// the implementation's own output is the input here: if it cannot even be rebuilt as a mapping tree
						// (an entry without a first name, a duplicate key) that is a finding about the output, not a harness error
						let (back, desync2) = match impl_reorder(m2, &m.ns) {
							Ok(x) => x,
							Err(e) => { vio(r, format!("the result of reorder is not a well-formed mapping set (it cannot be reordered back): {e}"), m, names, &show_outcome(&out)); return Ok(out); }
						};
						for d in &desync2 { vio(r, format!("result of the inverse reorder is mis-keyed: {d}"), m2, &m.ns, ""); }
						let back_same = matches!(&back, Ok(Some(b)) if b.equiv(m));
						let hyp = no_collision(m, table[0]) && clean(m);
						if hyp {
							r.count(&format!("{stream}:inverse-law-checked"));
							if !back_same { vio(r, "reordering by a permutation and then by its inverse does not give back the original".into(), m, names, &format!("after the first reorder: {}\nafter the inverse: {}", show_outcome(&out), show_outcome(&back))); }
						} else {
							r.count(&format!("{stream}:inverse-hypothesis-violated:{}", if back_same { "still-inverse" } else { "not-inverse" }));
						}
						// two-step law (the action law, C08_reorder_compose): reordering the RESULT to a further order Y is the
						// same (Ok up to insertion order, or Err) as reordering the original to Y directly.  All orders Y for
						// n <= 3, a quarter of the 24 for n = 4 (which quarter depends on the first order).
						if hyp {
							let salt: usize = table.iter().enumerate().map(|(i, &j)| (i + 1) * j).sum();
							let shown = |v: &[S]| v.iter().map(|s| show(s)).collect::<Vec<_>>();
							for (k, names2) in perms(&m.ns).into_iter().enumerate() {
								if m.ns.len() >= 4 && (k + salt) % 4 != 0 { continue; }
								let (two, _) = impl_reorder(m2, &names2)?;
								let (direct, _) = impl_reorder(m, &names2)?;
								let same2 = match (&two, &direct) { (Ok(None), Ok(None)) => true, (Ok(Some(x)), Ok(Some(y))) => x.equiv(y), _ => false };
								r.count(&format!("two-step-law:{}", match &direct { Ok(Some(_)) => "Ok", Ok(None) => "Err", Err(_) => "panic" }));
								r.evaluations += 1;
								if !same2 {
									vio(r, format!("reordering to {:?} and then to {:?} differs from reordering to {:?} directly", shown(names), shown(&names2), shown(&names2)),
										m, names, &format!("after the first reorder: {}\nthen reordered to the second order: {}\noriginal reordered to the second order directly: {}", show_outcome(&out), show_outcome(&two), show_outcome(&direct)));
								}
							}
						}
					}
				}
			}
		}
	}
	Ok(out)
}

// ---------- generators ----------
const UNMAPPED: [&str; 5] = ["java/lang/Object", "java/util/List", "ext/Lib$Inner", "LL", "ext/\u{dc}n"];
fn my_field_desc(rng: &mut Rng, mapped: &[S], extra: &[S]) -> S {
	let mut d = vec![];
	let dims = match rng.below(8) { 0 => 2, 1 | 2 => 1, _ => 0 };
	for _ in 0..dims { d.push('[' as u32); }
	if rng.chance(2, 5) { d.push(*rng.pick(&cps_str("BCDFIJSZ")[..])); return d; }
	d.push(L);
	let k = rng.below(10);
	if k < 5 && !mapped.is_empty() {
		let mut name = rng.pick(mapped).clone();
		// an inner class WITHOUT an entry of a class that has one (seed C08-b7: a lookup that falls back to the outer class's entry
		// invents a name for it); one and two levels deep, anonymous and named, non-ASCII
		if rng.chance(1, 4) {
			let mut inner = name.clone();
			inner.extend(cps_str(*rng.pick(&["$1", "$Un", "$\u{3a9}x", "$1$Deep", "$Un$2"][..])));
			if !mapped.contains(&inner) { name = inner; }
		}
		d.extend(name);
	}
	else if k < 7 && !extra.is_empty() { d.extend(rng.pick(extra).clone()); }
	else { d.extend(cps_str(*rng.pick(&UNMAPPED[..]))); }
	d.push(SEMI);
	d
}
fn my_method_desc(rng: &mut Rng, mapped: &[S], extra: &[S]) -> S {
	let mut d = vec!['(' as u32];
	for _ in 0..rng.below(4) { d.extend(my_field_desc(rng, mapped, extra)); }
	d.push(')' as u32);
	if rng.chance(1, 3) { d.push('V' as u32); } else { d.extend(my_field_desc(rng, mapped, extra)); }
	d
}
fn suffix(s: &mut S, k: usize) { s.extend(cps_str(&format!("_{k}"))); }

/// A mapping set on which every permutation succeeds: every class/field/method row is full,
/// names are unique per level in every column; descriptors mention mapped classes, unmapped
/// classes and arrays of both.  Parameters keep holes (also in the first namespace).
fn gen_full(rng: &mut Rng, n: usize, small: bool) -> MMappings {
	let mut cfg = GenCfg::new(n);
	cfg.absent_12 = 0;
	if small { cfg.max_classes = 4; cfg.max_members = 3; cfg.max_params = 2; }
	let mut m = gen_mappings(rng, &cfg);
	// the comment of the mapping set itself ("comments … untouched" at the top level): the shared generator never sets it
	if rng.chance(1, 3) {
		const TOP: [&str; 6] = ["the mappings' own comment", "two\nlines", "  leading", "# hash", "\u{fc}n\u{ef}\u{1F600}", "x"];
		m.doc = Some(cps_str(*rng.pick(&TOP[..])));
	}
	let srcs: Vec<S> = m.classes.iter().map(|c| c.names[0].clone().unwrap()).collect();
	// unique class names per column
	for col in 1..n {
		let mut seen: HashSet<S> = HashSet::new();
		for (i, c) in m.classes.iter_mut().enumerate() {
			let s = c.names[col].as_mut().unwrap();
			if !seen.insert(s.clone()) { suffix(s, i); seen.insert(s.clone()); }
		}
	}
	for c in &mut m.classes {
		// descriptors with more variety
		let mut keys: HashSet<(S, S)> = c.fields.iter().map(|f| (f.names[0].clone().unwrap(), f.desc.clone())).collect();
		for f in &mut c.fields {
			if rng.chance(1, 2) {
				let d = my_field_desc(rng, &srcs, &[]);
				let k = (f.names[0].clone().unwrap(), d.clone());
				if !keys.contains(&k) { keys.insert(k); f.desc = d; }
			}
		}
		let mut keys: HashSet<(S, S)> = c.methods.iter().map(|f| (f.names[0].clone().unwrap(), f.desc.clone())).collect();
		for me in &mut c.methods {
			if rng.chance(1, 2) {
				let d = my_method_desc(rng, &srcs, &[]);
				let k = (me.names[0].clone().unwrap(), d.clone());
				if !keys.contains(&k) { keys.insert(k); me.desc = d; }
			}
			for p in &mut me.params { for col in 0..n { if rng.chance(1, 3) { p.names[col] = None; } } }
		}
		// unique member names per column
		for col in 1..n {
			let mut seen: HashSet<S> = HashSet::new();
			for (i, f) in c.fields.iter_mut().enumerate() { let s = f.names[col].as_mut().unwrap(); if !seen.insert(s.clone()) { suffix(s, i); seen.insert(s.clone()); } }
			let mut seen: HashSet<S> = HashSet::new();
			for (i, f) in c.methods.iter_mut().enumerate() { let s = f.names[col].as_mut().unwrap(); if !seen.insert(s.clone()) { suffix(s, i); seen.insert(s.clone()); } }
		}
	}
	m
}
/// holes in class/field/method rows (columns >= 1) with probability 1/den each
fn punch(rng: &mut Rng, m: &mut MMappings, den: usize) {
	let n = m.ns.len();
	for c in &mut m.classes {
		for col in 1..n { if rng.chance(1, den) { c.names[col] = None; } }
		for f in &mut c.fields { for col in 1..n { if rng.chance(1, den) { f.names[col] = None; } } }
		for me in &mut c.methods { for col in 1..n { if rng.chance(1, den) { me.names[col] = None; } } }
	}
}
fn ensure_member(rng: &mut Rng, m: &mut MMappings) {
	// at least one class with one field and one method
	let n = m.ns.len();
	if m.classes.is_empty() {
		m.classes.push(MClass { names: (0..n).map(|i| Some(cps_str(&format!("gen/K{i}")))).collect(), doc: None, fields: vec![], methods: vec![] });
	}
	let srcs: Vec<S> = m.classes.iter().map(|c| c.names[0].clone().unwrap()).collect();
	let c = &mut m.classes[0];
	if c.fields.is_empty() { c.fields.push(MField { desc: my_field_desc(rng, &srcs, &[]), names: (0..n).map(|i| Some(cps_str(&format!("fld{i}")))).collect(), doc: None }); }
	if c.methods.is_empty() { c.methods.push(MMeth { desc: my_method_desc(rng, &srcs, &[]), names: (0..n).map(|i| Some(cps_str(&format!("mth{i}")))).collect(), doc: None, params: vec![] }); }
}

/// every permutation of the namespaces of `m`: implementation, reference, laws, one CPerms case
fn all_perms(r: &mut Report, m: &MMappings, stream: &str) -> anyhow::Result<()> {
	let mut outs = vec![];
	for names in perms(&m.ns) {
		let out = through(r, m, &names, stream)?;
		match g_outcome(&out) { Some(g) => outs.push(g), None => return Ok(()) }
	}
	r.case(stream, format!("CPerms {} {}", g_mappings(m), glist(outs)));
	if m.classes.len() <= 3 { hyp_case(r, m, m.ns.len() - 1, "hypotheses"); }
	Ok(())
}
fn one_out(r: &mut Report, m: &MMappings, names: &[S], stream: &str) -> anyhow::Result<Outcome> {
	let out = through(r, m, names, stream)?;
	if let Some(g) = g_outcome(&out) { r.case(stream, format!("CReorder {} {} {}", g_mappings(m), g_names_list(names), g)); }
	if let Some(t) = ref_table(m, names) { if !t.is_empty() { hyp_case(r, m, t[0], "hypotheses"); } }
	Ok(out)
}
fn one(r: &mut Report, m: &MMappings, names: &[S], stream: &str) -> anyhow::Result<()> { one_out(r, m, names, stream).map(|_| ()) }
fn names_with_first(rng: &mut Rng, m: &MMappings, col: usize) -> Vec<S> {
	let mut idx: Vec<usize> = (0..m.ns.len()).filter(|&i| i != col).collect();
	rng.shuffle(&mut idx);
	let mut v = vec![m.ns[col].clone()];
	v.extend(idx.into_iter().map(|i| m.ns[i].clone()));
	v
}

pub fn run(ctx: &Ctx) -> anyhow::Result<Report> {
	let mut r = Report::new("C08", "C08.Run");
	let mut rng = Rng::new(ctx.seed);
	let t = ctx.thorough;
	r.rule = "mapping sets with n = 2, 3, 4 namespaces from mapmodel::gen_mappings (classes with $-nesting and packages, fields, methods, parameters with holes, comments at every level including the mapping set's own comment (probability 1/3, set here: the shared generator leaves it None), unicode) post-processed so that every row is full and names are unique per level and column ('full'), or with random holes ('partial'); descriptors mention mapped classes, unmapped classes and arrays of both; for each set EVERY permutation of its namespaces is reordered (the Coq model enumerates the n! permutations itself, CPerms). Further streams: an entry without a name in the future first namespace (must fail), duplicate names in the future first namespace (duplicate key => Err), an unmapped descriptor class equal to a target name (collision: hypothesis of the inverse law violated), a class name containing ';', malformed descriptors, non-permutation / unknown / duplicate namespace arrays, requested names that differ from a namespace only by letter case or a blank (must fail), sets with two namespaces that differ only that way (every order must behave as usual), remapper_a(from,to).map_field_desc on valid and malformed descriptors, the repository's fixture. Oracle on the implementation: independent reference reorder (equal up to order), identity law, inverse law on the implementation's own output (when no_collision and clean hold), two-step law on the implementation's own output (reordering the result to a further order Y = reordering the original to Y directly, Ok up to order or Err; every Y for n <= 3, six of the 24 for n = 4; same hypotheses), failure law, collision law (two entries that get the same key in the new first namespace => Err) and its converse (none of the four causes of C08_reorder_err_iff => Ok), key/info sync of the result, entry count. The harness' evaluation of wf / no_collision / class_names_clean / entry_without_name / key_collision is itself compared with the Coq definitions (CHyp cases) on every input of the special streams and on the small sets of the permutation streams. One evaluation = one (mapping set, namespace array); non-trivial = at least one class and the result is Ok; distinct by the printed input.".into();

	// 0. the repository's fixture (VERIF_REPO, default /repo); a missing or renamed fixture is a note, not a verdict
	{
		let repo = std::env::var("VERIF_REPO").unwrap_or_else(|_| "/repo".into());
		let (pi, po) = (format!("{repo}/quill/tests/reorder_input.tiny"), format!("{repo}/quill/tests/reorder_output.tiny"));
		let parsed = (|| -> anyhow::Result<(MMappings, MMappings)> {
			let (input, expected) = (std::fs::read(&pi)?, std::fs::read(&po)?);
			let mut d = vec![];
			Ok((from_quill(&quill::tiny_v2::read::<2, NsAny>(&input[..])?, &mut d), from_quill(&quill::tiny_v2::read::<2, NsAny>(&expected[..])?, &mut d)))
		})();
		match parsed {
			Ok((m, e)) => {
				r.count("fixture:used");
				all_perms(&mut r, &m, "fixture")?;
				let out = one_out(&mut r, &m, &e.ns, "fixture")?;
				if !matches!(&out, Ok(Some(x)) if x.equiv(&e)) { vio(&mut r, "the repository's fixture no longer reorders to reorder_output.tiny".into(), &m, &e.ns, &show_outcome(&out)); }
			}
			Err(e) => { r.count("fixture:not available"); r.notes.push(format!("the repository's fixture {pi} / {po} was not used (missing, renamed or unreadable: {e}); the generated streams do not depend on it")); }
		}
	}

	// 1. every permutation of generated sets
	for (n, full, partial) in [(2usize, if t { 700 } else { 70 }, if t { 300 } else { 30 }), (3, if t { 400 } else { 36 }, if t { 200 } else { 18 }), (4, if t { 160 } else { 14 }, if t { 80 } else { 7 })] {
		for i in 0..(full + partial) {
			let mut m = gen_full(&mut rng, n, n == 4);
			let stream = if i < full { format!("perms{n}-full") } else { punch(&mut rng, &mut m, 10); format!("perms{n}-partial") };
			r.count(if m.doc.is_some() { "top-level comment:Some" } else { "top-level comment:None" });
			r.count(&format!("size:{}", match m.size() { 0 => "0", 1..=5 => "1-5", 6..=15 => "6-15", _ => "16+" }));
			if m.classes.iter().any(|c| c.names.iter().any(|o| o.is_none())) { r.count(&format!("perms{n}:some CLASS lacks a name in a namespace")); }
			if m.classes.iter().any(|c| c.fields.iter().any(|f| f.names.iter().any(|o| o.is_none())) || c.methods.iter().any(|f| f.names.iter().any(|o| o.is_none()))) { r.count(&format!("perms{n}:some field/method lacks a name in a namespace")); }
			all_perms(&mut r, &m, &stream)?;
		}
	}

	// 2. an entry without a name in the future first namespace
	for i in 0..(if t { 600 } else { 60 }) {
		let n = 2 + i % 3;
		let mut m = gen_full(&mut rng, n, true);
		ensure_member(&mut rng, &mut m);
		let col = rng.range(1, n - 1);
		let ci = rng.below(m.classes.len());
		let kind = i % 4;
		let c = &mut m.classes[ci];
		match kind {
			0 => c.names[col] = None,
			1 if !c.fields.is_empty() => { let k = rng.below(c.fields.len()); c.fields[k].names[col] = None; }
			2 if !c.methods.is_empty() => { let k = rng.below(c.methods.len()); c.methods[k].names[col] = None; }
			3 if c.methods.iter().any(|me| !me.params.is_empty()) => {
				// a parameter without a name: legitimately survives
				for me in &mut c.methods { for p in &mut me.params { p.names[col] = None; } }
			}
			_ => c.names[col] = None,
		}
		r.count(&format!("absent:kind{kind}"));
		let names = names_with_first(&mut rng, &m, col);
		one(&mut r, &m, &names, "absent-in-new-first")?;
		if n > 2 { let other = (1..n).find(|&j| j != col).unwrap(); let names = names_with_first(&mut rng, &m, other); one(&mut r, &m, &names, "absent-elsewhere")?; }
	}

	// 3. duplicate names in the future first namespace
	for i in 0..(if t { 600 } else { 60 }) {
		let n = 2 + i % 3;
		let mut m = gen_full(&mut rng, n, true);
		ensure_member(&mut rng, &mut m);
		let col = rng.range(1, n - 1);
		let srcs: Vec<S> = m.classes.iter().map(|c| c.names[0].clone().unwrap()).collect();
		let kind = i % 5;
		match kind {
			0 => {
				// two classes with the same name in `col`
				if m.classes.len() < 2 { let mut c = m.classes[0].clone(); c.names[0] = Some(cps_str("gen/Twin")); m.classes.push(c); }
				else { let a = m.classes[0].names[col].clone(); let k = rng.range(1, m.classes.len() - 1); m.classes[k].names[col] = a; }
			}
			1 | 2 => {
				// two fields: same name in `col`, same descriptor (kind 1: duplicate key) or different descriptors (kind 2: no duplicate)
				let c = &mut m.classes[0];
				let mut f = c.fields[0].clone();
				f.names[0] = Some(cps_str("twin0"));
				for j in 1..n { if j != col { f.names[j] = Some(cps_str(&format!("twin{j}"))); } }
				if kind == 2 { f.desc = { let mut d = vec!['[' as u32]; d.extend(f.desc.clone()); d }; }
				c.fields.push(f);
			}
			3 => {
				let c = &mut m.classes[0];
				let mut f = c.methods[0].clone();
				f.names[0] = Some(cps_str("twin0"));
				for j in 1..n { if j != col { f.names[j] = Some(cps_str(&format!("twin{j}"))); } }
				c.methods.push(f);
			}
			_ => {
				// descriptors that differ in the first namespace but coincide after the rewrite:
				// LA; and L<target of A>; with the same name in `col`
				let tgt = m.classes[0].names[col].clone().unwrap();
				if !srcs.contains(&tgt) {
					let mk = |name: &S, tag: &str| { let mut d = vec![L]; d.extend(name.clone()); d.push(SEMI); MField { desc: d, names: (0..n).map(|j| Some(cps_str(&if j == col { "same".to_string() } else { format!("{tag}{j}") }))).collect(), doc: None } };
					let (a, b) = (mk(&srcs[0], "u"), mk(&tgt, "v"));
					let c = &mut m.classes[0]; c.fields.push(a); c.fields.push(b);
				}
			}
		}
		r.count(&format!("dup:kind{kind}"));
		let names = names_with_first(&mut rng, &m, col);
		one(&mut r, &m, &names, "dup-in-new-first")?;
		if n > 2 { let other = (1..n).find(|&j| j != col).unwrap(); let names = names_with_first(&mut rng, &m, other); one(&mut r, &m, &names, "dup-elsewhere")?; }
	}

	// 4. collision: an unmapped descriptor class equals the target name of a mapped class
	for i in 0..(if t { 400 } else { 60 }) {
		let n = 2 + i % 3;
		let mut m = gen_full(&mut rng, n, true);
		ensure_member(&mut rng, &mut m);
		let col = rng.range(1, n - 1);
		let srcs: Vec<S> = m.classes.iter().map(|c| c.names[0].clone().unwrap()).collect();
		let k = rng.below(m.classes.len());
		let tgt = m.classes[k].names[col].clone().unwrap();
		if srcs.contains(&tgt) { continue; }
		let d = if i % 2 == 0 { let mut d = vec![L]; d.extend(tgt.clone()); d.push(SEMI); d } else { let mut d = cps_str("([L"); d.extend(tgt.clone()); d.extend(cps_str(";I)V")); d };
		let ci = rng.below(m.classes.len());
		if i % 2 == 0 { m.classes[ci].fields.push(MField { desc: d, names: (0..n).map(|j| Some(cps_str(&format!("coll{j}")))).collect(), doc: None }); }
		else { m.classes[ci].methods.push(MMeth { desc: d, names: (0..n).map(|j| Some(cps_str(&format!("coll{j}")))).collect(), doc: None, params: vec![] }); }
		let names = names_with_first(&mut rng, &m, col);
		one(&mut r, &m, &names, "collision")?;
	}
	// 4b. a class name containing ';' in the future first namespace
	for i in 0..(if t { 100 } else { 20 }) {
		let n = 2 + i % 3;
		let mut m = gen_full(&mut rng, n, true);
		ensure_member(&mut rng, &mut m);
		let col = rng.range(1, n - 1);
		let mut nm = cps_str("semi;colon"); suffix(&mut nm, i);
		m.classes[0].names[col] = Some(nm);
		let src = m.classes[0].names[0].clone().unwrap();
		let mut d = vec![L]; d.extend(src); d.push(SEMI);
		m.classes[0].fields.push(MField { desc: d, names: (0..n).map(|j| Some(cps_str(&format!("sc{j}")))).collect(), doc: None });
		let names = names_with_first(&mut rng, &m, col);
		one(&mut r, &m, &names, "semicolon-in-class-name")?;
	}

	// 5. malformed descriptors inside the mapping set
	const BAD: [&str; 10] = ["L", "L;", "LA", "[L;", "(L;)V", "(LA)V", "LA;L", "()L", "LA;[L;", "(LA;LB)V"];
	for i in 0..(if t { 200 } else { 40 }) {
		let n = 2 + i % 3;
		let mut m = gen_full(&mut rng, n, true);
		ensure_member(&mut rng, &mut m);
		let d = cps_str(*rng.pick(&BAD[..]));
		if i % 2 == 0 { m.classes[0].fields[0].desc = d; } else { m.classes[0].methods[0].desc = d; }
		let names = if rng.chance(1, 2) { m.ns.clone() } else { names_with_first(&mut rng, &m, n - 1) };
		one(&mut r, &m, &names, "malformed-descriptor")?;
	}

	// 6. namespace arrays that are not permutations; duplicate namespace names in the set
	for i in 0..(if t { 300 } else { 60 }) {
		let n = 2 + i % 3;
		let mut m = gen_full(&mut rng, n, true);
		if i % 3 == 2 { punch(&mut rng, &mut m, 8); }
		let mut names = m.ns.clone();
		rng.shuffle(&mut names);
		// a name that a normalising comparison (case folding, trimming) would take for `s`, but is not `s`
		let near = |rng: &mut Rng, s: &S| -> S {
			let mut t = s.clone();
			match rng.below(5) {
				0 => { if let Some(c) = t.first_mut() { *c ^= 0x20; } }
				1 => { for c in t.iter_mut() { if (0x61..=0x7a).contains(c) { *c -= 0x20; } } }
				2 => t.push(' ' as u32),
				3 => t.insert(0, ' ' as u32),
				_ => { if let Some(c) = t.last_mut() { *c ^= 0x20; } }
			}
			if t == *s { t.push('_' as u32); }
			t
		};
		match i % 6 {
			0 => { let a = rng.below(n); let b = (a + 1 + rng.below(n - 1)) % n; names[a] = names[b].clone(); }
			1 => { let a = rng.below(n); names[a] = cps_str("nonexistent"); }
			2 => { let a = rng.below(n); let b = (a + 1 + rng.below(n - 1)) % n; m.ns[a] = m.ns[b].clone(); }
			3 => { for x in names.iter_mut() { *x = m.ns[n - 1].clone(); } }
			// a requested name that differs from a namespace of the set only by letter case / a blank: unknown, must fail
			4 => { let a = rng.below(n); names[a] = near(&mut rng, &names[a].clone()); }
			// two namespaces of the set that differ only by letter case / a blank: distinct names, an ordinary permutation
			_ => {
				let a = rng.below(n); let b = (a + 1 + rng.below(n - 1)) % n;
				let v = near(&mut rng, &m.ns[a].clone());
				if !m.ns.contains(&v) { m.ns[b] = v; }
				r.count(&format!("names:kind{}", i % 6));
				all_perms(&mut r, &m, "near-equal-namespaces")?;
				continue;
			}
		}
		r.count(&format!("names:kind{}", i % 6));
		one(&mut r, &m, &names, "non-permutation")?;
	}

	// 6b. `Namespace::<N>::new(id)` (the table entries of reorder are such values): Ok exactly for id < N
	for n in 2..=4usize {
		for id in 0..=n + 1 {
			let ok = match n { 2 => Namespace::<2>::new(id).is_ok(), 3 => Namespace::<3>::new(id).is_ok(), _ => Namespace::<4>::new(id).is_ok() };
			r.evaluations += 1;
			r.count(&format!("Namespace::new:{}", if ok { "Ok" } else { "Err" }));
			if ok != (id < n) { r.violation(format!("Namespace::<{n}>::new({id}) is {}", if ok { "Ok" } else { "Err" }), format!("property C08\nwhat: Namespace::<{n}>::new({id}).is_ok() = {ok}, expected {}\n", id < n)); }
		}
	}

	// 7. remapper_a(from, to).map_field_desc
	const ODD: [&str; 16] = ["", "I", "[[I", "LA;", "LL;", "LLL;;", "L;", "L", "LA", "LA;;", "[LA;LB;", "(LA;[[LB;I)LA$B;", "La;b;", "ILI;", "LI;L", "L\u{dc};"];
	for i in 0..(if t { 3000 } else { 300 }) {
		let n = 2 + i % 3;
		let mut m = gen_full(&mut rng, n, true);
		if i % 2 == 1 { punch(&mut rng, &mut m, 4); }
		let srcs: Vec<S> = m.classes.iter().map(|c| c.names[0].clone().unwrap()).collect();
		let (from, to) = (rng.below(n), rng.below(n));
		let froms: Vec<S> = m.classes.iter().filter_map(|c| c.names[from].clone()).collect();
		let d = match rng.below(4) { 0 => cps_str(*rng.pick(&ODD[..])), 1 => my_method_desc(&mut rng, &froms, &srcs), _ => my_field_desc(&mut rng, &froms, &srcs) };
		match impl_map_desc(&m, from, to, &d)? {
			Err(p) => vio(&mut r, format!("remapper_a({from},{to}).map_field_desc({:?}) panicked: {p}", show(&d)), &m, &[], ""),
			Ok(got) => {
				let mut cmap = HashMap::new();
				for c in &m.classes { if let (Some(a), Some(b)) = (&c.names[from], &c.names[to]) { cmap.insert(a.clone(), b.clone()); } }
				let want = ref_map_desc(&d, &cmap);
				r.eval(&format!("{}|{from}|{to}|{}", g_mappings(&m), gstr(&d)), got.is_some() && d.contains(&L));
				r.count(&format!("mapdesc:{}", if got.is_some() { "Ok" } else { "Err" }));
				if got != want { vio(&mut r, format!("remapper_a({from},{to}).map_field_desc({:?}) = {:?}, reference {:?}", show(&d), got.as_ref().map(|s| show(s)), want.as_ref().map(|s| show(s))), &m, &[], ""); }
				r.case("map-desc", format!("CMapDesc {} {from} {to} {} {}", g_mappings(&m), gstr(&d), gres(got.as_ref().map(|s| gstr(s)))));
			}
		}
	}
	// spread the heavy CPerms cases over all shards
	{
		let n = r.cases.len();
		let shards = if t { 96usize } else { 32 };
		let mut mixed = Vec::with_capacity(n);
		for j in 0..shards { let mut i = j; while i < n { mixed.push(std::mem::take(&mut r.cases[i])); i += shards; } }
		r.cases = mixed;
		r.shard_size = (n + shards - 1) / shards;
	}
	r.exhaustive = false;
	r.notes.push("exhaustive in the permutation dimension only: all n! namespace orders of every generated set (n = 2, 3, 4); the sets themselves are sampled".into());
	Ok(r)
}

fn main() -> anyhow::Result<()> { fbh::main_with(run) }
